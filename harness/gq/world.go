package gq

import (
	"encoding/json"
	"fmt"
	"reflect"
	"sort"
	"strconv"
	"strings"
	"sync"

	"github.com/uhn/ggql/pkg/ggql"

	"verifharness/gq/refluni"
)

// Strategy names the resolver strategy realising the data graph.
type Strategy string

const (
	Iface Strategy = "iface" // every node implements ggql.Resolver
	Any   Strategy = "any"   // untyped nodes behind Root.AnyResolver
	Refl  Strategy = "refl"  // Go structs and methods found by reflection (fixed universe U-exec only)
	Mixed Strategy = "mixed" // per node: Resolver object or plain data (root resolver if installed, else reflection)
)

// Binding selects how Go types are bound to GraphQL object types for the reflection strategy.
type Binding int

const (
	BindByName    Binding = iota // Go type name equals the GraphQL type name
	BindRegister                 // Root.RegisterType
	BindGoDir                    // @go(type: "pkg.Type") directive in the schema
	BindGoDirBare                // @go(type: "Type")
	BindGoDirFull                // @go(type: "full/import/path.Type")
	// Go type names that differ from the GraphQL names, bound by Root.RegisterType only AFTER requests have
	// met the objects unbound (under object, interface and union typed fields): once a type is registered its
	// objects are resolved as their concrete type, whatever earlier requests saw
	BindRegisterLate
	NumBindings
)

// ListMode selects the Go shape handed to ggql for list values (the branches of resolveList).
type ListMode int

const (
	ListIfaceSlice ListMode = iota // []interface{}
	ListResolver                   // ggql.ListResolver
	ListTyped                      // typed slice where the element type allows, else []interface{}
	listModes
)

// World is one realisation of a universe on a real ggql Root.
type World struct {
	U        *Universe
	Root     *ggql.Root
	Strategy Strategy
	ListMode ListMode
	Binding  Binding
	Mix      *MixSpec
	faults   map[string]bool
	panicAt  string // "node.field": that resolver call panics (a fault of the application, recovered by the caller)
	mu       sync.Mutex
	calls    []Call
	nodes    map[string]interface{}
	// NilForm: how an absent node (null where an object, interface or union is declared) is handed over:
	// 0 nothing at all (nil), 1 a nil pointer of the node's Go type, 2 a nil map (where the strategy has nodes that are maps)
	NilForm int
	// WrapNode: a node (resolver strategy) handed out as a struct VALUE whose only field is a nil pointer; it is an
	// object like any other, not a null
	WrapNode string
	// KeepLists: the application keeps the list values it hands out (a struct field, a cache): the same Go slice
	// answers a field every time it is asked
	KeepLists bool
	kept      map[string]interface{}
	// the argument maps the resolvers of the current request were given, and what they held then
	keptArgs     []keptArgs
	argsTampered string
	// LendQuery: the application is able to serve a mutation root although the universe's schema has none (the query
	// root's node stands in): what keeps mutations from being executed is then the schema alone
	LendQuery bool
	onResolve func(id, field string)
	// Strange: this node is handed out as a value of a Go type no GraphQL type is bound to (reflection strategy)
	Strange string
	// MapNodes: the Resolver objects are values of named map types (one per object type), registered with RegisterType
	MapNodes bool
}

// OfferMutation loads a document that defines a type Mutation and is refused by validation.
func (w *World) OfferMutation() error {
	w.LendQuery = true
	for _, tail := range []string{"type Bad9 { __x: Int }", "type Bad9 implements Nope9 { x: Int }"} {
		if err := w.Root.ParseString("type Mutation { title: String a: A }\n" + tail); err == nil {
			return fmt.Errorf("a document that must be refused was accepted: type Mutation ... %s", tail)
		}
	}
	return nil
}

func (w *World) rootNode(field string) (string, bool) {
	if w.faults["$root."+field] { // the application refuses to hand out this operation root (the caller returns an error)
		return "", false
	}
	if r, ok := w.U.Roots[field]; ok {
		return r, true
	}
	if w.LendQuery && field == "mutation" {
		return w.U.Roots["query"], true
	}
	return "", false
}

// wrapNode is a resolver whose Go value consists of one nil pointer (the node it stands for is the world's WrapNode).
type wrapNode struct{ none *World }

var wrapTarget *World

func (n wrapNode) Resolve(field *ggql.Field, args map[string]interface{}) (interface{}, error) {
	return wrapTarget.resolveVia("iface", wrapTarget.WrapNode, field, args)
}

// SetWrapNode chooses the node realised as a wrapNode value ("" = none).
func (w *World) SetWrapNode(id string) {
	if w.Strategy != Iface {
		return
	}
	if id != w.WrapNode {
		w.kept = nil // (the kept lists hold the node in its other form)
	}
	delete(w.nodes, w.WrapNode)
	delete(w.nodes, id)
	w.WrapNode = id
}

// resMap is a node of the resolver strategy realised as a map; only its nil value is ever handed out.
type resMap map[string]interface{}

func (m resMap) Resolve(field *ggql.Field, args map[string]interface{}) (interface{}, error) {
	return nil, fmt.Errorf("Resolve called on a nil node for %s", field.Name)
}

func (w *World) typedNil(typeName string) interface{} {
	st := w.Strategy
	if st == Mixed || w.NilForm%3 == 0 {
		return nil
	}
	switch st {
	case Iface:
		if w.NilForm%3 == 2 {
			return resMap(nil)
		}
		return (*resNode)(nil)
	case Any:
		if w.NilForm%3 == 2 {
			return map[string]interface{}(nil)
		}
		return (*anyNode)(nil)
	case Refl:
		return refluni.NilOf(typeName)
	}
	return nil
}

// absent replaces the nil members of a list of nodes by the world's form of an absent node.
func (w *World) absent(out interface{}, typeName string) interface{} {
	if l, ok := out.([]interface{}); ok && w.NilForm%3 != 0 {
		for i, e := range l {
			switch ev := e.(type) {
			case nil:
				l[i] = w.typedNil(typeName)
			case []interface{}:
				l[i] = w.absent(ev, typeName)
			}
		}
	}
	return out
}

// NewWorld loads the universe's schema into a fresh root and builds the data graph.
func NewWorld(u *Universe, st Strategy, lm ListMode) (*World, error) {
	w := &World{U: u, Strategy: st, ListMode: lm, faults: map[string]bool{}, nodes: map[string]interface{}{}}
	switch st {
	case Iface:
		w.Root = ggql.NewRoot(&rootRes{w: w})
	case Any:
		w.Root = ggql.NewRoot(&anyNode{id: "$root"})
		w.Root.AnyResolver = &anyRes{w: w}
	case Refl:
		w.Root = ggql.NewRoot(&refluni.Schema{B: w})
	default:
		return nil, fmt.Errorf("unknown strategy %s", st)
	}
	if err := w.Root.ParseString(u.SDL()); err != nil {
		return nil, fmt.Errorf("universe schema rejected: %w\n%s", err, u.SDL())
	}
	if lm == ListResolver {
		if err := w.Past(); err != nil {
			return nil, err
		}
	}
	if st == Any && lm == ListIfaceSlice {
		// the Go type of the plain data is registered for an object type and one of its fields bound to a Go field
		// that holds something else: with a root resolver installed that binding is never consulted
		if _, has := u.Types["A"]; has {
			if err := w.Root.RegisterType(&anyNode{}, "A"); err != nil {
				return nil, err
			}
			if err := w.Root.RegisterField("A", "name", "Decoy"); err != nil {
				return nil, err
			}
		}
	}
	return w, nil
}

// Past gives the root a history of refused loads: documents that bring a Subscription root type, extend every object
// type (twice), enum and input type of the universe and are then refused by validation. Nothing of them may be left:
// the requests of the universe are answered as before (and `subscription { tick }`, `{ zz9 }` are refused).
func (w *World) Past() error {
	names := make([]string, 0, len(w.U.Types))
	for n := range w.U.Types {
		names = append(names, n)
	}
	sort.Strings(names)
	var ext strings.Builder
	if _, has := w.U.Types["Subscription"]; !has {
		ext.WriteString("type Subscription { tick: Int }\n")
	}
	for round := 0; round < 2; round++ {
		for _, n := range names {
			switch w.U.Types[n].Kind {
			case "OBJECT":
				fmt.Fprintf(&ext, "extend type %s { zz%d: Int }\n", n, 9-round)
			case "INPUT_OBJECT":
				fmt.Fprintf(&ext, "extend input %s { zz%d: Int = 1 }\n", n, 9-round)
			case "ENUM":
				fmt.Fprintf(&ext, "extend enum %s { ZZ%d }\n", n, 9-round)
			}
		}
	}
	// every union is offered every object type it does not have (the document is refused for another type)
	for _, n := range names {
		if w.U.Types[n].Kind != "UNION" {
			continue
		}
		var add []string
		for _, o := range names {
			if w.U.Types[o].Kind != "OBJECT" {
				continue
			}
			member := false
			for _, m := range w.U.Types[n].Members {
				member = member || m == o
			}
			if !member {
				add = append(add, o)
			}
		}
		if 0 < len(add) {
			fmt.Fprintf(&ext, "extend union %s = %s\n", n, strings.Join(add, " | "))
		}
	}
	for _, tail := range []string{"type Bad9 { __x: Int }", "type Bad9 { x: Nope9 }", "type Bad9 implements Nope9 { x: Int }"} {
		if err := w.Root.ParseString(ext.String() + tail); err == nil {
			return fmt.Errorf("a document that must be refused was accepted: ... %s", tail)
		}
	}
	return nil
}

// NewMixedWorld realises each node according to mix.Assign; plain nodes are served by an
// installed root resolver (mix.Any) or by reflection.
func NewMixedWorld(u *Universe, lm ListMode, mix *MixSpec) (*World, error) {
	w := &World{U: u, Strategy: Mixed, ListMode: lm, Mix: mix, faults: map[string]bool{}, nodes: map[string]interface{}{}}
	if mix.Any {
		w.Root = ggql.NewRoot(&anyNode{id: "$root"})
		w.Root.AnyResolver = &anyRes{w: w}
	} else {
		w.Root = ggql.NewRoot(&refluni.Schema{B: w})
	}
	if err := w.Root.ParseString(u.SDL()); err != nil {
		return nil, fmt.Errorf("universe schema rejected: %w", err)
	}
	return w, nil
}

// NewReflWorld is NewWorld for the reflection strategy with a binding mode.
func NewReflWorld(u *Universe, lm ListMode, b Binding) (*World, error) {
	w := &World{U: u, Strategy: Refl, ListMode: lm, Binding: b, faults: map[string]bool{}, nodes: map[string]interface{}{}}
	w.Root = ggql.NewRoot(&refluni.Schema{B: w})
	sdl := u.SDL()
	if b == BindGoDir || b == BindGoDirBare || b == BindGoDirFull {
		prefix := map[Binding]string{BindGoDir: "refluni.", BindGoDirBare: "", BindGoDirFull: "verifharness/gq/refluni."}[b]
		for _, tn := range []string{"A", "B", "C", "P"} {
			dir := "@go(type: \"" + prefix + tn + "\")"
			sdl = strings.Replace(sdl, "type "+tn+" ", "type "+tn+" "+dir+" ", 1)
			sdl = strings.Replace(sdl, dir+" implements Named", "implements Named "+dir, 1)
		}
	}
	if err := w.Root.ParseString(sdl); err != nil {
		return nil, fmt.Errorf("universe schema rejected: %w\n%s", err, sdl)
	}
	if b == BindRegisterLate {
		for _, q := range []string{"{ one { __typename name } named { __typename } any { __typename } }", "{ a { name peer { name } } items { __typename } }",
			"{ any { ... on A { name } ... on B { flag } } one { ... on B { flag } } }", "{ pv { code name say } pp { ... on P { code say } } }"} {
			_ = w.Root.ResolveString(q, "", nil)
		}
		w.TakeCalls()
		for _, tn := range []string{"A", "B", "C", "P"} {
			if _, ok := u.Types[tn]; ok {
				sample := refluni.NewAlt(w, tn, "")
				if xp, isP := sample.(*refluni.XP); isP {
					sample = *xp // (met as a value by the requests above: the same form is registered)
				}
				if err := w.Root.RegisterType(sample, tn); err != nil {
					return nil, err
				}
			}
		}
		if _, ok := u.Types["P"]; ok {
			// the field was bound to XP's method by the requests above; registered to a struct field now
			if err := w.Root.RegisterField("P", "code", "Code2"); err != nil {
				return nil, err
			}
			// ... and say, bound to the struct field Say by name, to the struct field Say2
			if err := w.Root.RegisterField("P", "say", "Say2"); err != nil {
				return nil, err
			}
		}
	}
	if b == BindRegister {
		for _, tn := range []string{"A", "B", "C", "P", "Query", "Mutation"} {
			if _, ok := u.Types[tn]; ok {
				if err := w.Root.RegisterType(refluni.New(w, tn, ""), tn); err != nil {
					return nil, err
				}
			}
		}
	}
	if b == BindGoDirFull {
		// this world has a past of refused loads (extends of every type, every union offered every other object type)
		if err := w.Past(); err != nil {
			return nil, err
		}
	}
	if _, ok := u.Types["Ab"]; ok {
		// one Go type behind two object types: Ab (no implementor of anything, member of no union) is bound to the Go
		// type that backs B
		sample := refluni.New(w, "B", "")
		if b == BindRegisterLate {
			sample = refluni.NewAlt(w, "B", "")
		}
		if err := w.Root.RegisterType(sample, "Ab"); err != nil {
			return nil, err
		}
	}
	return w, nil
}

// NewColdRegisteredWorld: reflection with the differently named Go types registered (RegisterType) and nothing else:
// no request has been resolved, no field registered.  OnResolve is called for every resolver call of the world.
func NewColdRegisteredWorld(u *Universe, onResolve func(id, field string)) (*World, error) {
	w := &World{U: u, Strategy: Refl, ListMode: ListIfaceSlice, Binding: BindRegisterLate, faults: map[string]bool{}, nodes: map[string]interface{}{}}
	w.onResolve = onResolve
	w.Root = ggql.NewRoot(&refluni.Schema{B: w})
	if err := w.Root.ParseString(u.SDL()); err != nil {
		return nil, err
	}
	for _, tn := range []string{"A", "B", "C", "P"} {
		if _, ok := u.Types[tn]; ok {
			sample := refluni.NewAlt(w, tn, "")
			if xp, isP := sample.(*refluni.XP); isP {
				sample = *xp
			}
			if err := w.Root.RegisterType(sample, tn); err != nil {
				return nil, err
			}
		}
	}
	return w, nil
}

// ReflResolve implements refluni.Backend.
func (w *World) ReflResolve(id, field string, args map[string]interface{}) (interface{}, error) {
	if w.onResolve != nil && id != "" && id != "$root" {
		w.onResolve(id, field)
	}
	if id == "$root" {
		if r, ok := w.rootNode(field); ok {
			return w.node(r), nil
		}
		return nil, fmt.Errorf("no root %s", field)
	}
	if w.Strategy == Mixed {
		// reflected methods always pass every declared argument; keep only what the request supplied
		// is impossible to know here, so mixed cases use fields without arguments on plain nodes
		return w.resolveVia("refl", id, &ggql.Field{Name: field}, args)
	}
	return w.resolve(id, &ggql.Field{Name: field}, args)
}

func (w *World) SetFaults(f [][]string) {
	w.faults = map[string]bool{}
	for _, nf := range f {
		if len(nf) == 2 {
			w.faults[nf[0]+"."+nf[1]] = true
		}
		if len(nf) == 4 && nf[2] == "call" { // the nf[3]-th invocation of the resolver nf[0].nf[1] in a request fails
			w.faults[nf[0]+"."+nf[1]+"@"+nf[3]] = true
		}
		if len(nf) == 3 { // list accessor failure at index nf[2] of the list returned by nf[0].nf[1]
			w.faults[nf[0]+"."+nf[1]+"#"+nf[2]] = true
		}
	}
}

func (w *World) TakeCalls() []Call {
	w.mu.Lock()
	defer w.mu.Unlock()
	c := w.calls
	w.calls = nil
	for _, k := range w.keptArgs {
		am := ValMap{}
		for n, a := range k.raw {
			am[n] = ArgToValue(a)
		}
		if now := vhJS(am); now != k.was && w.argsTampered == "" {
			w.argsTampered = fmt.Sprintf("the arguments map handed to the resolver of %s was changed after the call: it was %s, it is %s", k.at, k.was, now)
		}
	}
	w.keptArgs = nil
	return c
}

// noSubscriber is the subscriber of the subscription a resolver hands out where none belongs.
type noSubscriber struct{}

func (noSubscriber) Send(value interface{}) error { return nil }
func (noSubscriber) Match(eventID string) bool    { return false }
func (noSubscriber) Unsubscribe()                 {}

type keptArgs struct {
	at  string
	raw map[string]interface{}
	was string
}

func vhJS(v interface{}) string {
	b, _ := json.Marshal(v)
	return string(b)
}

func (w *World) node(id string) interface{} {
	if n, ok := w.nodes[id]; ok {
		return n
	}
	var n interface{}
	st := w.Strategy
	if st == Mixed {
		switch {
		case w.Mix.Assign[id] == "resolver":
			st = Iface
		case w.Mix.Any:
			st = Any
		default:
			st = Refl
		}
	}
	switch st {
	case Iface:
		n = &resNode{w: w, id: id}
		if w.MapNodes {
			n = newMapNode(w, id)
		}
		if id == w.WrapNode && id != "" {
			n = wrapNode{}
		}
	case Refl:
		if id == w.Strange && id != "" {
			n = &refluni.Stranger{ID: id}
			break
		}
		if w.Binding == BindRegisterLate {
			n = refluni.NewAlt(w, w.U.NodeType[id], id)
		} else {
			n = refluni.New(w, w.U.NodeType[id], id)
		}
	default:
		n = &anyNode{id: id, Decoy: "decoy"}
	}
	w.nodes[id] = n
	return n
}

// ArgToValue converts an argument value as received by a resolver to a tagged value.
func ArgToValue(a interface{}) Value {
	switch x := a.(type) {
	case nil:
		return Null()
	case string:
		return Str(x)
	case bool:
		return Bool(x)
	case int:
		return Int(int64(x))
	case int32:
		return Int(int64(x))
	case int64:
		return Int(x)
	case ggql.Symbol:
		return Value{K: "enum", S: string(x)}
	case float32:
		return Value{K: "float", S: strconv.FormatFloat(float64(x), 'g', -1, 32)}
	case float64:
		return Value{K: "float", S: strconv.FormatFloat(x, 'g', -1, 64)}
	case []interface{}:
		l := make([]Value, 0, len(x))
		for _, e := range x {
			l = append(l, ArgToValue(e))
		}
		return List(l)
	case map[string]interface{}:
		o := map[string]Value{}
		for k, e := range x {
			o[k] = ArgToValue(e)
		}
		return Obj(o)
	}
	return Value{K: "other", S: fmt.Sprintf("%T:%v", a, a)}
}

// ValStr mirrors Sem!ValStr: the rendering of an argument value by the echo resolvers.
func (u *Universe) ValStr(t *TRef, v Value) string {
	switch v.K {
	case "list":
		et := t
		if et != nil && et.K == "nonnull" {
			et = et.Of
		}
		if et != nil && et.K == "list" {
			et = et.Of
		}
		s := "["
		for _, e := range v.L {
			s += u.ValStr(et, e) + ","
		}
		return s + "]"
	case "obj":
		s := "{"
		if t != nil {
			if td, ok := u.Types[t.Base()]; ok {
				for _, f := range td.InFields {
					if fv, has := v.O[f.N]; has {
						s += f.N + ":" + u.ValStr(f.Type, fv) + ","
					}
				}
			}
		}
		return s + "}"
	}
	return valStr(v)
}

func valStr(v Value) string {
	switch v.K {
	case "str", "enum":
		return v.S
	case "int":
		return strconv.FormatInt(v.I, 10)
	case "bool":
		if v.B {
			return "true"
		}
		return "false"
	}
	return "null"
}

// resolve is the common resolver body of both strategies: log the call, then
// produce the universe's value for (node, field).
func (w *World) resolve(id string, field *ggql.Field, args map[string]interface{}) (interface{}, error) {
	return w.resolveVia("", id, field, args)
}

func (w *World) resolveVia(via, id string, field *ggql.Field, args map[string]interface{}) (interface{}, error) {
	am := ValMap{}
	for k, a := range args {
		am[k] = ArgToValue(a)
	}
	nthCall := 0
	if !w.U.IsSilent(id) {
		w.mu.Lock()
		w.calls = append(w.calls, Call{Node: id, Field: field.Name, Args: am, Via: via})
		for _, c := range w.calls { // which invocation of this resolver it is in this request
			if c.Node == id && c.Field == field.Name {
				nthCall++
			}
		}
		if 0 < len(args) {
			// the application keeps the map it was given (a resolver that works lazily, a subscription): it is the
			// application's from now on
			w.keptArgs = append(w.keptArgs, keptArgs{at: id + "." + field.Name, raw: args, was: vhJS(am)})
		}
		w.mu.Unlock()
	}
	if w.panicAt != "" && w.panicAt == id+"."+field.Name {
		panic("injected panic in the resolver of " + w.panicAt)
	}
	if w.faults[id+"."+field.Name] || (0 < nthCall && w.faults[id+"."+field.Name+"@"+strconv.Itoa(nthCall)]) {
		return nil, fmt.Errorf("injected failure at %s.%s", id, field.Name)
	}
	nd, ok := w.U.Data[id]
	if !ok {
		return nil, fmt.Errorf("no node %s", id)
	}
	v, ok := nd[field.Name]
	if !ok {
		return nil, fmt.Errorf("node %s has no field %s", id, field.Name)
	}
	if v.K == "echo" {
		fd := w.U.Types[w.U.NodeType[id]].Fields[field.Name]
		var b strings.Builder
		for _, a := range fd.Args {
			b.WriteString(a.N + "=")
			if av, has := am[a.N]; has {
				b.WriteString(w.U.ValStr(a.Type, av))
			} else {
				b.WriteString("-")
			}
			b.WriteString(";")
		}
		return b.String(), nil
	}
	if v.K == "err" {
		// an application error that carries extensions of Go types GraphQL has none for (a slice of strings with a quote
		// and a line break in one of them, a small integer, a typed map): they are part of the response and must be JSON
		return nil, &ggql.Error{Base: fmt.Errorf("%s", v.S), Extensions: map[string]interface{}{
			"tags": []string{"plain", "qu\"ote\nline"}, "code": int8(3), "more": map[string]string{"k\"": "v\\"}}}
	}
	if v.K == "subval" { // a *ggql.Subscription handed out for a field of a query or a mutation
		return ggql.NewSubscription(noSubscriber{}, field, args), nil
	}
	if v.K == "errval" { // a resolver returning a value together with an error
		return v.S, fmt.Errorf("failed after producing %s", v.S)
	}
	if v.K == "errsn" { // a group whose members are a group and an error wrapping a group
		var inner ggql.Errors
		for i := int64(0); i < v.I; i++ {
			inner = append(inner, fmt.Errorf("group member %d", i))
		}
		return nil, ggql.Errors{inner, fmt.Errorf("wrapped: %w", ggql.Errors{fmt.Errorf("group member w")})}
	}
	if v.K == "errs" { // a resolver returning a group of errors
		var es ggql.Errors
		for i := int64(0); i < v.I; i++ {
			es = append(es, fmt.Errorf("group member %d", i))
		}
		return nil, es
	}
	if v.K == "list" && w.KeepLists {
		w.mu.Lock()
		k, has := w.kept[id+"."+field.Name]
		w.mu.Unlock()
		if has {
			return k, nil
		}
	}
	out := w.toGo(v, 0)
	if v.K == "list" && w.KeepLists {
		defer func() {
			w.mu.Lock()
			if w.kept == nil {
				w.kept = map[string]interface{}{}
			}
			if _, has := w.kept[id+"."+field.Name]; !has {
				w.kept[id+"."+field.Name] = out
			}
			w.mu.Unlock()
		}()
	}
	if fd, has := w.U.Types[w.U.NodeType[id]].Fields[field.Name]; has && fd.Type != nil {
		base := fd.Type.Base()
		if td, ok := w.U.Types[base]; ok && (td.Kind == "OBJECT" || td.Kind == "INTERFACE" || td.Kind == "UNION") {
			if v.K == "null" {
				return w.typedNil(base), nil
			}
			out = w.absent(out, base)
		}
	}
	if field.Name == "pv" { // the struct itself, not a pointer to it (reflection strategy)
		switch p := out.(type) {
		case *refluni.P:
			return *p, nil
		case *refluni.XP:
			return *p, nil
		}
	}
	if al, ok := out.(*anyList); ok {
		al.origin = id + "." + field.Name
	}
	return out, nil
}

// ReflSuitable reports whether the case can be realised by reflected methods with the same
// observable behaviour as the other strategies. A Go method cannot tell an omitted or null
// argument from a zero value, so every OPTIONAL argument of a selected field has to be given a
// value that is not null. Everything else is common ground: a required argument left out (the
// request is refused before any method runs), variables, list and object values, arguments the
// field does not declare.
func ReflSuitable(u *Universe, c *Case) bool {
	if HasNthFault(c) {
		return false
	}
	// suitable for one type declaring the field: an argument the type does not declare (the field is
	// refused there) or all its optional arguments given non-null
	forType := func(defs []ArgDef, s *Sel) bool {
		given := map[string]Value{}
		for _, a := range s.Args {
			given[a.N] = a.V
		}
		declared := map[string]bool{}
		for _, ad := range defs {
			declared[ad.N] = true
		}
		for n := range given {
			if !declared[n] {
				return true
			}
		}
		for _, ad := range defs {
			if ad.Type != nil && ad.Type.K == "nonnull" {
				continue
			}
			v, has := given[ad.N]
			if !has || v.K == "null" {
				return false
			}
			if v.K == "var" {
				if vv, ok := c.Vars[v.S]; !ok || vv.K == "null" {
					return false
				}
			}
		}
		return true
	}
	var ok func(sels []Sel) bool
	ok = func(sels []Sel) bool {
		for i := range sels {
			s := &sels[i]
			if s.K == "field" {
				for _, t := range u.Types {
					if fd, has := t.Fields[s.Name]; has && len(fd.Args) > 0 {
						if s.RawArgs != "" || !forType(fd.Args, s) {
							return false
						}
					}
				}
			}
			if !ok(s.Sels) {
				return false
			}
		}
		return true
	}
	for _, op := range c.Doc.Ops {
		if !ok(op.Sels) {
			return false
		}
	}
	for _, f := range c.Doc.Frags {
		if !ok(f.Sels) {
			return false
		}
	}
	return true
}

// HasNthFault reports whether the case injects a list accessor failure (only realisable
// through AnyResolver.Nth).
func HasNthFault(c *Case) bool {
	for _, f := range c.Faults {
		if len(f) == 3 {
			return true
		}
	}
	return false
}

type listRes struct {
	w     *World
	elems []Value
	depth int
}

func (l *listRes) Len() int              { return len(l.elems) }
func (l *listRes) Nth(i int) interface{} { return l.w.toGo(l.elems[i], l.depth+1) }

// anyList is a list value only the AnyResolver knows how to walk.
type anyList struct {
	elems  []Value
	depth  int
	origin string
}

func (w *World) toGo(v Value, depth int) interface{} {
	switch v.K {
	case "null":
		return nil
	case "str":
		return v.S
	case "int":
		return int(v.I)
	case "bool":
		return v.B
	case "enum":
		return v.S
	case "node":
		return w.node(v.S)
	case "list":
		mode := w.ListMode
		if mode == ListTyped {
			// a typed slice is possible only for homogeneous non-null leaves ...
			if ts := typedSlice(v.L); ts != nil {
				return ts
			}
			// ... or for nodes realised by one Go type (null members become nil pointers): []*T,
			// which ggql walks by reflection.  Not behind an AnyResolver, which would have to walk it itself.
			if ts := w.typedNodeSlice(v.L, depth); ts != nil {
				return ts
			}
			mode = ListIfaceSlice
		}
		if mode == ListResolver {
			if w.Strategy == Any {
				return &anyList{elems: v.L, depth: depth}
			}
			return &listRes{w: w, elems: v.L, depth: depth}
		}
		out := make([]interface{}, 0, len(v.L))
		for _, e := range v.L {
			out = append(out, w.toGo(e, depth+1))
		}
		return out
	}
	return nil
}

func (w *World) typedNodeSlice(l []Value, depth int) interface{} {
	if w.Strategy == Any || (w.Strategy == Mixed && w.Mix.Any) || len(l) == 0 {
		return nil
	}
	var et reflect.Type
	mixed := false
	elems := make([]interface{}, len(l))
	for i, e := range l {
		switch e.K {
		case "null":
		case "node":
			elems[i] = w.toGo(e, depth+1)
			t := reflect.TypeOf(elems[i])
			if et != nil && et != t {
				mixed = true
			}
			et = t
		default:
			return nil
		}
	}
	if mixed {
		// members of different Go types: a slice typed by a non-empty Go interface they all satisfy
		return nodeIfaceSlice(elems)
	}
	if et == nil || et.Kind() != reflect.Ptr {
		return nil
	}
	s := reflect.MakeSlice(reflect.SliceOf(et), len(l), len(l))
	for i, e := range elems {
		if e != nil {
			s.Index(i).Set(reflect.ValueOf(e))
		}
	}
	return s.Interface()
}

func nodeIfaceSlice(elems []interface{}) interface{} {
	out := make([]refluni.Node, len(elems))
	for i, e := range elems {
		if e == nil {
			continue
		}
		n, ok := e.(refluni.Node)
		if !ok {
			return nil
		}
		out[i] = n
	}
	return out
}

func typedSlice(l []Value) interface{} {
	if len(l) == 0 {
		return nil
	}
	k := l[0].K
	for _, e := range l {
		if e.K != k {
			return nil
		}
	}
	switch k {
	case "str":
		out := make([]string, len(l))
		for i, e := range l {
			out[i] = e.S
		}
		return out
	case "int":
		out := make([]int, len(l))
		for i, e := range l {
			out[i] = int(e.I)
		}
		return out
	case "bool":
		out := make([]bool, len(l))
		for i, e := range l {
			out[i] = e.B
		}
		return out
	}
	return nil
}

// ---- Resolver-interface realisation

type rootRes struct{ w *World }

func (r *rootRes) Resolve(field *ggql.Field, args map[string]interface{}) (interface{}, error) {
	if id, ok := r.w.rootNode(field.Name); ok {
		return r.w.node(id), nil
	}
	return nil, fmt.Errorf("no root %s", field.Name)
}

type resNode struct {
	w  *World
	id string
}

// Map nodes: an application whose objects are not structs but named MAP types that implement ggql.Resolver, one Go type
// per object type, registered with Root.RegisterType (so that the concrete type under interface and union typed
// fields is known, as for structs).
type (
	mapQuery    map[string]interface{}
	mapMutation map[string]interface{}
	mapA        map[string]interface{}
	mapB        map[string]interface{}
	mapC        map[string]interface{}
	mapP        map[string]interface{}
)

func resolveMap(m map[string]interface{}, field *ggql.Field, args map[string]interface{}) (interface{}, error) {
	return m["w"].(*World).resolveVia("iface", m["id"].(string), field, args)
}

func (m mapQuery) Resolve(f *ggql.Field, a map[string]interface{}) (interface{}, error) {
	return resolveMap(m, f, a)
}
func (m mapMutation) Resolve(f *ggql.Field, a map[string]interface{}) (interface{}, error) {
	return resolveMap(m, f, a)
}
func (m mapA) Resolve(f *ggql.Field, a map[string]interface{}) (interface{}, error) {
	return resolveMap(m, f, a)
}
func (m mapB) Resolve(f *ggql.Field, a map[string]interface{}) (interface{}, error) {
	return resolveMap(m, f, a)
}
func (m mapC) Resolve(f *ggql.Field, a map[string]interface{}) (interface{}, error) {
	return resolveMap(m, f, a)
}
func (m mapP) Resolve(f *ggql.Field, a map[string]interface{}) (interface{}, error) {
	return resolveMap(m, f, a)
}

func mapSample(tn string, w *World, id string) interface{} {
	m := map[string]interface{}{"w": w, "id": id}
	switch tn {
	case "Query":
		return mapQuery(m)
	case "Mutation":
		return mapMutation(m)
	case "A":
		return mapA(m)
	case "B":
		return mapB(m)
	case "C":
		return mapC(m)
	case "P":
		return mapP(m)
	}
	return nil
}

func newMapNode(w *World, id string) interface{} {
	if n := mapSample(w.U.NodeType[id], w, id); n != nil {
		return n
	}
	return &resNode{w: w, id: id}
}

// NewMapWorld is the Resolver-object world with map nodes.
func NewMapWorld(u *Universe, lm ListMode) (*World, error) {
	w, err := NewWorld(u, Iface, lm)
	if err != nil {
		return nil, err
	}
	w.MapNodes = true
	for tn := range u.Types {
		if sample := mapSample(tn, w, ""); sample != nil {
			if err = w.Root.RegisterType(sample, tn); err != nil {
				return nil, err
			}
		}
	}
	return w, nil
}

func (n *resNode) Resolve(field *ggql.Field, args map[string]interface{}) (interface{}, error) {
	return n.w.resolveVia("iface", n.id, field, args)
}

// ---- AnyResolver realisation

// anyNode is the data behind an installed root resolver. Decoy is what reflection would read if it were asked (it is
// bound to A.name on some roots): the installed root resolver takes precedence over reflection.
type anyNode struct {
	id    string
	Decoy string
}

type anyRes struct{ w *World }

func (r *anyRes) Resolve(obj interface{}, field *ggql.Field, args map[string]interface{}) (interface{}, error) {
	n, ok := obj.(*anyNode)
	if !ok {
		return nil, fmt.Errorf("AnyResolver asked to resolve %s on a %T", field.Name, obj)
	}
	if n.id == "$root" {
		if id, ok := r.w.rootNode(field.Name); ok {
			return r.w.node(id), nil
		}
		return nil, fmt.Errorf("no root %s", field.Name)
	}
	return r.w.resolveVia("any", n.id, field, args)
}

func (r *anyRes) Len(list interface{}) int {
	if l, ok := list.(*anyList); ok {
		return len(l.elems)
	}
	return 0
}

func (r *anyRes) Nth(list interface{}, i int) (interface{}, error) {
	if l, ok := list.(*anyList); ok && 0 <= i && i < len(l.elems) {
		if l.origin != "" && r.w.faults[l.origin+"#"+strconv.Itoa(i)] {
			return nil, fmt.Errorf("injected accessor failure at %s[%d]", l.origin, i)
		}
		return r.w.toGo(l.elems[i], l.depth+1), nil
	}
	return nil, fmt.Errorf("bad list access")
}

// ---------------------------------------------------------------- execution

// ToValue converts response data to a tagged value.
func ToValue(d interface{}) Value {
	switch x := d.(type) {
	case nil:
		return Null()
	case string:
		return Str(x)
	case bool:
		return Bool(x)
	case int:
		return Int(int64(x))
	case int8:
		return Int(int64(x))
	case int16:
		return Int(int64(x))
	case int32:
		return Int(int64(x))
	case int64:
		return Int(x)
	case uint:
		return Int(int64(x))
	case uint8:
		return Int(int64(x))
	case uint16:
		return Int(int64(x))
	case uint32:
		return Int(int64(x))
	case float32:
		return Value{K: "float", S: strconv.FormatFloat(float64(x), 'g', -1, 32)}
	case float64:
		return Value{K: "float", S: strconv.FormatFloat(x, 'g', -1, 64)}
	case []interface{}:
		l := make([]Value, 0, len(x))
		for _, e := range x {
			l = append(l, ToValue(e))
		}
		return List(l)
	case map[string]interface{}:
		o := map[string]Value{}
		for k, e := range x {
			o[k] = ToValue(e)
		}
		return Obj(o)
	}
	return Value{K: "other", S: fmt.Sprintf("%T:%v", d, d)}
}

// Actual is what the real code produced for a case.
type Actual struct {
	Response
	Raw      map[string]interface{} `json:"-"`
	Envelope []string               `json:"envelope,omitempty"` // keys of the response map
	Tampered string                 `json:"tampered,omitempty"` // what the call did to data of the caller it may not touch
}

// FromResult converts a ggql response map.
func FromResult(res map[string]interface{}, calls []Call) *Actual {
	a := &Actual{Raw: res}
	for k := range res {
		a.Envelope = append(a.Envelope, k)
	}
	sort.Strings(a.Envelope)
	d, has := res["data"]
	a.HasData = has && d != nil
	a.Data = ToValue(d)
	if el, ok := res["errors"].([]interface{}); ok {
		for _, e := range el {
			em, _ := e.(map[string]interface{})
			er := ErrRec{Path: []string{}}
			er.Msg, _ = em["message"].(string)
			if p, ok := em["path"].([]interface{}); ok {
				for _, pe := range p {
					switch x := pe.(type) {
					case string:
						if strings.HasPrefix(x, "fragment at ") { // known deviation FragPathSegment, canonical form
							er.Path = append(er.Path, "f:")
						} else {
							er.Path = append(er.Path, "k:"+x)
						}
					case int:
						er.Path = append(er.Path, "i:"+strconv.Itoa(x))
					default:
						er.Path = append(er.Path, fmt.Sprintf("?:%T:%v", pe, pe))
					}
				}
			}
			a.Errs = append(a.Errs, er)
		}
	}
	a.Calls = calls
	return a
}

// Run executes a case on this world through ResolveString (parse + resolve).
func (w *World) Run(c *Case, lo Layout) *Actual {
	wrapTarget = w
	w.SetFaults(c.Faults)
	w.TakeCalls()
	vars := w.callerVars(c.Vars)
	res := w.Root.ResolveString(c.Doc.Text(lo), c.Op, vars)
	act := FromResult(res, w.TakeCalls())
	w.checkNoVars(act)
	return act
}

// NoVars is the map an application hands to every request that comes without variables: ONE map, empty, shared by all
// the worlds and all their requests.  Nobody may write into it: what one request's operation declares (its defaults)
// is not a variable of the next request.
var NoVars = map[string]interface{}{}

func (w *World) callerVars(vars ValMap) map[string]interface{} {
	if len(vars) == 0 {
		return NoVars
	}
	return VarsToGo(vars)
}

// checkNoVars: the shared empty variables map is still empty (reported once per run, as a difference in the data).
func (w *World) checkNoVars(act *Actual) {
	if w.argsTampered != "" {
		act.Tampered, w.argsTampered = w.argsTampered, ""
	}
	if len(NoVars) == 0 {
		return
	}
	var keys []string
	for k := range NoVars {
		keys = append(keys, k)
		delete(NoVars, k)
	}
	sort.Strings(keys)
	act.Tampered = "the library wrote into the caller's (empty) variables map: " + strings.Join(keys, ", ")
}

// RunExe resolves an already parsed executable and assembles the response the
// way Root.ResolveReader does.
func (w *World) RunExe(exe *ggql.Executable, op string, vars ValMap) *Actual {
	wrapTarget = w
	w.TakeCalls()
	result, err := w.Root.ResolveExecutable(exe, op, w.callerVars(vars))
	if result == nil {
		result = map[string]interface{}{"data": nil}
	}
	if err != nil {
		result["errors"] = ggql.FormErrorsResult(err)
	}
	act := FromResult(result, w.TakeCalls())
	w.checkNoVars(act)
	return act
}

// SetPanic makes the resolver call node.field panic ("" = none).
func (w *World) SetPanic(site string) { w.panicAt = site }

// RunExeQuiet is RunExe for concurrent callers: the shared call log is left alone.
func (w *World) RunExeQuiet(exe *ggql.Executable, op string, vars ValMap) *Actual {
	result, err := w.Root.ResolveExecutable(exe, op, VarsToGo(vars))
	if result == nil {
		result = map[string]interface{}{"data": nil}
	}
	if err != nil {
		result["errors"] = ggql.FormErrorsResult(err)
	}
	return FromResult(result, nil)
}

// VarsToGo builds the variable map the way a JSON decoder would.
func VarsToGo(vars ValMap) map[string]interface{} {
	if vars == nil {
		return nil
	}
	out := map[string]interface{}{}
	for k, v := range vars {
		out[k] = PlainGo(v)
	}
	return out
}

// PlainGo converts a tagged value to plain Go data (string, int, bool, slices, maps).
func PlainGo(v Value) interface{} {
	switch v.K {
	case "str", "enum":
		return v.S
	case "int":
		return int(v.I)
	case "bool":
		return v.B
	case "list":
		out := make([]interface{}, 0, len(v.L))
		for _, e := range v.L {
			out = append(out, PlainGo(e))
		}
		return out
	case "obj":
		out := map[string]interface{}{}
		for k, e := range v.O {
			out[k] = PlainGo(e)
		}
		return out
	}
	return nil
}

// ---------------------------------------------------------------- comparing

// Diff is one aspect in which the real response differs from an expected one.
type Diff struct {
	Aspect string `json:"aspect"` // data | errors | calls | opchoice
	What   string `json:"what"`
}

func pathsOf(errs []ErrRec) []string {
	var ps []string
	for _, e := range errs {
		ps = append(ps, strings.Join(e.Path, "/"))
	}
	sort.Strings(ps)
	return ps
}

// Compare returns the aspects in which actual differs from exp.
func Compare(exp *Response, act *Actual, withCalls bool) []Diff {
	var ds []Diff
	if act.Tampered != "" {
		ds = append(ds, Diff{"data", act.Tampered})
	}
	if !exp.HasData {
		if act.HasData {
			ds = append(ds, Diff{"opchoice", "the model executes no operation but the response has data " + act.Data.String()})
		}
		if len(act.Calls) > 0 && withCalls {
			ds = append(ds, Diff{"opchoice", fmt.Sprintf("the model executes no operation but %d resolver calls were made", len(act.Calls))})
		}
		if len(act.Errs) == 0 {
			ds = append(ds, Diff{"errors", "the model refuses the request but the response has no errors"})
		}
		// the operation root itself failed: that failure is at the root of the response (an empty path), once per error
		if len(exp.Errs) > 0 && exp.Errs[0].Name == "root" && exp.Errs[0].Class == "resolver" {
			for _, a := range act.Errs {
				if len(a.Path) > 0 {
					ds = append(ds, Diff{"errors", fmt.Sprintf("the operation root failed: error %q has the path %v, the root of the response is the empty path", a.Msg, a.Path)})
				}
			}
			if len(act.Errs) != len(exp.Errs) {
				ds = append(ds, Diff{"errors", fmt.Sprintf("the operation root failed once: %d errors %v", len(act.Errs), msgs(act.Errs))})
			}
		}
		return ds
	}
	if !act.HasData {
		ds = append(ds, Diff{"data", "no data in the response; errors " + fmt.Sprint(act.Errs)})
		return ds
	}
	if !exp.Data.Matches(act.Data) {
		ds = append(ds, Diff{"data", "data is " + act.Data.String() + ", the model says " + exp.Data.String()})
	}
	ep, ap := pathsOf(exp.Errs), pathsOf(act.Errs)
	if strings.Join(ep, "|") != strings.Join(ap, "|") || len(ep) != len(ap) {
		// C06: exactly one entry per failure, at the failing position
		ds = append(ds, Diff{"errors", fmt.Sprintf("error paths are %v (%v), the model says %v", ap, msgs(act.Errs), ep)})
	}
	// C10: every rejected selection has an error at (or below) its position naming the offender,
	// and there is no error anywhere else
	for _, e := range exp.Errs {
		found := false
		for _, a := range act.Errs {
			if hasPrefix(a.Path, e.Path) && (e.Name == "" || e.Class == "resolver" || strings.Contains(a.Msg, e.Name) || namedByPath(a.Path[len(e.Path):], e.Name)) {
				found = true
			}
		}
		if !found {
			ds = append(ds, Diff{"errors_cover", fmt.Sprintf("no error at %v names %q (%s); errors: %v at %v", e.Path, e.Name, e.Class, msgs(act.Errs), ap)})
		}
	}
	for _, a := range act.Errs {
		found := false
		for _, e := range exp.Errs {
			if hasPrefix(a.Path, e.Path) {
				found = true
			}
		}
		if !found {
			ds = append(ds, Diff{"errors_cover", fmt.Sprintf("error %q at %v where the model has none (model: %v)", a.Msg, a.Path, ep)})
		}
	}
	if withCalls {
		if len(exp.Calls) != len(act.Calls) {
			ds = append(ds, Diff{"calls", fmt.Sprintf("resolver calls %s, the model says %s", callsStr(act.Calls), callsStr(exp.Calls))})
		} else {
			for i := range exp.Calls {
				if !callEq(exp.Calls[i], act.Calls[i]) {
					ds = append(ds, Diff{"calls", fmt.Sprintf("resolver call %d is %s, the model says %s", i+1, callsStr(act.Calls[i:i+1]), callsStr(exp.Calls[i:i+1]))})
					break
				}
			}
		}
	}
	return ds
}

// namedByPath: the error addresses the offender by a path element below the selection (an argument name).
func namedByPath(rest []string, name string) bool {
	for _, el := range rest {
		if el == "k:"+name {
			return true
		}
	}
	return false
}

func hasPrefix(p, prefix []string) bool {
	if len(prefix) > len(p) {
		return false
	}
	for i := range prefix {
		if p[i] != prefix[i] {
			return false
		}
	}
	return true
}

func msgs(errs []ErrRec) []string {
	var m []string
	for _, e := range errs {
		m = append(m, e.Msg)
	}
	return m
}

func callEq(a, b Call) bool {
	if a.Node != b.Node || a.Field != b.Field || len(a.Args) != len(b.Args) {
		return false
	}
	for k, v := range a.Args {
		o, ok := b.Args[k]
		if !ok || !v.Equal(o) {
			return false
		}
	}
	return true
}

func callsStr(cs []Call) string {
	var parts []string
	for _, c := range cs {
		s := c.Node + "." + c.Field
		if len(c.Args) > 0 {
			keys := make([]string, 0, len(c.Args))
			for k := range c.Args {
				keys = append(keys, k)
			}
			sort.Strings(keys)
			var as []string
			for _, k := range keys {
				as = append(as, k+":"+valStr(c.Args[k]))
			}
			s += "(" + strings.Join(as, ",") + ")"
		}
		parts = append(parts, s)
	}
	return "[" + strings.Join(parts, " ") + "]"
}
