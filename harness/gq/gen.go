package gq

import (
	"fmt"
	"math/rand"
	"sort"
)

// Gen generates random universes and random valid documents (conformance
// direction B).  Everything derives from the rng it is given.
type Gen struct {
	R *rand.Rand
	U *Universe
	// per document
	frags    []Frag
	vars     map[string]VarDef
	given    ValMap
	nfrag    int
	Abstract bool // allow fragments with interface / union conditions and abstract-typed fields (reflection strategy only)
}

func sortedKeys(m map[string]*FieldDef) []string {
	ks := make([]string, 0, len(m))
	for k := range m {
		ks = append(ks, k)
	}
	sort.Strings(ks)
	return ks
}

func (g *Gen) pick(n int) int { return g.R.Intn(n) }

func (g *Gen) isComposite(tn string) bool {
	t, ok := g.U.Types[tn]
	return ok && (t.Kind == "OBJECT" || t.Kind == "INTERFACE" || t.Kind == "UNION")
}

// RandomUniverse builds a random schema and a random data graph typed by it.
func (g *Gen) RandomUniverse() *Universe {
	u := &Universe{Types: map[string]*TypeDef{}, NodeType: map[string]string{}, Data: map[string]ValMap{}, Roots: map[string]string{}}
	nt := 2 + g.pick(3)
	names := []string{"Query"}
	for i := 0; i < nt; i++ {
		names = append(names, fmt.Sprintf("T%d", i))
	}
	named := func(n string) *TRef { return &TRef{K: "named", N: n} }
	listOf := func(t *TRef) *TRef { return &TRef{K: "list", Of: t} }
	for _, n := range names {
		td := &TypeDef{Kind: "OBJECT", Fields: FieldMap{}, Ifaces: []string{}, Members: []string{}}
		nf := 2 + g.pick(4)
		for f := 0; f < nf; f++ {
			fn := fmt.Sprintf("f%d", f)
			var t *TRef
			switch g.pick(10) {
			case 9:
				t = listOf(listOf(named(names[1+g.pick(nt)])))
			case 0, 1:
				t = named("String")
			case 2:
				t = named("Int")
			case 3:
				t = named("Boolean")
			case 4, 5:
				t = named(names[1+g.pick(nt)])
			case 6:
				t = listOf(named(names[1+g.pick(nt)]))
			case 7:
				t = listOf(listOf(named("Int")))
			case 8:
				t = listOf(named("String"))
			}
			td.Fields[fn] = &FieldDef{Type: t, Args: []ArgDef{}}
		}
		// one field with arguments, echoing them
		td.Fields["e"] = &FieldDef{Type: named("String"), Args: []ArgDef{{N: "s", Type: named("String")}, {N: "b", Type: named("Boolean")}}}
		if g.pick(2) == 0 {
			td.Fields["r"] = &FieldDef{Type: named("String"), Args: []ArgDef{{N: "x", Type: &TRef{K: "nonnull", Of: named("Int")}}}}
		}
		u.Types[n] = td
	}
	// nodes
	byType := map[string][]string{}
	for _, n := range names {
		k := 1
		if n != "Query" {
			k = 1 + g.pick(3)
		}
		for i := 0; i < k; i++ {
			id := fmt.Sprintf("%s_%d", n, i)
			u.NodeType[id] = n
			byType[n] = append(byType[n], id)
		}
	}
	u.Roots["query"] = "Query_0"
	var val func(t *TRef, depth int) Value
	val = func(t *TRef, depth int) Value {
		if g.pick(8) == 0 {
			return Null()
		}
		switch t.K {
		case "list":
			n := g.pick(4)
			l := make([]Value, 0, n)
			for i := 0; i < n; i++ {
				l = append(l, val(t.Of, depth+1))
			}
			return List(l)
		case "nonnull":
			v := val(t.Of, depth)
			for v.K == "null" {
				v = val(t.Of, depth)
			}
			return v
		}
		switch t.N {
		case "String":
			return Str(fmt.Sprintf("s%d", g.pick(50)))
		case "Int":
			return Int(int64(g.pick(200) - 100))
		case "Boolean":
			return Bool(g.pick(2) == 0)
		}
		ns := byType[t.N]
		return Value{K: "node", S: ns[g.pick(len(ns))]}
	}
	for id, tn := range u.NodeType {
		d := ValMap{}
		for _, fn := range sortedKeys(u.Types[tn].Fields) {
			fd := u.Types[tn].Fields[fn]
			if len(fd.Args) > 0 {
				d[fn] = Value{K: "echo"}
			} else if g.pick(15) == 0 {
				d[fn] = Value{K: "err", S: "fails"}
			} else {
				d[fn] = val(fd.Type, 0)
			}
		}
		u.Data[id] = d
	}
	return u
}

// key derives a response key that determines the field and its arguments, so
// that two selections with the same key can always be merged (valid document).
func keyFor(name string, args []Arg, aliased bool) string {
	if !aliased {
		return ""
	}
	k := "k_" + name
	for _, a := range args {
		k += "_" + a.N + Lit(a.V)
	}
	out := []rune{}
	for _, r := range k {
		if (r >= 'a' && r <= 'z') || (r >= 'A' && r <= 'Z') || (r >= '0' && r <= '9') || r == '_' {
			out = append(out, r)
		} else {
			out = append(out, 'x')
		}
	}
	return string(out)
}

func (g *Gen) argValue(t *TRef) Value {
	switch t.K {
	case "nonnull":
		return g.argValue(t.Of)
	case "list":
		n := g.pick(3)
		l := make([]Value, 0, n)
		for i := 0; i < n; i++ {
			l = append(l, g.argValue(t.Of))
		}
		return List(l)
	}
	if td, ok := g.U.Types[t.N]; ok && td.Kind == "INPUT_OBJECT" {
		o := map[string]Value{}
		for _, f := range td.InFields {
			if f.Type.K == "nonnull" || g.pick(2) == 0 {
				o[f.N] = g.argValue(f.Type)
			}
		}
		return Obj(o)
	}
	base := t.Base()
	lit := func() Value {
		switch base {
		case "String":
			return Str(fmt.Sprintf("v%d", g.pick(3)))
		case "Boolean":
			return Bool(g.pick(2) == 0)
		case "Int":
			return Int(int64(g.pick(7)))
		}
		return Null()
	}
	if g.pick(3) == 0 { // through a variable
		name := fmt.Sprintf("v%s%d", base[:1], g.pick(2))
		if _, ok := g.vars[name]; !ok {
			vd := VarDef{N: name, T: &TRef{K: "named", N: base}, Def: Null()}
			mode := g.pick(3)
			if mode == 0 || t.K == "nonnull" {
				g.given[name] = lit()
			}
			if mode >= 1 {
				vd.HasDef = true
				vd.Def = lit()
			}
			g.vars[name] = vd
		}
		return Value{K: "var", S: name}
	}
	return lit()
}

func (g *Gen) dirs() []Dir {
	ds := []Dir{}
	if g.pick(4) != 0 {
		return ds
	}
	mk := func(name string) Dir {
		if g.pick(2) == 0 {
			return Dir{N: name, V: Bool(g.pick(2) == 0)}
		}
		vn := fmt.Sprintf("d%d", g.pick(3))
		if _, ok := g.vars[vn]; !ok {
			vd := VarDef{N: vn, T: &TRef{K: "named", N: "Boolean"}, Def: Null()}
			if g.pick(2) == 0 {
				g.given[vn] = Bool(g.pick(2) == 0)
			} else {
				vd.HasDef = true
				vd.Def = Bool(g.pick(2) == 0)
			}
			g.vars[vn] = vd
		}
		return Dir{N: name, V: Value{K: "var", S: vn}}
	}
	switch g.pick(4) {
	case 0:
		ds = append(ds, mk("skip"))
	case 1:
		ds = append(ds, mk("include"))
	case 2:
		ds = append(ds, mk("skip"), mk("include"))
	case 3:
		ds = append(ds, mk("include"), mk("skip"))
	}
	return ds
}

func (g *Gen) objectTypes() []string {
	var out []string
	for n, t := range g.U.Types {
		if t.Kind == "OBJECT" {
			out = append(out, n)
		}
	}
	sort.Strings(out)
	return out
}

// condsFor lists type conditions usable in a selection set on type tn: none, the type itself,
// an unrelated object type and - with Abstract - the interfaces / unions related to it.
func (g *Gen) condsFor(tn string) []string {
	conds := []string{"", tn, tn}
	ots := g.objectTypes()
	conds = append(conds, ots[g.pick(len(ots))])
	if !g.Abstract {
		return conds
	}
	t := g.U.Types[tn]
	switch t.Kind {
	case "OBJECT":
		conds = append(conds, t.Ifaces...)
		for un, ut := range g.U.Types {
			if ut.Kind == "UNION" {
				for _, m := range ut.Members {
					if m == tn {
						conds = append(conds, un)
					}
				}
			}
		}
	case "INTERFACE":
		for on, ot := range g.U.Types {
			for _, i := range ot.Ifaces {
				if i == tn {
					conds = append(conds, on, on)
				}
			}
		}
	case "UNION":
		conds = append(conds, t.Members...)
		conds = append(conds, t.Members...)
	}
	sort.Strings(conds[4:])
	return conds
}

// sels generates a non-empty selection set valid on type tn.
func (g *Gen) sels(tn string, depth int) []Sel {
	t := g.U.Types[tn]
	if t.Kind == "UNION" && depth == 0 {
		return []Sel{{K: "field", Name: "__typename", Dirs: []Dir{}, Args: []Arg{}}}
	}
	n := 1 + g.pick(3)
	var out []Sel
	fields := sortedKeys(t.Fields)
	for i := 0; i < n; i++ {
		c := g.pick(10)
		switch {
		case c == 0 && t.Kind != "UNION" || len(fields) == 0:
			s := Sel{K: "field", Name: "__typename", Dirs: []Dir{}, Args: []Arg{}}
			if g.pick(3) == 0 {
				s.Alias = "k___typename"
			}
			out = append(out, s)
		case (c == 1 || (t.Kind == "UNION" && c > 2) || (g.Abstract && t.Kind == "INTERFACE" && c > 5)) && depth > 0:
			conds := g.condsFor(tn)
			cond := conds[g.pick(len(conds))]
			if t.Kind == "UNION" && cond == "" {
				cond = t.Members[g.pick(len(t.Members))]
			}
			target := tn
			if cond != "" {
				target = cond
			}
			out = append(out, Sel{K: "inline", Cond: cond, Dirs: g.dirs(), Sels: g.sels(target, depth-1)})
		case c == 2 && depth > 0:
			// sometimes spread an already defined fragment on this type again (with its own directives)
			if g.pick(5) < 2 {
				var same []string
				for _, f := range g.frags {
					if f.Cond == tn {
						same = append(same, f.Name)
					}
				}
				if len(same) > 0 {
					out = append(out, Sel{K: "spread", Name: same[g.pick(len(same))], Dirs: g.dirs()})
					continue
				}
			}
			g.nfrag++
			name := fmt.Sprintf("F%d", g.nfrag)
			cond := tn
			if g.pick(5) == 0 || g.Abstract {
				conds := g.condsFor(tn)
				cond = conds[1+g.pick(len(conds)-1)]
			}
			body := g.sels(cond, depth-1)
			g.frags = append(g.frags, Frag{Name: name, Cond: cond, Sels: body})
			out = append(out, Sel{K: "spread", Name: name, Dirs: g.dirs()})
		default:
			fn := fields[g.pick(len(fields))]
			fd := t.Fields[fn]
			base := fd.Type.Base()
			bt, composite := g.U.Types[base]
			if composite && bt.Kind == "UNION" && !g.Abstract {
				continue
			}
			if t.Kind == "UNION" {
				continue
			}
			if composite && depth == 0 {
				continue
			}
			s := Sel{K: "field", Name: fn, Dirs: g.dirs(), Args: []Arg{}}
			for _, ad := range fd.Args {
				if ad.Type.K == "nonnull" || g.pick(2) == 0 {
					s.Args = append(s.Args, Arg{N: ad.N, V: g.argValue(ad.Type)})
				}
			}
			if g.pick(2) == 0 && len(s.Args) > 1 {
				s.Args[0], s.Args[len(s.Args)-1] = s.Args[len(s.Args)-1], s.Args[0]
			}
			s.Alias = keyFor(fn, s.Args, len(s.Args) > 0 || g.pick(3) == 0)
			if composite {
				if bt.Kind == "INTERFACE" && !g.Abstract {
					// plain selection of the interface's own fields only
					s.Sels = g.plainSels(base)
				} else {
					s.Sels = g.sels(base, depth-1)
				}
			}
			out = append(out, s)
		}
	}
	if len(out) == 0 {
		out = append(out, Sel{K: "field", Name: "__typename", Dirs: []Dir{}, Args: []Arg{}})
	}
	return out
}

func (g *Gen) plainSels(tn string) []Sel {
	t := g.U.Types[tn]
	var out []Sel
	for _, fn := range sortedKeys(t.Fields) {
		fd := t.Fields[fn]
		if !g.isComposite(fd.Type.Base()) && len(fd.Args) == 0 && (len(out) == 0 || g.pick(2) == 0) {
			out = append(out, Sel{K: "field", Name: fn, Dirs: []Dir{}, Args: []Arg{}})
		}
	}
	return out
}

// Case generates a random valid document with operation name, variables and faults.
func (g *Gen) Case(depth int) *Case {
	g.frags, g.vars, g.given, g.nfrag = nil, map[string]VarDef{}, ValMap{}, 0
	c := &Case{Fam: "random", Faults: [][]string{}}
	nops := 1
	if g.pick(4) == 0 {
		nops = 2
	}
	var ops []Op
	for i := 0; i < nops; i++ {
		op := Op{Type: "query", Vars: []VarDef{}}
		if nops > 1 || g.pick(2) == 0 {
			op.Name = fmt.Sprintf("Op%d", i)
		}
		op.Sels = g.sels(g.U.NodeType[g.U.Roots["query"]], depth)
		ops = append(ops, op)
	}
	// every variable is declared by every operation (fragments are shared between them)
	var vnames []string
	for k := range g.vars {
		vnames = append(vnames, k)
	}
	sort.Strings(vnames)
	for i := range ops {
		for _, k := range vnames {
			ops[i].Vars = append(ops[i].Vars, g.vars[k])
		}
	}
	c.Doc.Ops = ops
	c.Doc.Frags = g.frags
	if c.Doc.Frags == nil {
		c.Doc.Frags = []Frag{}
	}
	switch g.pick(6) {
	case 0:
		c.Op = "Nope"
	case 1:
		c.Op = ""
	default:
		c.Op = ops[g.pick(len(ops))].Name
	}
	c.Vars = g.given
	// faults
	if g.pick(3) == 0 {
		var sites [][]string
		for _, id := range sortedNodeIDs(g.U) {
			for f := range g.U.Data[id] {
				sites = append(sites, []string{id, f})
			}
		}
		sort.Slice(sites, func(i, j int) bool { return sites[i][0]+sites[i][1] < sites[j][0]+sites[j][1] })
		for k := 0; k < 1+g.pick(2); k++ {
			c.Faults = append(c.Faults, sites[g.pick(len(sites))])
		}
	}
	return c
}

func sortedNodeIDs(u *Universe) []string {
	ids := make([]string, 0, len(u.Data))
	for id := range u.Data {
		ids = append(ids, id)
	}
	sort.Strings(ids)
	return ids
}
