// Package gq is the Go side of the execution-family specifications
// (spec/GQLCore.tla, Sem.tla, ExecUniverse.tla): the JSON shapes exchanged with
// TLC, renderers from abstract schemas/documents to SDL and request text, the
// realisations of a universe's data graph for the three resolver strategies,
// and the executor that runs a case on the real ggql code.
package gq

import (
	"encoding/json"
	"fmt"
	"sort"
	"strconv"
	"strings"
)

// Value is a tagged value [k |-> tag, v |-> payload] of GQLCore.tla.
type Value struct {
	K    string
	S    string           // str, enum, node, err, var, num, other
	I    int64            // int
	B    bool             // bool
	L    []Value          // list
	O    map[string]Value // obj
	Keys []string         // obj: key order as received (documents only)
	E    *Value           // each, opt: the shape of the members / of the value when it is not null
}

func Null() Value          { return Value{K: "null"} }
func Str(s string) Value   { return Value{K: "str", S: s} }
func Int(i int64) Value    { return Value{K: "int", I: i} }
func Bool(b bool) Value    { return Value{K: "bool", B: b} }
func List(l []Value) Value { return Value{K: "list", L: l} }
func Obj(o map[string]Value) Value {
	if o == nil {
		o = map[string]Value{}
	}
	return Value{K: "obj", O: o}
}

func (v Value) MarshalJSON() ([]byte, error) {
	var p interface{}
	switch v.K {
	case "null", "echo", "absent", "any", "subval":
		p = 0
	case "each", "opt":
		p = v.E
	case "errs", "errsn":
		p = v.I
	case "str", "enum", "node", "err", "errval", "var", "num", "other", "float":
		p = v.S
	case "int":
		p = v.I
	case "bool":
		p = v.B
	case "list":
		if v.L == nil {
			p = []Value{}
		} else {
			p = v.L
		}
	case "obj":
		if v.O == nil {
			p = map[string]Value{}
		} else {
			p = v.O
		}
	case "":
		return json.Marshal(map[string]interface{}{"k": "null", "v": 0}) // the zero Value is null
	default:
		return nil, fmt.Errorf("unknown value tag %q", v.K)
	}
	return json.Marshal(map[string]interface{}{"k": v.K, "v": p})
}

func (v *Value) UnmarshalJSON(b []byte) error {
	var raw struct {
		K string          `json:"k"`
		V json.RawMessage `json:"v"`
	}
	if err := json.Unmarshal(b, &raw); err != nil {
		return err
	}
	v.K = raw.K
	switch raw.K {
	case "null", "echo", "absent", "any", "subval":
	case "each", "opt":
		v.E = &Value{}
		return json.Unmarshal(raw.V, v.E)
	case "errs", "errsn":
		return json.Unmarshal(raw.V, &v.I)
	case "str", "enum", "node", "err", "errval", "var", "num", "other", "float":
		return json.Unmarshal(raw.V, &v.S)
	case "int":
		return json.Unmarshal(raw.V, &v.I)
	case "bool":
		return json.Unmarshal(raw.V, &v.B)
	case "list":
		return json.Unmarshal(raw.V, &v.L)
	case "obj":
		v.O = map[string]Value{}
		if len(raw.V) > 0 && raw.V[0] == '[' { // TLC prints the empty function as []
			return nil
		}
		return json.Unmarshal(raw.V, &v.O)
	default:
		return fmt.Errorf("unknown value tag %q", raw.K)
	}
	return nil
}

// Equal is structural equality of tagged values.
func (v Value) Equal(o Value) bool {
	if v.K != o.K {
		return false
	}
	switch v.K {
	case "str", "enum", "node", "err", "errval", "var", "num", "other", "float":
		return v.S == o.S
	case "int":
		return v.I == o.I
	case "bool":
		return v.B == o.B
	case "list":
		if len(v.L) != len(o.L) {
			return false
		}
		for i := range v.L {
			if !v.L[i].Equal(o.L[i]) {
				return false
			}
		}
	case "obj":
		if len(v.O) != len(o.O) {
			return false
		}
		for k, x := range v.O {
			y, ok := o.O[k]
			if !ok || !x.Equal(y) {
				return false
			}
		}
	}
	return true
}

// Matches: the value is what the (possibly partial) prescription v allows. "any" stands for any value that is there,
// "opt" for null or a value of the given shape, "each" for null or a list whose members are null or of the given shape.
func (v Value) Matches(act Value) bool {
	switch v.K {
	case "any":
		return act.K != "absent"
	case "opt":
		return act.K == "null" || v.E.Matches(act)
	case "each":
		if act.K == "null" {
			return true
		}
		if act.K != "list" {
			return false
		}
		for _, e := range act.L {
			if e.K != "null" && !v.E.Matches(e) {
				return false
			}
		}
		return true
	case "obj":
		if act.K != "obj" || len(v.O) != len(act.O) {
			return false
		}
		for k, x := range v.O {
			y, ok := act.O[k]
			if !ok || !x.Matches(y) {
				return false
			}
		}
		return true
	case "list":
		if act.K != "list" || len(v.L) != len(act.L) {
			return false
		}
		for i := range v.L {
			if !v.L[i].Matches(act.L[i]) {
				return false
			}
		}
		return true
	}
	return v.Equal(act)
}

func (v Value) String() string {
	b, _ := json.Marshal(v)
	return string(b)
}

// StrMap is a JSON object with string keys that TLC may print as [] when empty.
type ValMap map[string]Value

func (m *ValMap) UnmarshalJSON(b []byte) error {
	*m = ValMap{}
	if len(b) > 0 && b[0] == '[' {
		return nil
	}
	tmp := map[string]Value{}
	if err := json.Unmarshal(b, &tmp); err != nil {
		return err
	}
	*m = tmp
	return nil
}

func (m ValMap) MarshalJSON() ([]byte, error) {
	if m == nil {
		return []byte("{}"), nil
	}
	return json.Marshal(map[string]Value(m))
}

// TRef is a type reference: named | list | nonnull.
type TRef struct {
	K  string `json:"k"`
	N  string `json:"n,omitempty"`
	Of *TRef  `json:"of,omitempty"`
}

func (t *TRef) String() string {
	switch t.K {
	case "list":
		return "[" + t.Of.String() + "]"
	case "nonnull":
		return t.Of.String() + "!"
	}
	return t.N
}

func (t *TRef) Base() string {
	if t.K == "named" {
		return t.N
	}
	return t.Of.Base()
}

type ArgDef struct {
	N      string `json:"n"`
	Type   *TRef  `json:"type"`
	HasDef bool   `json:"hasDef"`
	Def    Value  `json:"def"`
}

type FieldDef struct {
	Type *TRef    `json:"type"`
	Args []ArgDef `json:"args"`
}

type FieldMap map[string]*FieldDef

func (m *FieldMap) UnmarshalJSON(b []byte) error {
	*m = FieldMap{}
	if len(b) > 0 && b[0] == '[' {
		return nil
	}
	tmp := map[string]*FieldDef{}
	if err := json.Unmarshal(b, &tmp); err != nil {
		return err
	}
	*m = tmp
	return nil
}

type TypeDef struct {
	Kind     string   `json:"kind"`
	Fields   FieldMap `json:"fields"`
	Ifaces   []string `json:"ifaces"`
	Members  []string `json:"members"`
	Values   []string `json:"values,omitempty"`   // enum
	InFields []ArgDef `json:"infields,omitempty"` // input object
}

type Universe struct {
	Types    map[string]*TypeDef `json:"types"`
	NodeType map[string]string   `json:"nodeType"`
	Data     map[string]ValMap   `json:"data"`
	Roots    map[string]string   `json:"roots"`
	Silent   []string            `json:"silent,omitempty"` // types read without resolver calls by reflection: their calls are never compared
}

// IsSilent reports whether the node's type is one whose resolver calls are not logged / compared.
func (u *Universe) IsSilent(node string) bool {
	for _, s := range u.Silent {
		if u.NodeType[node] == s {
			return true
		}
	}
	return false
}

// DropSilent removes the calls on silent nodes from a prescribed call sequence.
func (u *Universe) DropSilent(calls []Call) []Call {
	if len(u.Silent) == 0 {
		return calls
	}
	out := calls[:0:0]
	for _, c := range calls {
		if !u.IsSilent(c.Node) {
			out = append(out, c)
		}
	}
	return out
}

func touchesSilent(u *Universe, v Value) bool {
	switch v.K {
	case "node":
		return u.IsSilent(v.S)
	case "list":
		for _, e := range v.L {
			if touchesSilent(u, e) {
				return true
			}
		}
	}
	return false
}

// WithoutSilent is the universe the random document generator draws from: without the silent types and
// without the fields that lead to their nodes (the judge prescribes calls for them that are never logged).
func (u *Universe) WithoutSilent() *Universe {
	if len(u.Silent) == 0 {
		return u
	}
	silent := map[string]bool{}
	for _, s := range u.Silent {
		silent[s] = true
	}
	out := &Universe{Types: map[string]*TypeDef{}, NodeType: u.NodeType, Data: u.Data, Roots: u.Roots}
	for tn, td := range u.Types {
		if silent[tn] {
			continue
		}
		cp := *td
		cp.Fields = FieldMap{}
		for fn, fd := range td.Fields {
			drop := silent[fd.Type.Base()]
			for node, nt := range u.NodeType {
				if nt == tn && touchesSilent(u, u.Data[node][fn]) {
					drop = true
				}
			}
			if !drop {
				cp.Fields[fn] = fd
			}
		}
		cp.Members = nil
		for _, m := range td.Members {
			if !silent[m] {
				cp.Members = append(cp.Members, m)
			}
		}
		out.Types[tn] = &cp
	}
	return out
}

// ---------------------------------------------------------------- documents

type Arg struct {
	N string `json:"n"`
	V Value  `json:"v"`
}

type Dir struct {
	N string `json:"n"`
	V Value  `json:"v"`
}

type Sel struct {
	K     string `json:"k"`
	Alias string `json:"alias"`
	Name  string `json:"name"`
	Args  []Arg  `json:"args"`
	Dirs  []Dir  `json:"dirs"`
	Sels  []Sel  `json:"sels"`
	Cond  string `json:"cond"`
	Bad   string `json:"bad"` // injected defect (C10): unknown_dir | misplaced_dir | dir_unknown_arg | dir_bad_arg
	// harness-only decorations (never sent to TLC)
	RawArgs string `json:"rawArgs,omitempty"` // literal argument text, for defect injection
	RawDirs string `json:"rawDirs,omitempty"`
}

type VarDef struct {
	N      string `json:"n"`
	T      *TRef  `json:"t"`
	HasDef bool   `json:"hasDef"`
	Def    Value  `json:"def"`
}

type Op struct {
	Name string   `json:"name"`
	Type string   `json:"type"`
	Vars []VarDef `json:"vars"`
	Sels []Sel    `json:"sels"`
}

type Frag struct {
	Name string `json:"name"`
	Cond string `json:"cond"`
	Sels []Sel  `json:"sels"`
	Bad  string `json:"bad"` // injected defect (C10): a directive on the definition
}

type Doc struct {
	Ops   []Op   `json:"ops"`
	Frags []Frag `json:"frags"`
}

// Normalize replaces nil slices by empty ones everywhere (TLC's JSON reader rejects null).
func (doc *Doc) Normalize() {
	var fix func(sels []Sel) []Sel
	fix = func(sels []Sel) []Sel {
		if sels == nil {
			return []Sel{}
		}
		for i := range sels {
			if sels[i].Args == nil {
				sels[i].Args = []Arg{}
			}
			if sels[i].Dirs == nil {
				sels[i].Dirs = []Dir{}
			}
			sels[i].Sels = fix(sels[i].Sels)
		}
		return sels
	}
	for i := range doc.Ops {
		if doc.Ops[i].Vars == nil {
			doc.Ops[i].Vars = []VarDef{}
		}
		doc.Ops[i].Sels = fix(doc.Ops[i].Sels)
	}
	if doc.Frags == nil {
		doc.Frags = []Frag{}
	}
	for i := range doc.Frags {
		doc.Frags[i].Sels = fix(doc.Frags[i].Sels)
	}
}

// ------------------------------------------------------------------ results

type ErrRec struct {
	Path  []string `json:"path"`
	Class string   `json:"class"`
	Name  string   `json:"name"`
	Msg   string   `json:"msg,omitempty"` // actual side only
}

type Call struct {
	Node  string `json:"node"`
	Field string `json:"field"`
	Args  ValMap `json:"args"`
	Via   string `json:"via,omitempty"` // actual side: which strategy served the call
}

// MixSpec assigns a kind to every node of a mixed graph (C02).
type MixSpec struct {
	Assign map[string]string `json:"assign"`
	Any    bool              `json:"any"`
}

type Response struct {
	HasData bool     `json:"hasData"`
	Data    Value    `json:"data"`
	Errs    []ErrRec `json:"errs"`
	Calls   []Call   `json:"calls"`
}

// Case is one element of a document family (ExecGen.tla) with the expected
// responses computed by TLC.
type Case struct {
	Fam    string     `json:"fam"`
	Doc    Doc        `json:"doc"`
	Op     string     `json:"op"`
	Vars   ValMap     `json:"vars"`
	Faults [][]string `json:"faults"`
	Exp    *Response  `json:"exp,omitempty"`
	ExpK   *Response  `json:"expK,omitempty"`
	KDevs  []string   `json:"kdevs,omitempty"` // known deviations that change this case
	Mix    *MixSpec   `json:"mix,omitempty"`
	Via    []string   `json:"via,omitempty"` // mixed graphs: strategy that must serve each expected call
}

// ---------------------------------------------------------------- rendering

// SDL renders the universe's schema.
func (u *Universe) SDL() string {
	names := make([]string, 0, len(u.Types))
	for n := range u.Types {
		names = append(names, n)
	}
	sort.Strings(names)
	var b strings.Builder
	for _, n := range names {
		t := u.Types[n]
		switch t.Kind {
		case "OBJECT", "INTERFACE":
			if t.Kind == "OBJECT" {
				b.WriteString("type " + n)
				if len(t.Ifaces) > 0 {
					b.WriteString(" implements " + strings.Join(t.Ifaces, " & "))
				}
			} else {
				b.WriteString("interface " + n)
			}
			b.WriteString(" {\n")
			fns := make([]string, 0, len(t.Fields))
			for f := range t.Fields {
				fns = append(fns, f)
			}
			sort.Strings(fns)
			for _, f := range fns {
				fd := t.Fields[f]
				b.WriteString("  " + f)
				if len(fd.Args) > 0 {
					var as []string
					for _, a := range fd.Args {
						as = append(as, a.N+": "+a.Type.String())
					}
					b.WriteString("(" + strings.Join(as, ", ") + ")")
				}
				b.WriteString(": " + fd.Type.String() + "\n")
			}
			b.WriteString("}\n")
		case "UNION":
			b.WriteString("union " + n + " = " + strings.Join(t.Members, " | ") + "\n")
		case "ENUM":
			b.WriteString("enum " + n + " { " + strings.Join(t.Values, " ") + " }\n")
		case "INPUT_OBJECT":
			b.WriteString("input " + n + " {\n")
			for _, f := range t.InFields {
				b.WriteString("  " + f.N + ": " + f.Type.String())
				if f.HasDef {
					b.WriteString(" = " + Lit(f.Def))
				}
				b.WriteString("\n")
			}
			b.WriteString("}\n")
		}
	}
	// the roots are named by a schema block when they are not the types called Query / Mutation
	if qn, ok := u.Roots["query"]; ok && u.NodeType[qn] != "Query" {
		b.WriteString("schema {\n  query: " + u.NodeType[qn] + "\n")
		if mn, ok := u.Roots["mutation"]; ok {
			b.WriteString("  mutation: " + u.NodeType[mn] + "\n")
		}
		b.WriteString("}\n")
	}
	return b.String()
}

// Lit renders a value as a GraphQL literal.
func Lit(v Value) string {
	switch v.K {
	case "null":
		return "null"
	case "str":
		return strconv.Quote(v.S)
	case "int":
		return strconv.FormatInt(v.I, 10)
	case "bool":
		if v.B {
			return "true"
		}
		return "false"
	case "enum", "num", "float":
		return v.S
	case "var":
		return "$" + v.S
	case "list":
		var parts []string
		for _, e := range v.L {
			parts = append(parts, Lit(e))
		}
		return "[" + strings.Join(parts, ", ") + "]"
	case "obj":
		keys := v.Keys
		if keys == nil {
			for k := range v.O {
				keys = append(keys, k)
			}
			sort.Strings(keys)
		}
		var parts []string
		for _, k := range keys {
			parts = append(parts, k+": "+Lit(v.O[k]))
		}
		return "{" + strings.Join(parts, ", ") + "}"
	}
	return "null"
}

// Layout selects how a document is written out: the separator between
// selections and the indentation.
type Layout struct {
	Sep    string // between selections
	Open   string // after {
	Indent bool
	Comma  bool
	// TokenNL: every token on a line of its own (a name is then the last thing on its line, whatever follows it)
	TokenNL bool
}

var Layouts = []Layout{
	{Sep: " ", Open: " "},
	{Sep: "\n", Open: "\n", Indent: true},
	{Sep: ",\n", Open: "\n", Indent: true, Comma: true},
	{Sep: "\r\n", Open: "\r\n", Indent: true},
	{Sep: " # c\n", Open: " # open\n", Indent: true},
	{TokenNL: true},
}

// TokenPerLine puts every token of a document on a line of its own. "$name", "@name" and "..." stay in one piece,
// string literals are kept as they are.
func TokenPerLine(text string) string {
	var toks []string
	isName := func(c byte) bool {
		return c == '_' || c == '.' || c == '-' || c == '+' || ('0' <= c && c <= '9') || ('a' <= c && c <= 'z') || ('A' <= c && c <= 'Z')
	}
	for i := 0; i < len(text); {
		c := text[i]
		switch {
		case c == ' ' || c == '\t' || c == '\n' || c == '\r' || c == ',':
			i++
		case c == '#':
			for i < len(text) && text[i] != '\n' {
				i++
			}
		case c == '"':
			j := i + 1
			for j < len(text) && text[j] != '"' {
				if text[j] == '\\' {
					j++
				}
				j++
			}
			if j < len(text) {
				j++
			}
			toks = append(toks, text[i:j])
			i = j
		case strings.HasPrefix(text[i:], "..."):
			toks = append(toks, "...")
			i += 3
		case c == '$' || c == '@' || isName(c):
			j := i + 1
			for j < len(text) && isName(text[j]) {
				j++
			}
			toks = append(toks, text[i:j])
			i = j
		default:
			toks = append(toks, string(c))
			i++
		}
	}
	return strings.Join(toks, "\n") + "\n"
}

type renderer struct {
	b  strings.Builder
	lo Layout
}

func (r *renderer) ind(d int) {
	if r.lo.Indent {
		r.b.WriteString(strings.Repeat("  ", d))
	}
}

// BadLines returns the lines (1-based) of the rendered text on which an injected defect (an unknown / misplaced /
// ill-formed directive use) stands; empty when the text holds none.
func BadLines(text string) []int {
	var out []int
	for ln, line := range strings.Split(text, "\n") {
		for _, bt := range badText {
			if strings.Contains(line, strings.TrimSpace(bt)) {
				out = append(out, ln+1)
				break
			}
		}
	}
	return out
}

var badText = map[string]string{
	"unknown_dir":     " @nope",
	"misplaced_dir":   " @deprecated",
	"dir_unknown_arg": " @skip(unless: true)",
	"dir_bad_arg":     " @skip(if: \"yes\")",
	"dir_missing_arg": " @skip",
}

func (r *renderer) dirs(ds []Dir, raw string, bad string) {
	for _, d := range ds {
		r.b.WriteString(" @" + d.N + "(if: " + Lit(d.V) + ")")
	}
	r.b.WriteString(raw)
	r.b.WriteString(badText[bad])
}

func (r *renderer) sels(sels []Sel, d int) {
	r.b.WriteString("{" + r.lo.Open)
	for i, s := range sels {
		r.ind(d + 1)
		switch s.K {
		case "field":
			if s.Alias != "" {
				r.b.WriteString(s.Alias + ": ")
			}
			r.b.WriteString(s.Name)
			if len(s.Args) > 0 || s.RawArgs != "" {
				var as []string
				for _, a := range s.Args {
					as = append(as, a.N+": "+Lit(a.V))
				}
				if s.RawArgs != "" {
					as = append(as, s.RawArgs)
				}
				r.b.WriteString("(" + strings.Join(as, ", ") + ")")
			}
			r.dirs(s.Dirs, s.RawDirs, s.Bad)
			if len(s.Sels) > 0 {
				r.b.WriteString(" ")
				r.sels(s.Sels, d+1)
			}
		case "inline":
			r.b.WriteString("...")
			if s.Cond != "" {
				r.b.WriteString(" on " + s.Cond)
			}
			r.dirs(s.Dirs, s.RawDirs, s.Bad)
			r.b.WriteString(" ")
			r.sels(s.Sels, d+1)
		case "spread":
			r.b.WriteString("..." + s.Name)
			r.dirs(s.Dirs, s.RawDirs, s.Bad)
		}
		if i < len(sels)-1 {
			r.b.WriteString(r.lo.Sep)
		} else {
			r.b.WriteString(r.lo.Open)
		}
	}
	r.ind(d)
	r.b.WriteString("}")
}

// Text renders the document in the given layout.
func (doc *Doc) Text(lo Layout) string {
	if lo.TokenNL {
		return TokenPerLine(doc.Text(Layouts[0]))
	}
	r := &renderer{lo: lo}
	for i, op := range doc.Ops {
		if i > 0 {
			r.b.WriteString(lo.Open)
		}
		anon := op.Name == "" && op.Type == "query" && len(op.Vars) == 0
		if !anon {
			r.b.WriteString(op.Type)
			if op.Name != "" {
				r.b.WriteString(" " + op.Name)
			}
			if len(op.Vars) > 0 {
				var vs []string
				for _, vd := range op.Vars {
					s := "$" + vd.N + ": " + vd.T.String()
					if vd.HasDef {
						s += " = " + Lit(vd.Def)
					}
					vs = append(vs, s)
				}
				r.b.WriteString("(" + strings.Join(vs, ", ") + ")")
			}
			r.b.WriteString(" ")
		}
		r.sels(op.Sels, 0)
	}
	for _, f := range doc.Frags {
		r.b.WriteString(lo.Open + "fragment " + f.Name + " on " + f.Cond + badText[f.Bad] + " ")
		r.sels(f.Sels, 0)
	}
	r.b.WriteString(lo.Open)
	return r.b.String()
}
