// Package refluni is the reflection realisation of the universe U-exec
// (spec/ExecUniverse.tla): Go types named exactly like the GraphQL object
// types, every field a method so that calls are logged and failures can be
// injected.  The data itself still comes from the universe exported by TLC;
// only the shape (type names, method signatures) is written here, because
// reflect.StructOf cannot create methods.
package refluni

// Backend produces the universe's value for (node, field) and logs the call.
type Backend interface {
	ReflResolve(node, field string, args map[string]interface{}) (interface{}, error)
}

type Schema struct{ B Backend }

func (s *Schema) Query() (interface{}, error)    { return s.B.ReflResolve("$root", "query", nil) }
func (s *Schema) Mutation() (interface{}, error) { return s.B.ReflResolve("$root", "mutation", nil) }

type Query struct {
	B  Backend
	ID string
}

func (q *Query) r(f string, a map[string]interface{}) (interface{}, error) {
	return q.B.ReflResolve(q.ID, f, a)
}
func (q *Query) Title() (interface{}, error)  { return q.r("title", nil) }
func (q *Query) Me() (interface{}, error)     { return q.r("me", nil) }
func (q *Query) Mes() (interface{}, error)    { return q.r("mes", nil) }
func (q *Query) A() (interface{}, error)      { return q.r("a", nil) }
func (q *Query) Nul() (interface{}, error)    { return q.r("nul", nil) }
func (q *Query) Items() (interface{}, error)  { return q.r("items", nil) }
func (q *Query) Named() (interface{}, error)  { return q.r("named", nil) }
func (q *Query) Any() (interface{}, error)    { return q.r("any", nil) }
func (q *Query) One() (interface{}, error)    { return q.r("one", nil) }
func (q *Query) Grid() (interface{}, error)   { return q.r("grid", nil) }
func (q *Query) Matrix() (interface{}, error) { return q.r("matrix", nil) }
func (q *Query) Bad() (interface{}, error)    { return q.r("bad", nil) }
func (q *Query) Echo(s string, b bool, i int32) (interface{}, error) {
	return q.r("echo", map[string]interface{}{"s": s, "b": b, "i": i})
}
func (q *Query) Need(x string) (interface{}, error) {
	return q.r("need", map[string]interface{}{"x": x})
}
func (q *Query) Need2(x string, o string) (interface{}, error) {
	return q.r("need2", map[string]interface{}{"x": x, "o": o})
}
func (q *Query) Obj(in map[string]interface{}, l []interface{}, ins []interface{}, ll []interface{}) (interface{}, error) {
	return q.r("obj", map[string]interface{}{"in": in, "l": l, "ins": ins, "ll": ll})
}

func (q *Query) Ids(v []interface{}, w string) (interface{}, error) {
	return q.r("ids", map[string]interface{}{"v": v, "w": w})
}

type Mutation struct {
	B  Backend
	ID string
}

func (m *Mutation) Set(s string) (interface{}, error) {
	return m.B.ReflResolve(m.ID, "set", map[string]interface{}{"s": s})
}
func (m *Mutation) A() (interface{}, error)    { return m.B.ReflResolve(m.ID, "a", nil) }
func (m *Mutation) Leak() (interface{}, error) { return m.B.ReflResolve(m.ID, "leak", nil) }

type A struct {
	B  Backend
	ID string
}

func (a *A) r(f string, m map[string]interface{}) (interface{}, error) {
	return a.B.ReflResolve(a.ID, f, m)
}
func (a *A) Name() (interface{}, error)  { return a.r("name", nil) }
func (a *A) N() (interface{}, error)     { return a.r("n", nil) }
func (a *A) Peer() (interface{}, error)  { return a.r("peer", nil) }
func (a *A) Self() (interface{}, error)  { return a.r("self", nil) }
func (a *A) Kids() (interface{}, error)  { return a.r("kids", nil) }
func (a *A) Boom() (interface{}, error)  { return a.r("boom", nil) }
func (a *A) Many() (interface{}, error)  { return a.r("many", nil) }
func (a *A) Half() (interface{}, error)  { return a.r("half", nil) }
func (a *A) Nest() (interface{}, error)  { return a.r("nest", nil) }
func (a *A) Wrong() (interface{}, error) { return a.r("wrong", nil) }
func (a *A) Flags() (interface{}, error) { return a.r("flags", nil) }
func (a *A) Tag(s string) (interface{}, error) {
	return a.r("tag", map[string]interface{}{"s": s})
}

type B struct {
	B  Backend
	ID string
}

func (b *B) Name() (interface{}, error) { return b.B.ReflResolve(b.ID, "name", nil) }
func (b *B) Flag() (interface{}, error) { return b.B.ReflResolve(b.ID, "flag", nil) }
func (b *B) Peer() (interface{}, error) { return b.B.ReflResolve(b.ID, "peer", nil) }

type C struct {
	B  Backend
	ID string
}

func (c *C) Only() (interface{}, error) { return c.B.ReflResolve(c.ID, "only", nil) }

// P is realised by exported struct FIELDS (no methods, no resolver calls): the reflection path that reads a
// Go field by name.  It is met as a value (Query.pv) and through a pointer (Query.pp, Query.ps).
type P struct {
	*PAudit // Stamp is promoted through the pointer
	PBase   // Rank is promoted from the value
	Name    string
	Peer    interface{}
	Say     string
	N       int
	Note    string // (the GraphQL field declares a required argument; a struct field takes none)
	id      string
	code    string
}

type PAudit struct{ Stamp string }
type PBase struct{ Rank int }

// Code has a pointer receiver: the value form of P does not have it in its method set.
func (p *P) Code() string { return p.code }

func (p *P) NodeID() string { return p.id }

func newP(b Backend, id string) P {
	p := P{id: id}
	if id == "" {
		return p
	}
	if v, _ := b.ReflResolve(id, "name", nil); v != nil {
		p.Name, _ = v.(string)
	}
	if v, _ := b.ReflResolve(id, "say", nil); v != nil {
		p.Say, _ = v.(string)
	}
	if v, _ := b.ReflResolve(id, "n", nil); v != nil {
		p.N, _ = v.(int)
	}
	p.PAudit = &PAudit{}
	if v, _ := b.ReflResolve(id, "stamp", nil); v != nil {
		p.Stamp, _ = v.(string)
	}
	if v, _ := b.ReflResolve(id, "rank", nil); v != nil {
		p.Rank, _ = v.(int)
	}
	if v, _ := b.ReflResolve(id, "code", nil); v != nil {
		p.code, _ = v.(string)
	}
	if v, _ := b.ReflResolve(id, "note", nil); v != nil {
		p.Note, _ = v.(string)
	}
	return p
}

// XP has a method Code of its own that gives a stale answer and a field Code2 with the right one: a root that met XP
// unbound binds the GraphQL field code to the method; RegisterField then binds it to the field, which counts from then on.
type XP struct {
	P
	Code2 string
	// Say shadows the promoted P.Say and holds a stale text; Say2 holds the right one: reflection finds Say by name,
	// RegisterField binds the GraphQL field say to Say2
	Say  string
	Say2 string
}

func (x *XP) Code() string {
	if m := Marker; m != nil {
		m()
	}
	return "stale: the method bound before RegisterField"
}

// Stranger is a Go type no GraphQL type is bound to: an application hands a value of it out where an A is declared (a
// second Go type behind one GraphQL type).  It has some of A's methods.
type Stranger struct{ ID string }

func (s *Stranger) Name() string      { return "stranger" }
func (s *Stranger) N() int            { return 0 }
func (s *Stranger) NodeID() string    { return s.ID }
func (s *Stranger) Self() *Stranger   { return s }
func (s *Stranger) Kids() []*Stranger { return []*Stranger{s} }

// Marker, when set, is called by XP.Code: a request that selects code right before another field of P says so just
// before it gets to that field.
var Marker func()

// XA, XB and XC are Go types whose names differ from the GraphQL type names (no binding by name):
// they are bound by Root.RegisterType only, possibly AFTER requests have met them unbound.
type XA struct{ A }
type XB struct{ B }
type XC struct{ C }

// NewAlt is New with the differently named Go types for A, B and C.
func NewAlt(b Backend, typeName, id string) interface{} {
	switch typeName {
	case "A":
		return &XA{A{B: b, ID: id}}
	case "B":
		return &XB{B{B: b, ID: id}}
	case "C":
		return &XC{C{B: b, ID: id}}
	case "P":
		p := newP(b, id)
		return &XP{P: p, Code2: p.code, Say: "stale: the struct field found by name", Say2: p.Say}
	}
	return New(b, typeName, id)
}

// Node is a non-empty Go interface all node types satisfy: a []Node is a typed slice whose members
// can still have different Go types (unlike []*A) - and is not []interface{} either.
type Node interface{ NodeID() string }

func (a *A) NodeID() string { return a.ID }
func (b *B) NodeID() string { return b.ID }
func (c *C) NodeID() string { return c.ID }

// New returns the Go object for a node of the given GraphQL type.
func New(b Backend, typeName, id string) interface{} {
	switch typeName {
	case "Query":
		return &Query{B: b, ID: id}
	case "Mutation":
		return &Mutation{B: b, ID: id}
	case "A":
		return &A{B: b, ID: id}
	case "B":
		return &B{B: b, ID: id}
	case "C":
		return &C{B: b, ID: id}
	case "P":
		p := newP(b, id)
		return &p
	}
	return nil
}

// the implementors of Named add optional arguments of their own to the interface's field say
func (a *A) Say(mood int32) (interface{}, error) {
	return a.r("say", map[string]interface{}{"mood": int(mood)})
}
func (b *B) Say(loud bool) (interface{}, error) {
	return b.B.ReflResolve(b.ID, "say", map[string]interface{}{"loud": loud})
}

func (q *Query) Odd() (interface{}, error)  { return q.r("odd", nil) }
func (q *Query) Odds() (interface{}, error) { return q.r("odds", nil) }
func (q *Query) Pv() (interface{}, error)   { return q.r("pv", nil) }
func (q *Query) Pp() (interface{}, error)   { return q.r("pp", nil) }
func (q *Query) Ps() (interface{}, error)   { return q.r("ps", nil) }

// NilOf is a nil pointer of the Go type that realises the GraphQL type (for an interface or union one of its members).
func NilOf(typeName string) interface{} {
	switch typeName {
	case "B":
		return (*B)(nil)
	case "C":
		return (*C)(nil)
	case "P":
		return (*P)(nil)
	case "Query":
		return (*Query)(nil)
	case "Mutation":
		return (*Mutation)(nil)
	}
	return (*A)(nil)
}
