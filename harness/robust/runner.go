package robust

import (
	"bufio"
	"bytes"
	"encoding/json"
	"fmt"
	"io"
	"os"
	"os/exec"
	"strconv"
	"strings"
	"sync"
	"syscall"
	"time"
)

// Runner feeds cases to isolated worker processes (the same binary in worker
// mode).  A worker that dies or does not answer within Timeout is replaced and
// the case it was working on gets the finding.
type Runner struct {
	Self     string // path of the binary
	UniPath  string // universe file handed to the workers
	Timeout  time.Duration
	Shards   int
	MaxStack int
	Restarts int // number of workers started beyond the first of each shard
	mu       sync.Mutex
}

// Result is what is known about one case after the run.
type Result struct {
	Done
	Ran bool
}

type lockedBuf struct {
	mu sync.Mutex
	b  bytes.Buffer
}

func (l *lockedBuf) Write(p []byte) (int, error) {
	l.mu.Lock()
	defer l.mu.Unlock()
	if l.b.Len() < 4<<20 {
		l.b.Write(p)
	}
	return len(p), nil
}

func (l *lockedBuf) String() string {
	l.mu.Lock()
	defer l.mu.Unlock()
	return l.b.String()
}

type proc struct {
	cmd    *exec.Cmd
	stdin  io.WriteCloser
	stdout *bufio.Reader
	stderr *lockedBuf
}

func (r *Runner) start(verbose bool) (*proc, error) {
	args := []string{"worker", "-universe", r.UniPath, "-maxstack", strconv.Itoa(r.MaxStack)}
	if verbose {
		args = append(args, "-verbose")
	}
	cmd := exec.Command(r.Self, args...)
	cmd.Env = append(os.Environ(), "GOTRACEBACK=all", "GOMAXPROCS=2")
	in, err := cmd.StdinPipe()
	if err != nil {
		return nil, err
	}
	out, err := cmd.StdoutPipe()
	if err != nil {
		return nil, err
	}
	eb := &lockedBuf{}
	cmd.Stderr = eb
	if err = cmd.Start(); err != nil {
		return nil, err
	}
	return &proc{cmd: cmd, stdin: in, stdout: bufio.NewReaderSize(out, 1<<20), stderr: eb}, nil
}

// session runs one worker over cases[from:], returns the index after the last case
// that got a result (a report or a finding) and whether the worker ended normally.
func (r *Runner) session(cases []Case, from int, res []Result, verbose bool) (next int, err error) {
	p, err := r.start(verbose)
	if err != nil {
		return from, err
	}
	go func() {
		w := bufio.NewWriterSize(p.stdin, 1<<16)
		enc := json.NewEncoder(w)
		for i := from; i < len(cases); i++ {
			if enc.Encode(&cases[i]) != nil {
				break
			}
		}
		_ = w.Flush()
		_ = p.stdin.Close()
	}()
	var mu sync.Mutex
	cur := -1 // position in cases of the case being worked on
	var t0 time.Time
	step := ""
	hung := false
	stop := make(chan struct{})
	go func() { // watchdog
		tk := time.NewTicker(50 * time.Millisecond)
		defer tk.Stop()
		for {
			select {
			case <-stop:
				return
			case <-tk.C:
				mu.Lock()
				late := cur >= 0 && time.Since(t0) > r.Timeout && !hung
				if late {
					hung = true
				}
				mu.Unlock()
				if late {
					for k := 0; k < 3; k++ {
						_ = p.cmd.Process.Signal(syscall.SIGUSR1)
						time.Sleep(150 * time.Millisecond)
					}
					_ = p.cmd.Process.Kill()
					return
				}
			}
		}
	}()
	pos := from
	next = from
	for {
		line, rerr := p.stdout.ReadString('\n')
		if rerr != nil {
			break
		}
		line = strings.TrimRight(line, "\n")
		switch {
		case strings.HasPrefix(line, "S "):
			mu.Lock()
			cur = pos
			t0 = time.Now()
			step = ""
			mu.Unlock()
		case strings.HasPrefix(line, "T "):
			mu.Lock()
			step = line[2:]
			mu.Unlock()
		case strings.HasPrefix(line, "D "):
			rest := line[2:]
			sp := strings.IndexByte(rest, ' ')
			id, _ := strconv.Atoi(rest[:sp])
			if pos >= len(cases) || cases[pos].I != id {
				close(stop)
				_ = p.cmd.Process.Kill()
				_ = p.cmd.Wait()
				return next, fmt.Errorf("worker answered case %d while case at position %d was expected", id, pos)
			}
			var d Done
			if jerr := json.Unmarshal([]byte(rest[sp+1:]), &d); jerr != nil {
				close(stop)
				_ = p.cmd.Process.Kill()
				_ = p.cmd.Wait()
				return next, fmt.Errorf("bad report line from worker: %s", trunc(line, 200))
			}
			mu.Lock()
			res[pos] = Result{Done: d, Ran: true}
			cur = -1
			pos++
			next = pos
			mu.Unlock()
		}
	}
	close(stop)
	_ = p.cmd.Wait()
	mu.Lock()
	defer mu.Unlock()
	if cur < 0 {
		if pos >= len(cases) || (hung && next > from) {
			// (a case that answered just after the time bound: the worker was killed anyway)
			return pos, nil
		}
		return next, fmt.Errorf("worker died between cases (position %d of %d): %s", pos, len(cases), tail(p.stderr.String(), 1500))
	}
	errText := p.stderr.String()
	var fd Finding
	if hung {
		var dumps []string
		for _, part := range strings.Split(errText, "@@DUMP")[1:] {
			if i := strings.Index(part, "@@END"); i >= 0 {
				part = part[:i]
			}
			dumps = append(dumps, part)
		}
		fd = ClassifyHang(dumps, step)
	} else {
		fd = ClassifyDeath(errText, step)
	}
	res[cur] = Result{Done: Done{Findings: []Finding{fd}}, Ran: true}
	return cur + 1, nil
}

// Run executes all cases; cases are spread over Shards workers.
func (r *Runner) Run(cases []Case) ([]Result, error) {
	n := r.Shards
	if n < 1 {
		n = 1
	}
	shards := make([][]Case, n)
	idx := make([][]int, n)
	for i, c := range cases {
		shards[i%n] = append(shards[i%n], c)
		idx[i%n] = append(idx[i%n], i)
	}
	out := make([]Result, len(cases))
	errs := make([]error, n)
	var wg sync.WaitGroup
	for s := 0; s < n; s++ {
		wg.Add(1)
		go func(s int) {
			defer wg.Done()
			sub := shards[s]
			res := make([]Result, len(sub))
			pos := 0
			first := true
			for pos < len(sub) {
				if !first {
					r.mu.Lock()
					r.Restarts++
					r.mu.Unlock()
				}
				first = false
				next, err := r.session(sub, pos, res, false)
				if err != nil {
					errs[s] = err
					return
				}
				if next <= pos {
					errs[s] = fmt.Errorf("worker made no progress at position %d", pos)
					return
				}
				pos = next
			}
			for k, rr := range res {
				out[idx[s][k]] = rr
			}
		}(s)
	}
	wg.Wait()
	for _, e := range errs {
		if e != nil {
			return out, e
		}
	}
	return out, nil
}

// Alone runs one case in a fresh worker that announces every step: the finding, if any,
// carries the entry point that was running.
func (r *Runner) Alone(c Case) (Result, error) {
	res := make([]Result, 1)
	// a generous bound: on a busy machine a case can miss the bound of the bulk run; a real hang misses any bound
	r2 := *r
	r2.Timeout = 5 * r.Timeout
	_, err := r2.session([]Case{c}, 0, res, true)
	return res[0], err
}
