// Package robust is the Go side of spec/DocGen.tla (property C03): the JSON
// shapes exchanged with TLC, the rendering of token strings to bytes, the
// worker that exercises every public entry point of ggql on one input and the
// isolating runner that feeds workers, survives their death and attributes a
// panic, a fatal runtime error or a hang to the case (and entry point) that
// caused it.
package robust

import (
	"encoding/hex"
	"fmt"
	"sort"
	"strings"

	"verifharness/gq"
)

// Vector is one case enumerated by TLC (MCDocGen.tla).
type Vector struct {
	Fam   string   `json:"fam"`
	Lang  string   `json:"lang"` // sdl | exe | val
	Toks  []string `json:"toks"`
	Sep   string   `json:"sep"`  // "" = every layout of the universe, else the name of one layout
	Vn    []string `json:"vn"`   // variable names the variable maps range over
	Vd    int      `json:"vd"`   // depth bound of the JSON-shaped values in the variable maps
	Cls   string   `json:"cls"`  // valid | mutated | raw
	Exp   string   `json:"exp"`  // always "returns"
	Unit  []string `json:"unit"` // family deep: after the tokens, this unit is written Rep times
	Rep   int      `json:"rep"`
	Allow []string `json:"allow"` // deviations (DocGen!Allowed under the known deviations) whose sites are admitted besides "returns"
}

// Universe is the "@@UNI" export of MCDocGen.tla.
type Universe struct {
	Raw      map[string][]int      `json:"raw"`      // token code -> bytes, for the tokens that are not written as their code
	Seps     map[string][]int      `json:"seps"`     // layout name -> separator bytes
	Layouts  []string              `json:"layouts"`  // layouts used when a vector names none
	JSONVals map[string][]gq.Value `json:"jsonvals"` // depth -> JSON-shaped values
	Grammar  map[string]Grammar    `json:"grammar"`  // language -> productions
	Start    map[string]string     `json:"start"`    // language -> start symbol
	Alpha    map[string][]string   `json:"alpha"`    // language -> full alphabet
	MutToks  map[string][]string   `json:"muttoks"`  // language -> tokens used by Insert/Replace
	DevSites map[string][]string   `json:"devsites"` // deviation name -> the sites it explains
	Exec     gq.Universe           `json:"exec"`     // U-exec (spec/ExecUniverse.tla)
}

// Grammar maps a nonterminal to its alternatives.
type Grammar map[string][][]string

// Bytes renders a token string: tokens written as their code unless the universe
// gives raw bytes for them, joined by the separator of the layout.
func (u *Universe) Bytes(toks []string, layout string) []byte {
	sep := ints(u.Seps[layout])
	var b []byte
	for i, t := range toks {
		if i > 0 {
			b = append(b, sep...)
		}
		if r, ok := u.Raw[t]; ok {
			b = append(b, ints(r)...)
		} else {
			b = append(b, t...)
		}
	}
	return b
}

func ints(x []int) []byte {
	b := make([]byte, len(x))
	for i, v := range x {
		b[i] = byte(v)
	}
	return b
}

// VarMaps is DocGen!VarMaps(vn, d): no map, the empty map, every map giving one
// of the variables one JSON-shaped value of depth <= d, and every map giving all
// of them the same value.
func (u *Universe) VarMaps(vn []string, d int) []map[string]interface{} {
	out := []map[string]interface{}{nil, {}}
	if len(vn) == 0 {
		return out
	}
	vals := u.JSONVals[fmt.Sprint(d)]
	names := append([]string{}, vn...)
	sort.Strings(names)
	for _, v := range vals {
		for _, n := range names {
			out = append(out, map[string]interface{}{n: JSONGo(v)})
		}
		if len(names) > 1 {
			m := map[string]interface{}{}
			for _, n := range names {
				m[n] = JSONGo(v)
			}
			out = append(out, m)
		}
	}
	return out
}

// JSONGo converts a tagged value to what a JSON decoder would hand to
// ResolveExecutable (numbers as float64 or int, as both occur in practice:
// encoding/json gives float64, ggql's own value parser gives int64).
func JSONGo(v gq.Value) interface{} {
	switch v.K {
	case "null":
		return nil
	case "str", "enum":
		return v.S
	case "int":
		return int(v.I)
	case "float":
		var f float64
		_, _ = fmt.Sscan(v.S, &f)
		return f
	case "bool":
		return v.B
	case "list":
		l := make([]interface{}, 0, len(v.L))
		for _, e := range v.L {
			l = append(l, JSONGo(e))
		}
		return l
	case "obj":
		m := map[string]interface{}{}
		for k, e := range v.O {
			m[k] = JSONGo(e)
		}
		return m
	}
	return nil
}

// Case is what the runner sends to a worker: one input and how hard to try.
type Case struct {
	I     int      `json:"i"`
	Vec   int      `json:"v"` // index of the vector it renders
	Lang  string   `json:"l"`
	Hex   string   `json:"x"`
	Vn    []string `json:"vn,omitempty"`
	Vd    int      `json:"vd,omitempty"`
	Light bool     `json:"lt,omitempty"` // skip the per-offset reader faults (bulk families)
}

func (c *Case) Bytes() []byte {
	b, _ := hex.DecodeString(c.Hex)
	return b
}

// Show renders bytes for a report: printable ASCII as is, the rest escaped.
func Show(b []byte) string {
	var s strings.Builder
	for _, c := range b {
		switch {
		case c == '\\':
			s.WriteString(`\\`)
		case c == '\n':
			s.WriteString(`\n`)
		case c == '\r':
			s.WriteString(`\r`)
		case c >= 0x20 && c < 0x7f:
			s.WriteByte(c)
		default:
			fmt.Fprintf(&s, `\x%02x`, c)
		}
	}
	return s.String()
}

// Finding is one failure to return: a recovered panic, a fatal runtime error or a hang.
type Finding struct {
	Kind string `json:"kind"` // panic | overflow | fatal | hang | harness
	Site string `json:"site"` // the key findings are grouped and attributed by
	Step string `json:"step"` // entry point that was running
	Msg  string `json:"msg"`
}

// Done is the worker's report for one case.
type Done struct {
	Steps    int       `json:"n"`
	Findings []Finding `json:"f,omitempty"`
	Accepted []string  `json:"a,omitempty"` // entry points that accepted the input without an error
}
