package robust

import (
	"fmt"
	"regexp"
	"runtime"
	"sort"
	"strings"
)

const ggqlPrefix = "github.com/uhn/ggql/"

// shortFunc strips the import path: "github.com/uhn/ggql/pkg/ggql.(*Root).regField" -> "ggql.(*Root).regField".
func shortFunc(f string) string {
	if i := strings.LastIndex(f, "/"); i >= 0 {
		f = f[i+1:]
	}
	// closures: ggql.(*Root).foo.func1 -> ggql.(*Root).foo
	f = regexp.MustCompile(`(\.func\d+)+(\.\d+)*$`).ReplaceAllString(f, "")
	return f
}

var (
	digits = regexp.MustCompile(`[0-9]+`)
	hexnum = regexp.MustCompile(`0x[0-9a-f]+`)
)

// MsgClass maps a panic / fatal message to a class that does not depend on the input.
func MsgClass(msg string) string {
	m := strings.TrimPrefix(msg, "runtime error: ")
	switch {
	case strings.Contains(m, "nil pointer dereference"):
		return "nil-deref"
	case strings.Contains(m, "index out of range"):
		return "index-out-of-range"
	case strings.Contains(m, "slice bounds out of range"):
		return "slice-bounds"
	case strings.Contains(m, "interface conversion"):
		return "type-assertion"
	case strings.Contains(m, "integer divide by zero"):
		return "divide-by-zero"
	case strings.Contains(m, "assignment to entry in nil map"):
		return "nil-map-write"
	case strings.Contains(m, "makeslice") || strings.Contains(m, "out of memory") || strings.Contains(m, "cannot allocate"):
		return "allocation"
	case strings.Contains(m, "stack overflow"):
		return "stack-overflow"
	case strings.Contains(m, "concurrent map"):
		return "concurrent-map"
	case strings.HasPrefix(m, "reflect"):
		// "reflect: Call using zero Value argument", "reflect.Value.Interface: ..." ...
		m = hexnum.ReplaceAllString(m, "N")
		m = digits.ReplaceAllString(m, "N")
		w := strings.Fields(m)
		if len(w) > 5 {
			w = w[:5]
		}
		return strings.Join(w, "_")
	}
	m = hexnum.ReplaceAllString(m, "N")
	m = digits.ReplaceAllString(m, "N")
	w := strings.Fields(m)
	if len(w) > 4 {
		w = w[:4]
	}
	return "other_" + strings.Join(w, "_")
}

// classifyPanic is called from the deferred function that recovered r: the stack
// still holds the frames of the panicking call chain.
func classifyPanic(step string, r interface{}) Finding {
	msg := fmt.Sprint(r)
	pcs := make([]uintptr, 200)
	n := runtime.Callers(2, pcs)
	frames := runtime.CallersFrames(pcs[:n])
	seenPanic := false
	site := ""
	kind := "panic"
	for {
		fr, more := frames.Next()
		fn := fr.Function
		if strings.HasPrefix(fn, "runtime.gopanic") || strings.HasPrefix(fn, "runtime.panic") || strings.HasPrefix(fn, "runtime.sigpanic") || strings.HasPrefix(fn, "runtime.goPanic") {
			seenPanic = true
		} else if seenPanic && site == "" {
			switch {
			case strings.HasPrefix(fn, ggqlPrefix):
				site = shortFunc(fn)
			case strings.HasPrefix(fn, "verifharness/"):
				// raised by harness code (a resolver of the universe): the machinery's fault, not ggql's
				site = shortFunc(fn)
				kind = "harness"
			}
		}
		if !more || site != "" {
			break
		}
	}
	if site == "" {
		site = "?"
	}
	return Finding{Kind: kind, Site: kind + ":" + site + ":" + MsgClass(msg), Step: step, Msg: trunc(msg, 300)}
}

func trunc(s string, n int) string {
	if len(s) > n {
		return s[:n] + "..."
	}
	return s
}

var (
	goroutineHdr = regexp.MustCompile(`^goroutine (\d+)(?: gp=\S+ m=\S+(?: mp=\S+)?)? \[([^\]]*)\]:`)
	fatalLine    = regexp.MustCompile(`(?m)^fatal error: (.*)$`)
	panicLine    = regexp.MustCompile(`(?m)^panic: (.*)$`)
)

// stackOf returns the function names (top first) of the given goroutine in a Go traceback;
// id 0 means the first goroutine listed as running.
func stackOf(dump string, id string) []string {
	lines := strings.Split(dump, "\n")
	var out []string
	in := false
	for _, ln := range lines {
		if m := goroutineHdr.FindStringSubmatch(ln); m != nil {
			if in {
				break
			}
			if (id == "" && strings.HasPrefix(m[2], "running")) || (id != "" && m[1] == id) {
				in = true
			}
			continue
		}
		if !in {
			continue
		}
		if strings.TrimSpace(ln) == "" {
			if len(out) > 0 {
				break
			}
			continue
		}
		if strings.HasPrefix(ln, "\t") || strings.HasPrefix(ln, "...") || strings.HasPrefix(ln, "created by") {
			continue
		}
		// "pkg.func(args...)"
		if i := strings.LastIndex(ln, "("); i > 0 {
			out = append(out, ln[:i])
		}
	}
	return out
}

func topGgql(stack []string) string {
	for _, f := range stack {
		if strings.HasPrefix(f, ggqlPrefix) {
			return shortFunc(f)
		}
	}
	return "?"
}

// ClassifyDeath turns the stderr of a dead worker into a finding.
func ClassifyDeath(stderr, step string) Finding {
	if m := fatalLine.FindStringSubmatch(stderr); m != nil {
		msg := m[1]
		st := stackOf(stderr, "")
		if len(st) == 0 {
			st = stackOf(stderr, "1")
		}
		if strings.Contains(msg, "stack overflow") {
			// the recursion cycle: ggql functions that repeat within the top frames
			cnt := map[string]int{}
			top := st
			if len(top) > 60 {
				top = top[:60]
			}
			for _, f := range top {
				if strings.HasPrefix(f, ggqlPrefix) {
					cnt[shortFunc(f)]++
				}
			}
			var cyc []string
			for f, c := range cnt {
				if c >= 3 {
					cyc = append(cyc, f)
				}
			}
			sort.Strings(cyc)
			site := strings.Join(cyc, "+")
			if site == "" {
				site = topGgql(st)
			}
			return Finding{Kind: "overflow", Site: "overflow:" + site, Step: step, Msg: msg}
		}
		return Finding{Kind: "fatal", Site: "fatal:" + topGgql(st) + ":" + MsgClass(msg), Step: step, Msg: msg}
	}
	if m := panicLine.FindStringSubmatch(stderr); m != nil {
		// a panic nobody recovered (another goroutine)
		st := stackOf(stderr, "")
		return Finding{Kind: "panic", Site: "panic:" + topGgql(st) + ":" + MsgClass(m[1]), Step: step, Msg: trunc(m[1], 300)}
	}
	return Finding{Kind: "fatal", Site: "fatal:?:worker-died", Step: step, Msg: trunc(tail(stderr, 600), 600)}
}

func tail(s string, n int) string {
	if len(s) > n {
		return s[len(s)-n:]
	}
	return s
}

// ClassifyHang takes several goroutine dumps of a worker that does not answer: the site is
// the innermost ggql function common to all samples of the main goroutine (callees of the
// looping function differ between samples, its callers do not).
func ClassifyHang(dumps []string, step string) Finding {
	var common []string // bottom first
	first := true
	for _, d := range dumps {
		st := stackOf(d, "1")
		if len(st) == 0 {
			continue
		}
		rev := make([]string, len(st))
		for i, f := range st {
			rev[len(st)-1-i] = f
		}
		if first {
			common = rev
			first = false
			continue
		}
		k := 0
		for k < len(common) && k < len(rev) && common[k] == rev[k] {
			k++
		}
		common = common[:k]
	}
	site := "?"
	for i := len(common) - 1; i >= 0; i-- {
		if strings.HasPrefix(common[i], ggqlPrefix) {
			site = shortFunc(common[i])
			break
		}
	}
	return Finding{Kind: "hang", Site: "hang:" + site, Step: step, Msg: fmt.Sprintf("no answer within the time bound (%d stack samples)", len(dumps))}
}
