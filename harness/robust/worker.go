package robust

import (
	"bufio"
	"bytes"
	"encoding/json"
	"errors"
	"fmt"
	"io"
	"os"
	"os/signal"
	"runtime/debug"
	"runtime/pprof"
	"sort"
	"strings"
	"syscall"

	"github.com/uhn/ggql/pkg/ggql"

	"verifharness/gq"
)

// Worker exercises the public entry points of ggql on one input at a time.
type Worker struct {
	U       *Universe
	Verbose bool // print the name of every step before it runs (used to pinpoint a fatal error or a hang)
	out     *bufio.Writer
	worlds  []*world
	done    Done
	accept  map[string]bool
}

type world struct {
	name string
	root *ggql.Root
}

// nilAny answers every question with null: a root resolver without data.
type nilAny struct{}

func (nilAny) Resolve(obj interface{}, field *ggql.Field, args map[string]interface{}) (interface{}, error) {
	return nil, nil
}
func (nilAny) Len(list interface{}) int                         { return 0 }
func (nilAny) Nth(list interface{}, i int) (interface{}, error) { return nil, nil }

var errFault = errors.New("injected reader failure")

// faultReader delivers data one call at a time and misbehaves at offset `at`.
type faultReader struct {
	data []byte
	pos  int
	at   int
	mode int // 0: error at offset `at`; 1: the byte at `at` arrives together with io.EOF; 2: (0, nil) twice at `at`, then goes on
	idle int
}

func (r *faultReader) Read(p []byte) (int, error) {
	if len(p) == 0 {
		return 0, nil
	}
	if r.pos == r.at {
		switch r.mode {
		case 0:
			return 0, errFault
		case 1:
			if r.pos < len(r.data) {
				p[0] = r.data[r.pos]
				r.pos = len(r.data) + 1
				return 1, io.EOF
			}
		case 2:
			if r.idle < 2 {
				r.idle++
				return 0, nil
			}
		}
	}
	if r.pos >= len(r.data) {
		return 0, io.EOF
	}
	p[0] = r.data[r.pos]
	r.pos++
	return 1, nil
}

// failWriter accepts n bytes and then fails.
type failWriter struct{ n int }

func (w *failWriter) Write(p []byte) (int, error) {
	if len(p) > w.n {
		k := w.n
		w.n = 0
		return k, errors.New("injected writer failure")
	}
	w.n -= len(p)
	return len(p), nil
}

// RegIn is the Go struct the input type In (a: String, n: Int, l: [String]) is registered as in the world "regin".
type RegIn struct {
	A string
	N int32
	L []string
}

func NewWorker(u *Universe, out io.Writer) (*Worker, error) {
	w := &Worker{U: u, out: bufio.NewWriter(out)}
	for _, st := range []gq.Strategy{gq.Iface, gq.Any} {
		gw, err := gq.NewWorld(&u.Exec, st, gq.ListMode(len(w.worlds)))
		if err != nil {
			return nil, err
		}
		w.worlds = append(w.worlds, &world{name: string(st), root: gw.Root})
	}
	gw, err := gq.NewReflWorld(&u.Exec, gq.ListTyped, gq.BindByName)
	if err != nil {
		return nil, err
	}
	w.worlds = append(w.worlds, &world{name: "refl", root: gw.Root})
	// Resolver objects again, the input type In bound to a Go struct (RegisterType): arguments are set by reflection
	gw, err = gq.NewWorld(&u.Exec, gq.Iface, gq.ListIfaceSlice)
	if err != nil {
		return nil, err
	}
	if err = gw.Root.RegisterType(&RegIn{}, "In"); err != nil {
		return nil, err
	}
	w.worlds = append(w.worlds, &world{name: "regin", root: gw.Root})
	// reflection again, one of the objects handed out as a value of a Go type that no GraphQL type is bound to (where
	// another Go type is bound already): an error at most, never a crash
	gw, err = gq.NewReflWorld(&u.Exec, gq.ListIfaceSlice, gq.BindRegister)
	if err != nil {
		return nil, err
	}
	gw.Strange = "a2"
	w.worlds = append(w.worlds, &world{name: "stranger", root: gw.Root})
	// a root that has the schema but neither a root object nor a root resolver
	nores := ggql.NewRoot(nil)
	if err = nores.ParseString(u.Exec.SDL()); err != nil {
		return nil, err
	}
	w.worlds = append(w.worlds, &world{name: "nodata", root: nores})
	return w, nil
}

func (w *Worker) step(name string, detail func() string, f func()) {
	if w.Verbose {
		fmt.Fprintf(w.out, "T %s\n", name)
		_ = w.out.Flush()
	}
	defer func() {
		if r := recover(); r != nil {
			fd := classifyPanic(name, r)
			if detail != nil {
				fd.Msg += " | " + detail()
			}
			if len(w.done.Findings) < 20 {
				w.done.Findings = append(w.done.Findings, fd)
			}
		}
	}()
	f()
	w.done.Steps++
}

func (w *Worker) accepted(what string) {
	if !w.accept[what] {
		w.accept[what] = true
		w.done.Accepted = append(w.done.Accepted, what)
	}
}

// RunCase runs every step for the case and returns the report.
func (w *Worker) RunCase(c *Case) Done {
	w.done = Done{}
	w.accept = map[string]bool{}
	in := c.Bytes()
	switch c.Lang {
	case "exe":
		w.runExe(c, in)
	case "sdl":
		w.runSDL(c, in)
	case "val":
		w.runVal(c, in)
	}
	sort.Strings(w.done.Accepted)
	return w.done
}

func (w *Worker) runExe(c *Case, in []byte) {
	text := string(in)
	maps := w.U.VarMaps(c.Vn, c.Vd)
	for _, wd := range w.worlds {
		root := wd.root
		var exe *ggql.Executable
		var err error
		w.step(wd.name+"/ParseExecutableString", nil, func() { exe, err = root.ParseExecutableString(text) })
		if err == nil && exe != nil {
			w.accepted("exe:" + wd.name)
			w.step(wd.name+"/Executable.String", nil, func() { _ = exe.String() })
			ops := []string{"", "Nope"}
			for n := range exe.Ops {
				if n != "" {
					ops = append(ops, n)
				}
			}
			sort.Strings(ops)
			for _, op := range ops {
				for _, vars := range maps {
					op, vars := op, vars
					w.step(wd.name+"/ResolveExecutable", func() string { return fmt.Sprintf("op=%q vars=%s", op, js(vars)) }, func() {
						res, rerr := root.ResolveExecutable(exe, op, vars)
						if rerr != nil {
							_ = ggql.FormErrorsResult(rerr)
						}
						_ = ggql.WriteJSONValue(io.Discard, res)
					})
				}
			}
		}
		for _, vars := range maps {
			vars := vars
			w.step(wd.name+"/ResolveString", func() string { return "vars=" + js(vars) }, func() {
				res := root.ResolveString(text, "", vars)
				_ = ggql.WriteJSONValue(io.Discard, res)
			})
		}
		if !c.Light {
			for mode := 0; mode < 3; mode++ {
				for k := 0; k <= len(in); k++ {
					k, mode := k, mode
					w.step(wd.name+"/ResolveReader[faulty reader]", func() string { return fmt.Sprintf("fault mode %d at offset %d", mode, k) }, func() {
						_ = root.ResolveReader(&faultReader{data: in, at: k, mode: mode}, "", nil)
					})
				}
			}
		}
	}
	// a root nothing has been loaded into
	w.step("noschema/ResolveString", nil, func() { _ = ggql.NewRoot(nil).ResolveString(text, "", nil) })
}

const introspection = `{__schema{queryType{name} mutationType{name} subscriptionType{name} types{kind name description fields(includeDeprecated:true){name args{name defaultValue type{kind name ofType{kind name ofType{name}}}} type{kind name ofType{kind name}} isDeprecated deprecationReason} interfaces{name} possibleTypes{name} enumValues(includeDeprecated:true){name isDeprecated} inputFields{name defaultValue type{name}}} directives{name locations args{name defaultValue type{kind name}}}}}`

func (w *Worker) exerciseSchema(label string, root *ggql.Root) {
	w.step(label+"/Root.SDL", nil, func() {
		_ = root.SDL(false)
		_ = root.SDL(true, true)
	})
	w.step(label+"/Type.SDL", nil, func() {
		for _, t := range root.Types() {
			_ = t.SDL(true)
			_ = t.String()
			_ = ggql.Locate(t)
		}
		for _, t := range root.Directives() {
			_ = t.SDL(true)
			_ = t.String()
		}
	})
	w.step(label+"/Type.CoerceIn+CoerceOut", nil, func() {
		// the coercers of the loaded types are public entry points for external data (variable values)
		vals := []interface{}{nil, map[string]interface{}{}, map[string]interface{}{"a": nil}, map[string]interface{}{"a": map[string]interface{}{}},
			[]interface{}{}, []interface{}{nil}, []interface{}{map[string]interface{}{}}, "x", "RED", 1, int64(1) << 40, 1.5, true}
		for _, t := range root.Types() {
			if t.Core() {
				continue
			}
			if ic, ok := t.(ggql.InCoercer); ok {
				for _, v := range vals {
					_, _ = ic.CoerceIn(v)
				}
			}
			if oc, ok := t.(ggql.OutCoercer); ok {
				for _, v := range vals {
					_, _ = oc.CoerceOut(v)
				}
			}
		}
	})
	w.step(label+"/Type.Write[failing writer]", nil, func() {
		for _, t := range root.Types() {
			if t.Core() {
				continue
			}
			for _, n := range []int{0, 1, 7, 20} {
				_ = t.Write(&failWriter{n: n}, true)
			}
		}
		for _, t := range root.Directives() {
			if !t.Core() {
				_ = t.Write(&failWriter{n: 12}, true)
			}
		}
	})
}

// runHistory: the parts of the input (cut at "#cut") are loaded one after the other into one root, which is put to
// use after every load, accepted or refused.
func (w *Worker) runHistory(parts []string) {
	root := ggql.NewRoot(nil)
	for i, part := range parts {
		i, part := i, part
		label := fmt.Sprintf("load%d", i+1)
		w.step(label+"/ParseString", func() string { return part }, func() {
			if err := root.ParseString(part); err == nil {
				w.accepted("sdl:" + label)
			}
		})
		w.exerciseSchema(label, root)
		root.AnyResolver = nilAny{}
		for _, q := range []string{introspection, "{ f(a: {}) }", "{ f }", "query($v: A = {}) { f(a: $v) }", "{ g }", "{ g(b: {}) f(a: {x: 1}) }"} {
			q := q
			w.step(label+"/ResolveString", func() string { return q }, func() {
				_ = ggql.WriteJSONValue(io.Discard, root.ResolveString(q, "", nil))
			})
		}
		root.AnyResolver = nil
	}
}

func (w *Worker) runSDL(c *Case, in []byte) {
	text := string(in)
	if parts := strings.Split(text, "#cut"); len(parts) > 1 {
		w.runHistory(parts)
		return
	}
	root := ggql.NewRoot(nil)
	var err error
	w.step("fresh/ParseString", nil, func() { err = root.ParseString(text) })
	w.exerciseSchema("fresh", root)
	if err == nil {
		w.accepted("sdl:fresh")
		for _, q := range []string{introspection, "{__typename a}", "mutation{a}", "{a{a}}"} {
			q := q
			w.step("fresh/ResolveString[no root object]", func() string { return q }, func() {
				_ = ggql.WriteJSONValue(io.Discard, root.ResolveString(q, "", nil))
			})
		}
		root.AnyResolver = nilAny{}
		for _, q := range []string{introspection, "{__typename a}", "{a{a}}"} {
			q := q
			w.step("fresh/ResolveString[root resolver]", func() string { return q }, func() {
				_ = ggql.WriteJSONValue(io.Discard, root.ResolveString(q, "", nil))
			})
		}
		root.AnyResolver = nil
	}
	w.step("again/ParseString", nil, func() { _ = root.ParseString(text) })
	w.exerciseSchema("again", root)
	// on top of the universe's schema: duplicates, extensions of existing types
	loaded := ggql.NewRoot(nil)
	w.step("loaded/ParseString", nil, func() {
		_ = loaded.ParseString(w.U.Exec.SDL())
		if e2 := loaded.ParseString(text); e2 == nil {
			w.accepted("sdl:loaded")
		}
	})
	w.exerciseSchema("loaded", loaded)
	w.step("loaded/ResolveString", nil, func() {
		loaded.AnyResolver = nilAny{}
		_ = ggql.WriteJSONValue(io.Discard, loaded.ResolveString(introspection, "", nil))
		_ = loaded.ResolveString("{a{name} title}", "", nil)
	})
	if !c.Light {
		for mode := 0; mode < 3; mode++ {
			for k := 0; k <= len(in); k++ {
				k, mode := k, mode
				w.step("fresh/ParseReader[faulty reader]", func() string { return fmt.Sprintf("fault mode %d at offset %d", mode, k) }, func() {
					r := ggql.NewRoot(nil)
					_ = r.ParseReader(&faultReader{data: in, at: k, mode: mode})
					_ = r.SDL(false)
				})
			}
		}
	}
}

// requests that use a variable at every kind of place, for parsed values used as variable values
var varRequests = []string{
	"query($v:String){echo(s:$v)}", "query($v:Int){echo(i:$v)}", "query($v:Boolean){echo(b:$v) title @skip(if:$v)}",
	"query($v:[String]){obj(l:$v)}", "query($v:In){obj(in:$v)}", "query($v:String!){need(x:$v) obj(l:[$v],in:{a:$v})}",
}

func (w *Worker) runVal(c *Case, in []byte) {
	text := string(in)
	var v interface{}
	var err error
	w.step("ParseValueString", nil, func() { v, err = ggql.ParseValueString(text) })
	w.step("ParseValue", nil, func() { _, _ = ggql.ParseValue(bytes.NewReader(in)) })
	if err == nil {
		w.accepted("val")
		var printed [][]byte
		for _, indent := range []int{-1, 0, 2} {
			indent := indent
			w.step("WriteSDLValue", func() string { return fmt.Sprint("indent ", indent) }, func() {
				var b bytes.Buffer
				_ = ggql.WriteSDLValue(&b, v, indent)
				printed = append(printed, b.Bytes())
			})
			w.step("WriteJSONValue", func() string { return fmt.Sprint("indent ", indent) }, func() {
				var b bytes.Buffer
				_ = ggql.WriteJSONValue(&b, v, indent)
				printed = append(printed, b.Bytes())
			})
		}
		w.step("WriteSDLValue[failing writer]", nil, func() {
			for n := 0; n < 12; n++ {
				_ = ggql.WriteSDLValue(&failWriter{n: n}, v, 2)
				_ = ggql.WriteJSONValue(&failWriter{n: n}, v)
			}
		})
		w.step("ParseValueString[printed value]", nil, func() {
			for _, p := range printed {
				_, _ = ggql.ParseValueString(string(p))
			}
		})
		for _, wd := range w.worlds[:3] {
			for _, q := range varRequests {
				q, wd := q, wd
				w.step(wd.name+"/ResolveString[parsed value as variable]", func() string { return q }, func() {
					_ = ggql.WriteJSONValue(io.Discard, wd.root.ResolveString(q, "", map[string]interface{}{"v": v}))
				})
			}
		}
	}
	if !c.Light {
		for mode := 0; mode < 3; mode++ {
			for k := 0; k <= len(in); k++ {
				k, mode := k, mode
				w.step("ParseValue[faulty reader]", func() string { return fmt.Sprintf("fault mode %d at offset %d", mode, k) }, func() {
					_, _ = ggql.ParseValue(&faultReader{data: in, at: k, mode: mode})
				})
			}
		}
	}
}

func js(v interface{}) string {
	b, _ := json.Marshal(v)
	return string(b)
}

// Serve is the worker main loop: one JSON case per line on in; "S i" before and
// "D i report" after each case on out.  SIGUSR1 writes a goroutine dump to stderr.
func Serve(u *Universe, in io.Reader, out io.Writer, verbose bool, maxStack int) error {
	debug.SetMaxStack(maxStack)
	// a run-away allocation must kill this process, not the machine
	var lim syscall.Rlimit
	if syscall.Getrlimit(syscall.RLIMIT_AS, &lim) == nil {
		lim.Cur = 6 << 30
		_ = syscall.Setrlimit(syscall.RLIMIT_AS, &lim)
	}
	sig := make(chan os.Signal, 4)
	signal.Notify(sig, syscall.SIGUSR1)
	go func() {
		for range sig {
			fmt.Fprintln(os.Stderr, "@@DUMP")
			_ = pprof.Lookup("goroutine").WriteTo(os.Stderr, 2)
			fmt.Fprintln(os.Stderr, "@@END")
		}
	}()
	w, err := NewWorker(u, out)
	if err != nil {
		return err
	}
	w.Verbose = verbose
	sc := bufio.NewScanner(in)
	sc.Buffer(make([]byte, 1<<20), 1<<26)
	for sc.Scan() {
		var c Case
		if err := json.Unmarshal(sc.Bytes(), &c); err != nil {
			return fmt.Errorf("bad case line: %w", err)
		}
		fmt.Fprintf(w.out, "S %d\n", c.I)
		_ = w.out.Flush()
		d := w.RunCase(&c)
		b, _ := json.Marshal(d)
		fmt.Fprintf(w.out, "D %d %s\n", c.I, b)
		_ = w.out.Flush()
	}
	return sc.Err()
}
