// Package vh holds the pieces shared by all conformance harness commands:
// the report written on stdout for the dispatcher, seeds, JSON helpers.
package vh

import (
	"crypto/sha1"
	"encoding/hex"
	"encoding/json"
	"fmt"
	"os"
	"sort"
	"strconv"
)

// Mismatch is one disagreement between the real code and the specification.
type Mismatch struct {
	Case     interface{} `json:"case"`
	Step     int         `json:"step,omitempty"`
	What     string      `json:"what"`
	Expected interface{} `json:"expected,omitempty"`
	Actual   interface{} `json:"actual,omitempty"`
	Known    string      `json:"known,omitempty"` // name of the known deviation explaining it, if any
}

// Report is what every harness command prints (one JSON object) on stdout.
type Report struct {
	Family      string                 `json:"family"`
	Mode        string                 `json:"mode"`
	Evaluations int                    `json:"evaluations"`
	Nontrivial  []string               `json:"nontrivial_hashes,omitempty"`
	NontrivialN int                    `json:"nontrivial"`
	Samples     []interface{}          `json:"samples,omitempty"`
	Mismatches  []Mismatch             `json:"mismatches"`
	KnownHits   map[string]int         `json:"known_hits,omitempty"`
	Classes     map[string]int         `json:"classes,omitempty"`
	Notes       []string               `json:"notes,omitempty"`
	Extra       map[string]interface{} `json:"extra,omitempty"`
	seen        map[string]bool
}

func NewReport(family, mode string) *Report {
	return &Report{Family: family, Mode: mode, seen: map[string]bool{}, KnownHits: map[string]int{},
		Classes: map[string]int{}, Extra: map[string]interface{}{}, Mismatches: []Mismatch{}}
}

// Case counts one executed case; key identifies it for distinctness, nontrivial
// says whether it exercises the property's antecedent.
func (r *Report) Case(key string, nontrivial bool) {
	r.Evaluations++
	if nontrivial {
		h := sha1.Sum([]byte(key))
		k := hex.EncodeToString(h[:8])
		if !r.seen[k] {
			r.seen[k] = true
			r.Nontrivial = append(r.Nontrivial, k)
		}
	}
}

func (r *Report) Class(name string) { r.Classes[name]++ }

func (r *Report) Sample(s interface{}) {
	if len(r.Samples) < 3 {
		r.Samples = append(r.Samples, s)
	}
}

func (r *Report) Mismatch(m Mismatch) {
	if m.Known != "" {
		r.KnownHits[m.Known]++
		if r.KnownHits[m.Known] > 3 {
			return
		}
	}
	if len(r.Mismatches) < 200 {
		r.Mismatches = append(r.Mismatches, m)
	}
}

// Violations is the number of mismatches not explained by a known deviation.
func (r *Report) Violations() int {
	n := 0
	for _, m := range r.Mismatches {
		if m.Known == "" {
			n++
		}
	}
	return n
}

func (r *Report) Emit() {
	r.NontrivialN = len(r.Nontrivial)
	sort.Strings(r.Nontrivial)
	enc := json.NewEncoder(os.Stdout)
	if err := enc.Encode(r); err != nil {
		fmt.Fprintln(os.Stderr, "cannot encode report:", err)
		os.Exit(3)
	}
}

func Seed() int64 {
	s, err := strconv.ParseInt(os.Getenv("VERIF_SEED"), 10, 64)
	if err != nil {
		return 1
	}
	return s
}

func Die(format string, args ...interface{}) {
	fmt.Fprintf(os.Stderr, format+"\n", args...)
	os.Exit(3)
}

func ReadJSON(path string, v interface{}) {
	b, err := os.ReadFile(path)
	if err != nil {
		Die("read %s: %s", path, err)
	}
	if err = json.Unmarshal(b, v); err != nil {
		Die("parse %s: %s", path, err)
	}
}

func JS(v interface{}) string {
	b, _ := json.Marshal(v)
	return string(b)
}
