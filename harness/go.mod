module verifharness

go 1.23

toolchain go1.23.5

require (
	github.com/uhn/ggql v0.0.0
	pgregory.net/rapid v1.3.0
)

replace github.com/uhn/ggql => /repo
