// Command robust is the conformance harness of property C03 (spec/DocGen.tla,
// ResolveDepth.tla): every input enumerated by TLC, or generated here and judged
// by TLC, is handed to every public entry point of ggql inside an isolated
// worker process; the prescribed outcome is always "returns".
//
//	robust replay -universe u.json -vectors v.json [-shards 8] [-timeout 2s] [-light all,mut]
//	robust record -universe u.json -n 300 -out rec.ndjson [-shards 8]
//	robust worker -universe u.json [-verbose]            (started by the two above)
//	robust one    -universe u.json -lang exe -text '{a}' (debugging aid)
package main

import (
	"bytes"
	"encoding/hex"
	"encoding/json"
	"flag"
	"fmt"
	"math/rand"
	"os"
	"sort"
	"strings"
	"time"

	"verifharness/robust"
	"verifharness/vh"
)

type siteAgg struct {
	Site       string                   `json:"site"`
	Kind       string                   `json:"kind"`
	Count      int                      `json:"count"`
	Unallowed  int                      `json:"unallowed"` // occurrences on vectors whose specification does not admit this site
	Dev        string                   `json:"dev"`
	Steps      map[string]int           `json:"steps"`
	Fams       map[string]int           `json:"fams"`
	Samples    []map[string]interface{} `json:"samples"`
	BadSamples []map[string]interface{} `json:"unallowed_samples,omitempty"`
	Reproduced bool                     `json:"reproduced"`
	cases      []int
}

func newRunner(uniPath string, shards int, timeout time.Duration, maxStack int) *robust.Runner {
	self, err := os.Executable()
	if err != nil {
		vh.Die("%s", err)
	}
	return &robust.Runner{Self: self, UniPath: uniPath, Timeout: timeout, Shards: shards, MaxStack: maxStack}
}

func allowedDev(u *robust.Universe, v *robust.Vector, site string) (string, bool) {
	for _, d := range v.Allow {
		for _, s := range u.DevSites[d] {
			if s == site {
				return d, true
			}
		}
	}
	return "", false
}

// aggregate groups findings by site, pinpoints/reproduces a sample of each in a fresh worker.
func aggregate(r *robust.Runner, u *robust.Universe, vecs []robust.Vector, cases []robust.Case, results []robust.Result) []*siteAgg {
	by := map[string]*siteAgg{}
	for ci, res := range results {
		c := &cases[ci]
		v := &vecs[c.Vec]
		seen := map[string]bool{}
		for _, f := range res.Findings {
			a := by[f.Site]
			if a == nil {
				a = &siteAgg{Site: f.Site, Kind: f.Kind, Steps: map[string]int{}, Fams: map[string]int{}}
				by[f.Site] = a
			}
			if f.Step != "" {
				a.Steps[f.Step]++
			}
			if seen[f.Site] {
				continue
			}
			seen[f.Site] = true
			a.Count++
			a.Fams[v.Fam+"/"+v.Lang]++
			dev, ok := allowedDev(u, v, f.Site)
			smp := map[string]interface{}{"fam": v.Fam, "lang": v.Lang, "input": robust.Show(c.Bytes()), "hex": c.Hex, "step": f.Step, "msg": f.Msg, "toks": v.Toks}
			if v.Rep > 0 { // (hundreds of kilobytes: the tokens, the unit and the count say what it is)
				smp["input"] = robust.Show(c.Bytes()[:200]) + " ..."
				smp["hex"] = c.Hex[:400] + "..."
				smp["unit"], smp["rep"], smp["bytes"] = v.Unit, v.Rep, len(c.Bytes())
			}
			if ok {
				a.Dev = dev
			} else {
				a.Unallowed++
				if len(a.BadSamples) < 3 {
					a.BadSamples = append(a.BadSamples, smp)
				}
			}
			if len(a.Samples) < 3 {
				a.Samples = append(a.Samples, smp)
			}
			if len(a.cases) < 2 || (!ok && len(a.cases) < 4) {
				a.cases = append(a.cases, ci)
			}
		}
	}
	var out []*siteAgg
	for _, a := range by {
		out = append(out, a)
	}
	sort.Slice(out, func(i, j int) bool { return out[i].Site < out[j].Site })
	// reproduce in a fresh process, one case alone, announcing the steps
	for _, a := range out {
		for k, ci := range a.cases {
			res, err := r.Alone(cases[ci])
			if err != nil {
				continue
			}
			for _, f := range res.Findings {
				if f.Site == a.Site {
					a.Reproduced = true
					if k < len(a.Samples) && f.Step != "" {
						a.Samples[k]["step_alone"] = f.Step
						if a.Samples[k]["step"] == "" {
							a.Samples[k]["step"] = f.Step
						}
						a.Steps[f.Step]++
					}
				}
			}
		}
	}
	return out
}

func cmdReplay(args []string) {
	fs := flag.NewFlagSet("replay", flag.ExitOnError)
	up := fs.String("universe", "", "universe json (the @@UNI export)")
	vp := fs.String("vectors", "", "vectors json")
	shards := fs.Int("shards", 8, "worker processes")
	timeout := fs.Duration("timeout", 2*time.Second, "time bound per case")
	light := fs.String("light", "", "families run without the per-offset reader faults")
	maxStack := fs.Int("maxstack", 64<<20, "stack limit of the workers in bytes")
	_ = fs.Parse(args)
	var u robust.Universe
	vh.ReadJSON(*up, &u)
	var vecs []robust.Vector
	vh.ReadJSON(*vp, &vecs)
	lightFam := map[string]bool{}
	for _, f := range strings.Split(*light, ",") {
		lightFam[f] = true
	}
	rep := vh.NewReport("robust", "replay")
	var cases []robust.Case
	seenInput := map[string]bool{}
	for vi := range vecs {
		v := &vecs[vi]
		if v.Exp != "returns" {
			vh.Die("vector %d prescribes %q: the only outcome this harness can check is \"returns\"", vi, v.Exp)
		}
		layouts := u.Layouts
		if v.Sep != "" {
			layouts = []string{v.Sep}
		}
		for _, lo := range layouts {
			if _, ok := u.Seps[lo]; !ok {
				vh.Die("vector %d names the unknown layout %q", vi, lo)
			}
			b := u.Bytes(v.Toks, lo)
			if v.Rep > 0 {
				unit := append(u.Bytes(v.Unit, lo), u.Bytes([]string{"", ""}, lo)...) // (the unit and one separator)
				if len(b) > 0 {
					b = append(b, u.Bytes([]string{"", ""}, lo)...)
				}
				b = append(b, bytes.Repeat(unit, v.Rep)...)
			}
			key := v.Lang + "|" + string(b) + "|" + strings.Join(v.Vn, ",") + fmt.Sprint(v.Vd)
			if seenInput[key] {
				continue // another token string (or layout) with the same bytes
			}
			seenInput[key] = true
			cases = append(cases, robust.Case{I: len(cases), Vec: vi, Lang: v.Lang, Hex: hex.EncodeToString(b), Vn: v.Vn, Vd: v.Vd, Light: lightFam[v.Fam]})
			rep.Case(key, len(v.Toks) >= 2)
			rep.Class(v.Fam + "/" + v.Lang)
			rep.Class("class:" + v.Cls)
			if len(cases)%9973 == 1 {
				rep.Sample(map[string]interface{}{"fam": v.Fam, "lang": v.Lang, "toks": v.Toks, "input": robust.Show(b), "prescribed": "returns"})
			}
		}
	}
	r := newRunner(*up, *shards, *timeout, *maxStack)
	t0 := time.Now()
	results, err := r.Run(cases)
	if err != nil {
		vh.Die("runner: %s", err)
	}
	steps := 0
	for ci, res := range results {
		if !res.Ran {
			vh.Die("case %d did not run", ci)
		}
		steps += res.Steps
		for _, a := range res.Accepted {
			rep.Class("accepted:" + vecs[cases[ci].Vec].Fam + ":" + a)
		}
	}
	aggs := aggregate(r, &u, vecs, cases, results)
	for _, a := range aggs {
		known := ""
		if a.Unallowed == 0 && a.Kind != "harness" {
			known = a.Dev
		}
		cs := map[string]interface{}{"site": a.Site, "kind": a.Kind, "cases": a.Count, "entry_points": a.Steps, "families": a.Fams, "reproduced_alone": a.Reproduced}
		if known == "" && len(a.BadSamples) > 0 {
			cs["samples"] = a.BadSamples
		} else {
			cs["samples"] = a.Samples
		}
		rep.Mismatch(vh.Mismatch{Case: cs, What: fmt.Sprintf("%s in %d cases: the specification prescribes that every entry point returns", a.Site, a.Count), Known: known})
		if known != "" {
			rep.KnownHits[known] += a.Count - 1
		}
	}
	rep.Extra["findings"] = aggs
	rep.Extra["entry_point_calls"] = steps
	rep.Extra["worker_restarts"] = r.Restarts
	rep.Extra["cases"] = len(cases)
	rep.Extra["run_s"] = time.Since(t0).Seconds()
	rep.Emit()
}

// ---- direction B: documents and mutations generated here, classified by spec/DocGenJudge.tla

type gen struct {
	u   *robust.Universe
	rng *rand.Rand
}

// derive performs a random leftmost derivation of at most max tokens.
func (g *gen) derive(lang string, max int) []string {
	gr := g.u.Grammar[lang]
	for try := 0; try < 200; try++ {
		form := []string{g.u.Start[lang]}
		ok := true
		for steps := 0; steps < 400; steps++ {
			nt := -1
			for i, s := range form {
				if _, isNT := gr[s]; isNT {
					nt = i
					break
				}
			}
			if nt < 0 {
				break
			}
			alts := gr[form[nt]]
			var fit [][]string
			for _, a := range alts {
				if len(form)-1+len(a) <= max {
					fit = append(fit, a)
				}
			}
			if len(fit) == 0 {
				ok = false
				break
			}
			a := fit[g.rng.Intn(len(fit))]
			nf := append([]string{}, form[:nt]...)
			nf = append(nf, a...)
			nf = append(nf, form[nt+1:]...)
			form = nf
		}
		if !ok {
			continue
		}
		done := true
		for _, s := range form {
			if _, isNT := gr[s]; isNT {
				done = false
			}
		}
		if done {
			return form
		}
	}
	return nil
}

func (g *gen) mutateToks(lang string, toks []string) ([]string, string) {
	t := append([]string{}, toks...)
	pool := g.u.MutToks[lang]
	if len(t) == 0 {
		return append(t, pool[g.rng.Intn(len(pool))]), "insert"
	}
	i := g.rng.Intn(len(t))
	switch g.rng.Intn(6) {
	case 0:
		return append(t[:i], t[i+1:]...), "delete"
	case 1:
		t = append(t[:i+1], t[i:]...)
		return t, "duplicate"
	case 2:
		t = append(t[:i+1], t[i:]...)
		t[i] = pool[g.rng.Intn(len(pool))]
		return t, "insert"
	case 3:
		t[i] = pool[g.rng.Intn(len(pool))]
		return t, "replace"
	case 4:
		return t[:i], "truncate"
	}
	t = append(t[:i+1], t[i:]...)
	t[i] = "NUL"
	return t, "insertnul"
}

func (g *gen) mutateBytes(b []byte) []byte {
	out := append([]byte{}, b...)
	if len(out) == 0 {
		return []byte{byte(g.rng.Intn(256))}
	}
	i := g.rng.Intn(len(out))
	switch g.rng.Intn(4) {
	case 0:
		out[i] = byte(g.rng.Intn(256))
	case 1:
		out = append(out[:i], out[i+1:]...)
	case 2:
		out = append(out[:i+1], out[i:]...)
		out[i] = byte(g.rng.Intn(256))
	case 3:
		out[i] ^= 1 << uint(g.rng.Intn(8))
	}
	return out
}

func cmdRecord(args []string) {
	fs := flag.NewFlagSet("record", flag.ExitOnError)
	up := fs.String("universe", "", "universe json")
	n := fs.Int("n", 300, "number of generated inputs")
	outp := fs.String("out", "", "ndjson output for DocGenJudge.tla")
	shards := fs.Int("shards", 8, "worker processes")
	timeout := fs.Duration("timeout", 2*time.Second, "time bound per case")
	maxTok := fs.Int("maxtok", 14, "token bound of the random derivations")
	allow := fs.String("allow", "", "dev=site,... : outcomes admitted under the known deviations (passed on to the judge's records only for reporting)")
	_ = fs.Parse(args)
	_ = allow
	var u robust.Universe
	vh.ReadJSON(*up, &u)
	g := &gen{u: &u, rng: rand.New(rand.NewSource(vh.Seed()))}
	rep := vh.NewReport("robust", "record")
	langs := []string{"exe", "sdl", "val"}
	type rec struct {
		Lang   string   `json:"lang"`
		Toks   []string `json:"toks"`
		Layout string   `json:"layout"`
		Tm     int      `json:"tm"` // token-level mutations applied
		Bm     int      `json:"bm"` // byte-level mutations applied
		Claim  string   `json:"claim"`
	}
	var recs []rec
	var cases []robust.Case
	var vecs []robust.Vector
	for i := 0; i < *n; i++ {
		lang := langs[i%3]
		toks := g.derive(lang, 4+g.rng.Intn(*maxTok-3))
		if toks == nil {
			vh.Die("no derivation for %s", lang)
		}
		r := rec{Lang: lang, Layout: u.Layouts[g.rng.Intn(len(u.Layouts))], Claim: "derived"}
		switch i % 4 {
		case 1:
			toks, _ = g.mutateToks(lang, toks)
			r.Tm = 1
		case 2:
			toks, _ = g.mutateToks(lang, toks)
			toks, _ = g.mutateToks(lang, toks)
			r.Tm = 2
		case 3:
			r.Bm = 1 + g.rng.Intn(3)
		}
		if r.Tm+r.Bm > 0 {
			r.Claim = "mutated"
		}
		if toks == nil {
			toks = []string{}
		}
		r.Toks = toks
		b := u.Bytes(toks, r.Layout)
		for k := 0; k < r.Bm; k++ {
			b = g.mutateBytes(b)
		}
		recs = append(recs, r)
		vn := []string{}
		for _, t := range toks {
			if t == "$" {
				vn = []string{"v", "a"}
			}
		}
		vecs = append(vecs, robust.Vector{Fam: "record", Lang: lang, Toks: toks, Cls: r.Claim})
		cases = append(cases, robust.Case{I: i, Vec: i, Lang: lang, Hex: hex.EncodeToString(b), Vn: vn, Vd: 1})
		rep.Case(lang+"|"+string(b), len(toks) >= 2)
		rep.Class("record/" + lang + "/" + r.Claim)
		if i < 3 {
			rep.Sample(map[string]interface{}{"lang": lang, "toks": toks, "input": robust.Show(b), "generated": r.Claim})
		}
	}
	r := newRunner(*up, *shards, *timeout, 64<<20)
	results, err := r.Run(cases)
	if err != nil {
		vh.Die("runner: %s", err)
	}
	out, err := os.Create(*outp)
	if err != nil {
		vh.Die("%s", err)
	}
	defer out.Close()
	enc := json.NewEncoder(out)
	for i, rc := range recs {
		sites := []string{}
		seen := map[string]bool{}
		for _, f := range results[i].Findings {
			if !seen[f.Site] {
				seen[f.Site] = true
				sites = append(sites, f.Site)
			}
		}
		sort.Strings(sites)
		_ = enc.Encode(map[string]interface{}{"lang": rc.Lang, "toks": rc.Toks, "tm": rc.Tm, "bm": rc.Bm, "claim": rc.Claim,
			"sites": sites, "hex": cases[i].Hex, "input": robust.Show(cases[i].Bytes())})
		for _, a := range results[i].Accepted {
			rep.Class("accepted:record:" + a)
		}
	}
	aggs := aggregate(r, &u, vecs, cases, results)
	rep.Extra["findings"] = aggs
	rep.Emit()
}

func cmdWorker(args []string) {
	fs := flag.NewFlagSet("worker", flag.ExitOnError)
	up := fs.String("universe", "", "universe json")
	verbose := fs.Bool("verbose", false, "announce every step")
	maxStack := fs.Int("maxstack", 64<<20, "stack limit in bytes")
	_ = fs.Parse(args)
	var u robust.Universe
	vh.ReadJSON(*up, &u)
	if err := robust.Serve(&u, os.Stdin, os.Stdout, *verbose, *maxStack); err != nil {
		vh.Die("worker: %s", err)
	}
}

func cmdOne(args []string) {
	fs := flag.NewFlagSet("one", flag.ExitOnError)
	up := fs.String("universe", "", "universe json")
	lang := fs.String("lang", "exe", "sdl | exe | val")
	text := fs.String("text", "", "input text")
	hx := fs.String("hex", "", "input bytes in hex (instead of -text)")
	vn := fs.String("vn", "", "variable names, comma separated")
	vd := fs.Int("vd", 1, "depth of variable values")
	_ = fs.Parse(args)
	h := *hx
	if h == "" {
		h = hex.EncodeToString([]byte(*text))
	}
	c := robust.Case{I: 0, Lang: *lang, Hex: h, Vd: *vd}
	if *vn != "" {
		c.Vn = strings.Split(*vn, ",")
	}
	r := newRunner(*up, 1, 2*time.Second, 64<<20)
	res, err := r.Alone(c)
	if err != nil {
		vh.Die("%s", err)
	}
	b, _ := json.MarshalIndent(res, "", " ")
	fmt.Println(string(b))
}

func main() {
	if len(os.Args) < 2 {
		vh.Die("usage: robust replay|record|worker|one ...")
	}
	switch os.Args[1] {
	case "replay":
		cmdReplay(os.Args[2:])
	case "record":
		cmdRecord(os.Args[2:])
	case "worker":
		cmdWorker(os.Args[2:])
	case "one":
		cmdOne(os.Args[2:])
	default:
		vh.Die("unknown mode %s", os.Args[1])
	}
}
