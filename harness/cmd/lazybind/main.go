// Command lazybind is the conformance harness of spec/LazyBind.tla (C12:
// concurrent requests on one root are race free and mutually isolated).
//
//	lazybind replay -universe u.json -vectors v.json -iters N -mult M
//	    every mix TLC explored (which requests each goroutine sends to one cold root of
//	    U-lazy) is run free, N times; every response must be the one the specification
//	    prescribes (M({})), or one that M(K) allows (known deviation), nothing else
//	lazybind stress -universe u.json -uexec e.json -kouts k.json -iters N -goroutines 2,16,64
//	    free-running stress from a cold root per iteration over U-exec (random documents,
//	    variables, fragments, unions, interfaces, introspection) and U-lazy; every
//	    response must equal the response of the same request run alone on a fresh root
//	lazybind trace -universe u.json -vectors v.json -out t.ndjson       (build tag c12hooks)
//	    one goroutine, the requests of a mix one after the other on a cold root; every
//	    access to Object.meta / FieldDef bindings is logged with the locks really held
//
// Built with -race for replay and stress: the race detector is the oracle for
// "no data race"; the watchdog for "no deadlock".
package main

import (
	"encoding/json"
	"flag"
	"fmt"
	"math/rand"
	"os"
	"regexp"
	"runtime"
	"sort"
	"strconv"
	"strings"
	"time"

	"github.com/uhn/ggql/pkg/ggql"

	"verifharness/gq"
	lb "verifharness/lazybind"
	"verifharness/vh"
)

const watchdog = 30 * time.Second

// Vector is one (world, mix) with the outcomes prescribed per goroutine and request.
type Vector struct {
	W    string       `json:"w"`
	Mix  [][]string   `json:"mix"`
	Exp  [][]string   `json:"exp"`
	Alt  [][][]string `json:"alt"`  // outcomes M(K) allows besides exp
	KDev string       `json:"kdev"` // deviations of K that explain Alt
}

func (v *Vector) key() string { return v.W + "|" + vh.JS(v.Mix) }

func readExport(path string) *lb.Export {
	var ex lb.Export
	vh.ReadJSON(path, &ex)
	for wn, w := range ex.Uni.Worlds {
		if err := lb.CheckWorld(w); err != nil {
			vh.Die("world %s: %s", wn, err)
		}
	}
	return &ex
}

func lazyRequest(ex *lb.Export, name string) *lb.Request {
	r, ok := ex.Uni.Reqs[name]
	if !ok {
		vh.Die("no request %s in the universe", name)
	}
	return &lb.Request{Name: name, Text: r.Text, Op: r.Op, Vars: r.Vars}
}

// alone runs the request by itself on a fresh cold root of the world.
func aloneLazy(ex *lb.Export, wn, name string) map[string]interface{} {
	root, err := lb.NewLazyRoot(ex.Uni.Worlds[wn])
	if err != nil {
		vh.Die("%s", err)
	}
	return lazyRequest(ex, name).Run(root)
}

func matches(resp *gq.Response, res map[string]interface{}) (bool, string) {
	if resp == nil {
		return false, "no prescribed response"
	}
	ds := gq.Compare(resp, gq.FromResult(res, nil), false)
	if len(ds) == 0 {
		return true, ""
	}
	var parts []string
	for _, d := range ds {
		parts = append(parts, d.Aspect+": "+d.What)
	}
	return false, strings.Join(parts, "; ")
}

// outcomeOf names the outcome whose prescribed response the real response is, or "?".
func outcomeOf(r *lb.Req, res map[string]interface{}) string {
	names := make([]string, 0, len(r.Resp))
	for o := range r.Resp {
		names = append(names, o)
	}
	sort.Strings(names)
	for _, o := range names {
		if ok, _ := matches(r.Resp[o], res); ok {
			return o
		}
	}
	return "?"
}

func widen() {
	// Yield at every verification point (if the tree has them): the first-use windows get
	// wider.  Gosched is not a synchronisation, the race detector stays unaffected.
	ggql.VerifHook = func(string, interface{}) { runtime.Gosched() }
}

// ------------------------------------------------------------------ replay

func cmdReplay(args []string) {
	fs := flag.NewFlagSet("replay", flag.ExitOnError)
	up := fs.String("universe", "", "export of MCLazyBind (@@UNI)")
	vp := fs.String("vectors", "", "vectors json")
	iters := fs.Int("iters", 20, "cold-root iterations per vector")
	mult := fs.Int("mult", 1, "copies of the mix's goroutines started together")
	yield := fs.Bool("yield", true, "yield at verification points")
	_ = fs.Parse(args)
	ex := readExport(*up)
	var vecs []Vector
	vh.ReadJSON(*vp, &vecs)
	rep := vh.NewReport("lazybind", "replay")
	if *yield {
		widen()
	}
	// the response of every request run alone on a cold root, and S's outcome for it
	alone := map[string]string{}
	sOut := map[string]string{}
	for _, v := range vecs {
		if len(v.Mix) > 0 && len(v.Mix[0]) == 1 && goroutines(v.Mix) == 1 {
			sOut[v.W+"|"+v.Mix[0][0]] = v.Exp[0][0]
		}
	}
	for wn := range ex.Uni.Worlds {
		for _, name := range ex.Uni.ReqSeq {
			res := aloneLazy(ex, wn, name)
			alone[wn+"|"+name] = lb.CanonResponse(res)
			if o, ok := sOut[wn+"|"+name]; ok {
				rep.Case("alone|"+wn+"|"+name, false)
				if ok, why := matches(ex.Uni.Reqs[name].Resp[o], res); !ok {
					rep.Mismatch(vh.Mismatch{Case: map[string]interface{}{"world": wn, "request": ex.Uni.Reqs[name].Text, "aspect": "alone"},
						What:     "the response of the request run alone on a cold root is not the one the specification prescribes (outcome " + o + "): " + why,
						Expected: ex.Uni.Reqs[name].Resp[o], Actual: lb.Canon(res)})
				}
			}
		}
	}
	for vi := range vecs {
		v := &vecs[vi]
		w := ex.Uni.Worlds[v.W]
		if w == nil {
			vh.Die("vector %d: no world %s", vi, v.W)
		}
		type slot struct {
			g    int
			reqs []string
		}
		var slots []slot
		var programs [][]*lb.Request
		for m := 0; m < *mult; m++ {
			for g, names := range v.Mix {
				if len(names) == 0 {
					continue
				}
				var p []*lb.Request
				for _, n := range names {
					p = append(p, lazyRequest(ex, n))
				}
				programs = append(programs, p)
				slots = append(slots, slot{g: g, reqs: names})
			}
		}
		conc := goroutines(v.Mix) > 1 || *mult > 1
		for it := 0; it < *iters; it++ {
			root, err := lb.NewLazyRoot(w)
			if err != nil {
				vh.Die("%s", err)
			}
			outs, finished, stacks := lb.RunConcurrently(root, programs, watchdog)
			rep.Case(v.key(), conc)
			if !finished {
				rep.Mismatch(vh.Mismatch{Case: map[string]interface{}{"world": v.W, "mix": v.Mix, "aspect": "deadlock"},
					What: fmt.Sprintf("deadlock watchdog: the requests did not all return within %s", watchdog), Actual: stacks})
				rep.Emit()
				os.Exit(0)
			}
			for si, o := range outs {
				s := slots[si]
				if o.Panic != "" {
					rep.Mismatch(vh.Mismatch{Case: map[string]interface{}{"world": v.W, "mix": v.Mix, "goroutine": s.g + 1, "aspect": "panic"},
						What: "panic while resolving: " + o.Panic})
					continue
				}
				for ri, res := range o.Results {
					name := s.reqs[ri]
					rq := ex.Uni.Reqs[name]
					exp := v.Exp[s.g][ri]
					ok, why := matches(rq.Resp[exp], res)
					// a response with the prescribed outcome must be identical to the alone response;
					// within one goroutine's sequence the earlier requests are part of the history
					if ok && lb.CanonResponse(res) == alone[v.W+"|"+name] {
						rep.Class("outcome:" + exp)
						continue
					}
					if ok {
						why = "same outcome but not identical to the response of the request run alone"
					}
					known := ""
					if ok && unionMissOnly(lb.CanonResponse(res), alone[v.W+"|"+name]) {
						known = "UnionMissNamesUnbound"
					}
					if s.g < len(v.Alt) && ri < len(v.Alt[s.g]) {
						for _, alt := range v.Alt[s.g][ri] {
							if ok2, _ := matches(rq.Resp[alt], res); ok2 {
								known = v.KDev
								rep.Class("outcome:" + alt + " (known)")
							}
						}
					}
					rep.Mismatch(vh.Mismatch{
						Case:     map[string]interface{}{"world": v.W, "mix": v.Mix, "goroutine": s.g + 1, "request": rq.Text, "copies": *mult, "aspect": "isolation"},
						What:     fmt.Sprintf("response of %q differs from the one it gets alone (prescribed outcome %s): %s", rq.Text, exp, why),
						Expected: alone[v.W+"|"+name], Actual: lb.CanonResponse(res), Known: known})
				}
			}
		}
		if vi%37 == 0 {
			rep.Sample(map[string]interface{}{"world": v.W, "mix": v.Mix, "prescribed": v.Exp, "alsoAllowedUnderK": v.Alt, "iterations": *iters, "copies": *mult})
		}
	}
	rep.Emit()
}

func goroutines(mix [][]string) int {
	n := 0
	for _, m := range mix {
		if len(m) > 0 {
			n++
		}
	}
	return n
}

// ------------------------------------------------------------------ stress

var introspection = []string{
	`{ __schema { queryType { name } mutationType { name } types { name kind fields { name args { name type { name kind ofType { name } } } type { name kind ofType { name kind ofType { name } } } } interfaces { name } possibleTypes { name } } directives { name locations args { name } } } }`,
	`{ __type(name: "A") { name kind fields { name type { name kind } } interfaces { name } } }`,
	`{ __type(name: "Named") { name kind possibleTypes { name } fields { name } } }`,
	`{ __type(name: "Any") { name kind possibleTypes { name } } }`,
	`query($n: String!) { __type(name: $n) { name fields(includeDeprecated: true) { name } } }`,
	`{ __typename title a { __typename name } }`,
}

// fixed requests that exercise each action of the model on U-exec
var fixedExec = []lb.Request{
	{Text: `{ title }`},
	{Text: `{ a { name n } }`},
	{Text: `{ a { peer { name flag peer { name } } } }`},
	{Text: `{ echo(s: "x", b: true, i: 3) }`},
	{Text: `query($s: String, $b: Boolean, $i: Int) { echo(s: $s, b: $b, i: $i) }`, Vars: gq.ValMap{"s": gq.Str("v"), "b": gq.Bool(false), "i": gq.Int(7)}},
	{Text: `{ a { tag(s: "t") } }`},
	{Text: `{ need(x: "n") need2(x: "n", o: "o") }`},
	{Text: `{ named { name } }`},
	{Text: `{ named { __typename name ... on A { n } ... on B { flag } } }`},
	{Text: `{ one { name ... on B { flag peer { name } } } }`},
	{Text: `{ any { __typename ... on A { name n } ... on B { name flag } } }`},
	{Text: `{ any { ... on Named { name } } }`},
	{Text: `{ items { name kids { name } } }`},
	{Text: `{ matrix { name } grid }`},
	{Text: `{ a { boom name } bad }`},
	{Text: `{ a { many } }`},
	{Text: `{ a { ...F } } fragment F on A { name self { ...G } } fragment G on A { n }`},
	{Text: `query Q($k: Boolean!) { a { name @skip(if: $k) n @include(if: $k) } }`, Op: "Q", Vars: gq.ValMap{"k": gq.Bool(true)}},
	{Text: `mutation { set(s: "m") a { name } }`},
	{Text: `{ nope }`},
	{Text: `{ a { name(bogus: 1) } }`},
}

func cmdStress(args []string) {
	fs := flag.NewFlagSet("stress", flag.ExitOnError)
	up := fs.String("universe", "", "export of MCLazyBind (@@UNI)")
	ep := fs.String("uexec", "", "U-exec universe json")
	kp := fs.String("kouts", "", "json: world -> request -> outcomes M(K) allows besides S's, and kdev")
	iters := fs.Int("iters", 100, "cold-root iterations per goroutine count")
	gl := fs.String("goroutines", "2,16,64", "goroutine counts")
	npool := fs.Int("pool", 60, "random U-exec documents in the pool")
	depth := fs.Int("depth", 3, "selection depth of random documents")
	yield := fs.Bool("yield", true, "yield at verification points")
	_ = fs.Parse(args)
	ex := readExport(*up)
	var u gq.Universe
	vh.ReadJSON(*ep, &u)
	var kouts struct {
		KDev string                         `json:"kdev"`
		Alt  map[string]map[string][]string `json:"alt"`
	}
	if *kp != "" {
		vh.ReadJSON(*kp, &kouts)
	}
	rng := rand.New(rand.NewSource(vh.Seed()))
	rep := vh.NewReport("lazybind", "stress")
	if *yield {
		widen()
	}
	// ---- request pools
	var pool []*lb.Request
	for i := range fixedExec {
		r := fixedExec[i]
		r.Name = "fixed" + strconv.Itoa(i)
		pool = append(pool, &r)
	}
	for i, t := range introspection {
		r := &lb.Request{Name: "intro" + strconv.Itoa(i), Text: t}
		if strings.Contains(t, "$n") {
			r.Vars = gq.ValMap{"n": gq.Str("B")}
		}
		pool = append(pool, r)
	}
	g := &gq.Gen{R: rng, U: u.WithoutSilent(), Abstract: true}
	for tries := 0; len(pool) < len(fixedExec)+len(introspection)+*npool && tries < *npool*30; tries++ {
		c := g.Case(1 + rng.Intn(*depth))
		c.Doc.Normalize()
		c.Faults = nil
		if !gq.ReflSuitable(&u, c) {
			continue
		}
		pool = append(pool, &lb.Request{Name: "rand" + strconv.Itoa(tries), Text: c.Doc.Text(gq.Layouts[rng.Intn(len(gq.Layouts))]), Op: c.Op, Vars: c.Vars})
	}
	// ---- baselines: the same request alone on a fresh root (twice: a request whose own
	// response is not deterministic cannot be compared and is dropped, counted)
	type base struct{ canon [lb.NumRootKinds]string }
	bases := map[string]*base{}
	var usable []*lb.Request
	for _, r := range pool {
		b := &base{}
		ok, panics := true, false
		for bm := 0; bm < lb.NumRootKinds; bm++ {
			var c [2]string
			for k := 0; k < 2; k++ {
				root, err := lb.NewExecRoot(&u, bm)
				if err != nil {
					vh.Die("%s", err)
				}
				c[k] = lb.CanonResponse(safeRun(r, root))
			}
			if c[0] != c[1] {
				ok = false
			}
			if strings.HasPrefix(c[0], `{"panic":`) {
				panics = true
			}
			b.canon[bm] = c[0]
		}
		if panics {
			rep.Class("dropped: panics when run alone (C03)")
			continue
		}
		if !ok {
			rep.Class("dropped: response not deterministic when run alone")
			continue
		}
		bases[r.Name] = b
		usable = append(usable, r)
	}
	lazyAlone := map[string]string{}
	var worlds []string
	for wn := range ex.Uni.Worlds {
		worlds = append(worlds, wn)
	}
	sort.Strings(worlds)
	for _, wn := range worlds {
		for _, name := range ex.Uni.ReqSeq {
			lazyAlone[wn+"|"+name] = lb.CanonResponse(aloneLazy(ex, wn, name))
		}
	}
	rep.Extra["pool"] = len(usable)
	rep.Extra["lazy_requests"] = len(ex.Uni.ReqSeq)
	var counts []int
	for _, s := range strings.Split(*gl, ",") {
		n, err := strconv.Atoi(strings.TrimSpace(s))
		if err != nil || n < 1 {
			vh.Die("bad goroutine count %q", s)
		}
		counts = append(counts, n)
	}
	for _, n := range counts {
		for it := 0; it < *iters; it++ {
			lazy := it%3 == 2
			var programs [][]*lb.Request
			var root *ggql.Root
			var err error
			where := ""
			bm := 0
			if lazy {
				where = worlds[(it/3)%len(worlds)]
				root, err = lb.NewLazyRoot(ex.Uni.Worlds[where])
				for k := 0; k < n; k++ {
					programs = append(programs, []*lb.Request{lazyRequest(ex, ex.Uni.ReqSeq[rng.Intn(len(ex.Uni.ReqSeq))])})
				}
			} else {
				bm = (it - it/3) % lb.NumRootKinds
				where = "uexec/" + lb.RootKindNames[bm]
				root, err = lb.NewExecRoot(&u, bm)
				// a few distinct requests, each sent by several goroutines: same first use raced by many
				distinct := 1 + rng.Intn(minInt(n, 6))
				var chosen []*lb.Request
				for k := 0; k < distinct; k++ {
					chosen = append(chosen, usable[rng.Intn(len(usable))])
				}
				for k := 0; k < n; k++ {
					programs = append(programs, []*lb.Request{chosen[rng.Intn(len(chosen))]})
				}
			}
			if err != nil {
				vh.Die("%s", err)
			}
			lb.ArgsTampered()
			outs, finished, stacks := lb.RunConcurrently(root, programs, watchdog)
			if t := lb.ArgsTampered(); t != "" && finished {
				rep.Mismatch(vh.Mismatch{Case: map[string]interface{}{"root": where, "goroutines": n, "aspect": "isolation"}, What: "isolation: " + t})
			}
			rep.Class(fmt.Sprintf("goroutines:%d", n))
			rep.Class("root:" + where)
			var names []string
			for _, p := range programs {
				names = append(names, p[0].Text)
			}
			sort.Strings(names)
			rep.Case(where+"|"+strings.Join(names, "|"), n > 1)
			if !finished {
				rep.Mismatch(vh.Mismatch{Case: map[string]interface{}{"root": where, "goroutines": n, "aspect": "deadlock"},
					What: fmt.Sprintf("deadlock watchdog: %d requests did not all return within %s", n, watchdog), Actual: stacks})
				rep.Emit()
				os.Exit(0)
			}
			for k, o := range outs {
				rq := programs[k][0]
				if o.Panic != "" {
					rep.Mismatch(vh.Mismatch{Case: map[string]interface{}{"root": where, "request": rq.Text, "goroutines": n, "aspect": "panic"},
						What: "panic while resolving: " + o.Panic})
					continue
				}
				got := lb.CanonResponse(o.Results[0])
				want := ""
				if lazy {
					want = lazyAlone[where+"|"+rq.Name]
				} else {
					want = bases[rq.Name].canon[bm]
				}
				if got == want {
					continue
				}
				known := ""
				if unionMissOnly(got, want) {
					known = "UnionMissNamesUnbound"
				}
				if lazy {
					for _, alt := range kouts.Alt[where][rq.Name] {
						if ok, _ := matches(ex.Uni.Reqs[rq.Name].Resp[alt], o.Results[0]); ok {
							known = kouts.KDev
						}
					}
				}
				rep.Mismatch(vh.Mismatch{
					Case:     map[string]interface{}{"root": where, "request": rq.Text, "op": rq.Op, "vars": rq.Vars, "goroutines": n, "aspect": "isolation"},
					What:     fmt.Sprintf("with %d concurrent requests on a cold root the response of %q differs from the one it gets alone", n, rq.Text),
					Expected: want, Actual: got, Known: known})
			}
			if it == 1 && n == counts[0] {
				rep.Sample(map[string]interface{}{"root": where, "goroutines": n, "requests": names})
			}
		}
	}
	rep.Emit()
}

func safeRun(r *lb.Request, root *ggql.Root) (res map[string]interface{}) {
	defer func() {
		if p := recover(); p != nil {
			res = map[string]interface{}{"panic": fmt.Sprint(p)}
		}
	}()
	return r.Run(root)
}

func minInt(a, b int) int {
	if a < b {
		return a
	}
	return b
}

// ------------------------------------------------------------------ main

// Known finding UnionMissNamesUnbound: the error for a value that is no member of a union names the first member that has
// no Go type bound yet and is located at that member's definition in the schema text, or - once every member is bound -
// says that the value is no member, located at the field; which of them it is depends on what was resolved before.
var unionMissMsg = regexp.MustCompile(`failed to determine union member \w+ implementation type\. Use @go directive|a \*?[\w.]+ is not a member of union \w+`)
var canonLocs = regexp.MustCompile(`\\?"locations\\?":\[[^\]]*\],?`)

// unionMissOnly reports whether two canonical responses differ only in the text and location of such errors.
func unionMissOnly(a, b string) bool {
	if a == b || !unionMissMsg.MatchString(a) || !unionMissMsg.MatchString(b) {
		return false
	}
	norm := func(s string) string {
		s = canonLocs.ReplaceAllString(unionMissMsg.ReplaceAllString(s, "UNION-MISS"), "")
		// (the errors of a canonical response are sorted by their text: sort again now that the texts are the same)
		const tag = `"errors":"sorted:`
		i := strings.Index(s, tag)
		if i < 0 {
			return s
		}
		j := i + len(tag)
		for j < len(s) && !(s[j] == '"' && s[j-1] != '\\') {
			j++
		}
		es := strings.Split(strings.TrimSuffix(strings.TrimPrefix(s[i+len(tag):j], "{"), "}"), "};{")
		sort.Strings(es)
		return s[:i+len(tag)] + "{" + strings.Join(es, "};{") + "}" + s[j:]
	}
	return norm(a) == norm(b)
}

func main() {
	if len(os.Args) < 2 {
		vh.Die("usage: lazybind replay|stress|trace ...")
	}
	switch os.Args[1] {
	case "replay":
		cmdReplay(os.Args[2:])
	case "stress":
		cmdStress(os.Args[2:])
	case "trace":
		cmdTrace(os.Args[2:])
	case "rendezvous":
		cmdRendezvous(os.Args[2:])
	default:
		vh.Die("unknown subcommand %s", os.Args[1])
	}
}

func writeNDJSON(path string, recs []interface{}) {
	f, err := os.Create(path)
	if err != nil {
		vh.Die("%s", err)
	}
	defer f.Close()
	enc := json.NewEncoder(f)
	for _, r := range recs {
		if err := enc.Encode(r); err != nil {
			vh.Die("%s", err)
		}
	}
}
