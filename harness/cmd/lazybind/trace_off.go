//go:build !c12hooks
// +build !c12hooks

package main

import "verifharness/vh"

// Without the C12 verification points (proposals/C12/hooks.diff) in the tree
// under test there is nothing to log.
func cmdTrace(args []string) {
	rep := vh.NewReport("lazybind", "trace")
	rep.Extra["hooks"] = false
	rep.Notes = append(rep.Notes, "the tree under test has no C12 verification points; access logs cannot be recorded")
	rep.Emit()
}
