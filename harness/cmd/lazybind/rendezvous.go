package main

// rendezvous (C12, "no deadlock"): application code called by ggql may wait for application code
// called on behalf of another request (batching loaders, caches filled once, rate limiters).  N
// goroutines resolve the same field of one root at the same time; the field's resolver does not
// return before all N are inside it (or a time bound expires).  On a library that calls out with
// no lock held all N meet; a lock held across the call into application code lets one in and
// blocks the others for good.  Every strategy, cold and warm roots, the field on the root object
// and on a nested object, a union member and an interface implementor.

import (
	"flag"
	"fmt"
	"sync"
	"sync/atomic"
	"time"

	"github.com/uhn/ggql/pkg/ggql"

	"verifharness/vh"
)

type barrier struct {
	n       int32
	arrived int32
	all     chan struct{}
	once    sync.Once
	bound   time.Duration
	late    int32
}

func newBarrier(n int, bound time.Duration) *barrier {
	return &barrier{n: int32(n), all: make(chan struct{}), bound: bound}
}

// wait returns true when all n callers were inside wait at the same time.
func (b *barrier) wait() bool {
	if atomic.AddInt32(&b.arrived, 1) >= b.n {
		b.once.Do(func() { close(b.all) })
	}
	select {
	case <-b.all:
		return true
	case <-time.After(b.bound):
		atomic.AddInt32(&b.late, 1)
		return false
	}
}

var rvBar *barrier // (one run at a time)

func met() (interface{}, error) {
	if rvBar == nil || rvBar.wait() {
		return "met", nil
	}
	return "alone", nil
}

// reflection strategy
type RvQuery struct{}
type RvPet struct{}
type RvDog struct{}

func (q *RvQuery) Meet() (interface{}, error) { return met() }
func (q *RvQuery) Pet() *RvPet                { return &RvPet{} }
func (q *RvQuery) Pets() []*RvPet             { return []*RvPet{{}} }
func (q *RvQuery) Any() interface{}           { return &RvDog{} }
func (q *RvQuery) Named() interface{}         { return &RvDog{} }
func (p *RvPet) Meet() (interface{}, error)   { return met() }
func (d *RvDog) Meet() (interface{}, error)   { return met() }
func (d *RvDog) Name() string                 { return "rex" }

type rvSchema struct{ Query *RvQuery }

// Resolver objects
type rvNode struct{ t string }

func (n *rvNode) Resolve(f *ggql.Field, args map[string]interface{}) (interface{}, error) {
	switch f.Name {
	case "meet":
		return met()
	case "pet":
		return &rvNode{t: "RvPet"}, nil
	case "pets":
		return []interface{}{&rvNode{t: "RvPet"}}, nil
	case "name":
		return "rex", nil
	}
	return nil, nil
}

// root (any) resolver over plain maps
type rvAny struct{}

func (rvAny) Resolve(obj interface{}, f *ggql.Field, args map[string]interface{}) (interface{}, error) {
	switch f.Name {
	case "meet":
		return met()
	case "pet":
		return map[string]interface{}{}, nil
	case "pets":
		return []interface{}{map[string]interface{}{}}, nil
	}
	return nil, nil
}
func (rvAny) Len(list interface{}) int { l, _ := list.([]interface{}); return len(l) }
func (rvAny) Nth(list interface{}, i int) (interface{}, error) {
	return list.([]interface{})[i], nil
}

const rvSDL = `
type Query { meet: String pet: RvPet pets: [RvPet] any: RvAny named: RvNamed }
type RvPet { meet: String }
type RvDog implements RvNamed { meet: String name: String }
interface RvNamed { meet: String name: String }
union RvAny = RvDog | RvPet
`

func rvRoot(kind string) *ggql.Root {
	var root *ggql.Root
	switch kind {
	case "refl":
		root = ggql.NewRoot(&rvSchema{Query: &RvQuery{}})
	case "iface":
		root = ggql.NewRoot(&rvNode{t: "schema"})
	case "any":
		root = ggql.NewRoot(map[string]interface{}{})
		root.AnyResolver = rvAny{}
	}
	if err := root.ParseString(rvSDL); err != nil {
		vh.Die("rendezvous schema: %s", err)
	}
	return root
}

func cmdRendezvous(args []string) {
	fs := flag.NewFlagSet("rendezvous", flag.ExitOnError)
	bound := fs.Duration("bound", 3*time.Second, "time the callers wait for each other")
	_ = fs.Parse(args)
	rep := vh.NewReport("lazybind", "rendezvous")
	reqs := map[string][]string{
		"refl":  {"{ meet }", "{ pet { meet } }", "{ pets { meet } }", "{ any { ... on RvDog { meet } } }", "{ named { meet } }", "{ named { ... on RvDog { meet name } } }"},
		"iface": {"{ meet }", "{ pet { meet } }", "{ pets { meet } }"},
		"any":   {"{ meet }", "{ pet { meet } }", "{ pets { meet } }"},
	}
	// the iface strategy's root object must itself answer "query": wrap
	for _, kind := range []string{"refl", "iface", "any"} {
		for _, q := range reqs[kind] {
			for _, n := range []int{2, 5} {
				for _, warm := range []bool{false, true} {
					root := rvRoot(kind)
					if kind == "iface" {
						root = ggql.NewRoot(&ifaceSchema{})
						if err := root.ParseString(rvSDL); err != nil {
							vh.Die("rendezvous schema: %s", err)
						}
					}
					rvBar = nil
					if warm {
						_ = root.ResolveString(q, "", nil) // bindings learned, nobody waits
					}
					rvBar = newBarrier(n, *bound)
					var wg sync.WaitGroup
					results := make([]map[string]interface{}, n)
					for k := 0; k < n; k++ {
						wg.Add(1)
						go func(k int) {
							defer wg.Done()
							defer func() {
								if r := recover(); r != nil {
									results[k] = map[string]interface{}{"panic": fmt.Sprint(r)}
								}
							}()
							results[k] = root.ResolveString(q, "", nil)
						}(k)
					}
					done := make(chan struct{})
					go func() { wg.Wait(); close(done) }()
					finished := true
					select {
					case <-done:
					case <-time.After(*bound + 5*time.Second):
						finished = false
					}
					late := atomic.LoadInt32(&rvBar.late)
					cs := map[string]interface{}{"strategy": kind, "request": q, "goroutines": n, "warm_root": warm, "aspect": "deadlock"}
					rep.Case(fmt.Sprintf("%s|%s|%d|%v", kind, q, n, warm), true)
					rep.Class("rendezvous:" + kind)
					if !finished || late > 0 {
						rep.Mismatch(vh.Mismatch{Case: cs, What: fmt.Sprintf("%d concurrent requests for the same field were never inside its resolver together "+
							"(%d gave up after %s, all returned: %v): a lock is held across the call into application code, which deadlocks resolvers that wait for each other",
							n, late, *bound, finished)})
						if !finished {
							rep.Emit()
							return
						}
					}
					if kind == "refl" && q == "{ meet }" && n == 2 && !warm {
						rep.Sample(map[string]interface{}{"strategy": kind, "request": q, "goroutines": n, "responses": results})
					}
				}
			}
		}
	}
	rep.Emit()
}

// a Resolver object as root object: "query" yields the query node
type ifaceSchema struct{}

func (s *ifaceSchema) Resolve(f *ggql.Field, args map[string]interface{}) (interface{}, error) {
	return &rvNode{t: "Query"}, nil
}
