//go:build c12hooks
// +build c12hooks

package main

import (
	"flag"
	"fmt"

	"github.com/uhn/ggql/pkg/ggql"

	lb "verifharness/lazybind"
	"verifharness/vh"
)

type heldRec struct {
	K string `json:"k"`
	O string `json:"o"`
	F string `json:"f"`
}

type accRec struct {
	T    string    `json:"t"`
	L    string    `json:"l"`
	O    string    `json:"o"`
	F    string    `json:"f"`
	Held []heldRec `json:"held"`
	M    string    `json:"m"`
	B    string    `json:"b"`
}

type fdKey struct{ o, f string }

// cmdTrace: one goroutine, the requests of each one-goroutine mix in sequence on
// a cold root.  At every verification point the hook records which access is
// about to happen, on what, the mutexes that are really locked at that moment
// (TryLock on every Object.mu / FieldDef.mu of the world: nothing else runs,
// so "locked" means "held by the resolving goroutine") and the current value.
func cmdTrace(args []string) {
	fs := flag.NewFlagSet("trace", flag.ExitOnError)
	up := fs.String("universe", "", "export of MCLazyBind (@@UNI)")
	vp := fs.String("vectors", "", "vectors json")
	outp := fs.String("out", "", "ndjson output")
	_ = fs.Parse(args)
	ex := readExport(*up)
	var vecs []Vector
	vh.ReadJSON(*vp, &vecs)
	rep := vh.NewReport("lazybind", "trace")
	rep.Extra["hooks"] = true
	var recs []interface{}
	points := 0
	for vi := range vecs {
		v := &vecs[vi]
		if goroutines(v.Mix) != 1 || len(v.Mix[0]) == 0 {
			continue
		}
		w := ex.Uni.Worlds[v.W]
		root, err := lb.NewLazyRoot(w)
		if err != nil {
			vh.Die("%s", err)
		}
		// the objects and field definitions of the world, by identity
		objs := map[*ggql.Object]string{}
		fds := map[*ggql.FieldDef]fdKey{}
		var objList []*ggql.Object
		var fdList []*ggql.FieldDef
		for _, on := range w.Objs {
			var o *ggql.Object
			if on == "schema" {
				if s := root.VerifSchema(); s != nil {
					o = &s.Object
				}
			} else {
				o, _ = root.GetType(on).(*ggql.Object)
			}
			if o == nil {
				vh.Die("world %s: no object type %s in the root", v.W, on)
			}
			objs[o] = on
			objList = append(objList, o)
			for _, fd := range o.Fields() {
				fds[fd] = fdKey{on, fd.Name()}
				fdList = append(fdList, fd)
			}
		}
		held := func() []heldRec {
			hs := []heldRec{}
			for _, o := range objList {
				if o.VerifMuHeld() {
					hs = append(hs, heldRec{"obj", objs[o], ""})
				}
			}
			for _, fd := range fdList {
				if fd.VerifMuHeld() {
					hs = append(hs, heldRec{"fd", fds[fd].o, fds[fd].f})
				}
			}
			return hs
		}
		recs = append(recs, map[string]interface{}{"t": "begin", "w": v.W, "reqs": v.Mix[0]})
		ggql.VerifHook = func(point string, ref interface{}) {
			if _, ok := ex.Labels[point]; !ok {
				return // a verification point of another property
			}
			points++
			switch r := ref.(type) {
			case *ggql.Object:
				on, ok := objs[r]
				if !ok {
					// an object type outside the model (introspection types are scanned by
					// getReflectType too); nobody ever writes its meta, but the read must be locked
					if !r.VerifMuHeld() {
						rep.Mismatch(vh.Mismatch{Case: map[string]interface{}{"world": v.W, "reqs": v.Mix[0], "aspect": "lockset"},
							What: fmt.Sprintf("access %s to the meta of %s without its mutex", point, r.Name())})
					}
					return
				}
				recs = append(recs, accRec{T: "acc", L: point, O: on, Held: held(), M: r.VerifMeta()})
			case *ggql.FieldDef:
				k, ok := fds[r]
				if !ok {
					return
				}
				recs = append(recs, accRec{T: "acc", L: point, O: k.o, F: k.f, Held: held(), B: r.VerifBinding()})
			}
		}
		outs := []string{}
		for _, name := range v.Mix[0] {
			res := lazyRequest(ex, name).Run(root)
			outs = append(outs, outcomeOf(ex.Uni.Reqs[name], res))
		}
		ggql.VerifHook = nil
		recs = append(recs, map[string]interface{}{"t": "end", "outs": outs})
		rep.Case("trace|"+v.key(), len(v.Mix[0]) > 1)
		if vi%41 == 0 {
			rep.Sample(map[string]interface{}{"world": v.W, "requests": v.Mix[0], "outcomes": outs})
		}
	}
	rep.Extra["points"] = points
	writeNDJSON(*outp, recs)
	rep.Emit()
}
