// Command schema is the conformance harness of the type-system family
// (spec/SchemaCore.tla, SchemaRules.tla, Loader.tla): C13 - C17.
//
//	schema loadhist -vectors v.json      histories of loads on one root (C14, C16)
package main

import (
	"flag"
	"fmt"
	"io"
	"os"
	"strings"

	"github.com/uhn/ggql/pkg/ggql"

	"verifharness/sch"
	"verifharness/vh"
)

type Step struct {
	Doc   []sch.Def   `json:"doc"`
	OK    bool        `json:"ok"`
	Why   string      `json:"why"`
	Off   string      `json:"off"`
	Offs  []string    `json:"offs"`
	Canon interface{} `json:"canon"`
	Intro *struct {
		All     interface{} `json:"all"`
		Current interface{} `json:"current"`
	} `json:"intro,omitempty"`
	// second oracle: outcome under the known deviations, when it differs
	OKK    *bool       `json:"okK,omitempty"`
	CanonK interface{} `json:"canonK,omitempty"`
	KDevs  []string    `json:"kdevs,omitempty"`
	OffsK  []string    `json:"offsK,omitempty"`
}

type History struct {
	Hist []Step `json:"hist"`
	Tag  string `json:"tag,omitempty"`
}

func load(root *ggql.Root, defs []sch.Def) error {
	text, faultAt := sch.DocText(defs)
	var r io.Reader = strings.NewReader(text)
	if faultAt >= 0 {
		r = &sch.FaultyReader{Text: text, At: faultAt}
	}
	return root.ParseReader(r)
}

func docKey(defs []sch.Def) string {
	t, f := sch.DocText(defs)
	return fmt.Sprintf("%s#%d", t, f)
}

func cmdLoadHist(args []string) {
	fs := flag.NewFlagSet("loadhist", flag.ExitOnError)
	vp := fs.String("vectors", "", "histories json")
	intro := fs.Bool("intro", false, "compare the introspection view after steps that carry one (C17)")
	offender := fs.Bool("offender", false, "check that the error of a refused load names the model's offender (single-defect documents only)")
	_ = fs.Parse(args)
	var hs []History
	vh.ReadJSON(*vp, &hs)
	rep := vh.NewReport("schema", "loadhist")
	for hi := range hs {
		h := &hs[hi]
		root := newRootFor(hi, *intro)
		key := ""
		failedThenOK := false
		sawFail := false
		for si := range h.Hist {
			st := &h.Hist[si]
			key += "|" + docKey(st.Doc)
			err := load(root, st.Doc)
			text, _ := sch.DocText(st.Doc)
			cs := map[string]interface{}{"history": histText(h, si), "step": si + 1, "document": text, "tag": h.Tag}
			rep.Class("why:" + st.Why)
			if !st.OK {
				sawFail = true
			} else if sawFail {
				failedThenOK = true
			}
			known := ""
			okMatches := (err == nil) == st.OK
			var diffs []string
			if okMatches {
				diffs = sch.Diff(st.Canon, sch.ReadBack(root))
			}
			if (!okMatches || len(diffs) > 0) && st.OKK != nil {
				if (err == nil) == *st.OKK && len(sch.Diff(st.CanonK, sch.ReadBack(root))) == 0 {
					known = strings.Join(st.KDevs, "+")
					if known == "" {
						known = "K"
					}
				}
			}
			if !okMatches {
				what := fmt.Sprintf("verdict: load returned error %v, the model says ok=%v (%s %s)", err, st.OK, st.Why, st.Off)
				cs["aspect"] = "verdict"
				rep.Mismatch(vh.Mismatch{Case: cs, Step: si + 1, What: what, Known: known})
				break
			}
			if *offender && err != nil && len(st.Offs) > 0 {
				named := false
				for _, o := range st.Offs {
					if o != "" && strings.Contains(err.Error(), o) {
						named = true
					}
				}
				if !named {
					if st.OKK != nil && !*st.OKK {
						for _, o := range st.OffsK {
							if o != "" && strings.Contains(err.Error(), o) {
								known = strings.Join(st.KDevs, "+")
							}
						}
					}
					cs["aspect"] = "offender"
					rep.Mismatch(vh.Mismatch{Case: cs, Step: si + 1, What: fmt.Sprintf("offender: the error names none of %q: %v", st.Offs, err), Known: known})
				}
			}
			if *intro && st.Intro != nil && err == nil && len(diffs) == 0 {
				for _, inc := range []bool{true, false} {
					view, ierrs := sch.IntroView(root, inc)
					exp := st.Intro.Current
					if inc {
						exp = st.Intro.All
					}
					rep.Class("introspection")
					ids := sch.Diff(exp, view)
					if ierrs != nil {
						ids = append(ids, fmt.Sprintf("the introspection response has errors: %v", ierrs))
					}
					if len(ids) > 0 {
						cs["aspect"] = "intro"
						cs["includeDeprecated"] = inc
						cs["rootKind"] = rootKinds[hi%len(rootKinds)]
						rep.Mismatch(vh.Mismatch{Case: cs, Step: si + 1, What: "intro: " + strings.Join(ids, "; "), Known: known})
						break
					}
				}
				// __type on an unknown name is null
				r := root.ResolveString(`{ __type(name: "NoSuchTypeAnywhere") { name } }`, "", nil)
				if d, _ := r["data"].(map[string]interface{}); d == nil || d["__type"] != nil || r["errors"] != nil {
					cs["aspect"] = "intro"
					rep.Mismatch(vh.Mismatch{Case: cs, Step: si + 1, What: fmt.Sprintf("intro: __type on an unknown name is not null: %v", r)})
				}
			}
			if len(diffs) > 0 {
				cs["aspect"] = "schema"
				what := "schema: after a successful load: "
				if !st.OK {
					cs["aspect"] = "atomic"
					what = "atomic: after a FAILED load the root changed: "
				}
				rep.Mismatch(vh.Mismatch{Case: cs, Step: si + 1, What: what + strings.Join(diffs, "; "), Known: known})
				break
			}
		}
		nontrivial := failedThenOK || sawFail
		if h.Tag != "" { // arrangements (C16): several loads or an extend block
			nontrivial = len(h.Hist) > 1
			for _, st := range h.Hist {
				for _, d := range st.Doc {
					if d.Ext {
						nontrivial = true
					}
				}
			}
		}
		rep.Case(key, nontrivial)
		if hi%997 == 0 {
			rep.Sample(histText(h, len(h.Hist)-1))
		}
	}
	rep.Emit()
}

var rootKinds = []string{"reflection", "resolver", "any"}

type appRoot struct{}

func (a *appRoot) Resolve(field *ggql.Field, args map[string]interface{}) (interface{}, error) {
	switch field.Name {
	case "query", "mutation", "subscription":
		return &appRoot{}, nil // the application's operation root object
	}
	return nil, nil
}

// appAny is an application's root resolver: it knows the application's data only.
type appAny struct{}

func (a *appAny) Resolve(obj interface{}, field *ggql.Field, args map[string]interface{}) (interface{}, error) {
	switch field.Name {
	case "query", "mutation", "subscription":
		return map[string]interface{}{"app": true}, nil
	}
	return nil, nil
}
func (a *appAny) Len(list interface{}) int { return 0 }
func (a *appAny) Nth(list interface{}, i int) (interface{}, error) {
	return nil, fmt.Errorf("not an application list")
}

// newRootFor rotates the strategy the application would use for its own data (C17: the
// introspection answer must not depend on it).
func newRootFor(i int, rotate bool) *ggql.Root {
	if !rotate {
		return ggql.NewRoot(nil)
	}
	type reflOp struct{ Unused int }
	type reflApp struct{ Query, Mutation, Subscription *reflOp }
	switch rootKinds[i%len(rootKinds)] {
	case "resolver":
		return ggql.NewRoot(&appRoot{})
	case "any":
		r := ggql.NewRoot(map[string]interface{}{})
		r.AnyResolver = &appAny{}
		return r
	}
	return ggql.NewRoot(&reflApp{Query: &reflOp{}, Mutation: &reflOp{}, Subscription: &reflOp{}})
}

func histText(h *History, upto int) []string {
	var out []string
	for i := 0; i <= upto && i < len(h.Hist); i++ {
		t, f := sch.DocText(h.Hist[i].Doc)
		s := strings.ReplaceAll(strings.TrimSpace(t), "\n", " ")
		if f >= 0 {
			s += fmt.Sprintf(" [reader fails at byte %d]", f)
		}
		out = append(out, s)
	}
	return out
}

func main() {
	if len(os.Args) < 2 {
		vh.Die("usage: schema loadhist ...")
	}
	switch os.Args[1] {
	case "loadhist":
		cmdLoadHist(os.Args[2:])
	default:
		vh.Die("unknown mode %s", os.Args[1])
	}
}
