// Command schema is the conformance harness of the type-system family
// (spec/SchemaCore.tla, SchemaRules.tla, Loader.tla): C13 - C17.
//
//	schema loadhist -vectors v.json      histories of loads on one root (C14, C16)
package main

import (
	"bufio"
	"encoding/json"
	"errors"
	"flag"
	"fmt"
	"io"
	iofs "io/fs"
	"math/rand"
	"os"
	"os/exec"
	"path"
	"path/filepath"
	"sort"
	"strings"

	"github.com/uhn/ggql/pkg/ggql"

	"verifharness/sch"
	"verifharness/vh"
)

type Step struct {
	Doc   []sch.Def   `json:"doc"`
	Via   string      `json:"via,omitempty"` // "types": delivered as Go-built types through Root.AddTypes
	OK    bool        `json:"ok"`
	Why   string      `json:"why"`
	Off   string      `json:"off"`
	Offs  []string    `json:"offs"`
	Canon interface{} `json:"canon"`
	Intro *struct {
		All     interface{} `json:"all"`
		Current interface{} `json:"current"`
	} `json:"intro,omitempty"`
	// second oracle: outcome under the known deviations, when it differs
	OKK    *bool       `json:"okK,omitempty"`
	CanonK interface{} `json:"canonK,omitempty"`
	KDevs  []string    `json:"kdevs,omitempty"`
	OffsK  []string    `json:"offsK,omitempty"`
}

type History struct {
	Hist []Step `json:"hist"`
	Tag  string `json:"tag,omitempty"`
}

// memFS serves one document as two files (ParseFS concatenates them); closeErr makes Close of the last file fail.
type memFS struct {
	files    map[string]string
	closeErr string
}

type memFile struct {
	*strings.Reader
	name string
	fail bool
}

func (f *memFile) Stat() (iofs.FileInfo, error) { return nil, fmt.Errorf("no stat") }
func (f *memFile) Close() error {
	if f.fail {
		return fmt.Errorf("close of %s failed", f.name)
	}
	return nil
}

func (m *memFS) Open(name string) (iofs.File, error) {
	if name == "." {
		return nil, &iofs.PathError{Op: "open", Path: name, Err: iofs.ErrInvalid}
	}
	text, ok := m.files[name]
	if !ok {
		return nil, &iofs.PathError{Op: "open", Path: name, Err: iofs.ErrNotExist}
	}
	return &memFile{Reader: strings.NewReader(text), name: name, fail: name == m.closeErr}, nil
}

// Glob makes memFS an fs.GlobFS so that patterns need no directory listing.
func (m *memFS) Glob(pattern string) ([]string, error) {
	var out []string
	for n := range m.files {
		if ok, _ := path.Match(pattern, n); ok {
			out = append(out, n)
		}
	}
	sort.Strings(out)
	return out, nil
}

var loadCount int

// loadStep delivers the document of a history step the way the step says.
func loadStep(root *ggql.Root, st *Step) error {
	if hasStandIn(st.Doc) { // (names written with stand-ins for characters outside ASCII; nothing is read back for them: they are refused)
		doc := expandDefs(st.Doc)
		if st.Via == "types" {
			types, err := sch.Build(root, doc)
			if err != nil {
				return err
			}
			return root.AddTypes(types...)
		}
		return load(root, doc)
	}
	if st.Via == "types" {
		types, err := sch.Build(root, st.Doc)
		if err != nil {
			// (refused while being put together: an Add* method returned the error, the root was never involved)
			return err
		}
		return root.AddTypes(types...)
	}
	return load(root, st.Doc)
}

func hasStandIn(defs []sch.Def) bool {
	for i := range defs {
		if strings.Contains(defs[i].Name, "{") {
			return true
		}
		for k := range defs[i].Fields {
			if strings.Contains(defs[i].Fields[k].N, "{") {
				return true
			}
		}
	}
	return false
}

func load(root *ggql.Root, defs []sch.Def) error {
	text, faultAt := sch.DocText(defs)
	loadCount++
	if sch.HasCloseFault(defs) {
		return root.ParseFS(&memFS{files: map[string]string{"doc.graphql": text}, closeErr: "doc.graphql"}, "*.graphql")
	}
	if faultAt < 0 && loadCount%7 == 3 { // the same entry point without a fault
		return root.ParseFS(&memFS{files: map[string]string{"doc.graphql": text}}, "*.graphql")
	}
	var r io.Reader = strings.NewReader(text)
	if faultAt >= 0 {
		r = &sch.FaultyReader{Text: text, At: faultAt}
	}
	return root.ParseReader(r)
}

func docKey(defs []sch.Def) string {
	t, f := sch.DocText(defs)
	return fmt.Sprintf("%s#%d", t, f)
}

func cmdLoadHist(args []string) {
	fs := flag.NewFlagSet("loadhist", flag.ExitOnError)
	vp := fs.String("vectors", "", "histories json")
	intro := fs.Bool("intro", false, "compare the introspection view after steps that carry one (C17)")
	offender := fs.Bool("offender", false, "check that the error of a refused load names the model's offender (single-defect documents only)")
	requests := fs.Bool("requests", false, "C16: ask a request set derived from the schema after every load (root resolver echoing the arguments) and compare the final answers with those of a root that loaded the same definitions as one document")
	_ = fs.Parse(args)
	rep := vh.NewReport("schema", "loadhist")
	eachHistory(*vp, func(hi int, h *History) {
		root := newRootFor(hi, *intro)
		bound := false // (reflection roots: the query root has been bound to the application's Top method)
		reflRoot := *requests && hi%2 == 1
		if *requests {
			root = ggql.NewRoot(map[string]interface{}{})
			root.AnyResolver = &echoAny{}
			ggql.Sort = true
			if reflRoot {
				// an application whose query root is not called Query(): it is bound by RegisterType / RegisterField on the
				// schema after the first accepted load; the loads that follow leave that binding alone
				root = ggql.NewRoot(&topApp{})
			}
		}
		key := ""
		failedThenOK := false
		sawFail := false
		for si := range h.Hist {
			st := &h.Hist[si]
			key += "|" + st.Via + docKey(st.Doc)
			err := loadStep(root, st)
			if errors.Is(err, sch.ErrNotBuildable) {
				rep.Class("not-buildable")
				break
			}
			text, _ := sch.DocText(st.Doc)
			cs := map[string]interface{}{"history": histText(h, si), "step": si + 1, "document": text, "tag": h.Tag}
			if !reflRoot && (hi+si)%2 == 0 {
				// Loader!Registration: registrations that must be refused, a stuttering step (regprobe.go); what follows judges the root
				asked, accepted := refusedRegistrations(root)
				if asked > 0 {
					rep.Class("refused-registrations")
					cs["registrations"] = "refused registrations were asked for after this load"
				}
				for _, a := range accepted {
					cs["aspect"] = "schema"
					rep.Mismatch(vh.Mismatch{Case: copyCase(cs), Step: si + 1, What: "schema: a registration that names an undeclared argument (or one argument twice) was not refused: " + a})
				}
			}
			if st.Via != "" {
				cs["via"] = st.Via
				rep.Class(fmt.Sprintf("via:%s ok=%v %s", st.Via, st.OK, st.Why))
			}
			rep.Class("why:" + st.Why)
			if !st.OK {
				sawFail = true
			} else if sawFail {
				failedThenOK = true
			}
			known := ""
			okMatches := (err == nil) == st.OK
			var diffs []string
			if okMatches {
				diffs = sch.Diff(st.Canon, sch.ReadBack(root))
			}
			if (!okMatches || len(diffs) > 0) && st.OKK != nil {
				if (err == nil) == *st.OKK && len(sch.Diff(st.CanonK, sch.ReadBack(root))) == 0 {
					known = strings.Join(st.KDevs, "+")
					if known == "" {
						known = "K"
					}
				}
			}
			if !okMatches {
				what := fmt.Sprintf("verdict: load returned error %v, the model says ok=%v (%s %s)", err, st.OK, st.Why, st.Off)
				cs["aspect"] = "verdict"
				rep.Mismatch(vh.Mismatch{Case: copyCase(cs), Step: si + 1, What: what, Known: known})
				break
			}
			if *offender && err != nil && len(st.Offs) > 0 {
				named := false
				for _, o := range st.Offs {
					if o != "" && strings.Contains(err.Error(), o) {
						named = true
					}
				}
				if !named {
					if st.OKK != nil && !*st.OKK {
						for _, o := range st.OffsK {
							if o != "" && strings.Contains(err.Error(), o) {
								known = strings.Join(st.KDevs, "+")
							}
						}
					}
					cs["aspect"] = "offender"
					rep.Mismatch(vh.Mismatch{Case: copyCase(cs), Step: si + 1, What: fmt.Sprintf("offender: the error names none of %q: %v", st.Offs, err), Known: known})
				}
			}
			// after an accepted load the view of the new schema, after a refused load the view of the schema as it was
			// (asked whatever the read-back says: a root that did not take a refused load back shows it here too)
			if *intro && st.Intro != nil && okMatches {
				for _, inc := range []bool{true, false} {
					before, beforeLocs := sch.PseudoTypes, sch.UndeclaredLocs
					view, ierrs := sch.IntroView(root, inc)
					if sch.UndeclaredLocs > beforeLocs && inc {
						cs["aspect"] = "intro"
						rep.Mismatch(vh.Mismatch{Case: copyCase(cs), Step: si + 1, Known: "LocationNotInIntrospectionEnum",
							What: "intro: a directive is reported with a location that is no value of __DirectiveLocation (as __type reports that enum)"})
					}
					if sch.PseudoTypes > before && inc {
						cs["aspect"] = "intro"
						rep.Mismatch(vh.Mismatch{Case: copyCase(cs), Step: si + 1, Known: "SchemaBlockListedAsType",
							What: "intro: __schema { types } lists an entry that is no type of the schema (the schema block, as OBJECT \"schema\")"})
					}
					exp := st.Intro.Current
					if inc {
						exp = st.Intro.All
					}
					rep.Class("introspection")
					ids := sch.Diff(exp, view)
					if ierrs != nil {
						ids = append(ids, fmt.Sprintf("the introspection response has errors: %v", ierrs))
					}
					if len(ids) > 0 {
						cs["aspect"] = "intro"
						cs["includeDeprecated"] = inc
						cs["rootKind"] = rootKinds[hi%len(rootKinds)]
						rep.Mismatch(vh.Mismatch{Case: copyCase(cs), Step: si + 1, What: "intro: " + strings.Join(ids, "; "), Known: known})
						break
					}
				}
				// __type on an unknown name is null: a name nothing has, the empty name, the names of the directives (they are
				// no types)
				unknown := []string{"NoSuchTypeAnywhere", ""}
				for _, d := range root.Directives() {
					if root.GetType(d.Name()) == d { // (unless a type has that name too)
						unknown = append(unknown, d.Name())
					}
				}
				for _, un := range unknown {
					r := root.ResolveString(fmt.Sprintf(`{ __type(name: %q) { name kind } }`, un), "", nil)
					if d, _ := r["data"].(map[string]interface{}); d == nil || d["__type"] != nil || r["errors"] != nil {
						cs["aspect"] = "intro"
						rep.Mismatch(vh.Mismatch{Case: copyCase(cs), Step: si + 1, What: fmt.Sprintf("intro: __type on the unknown name %q is not null: %v", un, r)})
						break
					}
				}
			}
			if reflRoot && err == nil && !bound && root.VerifSchema() != nil && root.VerifSchema().GetField("query") != nil {
				bound = bindTop(root)
			}
			if *requests && err == nil && len(diffs) == 0 {
				answers := askAll(root) // (asked after every load: a root that is used between the loads must end the same)
				if si == len(h.Hist)-1 && len(h.Hist) > 1 {
					var all []sch.Def
					for k := range h.Hist {
						all = append(all, h.Hist[k].Doc...)
					}
					one := ggql.NewRoot(map[string]interface{}{})
					one.AnyResolver = &echoAny{}
					if reflRoot {
						one = ggql.NewRoot(&topApp{})
					}
					if oerr := load(one, all); oerr == nil {
						if reflRoot && bound {
							bindTop(one)
						}
						ref := askAll(one)
						rep.Class("requests")
						if strings.Join(ref, "\n") != strings.Join(answers, "\n") {
							cs["aspect"] = "requests"
							rep.Mismatch(vh.Mismatch{Case: copyCase(cs), Step: si + 1, What: "requests: the root answers " + strings.Join(answers, " | ") +
								" ; a root that loaded the same definitions as one document answers " + strings.Join(ref, " | ")})
						}
					}
				}
			}
			if len(diffs) > 0 {
				cs["aspect"] = "schema"
				what := "schema: after a successful load: "
				if !st.OK {
					cs["aspect"] = "atomic"
					what = "atomic: after a FAILED load the root changed: "
				}
				rep.Mismatch(vh.Mismatch{Case: copyCase(cs), Step: si + 1, What: what + strings.Join(diffs, "; "), Known: known})
				break
			}
		}
		nontrivial := failedThenOK || sawFail
		if h.Tag != "" { // arrangements (C16): several loads or an extend block
			nontrivial = len(h.Hist) > 1
			for _, st := range h.Hist {
				for _, d := range st.Doc {
					if d.Ext {
						nontrivial = true
					}
				}
			}
		}
		rep.Case(key, nontrivial)
		if hi%997 == 0 {
			rep.Sample(histText(h, len(h.Hist)-1))
		}
	})
	rep.Emit()
}

// copyCase: every mismatch gets its own copy of the case (the aspect is set on it before each report).
func copyCase(cs map[string]interface{}) map[string]interface{} {
	out := make(map[string]interface{}, len(cs))
	for k, v := range cs {
		out[k] = v
	}
	return out
}

// eachHistory reads histories one at a time: a JSON array of them, or one JSON document per line.
func eachHistory(path string, f func(hi int, h *History)) {
	fh, err := os.Open(path)
	if err != nil {
		vh.Die("read %s: %s", path, err)
	}
	defer fh.Close()
	br := bufio.NewReaderSize(fh, 1<<20)
	first, _ := br.Peek(1)
	dec := json.NewDecoder(br)
	if len(first) == 1 && first[0] == '[' {
		if _, err = dec.Token(); err != nil {
			vh.Die("parse %s: %s", path, err)
		}
	}
	for hi := 0; dec.More(); hi++ {
		var h History
		if err = dec.Decode(&h); err != nil {
			vh.Die("parse %s (history %d): %s", path, hi, err)
		}
		f(hi, &h)
	}
}

// expand replaces the ASCII stand-ins of MCPrint.tla by the characters they stand for.
var standIns = strings.NewReplacer("{Q}", "\"", "{B}", "\\", "{N}", "\n", "{E}", "\u00e9", "{T}", "\"\"\"", "{U}", "\\u0041", "{S}", " ", "{4}", "\U0001F600", "{OMEGA}", "\u03a9")

func expandAny(x interface{}) interface{} {
	switch v := x.(type) {
	case string:
		return standIns.Replace(v)
	case []interface{}:
		for i := range v {
			v[i] = expandAny(v[i])
		}
		return v
	case map[string]interface{}:
		out := map[string]interface{}{}
		for k, e := range v {
			out[standIns.Replace(k)] = expandAny(e)
		}
		return out
	}
	return x
}

func expandDefs(defs []sch.Def) []sch.Def {
	b, _ := json.Marshal(defs)
	var gen interface{}
	_ = json.Unmarshal(b, &gen)
	b, _ = json.Marshal(expandAny(gen))
	var out []sch.Def
	if err := json.Unmarshal(b, &out); err != nil {
		vh.Die("expand: %s", err)
	}
	return out
}

// named numeric points of MCPrint!NumDefaults as written in SDL
var numText = map[string]string{"i2p53": "9007199254740992", "f1_5": "1.5", "fm0_5": "-0.5", "f1e300": "1e300", "f1em50": "1e-50"}

func perTypeSDL(root *ggql.Root) string {
	var b strings.Builder
	for _, t := range root.Types() {
		if !t.Core() {
			b.WriteString("\n")
			b.WriteString(t.SDL(true))
		}
	}
	for _, t := range root.VerifDirectives() {
		if !t.Core() {
			b.WriteString("\n")
			b.WriteString(t.SDL(true))
		}
	}
	return b.String()
}

// printAndReparse: the two printers (the whole root, type by type), each read by a fresh root: same schema, same text again.
func printAndReparse(root1 *ggql.Root, c1 map[string]interface{}, bad func(aspect, what string)) {
	for _, mode := range []string{"root", "pertype"} {
		p1 := root1.SDL(false, true)
		if mode == "pertype" {
			p1 = perTypeSDL(root1)
		}
		root2 := ggql.NewRoot(nil)
		if err := root2.ParseString(p1); err != nil {
			bad("reparse", fmt.Sprintf("%s: the printed schema is refused: %v\n--- printed:\n%s", mode, err, p1))
			continue
		}
		if ds := sch.Diff(c1, sch.ReadBack(root2)); len(ds) > 0 {
			bad("same", fmt.Sprintf("%s: the printed schema defines a different schema: %s\n--- printed:\n%s", mode, strings.Join(ds, "; "), p1))
			continue
		}
		p2 := root2.SDL(false, true)
		if mode == "pertype" {
			p2 = perTypeSDL(root2)
		}
		if p1 != p2 {
			bad("fixpoint", fmt.Sprintf("%s: printing again gives a different text:\n--- first:\n%s\n--- second:\n%s", mode, p1, p2))
		}
	}
}

// writtenHistories: documents written by hand, each a history of loads (separated by "\n----\n").  Nothing is said about
// whether a root accepts them: C15 speaks of every schema a root ACCEPTS, so whatever is accepted is printed and read
// back like the enumerated schemas, and what is refused is counted.  They hold what the abstract schemas of MCPrint.tla
// do not: Time arguments of directives given as numbers of seconds (at and beyond the ends of what RFC 3339 can write),
// schema extensions with and without a schema block.
var writtenHistories = []string{
	"directive @at(t: Time = 42) on OBJECT | ENUM_VALUE\ntype Query @at(t: 7) {\n  f: String\n}\nenum E {\n  A @at(t: 253402300799)\n  B @at\n  C @at(t: -62167219200)\n}\n",
	"directive @at(t: Time = 253402300800) on OBJECT\ntype Query @at {\n  f: String\n}\n",
	"directive @at(t: Time) on OBJECT | ENUM_VALUE\ntype Query @at(t: 253402300800) {\n  f: String\n}\n",
	"directive @at(t: Time) on OBJECT | ENUM_VALUE\ntype Query {\n  f: String\n}\nenum E {\n  A @at(t: -62167219201)\n}\n",
	"directive @at(t: Time = 1e30) on OBJECT\ntype Query @at {\n  f: String\n}\n",
	"directive @at(t: Time = 1.5) on OBJECT\ntype Query @at(t: \"2021-03-04T05:06:07.25Z\") {\n  f: String\n}\n",
	"type Query {\n  f: String\n}\ntype Changes {\n  g: Int\n}\nextend schema {\n  mutation: Changes\n}\n",
	"type Query {\n  f: String\n}\ntype Changes {\n  g: Int\n}\n----\nextend schema {\n  mutation: Changes\n}\n",
	"directive @link(u: String) on SCHEMA\ntype Query {\n  f: String\n}\nextend schema @link(u: \"x\")\n",
	"directive @link(u: String) on SCHEMA\ntype Query {\n  f: String\n}\n----\nextend schema @link(u: \"x\")\n",
	"directive @link(u: String) on SCHEMA\nschema {\n  query: Query\n}\ntype Query {\n  f: String\n}\ntype Changes {\n  g: Int\n}\n----\nextend schema @link(u: \"x\") {\n  mutation: Changes\n}\n",
	"schema {\n  query: Q\n}\ntype Q {\n  f: String\n}\ntype Changes {\n  g: Int\n}\nextend schema {\n  mutation: Changes\n}\n",
}

func writtenRoundTrips(rep *vh.Report) {
	for _, h := range writtenHistories {
		docs := strings.Split(h, "\n----\n")
		root1 := ggql.NewRoot(nil)
		accepted := 0
		for _, d := range docs {
			if err := root1.ParseString(d); err != nil {
				break
			}
			accepted++
		}
		rep.Case("written|"+h, true)
		if accepted == 0 {
			rep.Class("written: refused")
			continue
		}
		rep.Class(fmt.Sprintf("written: %d of %d loads accepted", accepted, len(docs)))
		bad := func(aspect, what string) {
			rep.Mismatch(vh.Mismatch{Case: map[string]interface{}{"document": strings.Join(docs[:accepted], "\n---- then ----\n"), "tag": "written", "aspect": aspect}, What: aspect + ": " + what})
		}
		printAndReparse(root1, sch.ReadBack(root1), bad)
	}
}

// cmdRoundTrip (C15): load the document, print the root, load the printed text into a fresh
// root, compare the schemas read back, print again and compare the texts.
func cmdRoundTrip(args []string) {
	fs := flag.NewFlagSet("roundtrip", flag.ExitOnError)
	vp := fs.String("vectors", "", "vectors json (one-step histories)")
	gen := fs.String("ggqlgen", "", "path of a ggqlgen binary built from /repo (optional)")
	_ = fs.Parse(args)
	var hs []History
	vh.ReadJSON(*vp, &hs)
	rep := vh.NewReport("schema", "roundtrip")
	// object valued defaults are Go maps: their printed key order is only defined with ggql.Sort,
	// which ggqlgen sets as well
	ggql.Sort = true
	tmp, _ := os.MkdirTemp("", "rt")
	defer os.RemoveAll(tmp)
	for hi := range hs {
		st := &hs[hi].Hist[0]
		defs := expandDefs(st.Doc)
		exp := expandAny(st.Canon)
		text, _ := sch.DocText(defs)
		for n, t := range numText {
			text = strings.ReplaceAll(text, n, t)
		}
		cs := map[string]interface{}{"document": text, "tag": hs[hi].Tag}
		rep.Case(text, hs[hi].Tag != "bases")
		rep.Class(hs[hi].Tag)
		if hi%211 == 0 {
			rep.Sample(text)
		}
		bad := func(aspect, what string) {
			c2 := map[string]interface{}{"document": text, "tag": hs[hi].Tag, "aspect": aspect}
			rep.Mismatch(vh.Mismatch{Case: c2, What: aspect + ": " + what})
		}
		root1 := ggql.NewRoot(nil)
		if err := root1.ParseString(text); err != nil {
			bad("accept", fmt.Sprintf("the document is refused: %v", err))
			continue
		}
		// a history: the following documents are loaded into the same root before it prints
		later := false
		for _, more := range hs[hi].Hist[1:] {
			t2, _ := sch.DocText(expandDefs(more.Doc))
			if err := root1.ParseString(t2); (err == nil) != more.OK {
				bad("accept", fmt.Sprintf("the document %q of the history: load returned %v, the specification says ok=%v (%s %s)", t2, err, more.OK, more.Why, more.Off))
				later = true
			}
			cs["document"] = cs["document"].(string) + "\n---- then ----\n" + t2
		}
		if later {
			continue
		}
		// "every schema a root accepts": the root may have refused documents since. Loads that are refused after having
		// added types and directives (an undefined reference, a validation error, a duplicate) leave the schema - and
		// therefore what is printed - as it was
		if hi%2 == 0 {
			for _, refused := range []string{"type Aardvark {\n  x: NoSuchType\n}\ndirective @alpha on OBJECT\n", "scalar Abacus\ntype Abc {\n}\n",
				"enum Aaa {\n  X\n}\ninput Aab {\n  o: Aardvark2\n}\ntype Aardvark2 {\n  x: Int\n}\n"} {
				if err := root1.ParseString(refused); err == nil {
					bad("accept", "a document that must be refused was accepted: "+refused)
				}
			}
		}
		c1 := sch.ReadBack(root1)
		// (numeric named points, and directive argument values of input object type - which ggql completes in place with the
		// input fields' defaults - are compared through the round trip only)
		if hs[hi].Tag != "numeric" && hs[hi].Tag != "dirinput" {
			if ds := sch.Diff(exp, c1); len(ds) > 0 {
				bad("read", "the loaded schema differs from the document: "+strings.Join(ds, "; "))
				continue
			}
		}
		printAndReparse(root1, c1, bad)
		if *gen != "" && hi%7 == 0 && len(hs[hi].Hist) == 1 {
			// ggqlgen -w rewrites the file with the printed form; -e embeds it in a Go file
			f := filepath.Join(tmp, fmt.Sprintf("s%d.graphql", hi))
			_ = os.WriteFile(f, []byte(text), 0600)
			g := filepath.Join(tmp, fmt.Sprintf("e%d.go", hi))
			out, err := exec.Command(*gen, "-w", f, "-e", f+":"+g+":Schema").CombinedOutput()
			if err != nil {
				bad("ggqlgen", fmt.Sprintf("ggqlgen failed: %v %s", err, out))
				continue
			}
			rew, _ := os.ReadFile(f)
			root3 := ggql.NewRoot(nil)
			if err := root3.Parse(rew); err != nil {
				bad("ggqlgen", fmt.Sprintf("the file rewritten by ggqlgen -w is refused: %v\n%s", err, rew))
			} else if ds := sch.Diff(c1, sch.ReadBack(root3)); len(ds) > 0 {
				bad("ggqlgen", "ggqlgen -w changed the schema: "+strings.Join(ds, "; "))
			}
			emb, _ := os.ReadFile(g)
			if i, j := strings.Index(string(emb), "`"), strings.LastIndex(string(emb), "`"); i >= 0 && j > i {
				root4 := ggql.NewRoot(nil)
				if err := root4.ParseString(string(emb)[i+1 : j]); err != nil {
					bad("ggqlgen", fmt.Sprintf("the schema embedded by ggqlgen -e is refused: %v", err))
				} else if ds := sch.Diff(c1, sch.ReadBack(root4)); len(ds) > 0 {
					bad("ggqlgen", "ggqlgen -e changed the schema: "+strings.Join(ds, "; "))
				}
			} else {
				bad("ggqlgen", "no embedded schema in the -e output")
			}
		}
		_ = cs
	}
	writtenRoundTrips(rep)
	rep.Emit()
}

// cmdRecord: direction B. Random histories executed on real roots, recorded for LoaderTrace.tla.
func cmdRecord(args []string) {
	fs := flag.NewFlagSet("record", flag.ExitOnError)
	n := fs.Int("n", 100, "number of histories")
	outp := fs.String("out", "", "ndjson output")
	_ = fs.Parse(args)
	rng := rand.New(rand.NewSource(vh.Seed()))
	g := &sch.Gen{R: rng}
	rep := vh.NewReport("schema", "record")
	out, err := os.Create(*outp)
	if err != nil {
		vh.Die("%s", err)
	}
	defer out.Close()
	enc := json.NewEncoder(out)
	for h := 0; h < *n; h++ {
		docs := g.History()
		root := ggql.NewRoot(nil)
		_ = enc.Encode(map[string]interface{}{"r": "reset"})
		key := ""
		failed := false
		for _, d := range docs {
			err := load(root, d)
			if err != nil {
				failed = true
			}
			if eerr := enc.Encode(map[string]interface{}{"r": "load", "doc": d, "ok": err == nil, "canon": sch.ReadBack(root)}); eerr != nil {
				vh.Die("cannot encode a record: %s", eerr)
			}
			key += "|" + docKey(d)
		}
		rep.Case(key, failed || len(docs) > 1)
		if h < 2 {
			var texts []string
			for _, d := range docs {
				t, _ := sch.DocText(d)
				texts = append(texts, t)
			}
			rep.Sample(texts)
		}
	}
	rep.Emit()
}

var rootKinds = []string{"reflection", "resolver", "any"}

type appRoot struct{}

func (a *appRoot) Resolve(field *ggql.Field, args map[string]interface{}) (interface{}, error) {
	switch field.Name {
	case "query", "mutation", "subscription":
		return &appRoot{}, nil // the application's operation root object
	}
	return nil, nil
}

// appAny is an application's root resolver: it knows the application's data only.
type appAny struct{}

func (a *appAny) Resolve(obj interface{}, field *ggql.Field, args map[string]interface{}) (interface{}, error) {
	switch field.Name {
	case "query", "mutation", "subscription":
		return map[string]interface{}{"app": true}, nil
	}
	return nil, nil
}
func (a *appAny) Len(list interface{}) int { return 0 }
func (a *appAny) Nth(list interface{}, i int) (interface{}, error) {
	return nil, fmt.Errorf("not an application list")
}

// echoAny is a root resolver that answers every String field with a rendering of the arguments it was handed (sorted),
// every other leaf with nil and every composite with a placeholder object: what a request resolves to then depends
// on the schema only (argument defaults, input field defaults, coercion).
type echoAny struct{}

func renderArg(v interface{}) string {
	switch t := v.(type) {
	case map[string]interface{}:
		keys := make([]string, 0, len(t))
		for k := range t {
			keys = append(keys, k)
		}
		sort.Strings(keys)
		parts := []string{}
		for _, k := range keys {
			parts = append(parts, k+":"+renderArg(t[k]))
		}
		return "{" + strings.Join(parts, ",") + "}"
	case []interface{}:
		parts := []string{}
		for _, e := range t {
			parts = append(parts, renderArg(e))
		}
		return "[" + strings.Join(parts, ",") + "]"
	}
	return fmt.Sprintf("%v", v)
}

func (a *echoAny) Resolve(obj interface{}, field *ggql.Field, args map[string]interface{}) (interface{}, error) {
	switch field.Name {
	case "query", "mutation", "subscription":
		return map[string]interface{}{"app": true}, nil
	}
	return "args=" + renderArg(args), nil
}
func (a *echoAny) Len(list interface{}) int { return 0 }
func (a *echoAny) Nth(list interface{}, i int) (interface{}, error) {
	return nil, fmt.Errorf("not an application list")
}

// requestSet derives requests from the query root type of the loaded schema: every String field with every argument
// left out, and with `{}` / `[{}]` written for the arguments of input object / list of input object type.
// topApp is an application object whose query root is reached through a method that is not called Query.
type topApp struct{}
type topQuery struct{}

func (a *topApp) Top() *topQuery { return &topQuery{} }

func bindTop(root *ggql.Root) bool {
	if err := root.RegisterType(&topApp{}, "schema"); err != nil {
		return false
	}
	return root.RegisterField("schema", "query", "Top") == nil
}

func requestSet(root *ggql.Root) []string {
	out := []string{"{ __typename }"}
	sc := root.VerifSchema()
	if sc == nil {
		return nil
	}
	qf := sc.GetField("query")
	if qf == nil {
		return nil
	}
	qt, _ := qf.Type.(*ggql.Object)
	if qt == nil {
		return nil
	}
	var plain, filled []string
	for _, fd := range qt.Fields() {
		if fd.Type == nil || fd.Type.Name() != "String" {
			continue
		}
		plain = append(plain, fd.Name())
		var as []string
		for _, a := range fd.Args() {
			tn := a.Type.Name()
			base := strings.Trim(tn, "[]!")
			if _, ok := root.GetType(base).(*ggql.Input); ok {
				if strings.HasPrefix(tn, "[") {
					as = append(as, a.Name()+": [{}]")
				} else {
					as = append(as, a.Name()+": {}")
				}
			}
		}
		if len(as) > 0 {
			filled = append(filled, "z_"+fd.Name()+": "+fd.Name()+"("+strings.Join(as, ", ")+")")
		}
	}
	if len(plain) > 0 {
		out = append(out, "{ "+strings.Join(plain, " ")+" }")
	}
	if len(filled) > 0 {
		out = append(out, "{ "+strings.Join(filled, " ")+" }")
	}
	return out
}

func askAll(root *ggql.Root) []string {
	var out []string
	for _, q := range requestSet(root) {
		res := root.ResolveString(q, "", nil)
		var sb strings.Builder
		_ = ggql.WriteJSONValue(&sb, res, -1)
		out = append(out, q+" => "+sb.String())
	}
	return out
}

// newRootFor rotates the strategy the application would use for its own data (C17: the
// introspection answer must not depend on it).
func newRootFor(i int, rotate bool) *ggql.Root {
	if !rotate {
		return ggql.NewRoot(nil)
	}
	type reflOp struct{ Unused int }
	type reflApp struct{ Query, Mutation, Subscription *reflOp }
	switch rootKinds[i%len(rootKinds)] {
	case "resolver":
		return ggql.NewRoot(&appRoot{})
	case "any":
		r := ggql.NewRoot(map[string]interface{}{})
		r.AnyResolver = &appAny{}
		return r
	}
	return ggql.NewRoot(&reflApp{Query: &reflOp{}, Mutation: &reflOp{}, Subscription: &reflOp{}})
}

func histText(h *History, upto int) []string {
	var out []string
	for i := 0; i <= upto && i < len(h.Hist); i++ {
		t, f := sch.DocText(h.Hist[i].Doc)
		s := strings.ReplaceAll(strings.TrimSpace(t), "\n", " ")
		if f >= 0 {
			s += fmt.Sprintf(" [reader fails at byte %d]", f)
		}
		if h.Hist[i].Via == "types" {
			s = "[built in Go, Root.AddTypes] " + s
		}
		out = append(out, s)
	}
	return out
}

func main() {
	if len(os.Args) < 2 {
		vh.Die("usage: schema loadhist ...")
	}
	switch os.Args[1] {
	case "loadhist":
		cmdLoadHist(os.Args[2:])
	case "roundtrip":
		cmdRoundTrip(os.Args[2:])
	case "record":
		cmdRecord(os.Args[2:])
	case "text":
		var defs []sch.Def
		vh.ReadJSON(os.Args[2], &defs)
		t, f := sch.DocText(defs)
		fmt.Printf("%s[fault at %d]\n", t, f)
	default:
		vh.Die("unknown mode %s", os.Args[1])
	}
}
