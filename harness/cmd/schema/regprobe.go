package main

import (
	"fmt"
	"strings"

	"github.com/uhn/ggql/pkg/ggql"
)

// Refused registrations.  Root.RegisterType / Root.RegisterField bind Go types, struct fields and methods to the
// declared types; they are no part of the type system.  Loader.tla has them as a stuttering step (`Registration`):
// accepted or refused, the declared schema - what the SDL print, introspection and the validation of requests go
// by - is what it was.  The harness takes such steps between the loads of a history and lets the comparison that
// follows every load (read-back against the specification's state, introspection) judge the root.
//
// regProbe has a method for every field name the schema universes give arguments to (a method is what makes
// RegisterField look at argument names at all).
type regProbe struct{}

func (*regProbe) Also() string  { return "" }
func (*regProbe) F() string     { return "" }
func (*regProbe) G() string     { return "" }
func (*regProbe) H() string     { return "" }
func (*regProbe) Items() string { return "" }
func (*regProbe) Name() string  { return "" }
func (*regProbe) Set() string   { return "" }
func (*regProbe) Thing() string { return "" }

var regProbeMethods = map[string]bool{"also": true, "f": true, "g": true, "h": true, "items": true, "name": true, "set": true, "thing": true}

// refusedRegistrations binds regProbe to every object type that has a field with arguments and a method of that name,
// then asks for registrations that must be refused: an argument the field does not declare in place of the last one,
// and (two or more arguments) the first argument named twice.  It returns how many were asked for and a text for
// every one that was NOT refused.
func refusedRegistrations(root *ggql.Root) (asked int, accepted []string) {
	defer func() {
		if r := recover(); r != nil {
			accepted = append(accepted, fmt.Sprintf("a registration panicked: %v", r))
		}
	}()
	for _, t := range root.Types() {
		obj, _ := t.(*ggql.Object)
		if obj == nil || strings.HasPrefix(obj.Name(), "__") {
			continue
		}
		bound := false
		for _, fd := range obj.Fields() {
			if !regProbeMethods[strings.ToLower(fd.Name())] {
				continue
			}
			var names []string
			for _, a := range fd.Args() {
				names = append(names, a.N)
			}
			if len(names) == 0 {
				continue
			}
			if !bound {
				if err := root.RegisterType(&regProbe{}, obj.Name()); err != nil {
					break // bound to another Go type already: nothing to probe here
				}
				bound = true
			}
			bad := append(append([]string{}, names[:len(names)-1]...), "zz9")
			asked++
			if err := root.RegisterField(obj.Name(), fd.Name(), fd.Name(), bad...); err == nil {
				accepted = append(accepted, fmt.Sprintf("RegisterField(%s, %s, %s) was accepted", obj.Name(), fd.Name(), strings.Join(bad, ", ")))
			}
			if len(names) > 1 {
				twice := append([]string{names[0], names[0]}, names[2:]...)
				asked++
				if err := root.RegisterField(obj.Name(), fd.Name(), fd.Name(), twice...); err == nil {
					accepted = append(accepted, fmt.Sprintf("RegisterField(%s, %s, %s) was accepted", obj.Name(), fd.Name(), strings.Join(twice, ", ")))
				}
			}
		}
	}
	return
}
