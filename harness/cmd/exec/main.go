// Command exec is the conformance harness of the execution family
// (spec/Sem.tla, ExecGen.tla): it runs cases on the real ggql code.
//
//	exec replay -universe u.json -vectors v.json [-strategies iface,any]
package main

import (
	"encoding/json"
	"flag"
	"math/rand"
	"os"
	"strings"

	"verifharness/gq"
	"verifharness/vh"
)

func cmdReplay(args []string) {
	fs := flag.NewFlagSet("replay", flag.ExitOnError)
	up := fs.String("universe", "", "universe json")
	vp := fs.String("vectors", "", "vectors json (list of cases with exp/expK)")
	strat := fs.String("strategies", "iface,any", "resolver strategies to realise the data with")
	_ = fs.Parse(args)
	var u gq.Universe
	vh.ReadJSON(*up, &u)
	var cases []gq.Case
	vh.ReadJSON(*vp, &cases)
	rep := vh.NewReport("exec", "replay")
	worlds := map[string]*gq.World{}
	for _, s := range strings.Split(*strat, ",") {
		for lm := gq.ListMode(0); lm < 3; lm++ {
			w, err := gq.NewWorld(&u, gq.Strategy(s), lm)
			if err != nil {
				vh.Die("%s", err)
			}
			worlds[s+string(rune('0'+int(lm)))] = w
		}
	}
	for i := range cases {
		c := &cases[i]
		if c.Exp == nil {
			vh.Die("case %d has no expectation", i)
		}
		for si, s := range strings.Split(*strat, ",") {
			lm := (i + si) % 3
			lo := gq.Layouts[(i+si)%len(gq.Layouts)]
			w := worlds[s+string(rune('0'+lm))]
			act := w.Run(c, lo)
			nontrivial := len(c.Exp.Calls) >= 2
			rep.Case(c.Fam+"|"+s+"|"+c.Doc.Text(gq.Layouts[0])+"|"+c.Op+"|"+vh.JS(c.Vars)+"|"+vh.JS(c.Faults), nontrivial)
			rep.Class(c.Fam)
			rep.Class("strategy:" + s)
			if i%211 == 0 && si == 0 {
				rep.Sample(map[string]interface{}{"request": c.Doc.Text(lo), "op": c.Op, "vars": c.Vars, "faults": c.Faults,
					"expected": c.Exp, "strategy": s})
			}
			diffs := gq.Compare(c.Exp, act, true)
			if len(diffs) == 0 {
				continue
			}
			known := ""
			if c.ExpK != nil {
				if kd := gq.Compare(c.ExpK, act, true); len(kd) == 0 {
					known = strings.Join(c.KDevs, "+")
					if known == "" {
						known = "K"
					}
				}
			}
			for _, d := range diffs {
				rep.Mismatch(vh.Mismatch{
					Case: map[string]interface{}{"fam": c.Fam, "request": c.Doc.Text(gq.Layouts[0]), "op": c.Op, "vars": c.Vars,
						"faults": c.Faults, "strategy": s, "listmode": lm, "aspect": d.Aspect},
					What: d.Aspect + ": " + d.What, Known: known})
			}
		}
	}
	rep.Emit()
}

// cmdRecord: direction B.  Random universes and documents are executed on the real
// code; what was asked and what came back is written as ndjson for ExecJudge.tla.
func cmdRecord(args []string) {
	fs := flag.NewFlagSet("record", flag.ExitOnError)
	up := fs.String("universe", "", "fixed universe json (used for part of the cases)")
	n := fs.Int("n", 200, "number of cases")
	nu := fs.Int("universes", 6, "number of random universes")
	outp := fs.String("out", "", "ndjson output")
	strat := fs.String("strategies", "iface,any", "strategies")
	depth := fs.Int("depth", 3, "selection depth")
	_ = fs.Parse(args)
	var fixed gq.Universe
	vh.ReadJSON(*up, &fixed)
	rng := rand.New(rand.NewSource(vh.Seed()))
	rep := vh.NewReport("exec", "record")
	out, err := os.Create(*outp)
	if err != nil {
		vh.Die("%s", err)
	}
	defer out.Close()
	enc := json.NewEncoder(out)
	strategies := strings.Split(*strat, ",")
	g := &gq.Gen{R: rng}
	per := *n / (*nu + 1)
	if per < 1 {
		per = 1
	}
	idx := 0
	for ui := 0; ui <= *nu; ui++ {
		var u *gq.Universe
		if ui == 0 {
			u = &fixed
		} else {
			u = g.RandomUniverse()
		}
		g.U = u
		_ = enc.Encode(map[string]interface{}{"r": "universe", "u": u})
		idx++
		worlds := map[string]*gq.World{}
		for _, s := range strategies {
			for lm := gq.ListMode(0); lm < 3; lm++ {
				w, err := gq.NewWorld(u, gq.Strategy(s), lm)
				if err != nil {
					vh.Die("%s", err)
				}
				worlds[s+string(rune('0'+int(lm)))] = w
			}
		}
		for k := 0; k < per; k++ {
			c := g.Case(1 + rng.Intn(*depth))
			c.Doc.Normalize()
			s := strategies[rng.Intn(len(strategies))]
			lm := rng.Intn(3)
			lo := gq.Layouts[rng.Intn(len(gq.Layouts))]
			w := worlds[s+string(rune('0'+lm))]
			act := w.Run(c, lo)
			idx++
			rec := map[string]interface{}{"r": "case", "doc": c.Doc, "op": c.Op, "vars": c.Vars, "faults": c.Faults,
				"logcalls": true, "strategy": s, "text": c.Doc.Text(gq.Layouts[0]),
				"act": map[string]interface{}{"hasData": act.HasData, "data": act.Data, "errs": pathsOnly(act.Errs), "calls": callsOrEmpty(act.Calls)}}
			_ = enc.Encode(rec)
			rep.Case(c.Doc.Text(gq.Layouts[0])+c.Op+vh.JS(c.Vars)+vh.JS(c.Faults)+s, len(act.Calls) >= 2)
			rep.Class("strategy:" + s)
			if k == 0 && ui < 3 {
				rep.Sample(map[string]interface{}{"request": c.Doc.Text(lo), "op": c.Op, "vars": c.Vars, "faults": c.Faults, "strategy": s})
			}
		}
	}
	rep.Emit()
}

func pathsOnly(errs []gq.ErrRec) []map[string]interface{} {
	out := []map[string]interface{}{}
	for _, e := range errs {
		p := e.Path
		if p == nil {
			p = []string{}
		}
		out = append(out, map[string]interface{}{"path": p, "msg": e.Msg})
	}
	return out
}

func callsOrEmpty(c []gq.Call) []gq.Call {
	if c == nil {
		return []gq.Call{}
	}
	return c
}

func main() {
	if len(os.Args) < 2 {
		vh.Die("usage: exec replay ...")
	}
	switch os.Args[1] {
	case "replay":
		cmdReplay(os.Args[2:])
	case "record":
		cmdRecord(os.Args[2:])
	default:
		vh.Die("unknown mode %s", os.Args[1])
	}
}
