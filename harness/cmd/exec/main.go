// Command exec is the conformance harness of the execution family
// (spec/Sem.tla, ExecGen.tla): it runs cases on the real ggql code.
//
//	exec replay -universe u.json -vectors v.json [-strategies iface,any]
package main

import (
	"encoding/json"
	"flag"
	"fmt"
	"math"
	"math/rand"
	"os"
	"sort"
	"strings"
	"sync"
	"sync/atomic"
	"time"

	"github.com/uhn/ggql/pkg/ggql"

	"verifharness/gq"
	"verifharness/vh"
)

func cmdReplay(args []string) {
	fs := flag.NewFlagSet("replay", flag.ExitOnError)
	up := fs.String("universe", "", "universe json")
	vp := fs.String("vectors", "", "vectors json (list of cases with exp/expK)")
	strat := fs.String("strategies", "iface,any", "resolver strategies to realise the data with")
	offer := fs.Bool("offer-mutation", false, "every root is first offered a type Mutation in a document it refuses (universes without a mutation root)")
	rotp := fs.Int("rot", -1, "cases are spread over list modes, binding modes and layouts by position; rot shifts the assignment (default: the seed)")
	_ = fs.Parse(args)
	rot := *rotp
	if rot < 0 {
		rot = int(vh.Seed() % 6)
	}
	var u gq.Universe
	vh.ReadJSON(*up, &u)
	var cases []gq.Case
	vh.ReadJSON(*vp, &cases)
	for i := range cases { // calls on silent nodes are never logged, so they are not prescribed either
		if cases[i].Exp != nil {
			cases[i].Exp.Calls = u.DropSilent(cases[i].Exp.Calls)
		}
		if cases[i].ExpK != nil {
			cases[i].ExpK.Calls = u.DropSilent(cases[i].ExpK.Calls)
		}
	}
	rep := vh.NewReport("exec", "replay")
	worlds := map[string]*gq.World{}
	for _, s := range strings.Split(*strat, ",") {
		for lm := gq.ListMode(0); lm < 3; lm++ {
			if s == "refl" {
				continue
			}
			w, err := gq.NewWorld(&u, gq.Strategy(s), lm)
			if err != nil {
				vh.Die("%s", err)
			}
			w.KeepLists = true
			worlds[s+string(rune('0'+int(lm)))] = w
		}
		if s == "iface" { // (and one whose objects are named map types, registered: the families over abstract types run there too)
			w, err := gq.NewMapWorld(&u, gq.ListIfaceSlice)
			if err != nil {
				vh.Die("%s", err)
			}
			w.KeepLists = true
			worlds["ifaceM0"] = w
		}
		if s == "refl" { // one world per binding mode: by name / RegisterType / three spellings of @go
			for b := gq.Binding(0); b < gq.NumBindings; b++ {
				w, err := gq.NewReflWorld(&u, gq.ListMode(int(b)%3), b)
				if err != nil {
					vh.Die("%s", err)
				}
				w.KeepLists = true
				worlds["refl"+string(rune('0'+int(b)))] = w
			}
		}
	}
	if *offer {
		for _, w := range worlds {
			if err := w.OfferMutation(); err != nil {
				vh.Die("%s", err)
			}
		}
	}
	for i := range cases {
		c := &cases[i]
		if c.Exp == nil {
			vh.Die("case %d has no expectation", i)
		}
		if c.Mix != nil {
			w, err := gq.NewMixedWorld(&u, gq.ListMode(i%3), c.Mix)
			if err != nil {
				vh.Die("%s", err)
			}
			act := w.Run(c, gq.Layouts[i%len(gq.Layouts)])
			rep.Case("mixed|"+c.Doc.Text(gq.Layouts[0])+vh.JS(c.Mix), true)
			rep.Class("mixed")
			if i%97 == 0 {
				rep.Sample(map[string]interface{}{"request": c.Doc.Text(gq.Layouts[0]), "mix": c.Mix, "via": c.Via})
			}
			cs := func(aspect string) map[string]interface{} {
				return map[string]interface{}{"fam": c.Fam, "request": c.Doc.Text(gq.Layouts[0]), "mix": c.Mix, "strategy": "mixed", "aspect": aspect}
			}
			for _, d := range gq.Compare(c.Exp, act, true) {
				rep.Mismatch(vh.Mismatch{Case: cs(d.Aspect), What: d.Aspect + ": " + d.What})
			}
			if len(act.Calls) == len(c.Via) {
				for k := range c.Via {
					if act.Calls[k].Via != c.Via[k] {
						rep.Mismatch(vh.Mismatch{Case: cs("precedence"), What: fmt.Sprintf("precedence: call %d (%s.%s) was served by %q, the model says %q",
							k+1, act.Calls[k].Node, act.Calls[k].Field, act.Calls[k].Via, c.Via[k])})
						break
					}
				}
			}
			continue
		}
		// a case is run once per strategy; a request for a field whose reflection binding the late registration
		// changes (P.code: bound to a method by the warm-up requests, registered to a struct field afterwards) is
		// also run in that world whatever its position
		type pass struct {
			s     string
			si    int
			force int
		}
		var passes []pass
		for si, s := range strings.Split(*strat, ",") {
			passes = append(passes, pass{s, si, -1})
			if s == "refl" && strings.Contains(c.Doc.Text(gq.Layouts[0]), "code") {
				passes = append(passes, pass{s, si, int(gq.BindRegisterLate)})
			}
			// a union as the condition of a fragment: also in the world with a past of refused loads (every union was
			// offered every other object type there)
			if s == "refl" && (strings.Contains(c.Doc.Text(gq.Layouts[0]), "on Any") || strings.Contains(c.Doc.Text(gq.Layouts[0]), "on Solo")) {
				passes = append(passes, pass{s, si, int(gq.BindGoDirFull)})
			}
			if s == "iface" && reflOnly(c.Fam) && worlds["ifaceM0"] != nil && !gq.HasNthFault(c) {
				passes = append(passes, pass{"ifaceM", si, 0})
			}
		}
		for _, ps := range passes {
			si, s := ps.si, ps.s
			lm := (i + si + rot) % 3
			lo := gq.Layouts[(i+si+rot)%len(gq.Layouts)]
			if s == "refl" && !gq.ReflSuitable(&u, c) {
				continue
			}
			if reflOnly(c.Fam) && s != "refl" && s != "ifaceM" {
				continue // abstract types need Go type bindings: reflection only (documented limitation)
			}
			if gq.HasNthFault(c) { // accessor failures exist only behind AnyResolver.Len/Nth
				if s != "any" {
					continue
				}
				lm = int(gq.ListResolver)
			}
			if s == "ifaceM" {
				lm = 0
			}
			if s == "refl" {
				lm = (i + si + rot) % int(gq.NumBindings)
				if 0 <= ps.force {
					if lm == ps.force {
						continue
					}
					lm = ps.force
				}
			}
			w := worlds[s+string(rune('0'+lm))]
			w.NilForm = (i/3 + si + rot) % 3
			if s == "iface" { // every other case: one of the nodes is a struct value made of one nil pointer
				wn := ""
				if (i/2+rot)%2 == 0 {
					for _, cand := range []string{"a1", "b1", "a2"} {
						if _, has := u.Data[cand]; has {
							wn = cand
							break
						}
					}
				}
				w.SetWrapNode(wn)
			}
			act := w.Run(c, lo)
			nontrivial := len(c.Exp.Calls) >= 2
			rep.Case(c.Fam+"|"+s+"|"+c.Doc.Text(gq.Layouts[0])+"|"+c.Op+"|"+vh.JS(c.Vars)+"|"+vh.JS(c.Faults), nontrivial)
			rep.Class(c.Fam)
			rep.Class("strategy:" + s)
			if i%211 == 0 && si == 0 {
				rep.Sample(map[string]interface{}{"request": c.Doc.Text(lo), "op": c.Op, "vars": c.Vars, "faults": c.Faults,
					"expected": c.Exp, "strategy": s})
			}
			diffs := gq.Compare(c.Exp, act, true)
			if len(diffs) == 0 {
				continue
			}
			known := ""
			if c.ExpK != nil {
				kd := gq.Compare(c.ExpK, act, true)
				if len(kd) == 0 {
					known = strings.Join(c.KDevs, "+")
					if known == "" {
						known = "K"
					}
				} else {
					// neither what the specification prescribes nor what the known deviations make of it: say how it
					// differs from the latter too (a request the deviations let through is then judged on its data)
					for _, d := range kd {
						rep.Mismatch(vh.Mismatch{
							Case: map[string]interface{}{"fam": c.Fam, "request": c.Doc.Text(gq.Layouts[0]), "op": c.Op, "vars": c.Vars,
								"faults": c.Faults, "strategy": s, "listmode": lm, "aspect": d.Aspect, "against": "the outcome under the known deviations " + strings.Join(c.KDevs, "+")},
							What: d.Aspect + ": " + d.What})
					}
				}
			}
			for _, d := range diffs {
				rep.Mismatch(vh.Mismatch{
					Case: map[string]interface{}{"fam": c.Fam, "request": c.Doc.Text(gq.Layouts[0]), "op": c.Op, "vars": c.Vars,
						"faults": c.Faults, "strategy": s, "listmode": lm, "aspect": d.Aspect},
					What: d.Aspect + ": " + d.What, Known: known})
			}
		}
	}
	sharedParse(&u, cases, worlds, strings.Split(*strat, ","), rep)
	if strings.Contains(*strat, "refl") {
		extendedBetween(&u, cases, rep)
		registerDuringFirstRequest(&u, rep)
	}
	rep.Emit()
}

// registerDuringFirstRequest (C02: "with or without explicit type/field registration"): Root.RegisterField for a field
// arrives while the first request that ever uses that field is being resolved on another goroutine.  Whichever comes
// first, once both have returned (RegisterField without an error) the field is resolved from the registered member: the
// lazy binding by name checks and binds in ONE critical section (LazyBind.tla: rr_check .. rf_write under the field's
// mutex; a registration is a visit of its own under the same mutex), so it cannot overwrite a registration.
//
// The schedule is forced, not hoped for.  At the request's rr_check point (inside the field's mutex, the field still
// unbound) the registering goroutine is started and the request then dawdles for a few milliseconds: the registrar
// blocks on the mutex for more than a millisecond, which puts a sync.Mutex into starvation mode - the next Unlock hands
// the mutex to the registrar directly.  Code that unlocks between its check and its bind lets the registration in right
// there; code that holds the mutex throughout lets it in afterwards.
func registerDuringFirstRequest(u *gq.Universe, rep *vh.Report) {
	p1, ok := u.Data["p1"]
	if !ok || u.Types["P"] == nil {
		return
	}
	want := p1["say"].S
	for it := 0; it < 12; it++ {
		w, err := gq.NewColdRegisteredWorld(u, nil)
		if err != nil {
			vh.Die("%s", err)
		}
		// (the world's own tables are filled first; P.say stays unused)
		_ = w.Root.ResolveString("{ pv { name } }", "", nil)
		var armed int32 = 1
		startB := make(chan struct{})
		old := ggql.VerifHook
		ggql.VerifHook = func(point string, ref interface{}) {
			if point != "rr_check" {
				return
			}
			if fd, _ := ref.(*ggql.FieldDef); fd != nil && fd.Name() == "say" && fd.VerifBinding() == "none" && atomic.CompareAndSwapInt32(&armed, 1, 2) {
				close(startB)
				time.Sleep(time.Duration(3+it%3) * time.Millisecond)
			}
		}
		var regErr error
		done := make(chan struct{})
		go func() {
			defer close(done)
			<-startB
			regErr = w.Root.RegisterField("P", "say", "Say2")
		}()
		_ = w.Root.ResolveString("{ pv { say } }", "", nil)
		if atomic.CompareAndSwapInt32(&armed, 1, 3) { // (the point was never passed: nothing to wait for)
			close(startB)
		}
		<-done
		ggql.VerifHook = old
		rep.Case(fmt.Sprintf("register-during-first-request|%d", it), true)
		rep.Class("register-during-first-request")
		if regErr != nil {
			continue
		}
		res := w.Root.ResolveString("{ pv { say } }", "", nil)
		got := ""
		if d, _ := res["data"].(map[string]interface{}); d != nil {
			if pv, _ := d["pv"].(map[string]interface{}); pv != nil {
				got, _ = pv["say"].(string)
			}
		}
		if got != want {
			rep.Mismatch(vh.Mismatch{
				Case: map[string]interface{}{"fam": "regrace", "request": "{ pv { say } } with RegisterField(P, say, Say2) arriving at the field's mutex while the request holds it, then { pv { say } }", "strategy": "refl", "aspect": "data", "iteration": it},
				What: fmt.Sprintf("data: RegisterField(\"P\", \"say\", \"Say2\") returned nil while the first request using the field was resolved; afterwards say is %q, the registered member holds %q", got, want)})
			return
		}
	}
	// The forced schedule lets the registration in only where the request does not hold the mutex at its check at all, or
	// gives it up for long.  A gap of some nanoseconds between an unlock and the next lock is not forced by it (an Unlock
	// hands the mutex over directly only after a waiter has failed once): free-running tries with a busy-waiting
	// registrar and a sweep of small delays hit such a gap now and then - a chance, not a decision.
	var sink int32
	for it := 0; it < 2000; it++ {
		var progress int32
		w, err := gq.NewColdRegisteredWorld(u, nil)
		if err != nil {
			vh.Die("%s", err)
		}
		_ = w.Root.ResolveString("{ pv { name } }", "", nil)
		old := ggql.VerifHook
		ggql.VerifHook = func(point string, ref interface{}) {
			if fd, _ := ref.(*ggql.FieldDef); point == "rr_check" && fd != nil && fd.Name() == "say" && fd.VerifBinding() == "none" {
				// the registrar sets off now and arrives at the mutex while it is still held here: a goroutine that
				// finds a mutex locked spins for a moment before it goes to sleep, and takes it the instant it is free
				atomic.StoreInt32(&progress, 1)
				for d := 20 + (it*13)%300; 0 < d; d-- {
					atomic.AddInt32(&sink, 1)
				}
			}
		}
		var regErr error
		done := make(chan struct{})
		go func() {
			defer close(done)
			for atomic.LoadInt32(&progress) == 0 {
			}
			regErr = w.Root.RegisterField("P", "say", "Say2")
		}()
		_ = w.Root.ResolveString("{ pv { say } }", "", nil)
		atomic.StoreInt32(&progress, 1)
		<-done
		ggql.VerifHook = old
		rep.Case(fmt.Sprintf("register-during-first-request|free|%d", (it*13)%300), true)
		rep.Class("register-during-first-request")
		if regErr != nil {
			continue
		}
		res := w.Root.ResolveString("{ pv { say } }", "", nil)
		got := ""
		if d, _ := res["data"].(map[string]interface{}); d != nil {
			if pv, _ := d["pv"].(map[string]interface{}); pv != nil {
				got, _ = pv["say"].(string)
			}
		}
		if got != want {
			rep.Mismatch(vh.Mismatch{
				Case: map[string]interface{}{"fam": "regrace", "request": "{ pv { say } } with RegisterField(P, say, Say2) on another goroutine, then { pv { say } }", "strategy": "refl", "aspect": "data", "iteration": it},
				What: fmt.Sprintf("data: RegisterField(\"P\", \"say\", \"Say2\") returned nil while the first request using the field was resolved; afterwards say is %q, the registered member holds %q", got, want)})
			return
		}
	}
}

// extendedBetween (C11, C08): a parsed request is resolved, the schema grows (a union gets a member, accepted), and the
// same parsed request is resolved again: it answers as a freshly parsed copy of its text does on that root.  The
// expectation is the fresh parse itself (both run on the real code); the documents are those of the cases that use a
// union as a type condition, on a reflection world of their own.
func extendedBetween(u *gq.Universe, cases []gq.Case, rep *vh.Report) {
	exts := map[string]string{"on Solo": "extend union Solo = B", "on Any": "extend union Any = P"}
	seen := map[string]bool{}
	n := 0
	for i := range cases {
		c := &cases[i]
		if c.Mix != nil || len(c.Faults) > 0 || !gq.ReflSuitable(u, c) {
			continue
		}
		text := c.Doc.Text(gq.Layouts[0])
		ext := ""
		for k, e := range exts {
			if strings.Contains(text, k) {
				if _, has := u.Types[strings.Fields(e)[2]]; has {
					ext = e
				}
			}
		}
		if ext == "" || seen[text+c.Op] || n >= 60 {
			continue
		}
		seen[text+c.Op] = true
		n++
		w, err := gq.NewReflWorld(u, gq.ListMode(n%3), gq.Binding(n%int(gq.NumBindings)))
		if err != nil {
			vh.Die("%s", err)
		}
		exe, err := w.Root.ParseExecutableString(text)
		if err != nil || exe == nil {
			continue
		}
		_ = w.RunExe(exe, c.Op, c.Vars)
		if err = w.Root.ParseString(ext); err != nil {
			continue // (this root does not take the extension: nothing to compare)
		}
		again := w.RunExe(exe, c.Op, c.Vars)
		fexe, ferr := w.Root.ParseExecutableString(text)
		if ferr != nil || fexe == nil {
			continue
		}
		fresh := w.RunExe(fexe, c.Op, c.Vars)
		rep.Case("extended-between|"+text+"|"+c.Op, true)
		rep.Class("extended-between")
		if again.Data.String() != fresh.Data.String() || len(again.Errs) != len(fresh.Errs) {
			rep.Mismatch(vh.Mismatch{
				Case: map[string]interface{}{"fam": c.Fam, "request": text, "op": c.Op, "strategy": "refl", "aspect": "data", "extension": ext},
				What: "data: (one parsed executable resolved before and after the schema was extended) data is " + again.Data.String() + " with " + fmt.Sprint(len(again.Errs)) +
					" errors, a freshly parsed copy gives " + fresh.Data.String() + " with " + fmt.Sprint(len(fresh.Errs)) + " errors"})
		}
	}
}

// hasBad: the document carries an injected directive defect (spec: field `bad` of a selection).
func hasBad(c *gq.Case) bool {
	return strings.Contains(vh.JS(c.Doc), `"bad":"`+"u") || strings.Contains(vh.JS(c.Doc), `"bad":"`+"m") || strings.Contains(vh.JS(c.Doc), `"bad":"`+"d")
}

// reflOnly: families about interface / union typed fields need Go type bindings (documented limitation of the other strategies).
func reflOnly(fam string) bool {
	return fam == "abstract" || fam == "defectabs" || fam == "absops" || fam == "forms"
}

// sharedParse: the cases TLC enumerates for one document differ in operation, variables and injected
// failures.  They are resolved here, forwards and then backwards, on ONE parsed Executable per document
// and strategy: each response must still be the one Sem prescribes for that case alone (what a call
// leaves behind in the parsed request or in the root must not reach the next call).
func sharedParse(u *gq.Universe, cases []gq.Case, worlds map[string]*gq.World, strats []string, rep *vh.Report) {
	groups := map[string][]int{}
	var order []string
	for i := range cases {
		c := &cases[i]
		if c.Mix != nil || gq.HasNthFault(c) {
			continue
		}
		k := c.Doc.Text(gq.Layouts[0])
		if _, seen := groups[k]; !seen {
			order = append(order, k)
		}
		groups[k] = append(groups[k], i)
	}
	for gi, k := range order {
		idx := groups[k]
		if len(idx) < 2 {
			continue
		}
		for _, s := range strats {
			w := worlds[s+"0"]
			if w == nil {
				continue
			}
			suitable := true
			for _, i := range idx {
				if s == "refl" && !gq.ReflSuitable(u, &cases[i]) {
					suitable = false
				}
				if s != "refl" && reflOnly(cases[i].Fam) {
					suitable = false
				}
			}
			if !suitable {
				continue
			}
			exe, err := w.Root.ParseExecutableString(cases[idx[0]].Doc.Text(gq.Layouts[gi%len(gq.Layouts)]))
			if err != nil || exe == nil {
				continue // a document refused when parsed is judged by the per-case replay
			}
			// a resolver that panics is the application's fault, and callers such as net/http recover from it:
			// what such a call leaves behind in the parsed request must not reach the calls after it
			sites := map[string]bool{}
			for _, call := range cases[idx[0]].Exp.Calls {
				site := call.Node + "." + call.Field
				if len(sites) >= 3 || sites[site] {
					continue
				}
				sites[site] = true
				w.SetFaults(nil)
				w.SetPanic(site)
				func() {
					defer func() { _ = recover() }()
					_ = w.RunExe(exe, cases[idx[0]].Op, cases[idx[0]].Vars)
				}()
				w.SetPanic("")
				rep.Class("shared-parse:after-recovered-panic")
			}
			seq := append([]int{}, idx...)
			for j := len(idx) - 1; j >= 0; j-- {
				seq = append(seq, idx[j])
			}
			for n, i := range seq {
				c := &cases[i]
				w.SetFaults(c.Faults)
				act := w.RunExe(exe, c.Op, c.Vars)
				rep.Case(fmt.Sprintf("shared|%s|%s|%d|%d", s, k, n, i), len(c.Exp.Calls) >= 2)
				rep.Class("shared-parse")
				diffs := gq.Compare(c.Exp, act, true)
				if len(diffs) == 0 {
					continue
				}
				known := ""
				if c.ExpK != nil {
					if kd := gq.Compare(c.ExpK, act, true); len(kd) == 0 {
						known = strings.Join(c.KDevs, "+")
						if known == "" {
							known = "K"
						}
					}
				}
				for _, d := range diffs {
					rep.Mismatch(vh.Mismatch{
						Case: map[string]interface{}{"fam": c.Fam, "request": k, "op": c.Op, "vars": c.Vars, "faults": c.Faults, "strategy": s,
							"aspect": d.Aspect, "session": fmt.Sprintf("call %d of %d on one parsed executable", n+1, len(seq))},
						What: d.Aspect + ": (one parsed executable resolved repeatedly) " + d.What, Known: known})
				}
				break // later calls of a session that already went wrong add nothing
			}
			// the calls of a session overlapping in time: one parsed executable resolved by several goroutines
			var plain []int
			for _, i := range idx {
				if len(cases[i].Faults) == 0 {
					plain = append(plain, i)
				}
			}
			if len(plain) > 0 && gi%3 == 0 {
				w.SetFaults(nil)
				var wg sync.WaitGroup
				var mu sync.Mutex
				reported := false
				for g := 0; g < 4; g++ {
					wg.Add(1)
					go func(g int) {
						defer wg.Done()
						defer func() {
							if r := recover(); r != nil {
								mu.Lock()
								if !reported {
									reported = true
									rep.Mismatch(vh.Mismatch{Case: map[string]interface{}{"request": k, "strategy": s, "aspect": "data", "session": "4 goroutines resolving one parsed executable"},
										What: fmt.Sprintf("data: (one parsed executable resolved concurrently) panic: %v", r)})
								}
								mu.Unlock()
							}
						}()
						for n := 0; n < 12; n++ {
							c := &cases[plain[(g+n)%len(plain)]]
							act := w.RunExeQuiet(exe, c.Op, c.Vars)
							diffs := gq.Compare(c.Exp, act, false)
							if len(diffs) > 0 && c.ExpK != nil && len(gq.Compare(c.ExpK, act, false)) == 0 {
								diffs = nil // (explained by a known deviation: attributed by the sequential passes)
							}
							if len(diffs) > 0 {
								mu.Lock()
								if !reported {
									reported = true
									rep.Mismatch(vh.Mismatch{Case: map[string]interface{}{"fam": c.Fam, "request": k, "op": c.Op, "vars": c.Vars, "strategy": s, "aspect": diffs[0].Aspect,
										"session": "4 goroutines resolving one parsed executable"},
										What: diffs[0].Aspect + ": (one parsed executable resolved concurrently) " + diffs[0].What})
								}
								mu.Unlock()
								return
							}
						}
					}(g)
				}
				wg.Wait()
				w.TakeCalls()
				rep.Class("shared-parse:concurrent")
			}
		}
	}
}

// cmdRecord: direction B.  Random universes and documents are executed on the real
// code; what was asked and what came back is written as ndjson for ExecJudge.tla.
func cmdRecord(args []string) {
	fs := flag.NewFlagSet("record", flag.ExitOnError)
	up := fs.String("universe", "", "fixed universe json (used for part of the cases)")
	n := fs.Int("n", 200, "number of cases")
	nu := fs.Int("universes", 6, "number of random universes")
	outp := fs.String("out", "", "ndjson output")
	strat := fs.String("strategies", "iface,any", "strategies")
	depth := fs.Int("depth", 3, "selection depth")
	abstract := fs.Bool("abstract", false, "generate fragments with interface/union conditions and selections under abstract typed fields (reflection on the fixed universe)")
	ncalls := fs.Int("calls", 1, "resolves per parsed document (C11: >1 reuses one parsed executable)")
	_ = fs.Parse(args)
	var fixed gq.Universe
	vh.ReadJSON(*up, &fixed)
	rng := rand.New(rand.NewSource(vh.Seed()))
	rep := vh.NewReport("exec", "record")
	out, err := os.Create(*outp)
	if err != nil {
		vh.Die("%s", err)
	}
	defer out.Close()
	enc := json.NewEncoder(out)
	strategies := strings.Split(*strat, ",")
	g := &gq.Gen{R: rng}
	per := *n / (*nu + 1)
	if per < 1 {
		per = 1
	}
	idx := 0
	for ui := 0; ui <= *nu; ui++ {
		var u *gq.Universe
		if ui == 0 {
			u = &fixed
		} else {
			u = g.RandomUniverse()
		}
		g.U = u.WithoutSilent()
		_ = enc.Encode(map[string]interface{}{"r": "universe", "u": u})
		idx++
		worlds := map[string]*gq.World{}
		var usable []string
		for _, s := range strategies {
			if s == "refl" && ui != 0 {
				continue // reflection needs the hand written Go types of the fixed universe
			}
			usable = append(usable, s)
			for lm := gq.ListMode(0); lm < 3; lm++ {
				var w *gq.World
				var err error
				if s == "refl" {
					w, err = gq.NewReflWorld(u, lm, gq.Binding((int(lm)+ui+int(vh.Seed()))%int(gq.NumBindings)))
				} else {
					w, err = gq.NewWorld(u, gq.Strategy(s), lm)
				}
				if err != nil {
					vh.Die("%s", err)
				}
				worlds[s+string(rune('0'+int(lm)))] = w
			}
		}
		if len(usable) == 0 {
			continue
		}
		tries := 0
		for k := 0; k < per && tries < per*20; k++ {
			tries++
			s := usable[rng.Intn(len(usable))]
			g.Abstract = *abstract && s == "refl"
			c := g.Case(1 + rng.Intn(*depth))
			c.Doc.Normalize()
			if s == "refl" && !gq.ReflSuitable(u, c) {
				k--
				continue
			}
			lm := rng.Intn(3)
			lo := gq.Layouts[rng.Intn(len(gq.Layouts))]
			w := worlds[s+string(rune('0'+lm))]
			if *ncalls > 1 {
				text := c.Doc.Text(lo)
				exe, perr := w.Root.ParseExecutableString(text)
				if perr != nil {
					rep.Mismatch(vh.Mismatch{Case: text, What: "generated document refused: " + perr.Error()})
					continue
				}
				before := canonPrint(exe.String())
				w.SetFaults(c.Faults)
				for call := 0; call < *ncalls; call++ {
					vars := gq.ValMap{}
					opn := c.Op
					if call > 0 {
						opn = c.Doc.Ops[rng.Intn(len(c.Doc.Ops))].Name
						for _, vd := range c.Doc.Ops[0].Vars {
							if rng.Intn(2) == 0 || vd.T.K == "nonnull" || !vd.HasDef {
								switch vd.T.Base() {
								case "String":
									vars[vd.N] = gq.Str(fmt.Sprintf("v%d", rng.Intn(3)))
								case "Boolean":
									vars[vd.N] = gq.Bool(rng.Intn(2) == 0)
								case "Int":
									vars[vd.N] = gq.Int(int64(rng.Intn(7)))
								}
							}
						}
					} else {
						vars = c.Vars
					}
					act := w.RunExe(exe, opn, vars)
					rec := map[string]interface{}{"r": "case", "doc": c.Doc, "op": opn, "vars": vars, "faults": c.Faults,
						"logcalls": true, "strategy": s, "text": c.Doc.Text(gq.Layouts[0]), "call": call + 1,
						"act": map[string]interface{}{"hasData": act.HasData, "data": act.Data, "errs": pathsOnly(act.Errs), "calls": callsOrEmpty(act.Calls)}}
					_ = enc.Encode(rec)
					rep.Case(text+opn+vh.JS(vars)+vh.JS(c.Faults)+s+fmt.Sprint(call), call > 0)
					if after := canonPrint(exe.String()); after != before {
						rep.Mismatch(vh.Mismatch{Case: map[string]interface{}{"request": text, "call": call + 1, "op": opn, "vars": vars, "aspect": "printed"},
							What: "printed: the executable's printed form changed from\n" + before + "to\n" + after})
						before = after
					}
				}
				if k == 0 && ui < 3 {
					rep.Sample(map[string]interface{}{"request": text, "calls": *ncalls, "strategy": s})
				}
				continue
			}
			act := w.Run(c, lo)
			idx++
			rec := map[string]interface{}{"r": "case", "doc": c.Doc, "op": c.Op, "vars": c.Vars, "faults": c.Faults,
				"logcalls": true, "strategy": s, "text": c.Doc.Text(gq.Layouts[0]),
				"act": map[string]interface{}{"hasData": act.HasData, "data": act.Data, "errs": pathsOnly(act.Errs), "calls": callsOrEmpty(act.Calls)}}
			_ = enc.Encode(rec)
			rep.Case(c.Doc.Text(gq.Layouts[0])+c.Op+vh.JS(c.Vars)+vh.JS(c.Faults)+s, len(act.Calls) >= 2)
			rep.Class("strategy:" + s)
			if k == 0 && ui < 3 {
				rep.Sample(map[string]interface{}{"request": c.Doc.Text(lo), "op": c.Op, "vars": c.Vars, "faults": c.Faults, "strategy": s})
			}
		}
	}
	rep.Emit()
}

// Session is one behaviour of MCReuse.tla.
type Session struct {
	Doc   gq.Doc `json:"doc"`
	Calls []struct {
		Op   string       `json:"op"`
		Vars gq.ValMap    `json:"vars"`
		Exp  *gq.Response `json:"exp"`
	} `json:"calls"`
}

// canonLits sorts the entries of object literals (Go map iteration order shows in
// Executable.String()); everything else, in particular the order of arguments,
// is left as printed.
func canonLits(s string) string {
	var out strings.Builder
	paren := 0
	for i := 0; i < len(s); i++ {
		c := s[i]
		switch {
		case c == '(':
			paren++
		case c == ')':
			paren--
		case c == '{' && paren > 0:
			// balanced group
			depth, j := 0, i
			inStr := false
			for ; j < len(s); j++ {
				if s[j] == '"' && (j == 0 || s[j-1] != '\\') {
					inStr = !inStr
				}
				if inStr {
					continue
				}
				if s[j] == '{' {
					depth++
				} else if s[j] == '}' {
					depth--
					if depth == 0 {
						break
					}
				}
			}
			if j < len(s) {
				inner := s[i+1 : j]
				// split at top-level commas
				var parts []string
				d, start := 0, 0
				inStr = false
				for k := 0; k < len(inner); k++ {
					ch := inner[k]
					if ch == '"' && (k == 0 || inner[k-1] != '\\') {
						inStr = !inStr
					}
					if inStr {
						continue
					}
					switch ch {
					case '{', '[':
						d++
					case '}', ']':
						d--
					case ',':
						if d == 0 {
							parts = append(parts, strings.TrimSpace(inner[start:k]))
							start = k + 1
						}
					}
				}
				parts = append(parts, strings.TrimSpace(inner[start:]))
				for k := range parts {
					parts[k] = canonLitsInner(parts[k])
				}
				sort.Strings(parts)
				out.WriteString("{" + strings.Join(parts, ", ") + "}")
				i = j
				continue
			}
		}
		out.WriteByte(c)
	}
	return out.String()
}

func canonLitsInner(s string) string {
	return strings.TrimSuffix(strings.TrimPrefix(canonLits("("+s+")"), "("), ")")
}

// canonical printed form: Executable.String() writes the operations in map order
func canonPrint(s string) string {
	s = canonLits(s)
	lines := strings.Split(s, "\n")
	// split into top-level blocks: a block starts at a line without leading space that is not "}"
	var out []string
	cur := ""
	for _, ln := range lines {
		if strings.TrimSpace(ln) == "" {
			continue
		}
		if ln != "" && ln[0] != ' ' && ln[0] != '}' && cur != "" {
			out = append(out, cur)
			cur = ""
		}
		cur += ln + "\n"
	}
	if cur != "" {
		out = append(out, cur)
	}
	sort.Strings(out)
	return strings.Join(out, "")
}

// cmdReuse replays sessions of MCReuse.tla: one parse, several resolves (C11).
func cmdReuse(args []string) {
	fs := flag.NewFlagSet("reuse", flag.ExitOnError)
	up := fs.String("universe", "", "universe json")
	vp := fs.String("vectors", "", "sessions json")
	strat := fs.String("strategies", "iface,any", "strategies")
	_ = fs.Parse(args)
	var u gq.Universe
	vh.ReadJSON(*up, &u)
	var sessions []Session
	vh.ReadJSON(*vp, &sessions)
	rep := vh.NewReport("exec", "reuse")
	for si, st := range strings.Split(*strat, ",") {
		w, err := gq.NewWorld(&u, gq.Strategy(st), gq.ListMode(si%3))
		if err != nil {
			vh.Die("%s", err)
		}
		for i := range sessions {
			s := &sessions[i]
			text := s.Doc.Text(gq.Layouts[(i+si)%len(gq.Layouts)])
			exe, perr := w.Root.ParseExecutableString(text)
			key := st + "|" + s.Doc.Text(gq.Layouts[0])
			for _, c := range s.Calls {
				key += "|" + c.Op + vh.JS(c.Vars)
			}
			distinct := map[string]bool{}
			for _, c := range s.Calls {
				distinct[c.Op+vh.JS(c.Vars)] = true
			}
			rep.Case(key, len(distinct) >= 2)
			rep.Class("strategy:" + st)
			if i%401 == 0 {
				rep.Sample(map[string]interface{}{"request": text, "calls": s.Calls, "strategy": st})
			}
			cs := map[string]interface{}{"request": s.Doc.Text(gq.Layouts[0]), "strategy": st}
			if perr != nil {
				// the whole document is refused at parse time: every call must be refused by the model too
				for k, c := range s.Calls {
					if c.Exp.HasData {
						cs["call"] = k + 1
						cs["aspect"] = "data"
						rep.Mismatch(vh.Mismatch{Case: cs, Step: k + 1, What: "data: document refused by the parser (" + perr.Error() + ") but the model resolves it"})
					}
				}
				continue
			}
			before := canonPrint(exe.String())
			w.SetFaults(nil)
			for k, c := range s.Calls {
				act := w.RunExe(exe, c.Op, c.Vars)
				for _, d := range gq.Compare(c.Exp, act, true) {
					cc := map[string]interface{}{"request": cs["request"], "strategy": st, "call": k + 1, "op": c.Op, "vars": c.Vars, "aspect": d.Aspect,
						"previous_calls": s.Calls[:k]}
					rep.Mismatch(vh.Mismatch{Case: cc, Step: k + 1, What: d.Aspect + ": call " + fmt.Sprint(k+1) + " of the session: " + d.What})
				}
				after := canonPrint(exe.String())
				if after != before {
					cc := map[string]interface{}{"request": cs["request"], "strategy": st, "call": k + 1, "op": c.Op, "vars": c.Vars, "aspect": "printed"}
					rep.Mismatch(vh.Mismatch{Case: cc, Step: k + 1, What: "printed: the executable's printed form changed from\n" + before + "to\n" + after})
					before = after
				}
			}
		}
	}
	rep.Emit()
}

// lexemes splits a rendered document into runs of name characters and single other bytes.
func lexemes(text string) []map[string]interface{} {
	var out []map[string]interface{}
	isName := func(c byte) bool {
		return c == '_' || ('0' <= c && c <= '9') || ('a' <= c && c <= 'z') || ('A' <= c && c <= 'Z')
	}
	for i := 0; i < len(text); {
		if isName(text[i]) {
			j := i
			for j < len(text) && isName(text[j]) {
				j++
			}
			out = append(out, map[string]interface{}{"n": j - i, "nl": 0, "key": text[i:j]})
			i = j
			continue
		}
		nl := 0
		if text[i] == '\n' {
			nl = 1
		}
		out = append(out, map[string]interface{}{"n": 1, "nl": nl, "key": ""})
		i++
	}
	return out
}

var gqlKeywords = map[string]bool{"query": true, "mutation": true, "subscription": true, "fragment": true, "on": true, "true": true, "false": true, "null": true}

// messageWords: the words (runs of name characters) of an error message, without the keywords of the language.
// Envelope!LocationOK uses those that are name lexemes of the submitted document: an error that carries a location
// and names a token of the document is located on a line where that token stands.
func messageWords(msg string) []string {
	seen := map[string]bool{}
	out := []string{}
	for _, lx := range lexemes(msg) {
		w, _ := lx["key"].(string)
		if w != "" && !gqlKeywords[w] && !seen[w] && len(w) > 1 {
			seen[w] = true
			out = append(out, w)
		}
	}
	return out
}

// skeleton reduces a response to what Envelope!WellFormed looks at.
func skeleton(res map[string]interface{}) map[string]interface{} {
	keys := []string{}
	for k := range res {
		keys = append(keys, k)
	}
	sort.Strings(keys)
	sk := map[string]interface{}{"keys": keys}
	switch d := res["data"].(type) {
	case nil:
		if _, has := res["data"]; has {
			sk["dataKind"] = "null"
		} else {
			sk["dataKind"] = "absent"
		}
	case map[string]interface{}:
		sk["dataKind"] = "object"
		_ = d
	default:
		sk["dataKind"] = "other"
	}
	errs := []interface{}{}
	switch el := res["errors"].(type) {
	case nil:
		if _, has := res["errors"]; has {
			sk["errorsKind"] = "other"
		} else {
			sk["errorsKind"] = "absent"
		}
	case []interface{}:
		sk["errorsKind"] = "list"
		for _, e := range el {
			em, _ := e.(map[string]interface{})
			msg, _ := em["message"].(string)
			rec := map[string]interface{}{"msg": len(msg), "key": "", "words": messageWords(msg)}
			kinds := []string{}
			if p, ok := em["path"].([]interface{}); ok {
				for _, pe := range p {
					switch x := pe.(type) {
					case string:
						kinds = append(kinds, "str")
						if !strings.HasPrefix(x, "fragment at ") {
							rec["key"] = x
						}
					case int:
						if x >= 0 {
							kinds = append(kinds, "nat")
						} else {
							kinds = append(kinds, "neg")
						}
					default:
						kinds = append(kinds, "other")
					}
				}
			} else if em["path"] != nil {
				kinds = append(kinds, "other")
			}
			rec["pathKinds"] = kinds
			locs := []interface{}{}
			if ll, ok := em["locations"].([]interface{}); ok {
				for _, l := range ll {
					lm, _ := l.(map[string]interface{})
					line, _ := lm["line"].(int)
					col, _ := lm["column"].(int)
					locs = append(locs, map[string]interface{}{"line": line, "col": col})
				}
			}
			rec["locs"] = locs
			for k := range em {
				if k != "message" && k != "path" && k != "locations" && k != "extensions" {
					kinds = append(kinds, "other")
					rec["pathKinds"] = kinds
				}
			}
			errs = append(errs, rec)
		}
	default:
		sk["errorsKind"] = "other"
	}
	sk["errors"] = errs
	// serialisation: every indent mode must give text a JSON parser accepts and that decodes to the same structure
	js := map[string]interface{}{}
	var ref interface{}
	if b, err := json.Marshal(normaliseForJSON(res)); err == nil {
		_ = json.Unmarshal(b, &ref)
	}
	for name, indent := range map[string]int{"tight": -1, "line": 0, "indent2": 2} {
		var sb strings.Builder
		ok := ggql.WriteJSONValue(&sb, res, indent) == nil
		var back interface{}
		if ok {
			ok = json.Unmarshal([]byte(sb.String()), &back) == nil && matchesRef(ref, back)
		}
		js[name] = ok
	}
	sk["json"] = js
	return sk
}

// normaliseForJSON turns the response into plain data encoding/json can marshal the way the
// statement means it (error paths, numbers); non finite numbers make the reference unusable on purpose.
func normaliseForJSON(x interface{}) interface{} {
	switch v := x.(type) {
	case map[string]interface{}:
		out := map[string]interface{}{}
		for k, e := range v {
			out[k] = normaliseForJSON(e)
		}
		return out
	case []interface{}:
		out := make([]interface{}, len(v))
		for i, e := range v {
			out[i] = normaliseForJSON(e)
		}
		return out
	case ggql.Symbol:
		return string(v)
	case time.Time:
		return v.Format(time.RFC3339Nano)
	case nil, bool, string, int, int16, int32, int64, float32, float64, json.Number: // (the Go kinds GraphQL values come in)
		return x
	}
	// a value of a Go type GraphQL has no type for (in the extensions of an application's error): how it is rendered
	// is not prescribed, only that the whole is JSON
	return map[string]interface{}{anyJSON: true}
}

const anyJSON = "$any JSON value$"

// matchesRef: the decoded text has the structure of the reference; where the reference leaves the rendering open
// anything goes.
func matchesRef(ref, back interface{}) bool {
	switch r := ref.(type) {
	case map[string]interface{}:
		if _, open := r[anyJSON]; open {
			return true
		}
		b, ok := back.(map[string]interface{})
		if !ok || len(b) != len(r) {
			return false
		}
		for k, e := range r {
			be, has := b[k]
			if !has || !matchesRef(e, be) {
				return false
			}
		}
		return true
	case []interface{}:
		b, ok := back.([]interface{})
		if !ok || len(b) != len(r) {
			return false
		}
		for i := range r {
			if !matchesRef(r[i], b[i]) {
				return false
			}
		}
		return true
	}
	return vh.JS(ref) == vh.JS(back)
}

// cmdEnvelope (C07): run cases in every layout and record response skeletons plus the lexemes
// of the submitted text for EnvelopeJudge.tla.
func cmdEnvelope(args []string) {
	fs := flag.NewFlagSet("envelope", flag.ExitOnError)
	up := fs.String("universe", "", "universe json")
	vp := fs.String("vectors", "", "cases json")
	outp := fs.String("out", "", "ndjson output")
	every := fs.Int("every", 1, "use every n-th case (offset by the seed)")
	_ = fs.Parse(args)
	var u gq.Universe
	vh.ReadJSON(*up, &u)
	var cases []gq.Case
	vh.ReadJSON(*vp, &cases)
	rep := vh.NewReport("exec", "envelope")
	out, err := os.Create(*outp)
	if err != nil {
		vh.Die("%s", err)
	}
	defer out.Close()
	enc := json.NewEncoder(out)
	worlds := map[string]*gq.World{}
	for _, s := range []string{"iface", "any"} {
		w, err := gq.NewWorld(&u, gq.Strategy(s), gq.ListIfaceSlice)
		if err != nil {
			vh.Die("%s", err)
		}
		worlds[s] = w
	}
	for i := range cases {
		if (i+int(vh.Seed()))%*every != 0 {
			continue
		}
		c := &cases[i]
		if c.Mix != nil || gq.HasNthFault(c) || reflOnly(c.Fam) {
			continue
		}
		for li, lo := range gq.Layouts {
			w := worlds[[]string{"iface", "any"}[(i+li)%2]]
			text := c.Doc.Text(lo)
			w.SetFaults(c.Faults)
			res := w.Root.ResolveString(text, c.Op, gq.VarsToGo(c.Vars))
			sk := skeleton(res)
			sk["lex"] = lexemes(text)
			// which requests must be refused is C10's subject: a request the known deviations (M(K)) let through
			// is judged here as an executed one
			rejected := !c.Exp.HasData
			if c.ExpK != nil {
				rejected = rejected && !c.ExpK.HasData
			}
			sk["rejected"] = rejected
			if hasBad(c) {
				sk["offLines"] = gq.BadLines(text) // where the injected directive defect stands in this layout
			}
			sk["text"] = text
			sk["layout"] = li
			_ = enc.Encode(sk)
			hasLoc := false
			for _, e := range sk["errors"].([]interface{}) {
				if len(e.(map[string]interface{})["locs"].([]interface{})) > 0 {
					hasLoc = true
				}
			}
			rep.Case(text+c.Op+vh.JS(c.Vars)+vh.JS(c.Faults), hasLoc)
			rep.Class(fmt.Sprintf("layout%d", li))
			if i%301 == 0 && li == 1 {
				rep.Sample(map[string]interface{}{"request": text, "response": fmt.Sprint(res)})
			}
		}
	}
	contentCases(enc, rep)
	rep.Emit()
}

// ---- string content (C07): every response must serialise to valid JSON "for every string content".
// The strings of U-exec are plain words, so a second small root (reflection strategy) echoes request
// supplied strings into data values and into error messages.

type strQuery struct{}

func (q *strQuery) Echo(s string) string                 { return "s=" + s }
func (q *strQuery) Say(word string, again string) string { return word + again }
func (q *strQuery) Fail(s string) (interface{}, error) {
	return nil, fmt.Errorf("failed on %s", s)
}
func (q *strQuery) Many(s string) (interface{}, error) {
	return nil, ggql.Errors{fmt.Errorf("first %s", s), &ggql.Error{Base: fmt.Errorf("second %s", s), Extensions: map[string]interface{}{s: s}}}
}

// numbers a resolver can hand over for Float / Float64 / Int positions: whatever becomes of them, the response is JSON
func (q *strQuery) Big() interface{}    { return float64(1e39) }
func (q *strQuery) Neg() interface{}    { return float64(-2.5e300) }
func (q *strQuery) BigStr() interface{} { return "7e38" }
func (q *strQuery) Bigs() interface{}   { return []interface{}{1.5, float64(1e39), float32(3), "1e300"} }
func (q *strQuery) Inf() interface{}    { return math.Inf(1) }
func (q *strQuery) Nan() interface{}    { return math.NaN() }
func (q *strQuery) Infs() interface{}   { return []float64{math.Inf(-1), 1, math.NaN()} }
func (q *strQuery) Huge() interface{}   { return uint64(1) << 63 }

// a chain that never ends, for requests deeper than the library resolves (MaxResolveDepth): whatever it does about
// them, the response is an envelope and JSON
type strNode struct{ Name string }

func (n *strNode) Next() *strNode  { return &strNode{Name: n.Name + "'"} }
func (q *strQuery) Node() *strNode { return &strNode{Name: "b\"q\\"} }

type strSchema struct{ Query *strQuery }

// the characters response strings are built from: plain, every character with a short JSON escape, control
// characters without one, DEL, multi-byte runes, the line separators JSON allows raw, a byte that is not UTF-8
var contentChars = []string{"a", "\"", "\\", "/", "\n", "\t", "\r", "\b", "\f", "\x00", "\x01", "\x1b", "\x1f", "\x7f", "\u00e9", "\u2028", "\U0001F600", "\xff", " "}

func gqlStringLiteral(s string) (string, bool) {
	var b strings.Builder
	b.WriteByte('"')
	for _, r := range s {
		switch {
		case r == '"':
			b.WriteString(`\"`)
		case r == '\\':
			b.WriteString(`\\`)
		case r == 0xFFFD:
			return "", false // (an invalid byte cannot be written as a literal)
		case r < 0x20 || r == 0x7f:
			fmt.Fprintf(&b, `\u%04x`, r)
		default:
			b.WriteRune(r)
		}
	}
	b.WriteByte('"')
	return b.String(), true
}

func contentCases(enc *json.Encoder, rep *vh.Report) {
	root := ggql.NewRoot(&strSchema{Query: &strQuery{}})
	if err := root.ParseString("type Query { echo(s: String): String say(word: String, again: String): String fail(s: String): String many(s: String): String " +
		"big: Float neg: Float bigStr: Float bigs: [Float] inf: Float64 nan: Float64 infs: [Float64] huge: Int node: Node nodes: [Node] }\n" +
		"type Node { next: Node name: String names: [String] }"); err != nil {
		vh.Die("content root: %s", err)
	}
	for _, q := range []string{"{ big }", "{ neg bigStr }", "{ bigs }", "{ inf }", "{ nan }", "{ infs }", "{ huge }", "{ big neg bigStr bigs inf nan infs huge }"} {
		res := root.ResolveString(q, "", nil)
		sk := skeleton(res)
		sk["lex"] = lexemes(q)
		sk["rejected"] = false
		sk["text"] = q
		sk["layout"] = 0
		_ = enc.Encode(sk)
		rep.Case("content|"+q, true)
		rep.Class("content:numbers")
	}
	positionCases(enc, rep, root)
	for _, depth := range []int{3, 97, 98, 99, 100, 101, 105} {
		q := "{ node " + strings.Repeat("{ next ", depth) + "{ name } " + strings.Repeat("} ", depth) + "}"
		res := root.ResolveString(q, "", nil)
		sk := skeleton(res)
		sk["lex"] = lexemes(q)
		sk["rejected"] = false
		sk["text"] = fmt.Sprintf("{ node { next ... (%d levels) { name } } }", depth)
		sk["layout"] = 0
		_ = enc.Encode(sk)
		rep.Case(fmt.Sprintf("depth|%d", depth), true)
		rep.Class("content:depth")
		// where the library stops resolving it leaves null and ONE error whose path is the position of that null: as long
		// as the chain of keys down to it, no longer (C06; these requests have no arguments and no fragments)
		if es, _ := res["errors"].([]interface{}); len(es) > 0 {
			if len(es) != 1 {
				rep.Mismatch(vh.Mismatch{Case: map[string]interface{}{"request": sk["text"], "aspect": "errors"}, What: fmt.Sprintf("errors: %d errors for one position that is not resolved", len(es))})
			}
			for _, e := range es {
				em, _ := e.(map[string]interface{})
				path, _ := em["path"].([]interface{})
				var cur interface{} = res["data"]
				used := 0
				for _, el := range path {
					m, isMap := cur.(map[string]interface{})
					k, isKey := el.(string)
					if !isMap || !isKey {
						break
					}
					cur = m[k]
					used++
					if cur == nil {
						break
					}
				}
				if used != len(path) || cur != nil {
					rep.Mismatch(vh.Mismatch{Case: map[string]interface{}{"request": sk["text"], "aspect": "errors", "path": path},
						What: fmt.Sprintf("errors: the path of the depth error has %d elements, the null it reports is reached after %d of them", len(path), used)})
				}
			}
		}
	}
	var strs []string
	for _, a := range contentChars {
		strs = append(strs, a)
		for _, b := range contentChars {
			strs = append(strs, a+b)
		}
	}
	rng := rand.New(rand.NewSource(vh.Seed()))
	for k := 0; k < 200; k++ {
		n := 3 + rng.Intn(4)
		var sb strings.Builder
		for j := 0; j < n; j++ {
			sb.WriteString(contentChars[rng.Intn(len(contentChars))])
		}
		strs = append(strs, sb.String())
	}
	for _, s := range strs {
		type rq struct {
			text string
			vars map[string]interface{}
		}
		reqs := []rq{
			{"query($v: String) { echo(s: $v) }", map[string]interface{}{"v": s}},
			{"query($v: String) { x: fail(s: $v) echo(s: $v) }", map[string]interface{}{"v": s}},
			{"query($v: String) { many(s: $v) }", map[string]interface{}{"v": s}},
		}
		if lit, ok := gqlStringLiteral(s); ok && !strings.ContainsAny(s, "\n\r") {
			reqs = append(reqs, rq{"{ echo(s: " + lit + ") y: fail(s: " + lit + ") }", nil})
		}
		for _, q := range reqs {
			res := root.ResolveString(q.text, "", q.vars)
			sk := skeleton(res)
			sk["lex"] = lexemes(q.text)
			sk["rejected"] = false
			sk["text"] = fmt.Sprintf("%s with v = %q", q.text, s)
			sk["layout"] = 0
			_ = enc.Encode(sk)
			rep.Case("content|"+q.text+"|"+s, true)
			rep.Class("content")
		}
	}
}

// positionCases: requests that fail at every kind of token the request reader gives a position to (an operation
// keyword, a fragment definition, a variable definition, an argument, a directive), written on one line and with
// every token on a line of its own; the errors must still be located inside the document (Envelope!ErrorOK,
// LocationOK).
func positionCases(enc *json.Encoder, rep *vh.Report, root *ggql.Root) {
	type rq struct {
		text string
		vars map[string]interface{}
	}
	reqs := []rq{
		{"query Q($count: Int) { huge say(word: \"a\", again: \"b\") }", map[string]interface{}{"count": "str"}},
		{"query Q($count: Int = \"x\") { huge }", nil},
		{"query Q($count: Nope) { huge }", nil},
		{"query Q($count: Int, $other: String) { huge }", map[string]interface{}{"other": 3, "count": 1}},
		{"{ say(word: \"x\", extra: 3) }", nil},
		{"{ say(word: \"x\", word: \"y\") }", nil},
		{"{ say(word: \"x\", again: 3) }", nil},
		{"{ say(word: \"x\", again: $missing) }", nil},
		{"foo", nil},
		{"foo { huge }", nil},
		{"fragment", nil},
		{"fragment Frag", nil},
		{"fragment Frag on", nil},
		{"fragment Frag on Query", nil},
		{"{ ...Frag } fragment Frag on Nope { huge }", nil},
		{"{ ...Gone }", nil},
		{"{ huge @nope }", nil},
		{"{ huge @skip }", nil},
		{"{ huge @skip(if: 3) }", nil},
		{"{ huge @skip(unless: true) }", nil},
		{"{ ... on Nope { huge } }", nil},
		{"{ ... on Nope! { huge } }", nil},
		{"{ ... @nope { huge } }", nil},
		{"query Q @nope { huge }", nil},
		{"{ nope }", nil},
		{"{ huge { deeper } }", nil},
		{"query Again { huge } query Again { huge }", nil},
		{"{ huge } { huge }", nil},
		{"subscription { huge }", nil},
		{"mutation { huge }", nil},
		{"{ huge", nil},
		{"{ say(word: \"x\" }", nil},
		{"{ say(word: ) }", nil},
		{"{ say(: 3) }", nil},
		{"query ($: Int) { huge }", nil},
		{"query ($count Int) { huge }", nil},
		{"{ alias: }", nil},
	}
	for _, q := range reqs {
		for li, text := range []string{q.text, gq.TokenPerLine(q.text), strings.Replace(gq.TokenPerLine(q.text), "\n", "\r\n", -1)} {
			res := root.ResolveString(text, "", q.vars)
			sk := skeleton(res)
			sk["lex"] = lexemes(text)
			d, hasData := res["data"]
			sk["rejected"] = !hasData || d == nil
			sk["text"] = text
			sk["layout"] = 5 * li
			_ = enc.Encode(sk)
			rep.Case("position|"+text, true)
			rep.Class("position")
		}
	}
}

func pathsOnly(errs []gq.ErrRec) []map[string]interface{} {
	out := []map[string]interface{}{}
	for _, e := range errs {
		p := e.Path
		if p == nil {
			p = []string{}
		}
		out = append(out, map[string]interface{}{"path": p, "msg": e.Msg})
	}
	return out
}

func callsOrEmpty(c []gq.Call) []gq.Call {
	out := []gq.Call{}
	for _, x := range c {
		x.Via = ""
		out = append(out, x)
	}
	return out
}

func main() {
	if len(os.Args) < 2 {
		vh.Die("usage: exec replay ...")
	}
	switch os.Args[1] {
	case "replay":
		cmdReplay(os.Args[2:])
	case "record":
		cmdRecord(os.Args[2:])
	case "reuse":
		cmdReuse(os.Args[2:])
	case "envelope":
		cmdEnvelope(os.Args[2:])
	default:
		vh.Die("unknown mode %s", os.Args[1])
	}
}
