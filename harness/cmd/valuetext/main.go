// Command valuetext is the conformance harness of spec/ValueText.tla
// (property C18: value text formats round-trip, the JSON writer emits JSON).
//
//	valuetext replay -universe u.json -vectors v.json
//	    every vector TLC printed (value, writer mode, prescribed texts, prescribed read-back
//	    value, prescribed decoded JSON) is executed on the real code: the Go value is built and
//	    written with ggql.WriteSDLValue / WriteJSONValue, the bytes are split into lexical
//	    characters and compared with the prescribed text, read back with ggql.ParseValueString
//	    and ggql.ParseValue, and - JSON form - decoded with encoding/json.
//	valuetext record -universe u.json -n N -out cases.ndjson
//	    random larger values (seeded by VERIF_SEED) are written and read back by the real code;
//	    value, mode, real text, real read-back value and decoded JSON are recorded for
//	    spec/ValueTextJudge.tla.
package main

import (
	"bytes"
	"encoding/json"
	"flag"
	"fmt"
	"math/rand"
	"os"
	"strings"
	"testing/iotest"

	"github.com/uhn/ggql/pkg/ggql"

	"verifharness/vh"
	"verifharness/vt"
)

type Outcome struct {
	Text []string `json:"text"`
	Back *vt.Val  `json:"back"`
	Jdec *vt.Val  `json:"jdec"`
}

type Vector struct {
	Fam    string     `json:"fam"`
	V      *vt.Val    `json:"v"`
	Fmt    string     `json:"fmt"`
	Ind    int        `json:"ind"`
	Sorted bool       `json:"sorted"`
	Back   *vt.Val    `json:"back"`
	Jdec   *vt.Val    `json:"jdec"`
	Texts  [][]string `json:"texts"`
	OutsK  []Outcome  `json:"outsK"`
	KDevs  []string   `json:"kdevs"`
}

// Real is what the real code did with one (value, mode).
type Real struct {
	Bytes    []byte
	Text     []string
	Back     *vt.Val
	BackErr  string
	Jdec     *vt.Val
	JdecErr  string
	WriteErr string
	Note     string // disagreement between ParseValueString and ParseValue
}

func run(t *vt.Tables, v *vt.Val, format string, ind int, sorted bool, rot *int) (r *Real, err error) {
	g, err := t.Build(v, rot)
	if err != nil {
		return nil, err
	}
	old := ggql.Sort
	ggql.Sort = sorted
	defer func() {
		ggql.Sort = old
		if p := recover(); p != nil { // a panic of the real code is an outcome, not a failure of the harness
			if r == nil {
				r = &Real{Text: []string{}}
			}
			if r.Back == nil {
				r.Back = vt.ErrVal
			}
			if r.Jdec == nil {
				r.Jdec = &vt.Val{K: "none"}
			}
			r.WriteErr = fmt.Sprintf("panic: %v", p)
			err = nil
		}
	}()
	var b bytes.Buffer
	if format == "sdl" {
		err = ggql.WriteSDLValue(&b, g, ind)
	} else {
		err = ggql.WriteJSONValue(&b, g, ind)
	}
	r = &Real{Bytes: b.Bytes(), Text: t.Chars(b.String()), Jdec: &vt.Val{K: "none"}}
	if err != nil {
		r.WriteErr = err.Error()
	}
	back, perr := ggql.ParseValueString(b.String())
	if perr != nil {
		r.Back, r.BackErr = vt.ErrVal, perr.Error()
	} else {
		r.Back = t.FromParsed(back)
	}
	// the reader entry point for io.Readers, fed one byte at a time, must agree
	back2, perr2 := ggql.ParseValue(iotest.OneByteReader(bytes.NewReader(b.Bytes())))
	b2 := vt.ErrVal
	if perr2 == nil {
		b2 = t.FromParsed(back2)
	}
	if b2.Canon(t) != r.Back.Canon(t) {
		r.Note = fmt.Sprintf("ParseValueString gives %s, ParseValue gives %s", r.Back.Canon(t), b2.Canon(t))
	}
	if format == "json" {
		var jerr error
		r.Jdec, jerr = t.JSONDecode(b.Bytes())
		if jerr != nil {
			r.JdecErr = jerr.Error()
		}
	}
	return r, nil
}

func same(a, b []string) bool {
	if len(a) != len(b) {
		return false
	}
	for i := range a {
		if a[i] != b[i] {
			return false
		}
	}
	return true
}

// nontrivial: the case exercises a separator rule (a container with two or more members)
// or an escape/quoting rule (a string or key that is empty or has a character outside
// letters, digits and underscore).
func nontrivial(t *vt.Tables, v *vt.Val) bool {
	odd := func(cs []string) bool {
		if len(cs) == 0 {
			return true
		}
		for _, c := range cs {
			if !t.IsTokenCh(c) {
				return true
			}
		}
		return false
	}
	switch v.K {
	case "str":
		return odd(v.Chars)
	case "list":
		if len(v.List) >= 2 {
			return true
		}
		for _, x := range v.List {
			if nontrivial(t, x) {
				return true
			}
		}
	case "obj":
		if len(v.Ents) >= 2 {
			return true
		}
		for _, e := range v.Ents {
			if odd(e.Key) || nontrivial(t, e.Val) {
				return true
			}
		}
	}
	return false
}

// classes counts the shapes the vacuity rule looks at and returns the nesting depth of v
// (a scalar has depth 0, a container one more than its deepest member).
func classes(rep *vh.Report, v *vt.Val) int {
	max := 0
	switch v.K {
	case "list":
		if len(v.List) == 0 {
			rep.Class("has-empty-list")
		}
		for i, x := range v.List {
			if i > 0 && (x.K == "list" || x.K == "obj") && (v.List[i-1].K == "list" || v.List[i-1].K == "obj") {
				rep.Class("has-adjacent-containers")
			}
			if d := classes(rep, x); d > max {
				max = d
			}
		}
		return max + 1
	case "obj":
		if len(v.Ents) == 0 {
			rep.Class("has-empty-map")
		}
		for _, e := range v.Ents {
			if d := classes(rep, e.Val); d > max {
				max = d
			}
		}
		return max + 1
	default:
		rep.Class("leaf-" + v.K)
	}
	return 0
}

func caseInfo(t *vt.Tables, c *Vector, r *Real, aspect string) map[string]interface{} {
	m := map[string]interface{}{"fam": c.Fam, "value": c.V, "format": c.Fmt, "indent": c.Ind, "sort": c.Sorted, "aspect": aspect}
	if r != nil {
		m["written"] = string(bytes.ToValidUTF8(r.Bytes, []byte("�")))
		m["written_chars"] = r.Text
		if r.BackErr != "" {
			m["parse_error"] = r.BackErr
		}
		if r.JdecErr != "" {
			m["json_error"] = r.JdecErr
		}
	}
	return m
}

func cmdReplay(args []string) {
	fs := flag.NewFlagSet("replay", flag.ExitOnError)
	up := fs.String("universe", "", "universe json (the @@UNI export of MCValueText)")
	vp := fs.String("vectors", "", "vectors json")
	flip := fs.Bool("selftest-flip", false, "negative control: corrupt the expectation of every 7th vector; the replay must then report it")
	_ = fs.Parse(args)
	var u vt.Universe
	vh.ReadJSON(*up, &u)
	t, err := vt.NewTables(&u)
	if err != nil {
		vh.Die("universe drift: %s", err)
	}
	var vecs []Vector
	vh.ReadJSON(*vp, &vecs)
	rep := vh.NewReport("valuetext", "replay")
	rot := 0
	drift := 0
	harmless := 0
	knownDrift := 0
	for i := range vecs {
		c := &vecs[i]
		if c.Back == nil || c.Jdec == nil || len(c.Texts) == 0 {
			vh.Die("vector %d has no expectation", i)
		}
		if *flip && i%7 == 0 {
			c.Back = &vt.Val{K: "list", List: []*vt.Val{c.Back}}
		}
		r, err := run(t, c.V, c.Fmt, c.Ind, c.Sorted, &rot)
		if err != nil {
			vh.Die("vector %d: %s", i, err)
		}
		key := fmt.Sprintf("%s|%d|%v|%s", c.Fmt, c.Ind, c.Sorted, c.V.Canon(t))
		rep.Case(key, nontrivial(t, c.V))
		rep.Class("fam-" + c.Fam)
		rep.Class(fmt.Sprintf("mode-%s-ind%+d-sort=%v", c.Fmt, c.Ind, c.Sorted))
		rep.Class(fmt.Sprintf("depth-%d", classes(rep, c.V)))
		if i%211 == 0 {
			rep.Sample(map[string]interface{}{"value": c.V, "format": c.Fmt, "indent": c.Ind, "sort": c.Sorted, "written": string(r.Bytes)})
		}
		if r.WriteErr != "" {
			rep.Mismatch(vh.Mismatch{Case: caseInfo(t, c, r, "write"), What: "writing or reading failed: " + r.WriteErr})
			continue
		}
		if r.Note != "" {
			rep.Mismatch(vh.Mismatch{Case: caseInfo(t, c, r, "back"), What: "the two reader entry points disagree: " + r.Note})
			continue
		}
		textOK := false
		for _, x := range c.Texts {
			if same(x, r.Text) {
				textOK = true
			}
		}
		backOK := r.Back.Canon(t) == c.Back.Canon(t)
		jdecOK := r.Jdec.Canon(t) == c.Jdec.Canon(t)
		if backOK && jdecOK {
			if !textOK {
				explained := false
				for _, o := range c.OutsK {
					if same(o.Text, r.Text) {
						explained = true
					}
				}
				if explained {
					harmless++ // a listed deviation changes the text of this case but not what is read back
				} else {
					drift++
					if drift <= 5 {
						rep.Notes = append(rep.Notes, fmt.Sprintf("written text differs from the writer model (reads back fine): %s indent %d: %q, model e.g. %q",
							c.Fmt, c.Ind, string(r.Bytes), t.Bytes(c.Texts[0])))
					}
				}
			}
			continue
		}
		// the property fails on this case: is the outcome exactly what the listed deviations predict?
		// (the judged aspects are the read-back value and the decoded JSON; whether the text is also
		// byte for byte the text of the deviating model is counted separately)
		known := ""
		exact := false
		for _, o := range c.OutsK {
			if o.Back.Canon(t) == r.Back.Canon(t) && o.Jdec.Canon(t) == r.Jdec.Canon(t) {
				known = strings.Join(c.KDevs, "+")
				exact = exact || same(o.Text, r.Text)
			}
		}
		if known != "" && !exact {
			knownDrift++
		}
		aspect, what := "", ""
		switch {
		case !backOK && c.Fmt == "sdl":
			aspect, what = "sdl_roundtrip", fmt.Sprintf("SDL form %q reads back as %s, the value is %s", string(r.Bytes), r.Back.Canon(t), c.Back.Canon(t))
		case !backOK:
			aspect, what = "json_roundtrip", fmt.Sprintf("JSON form %q reads back as %s, expected %s", string(r.Bytes), r.Back.Canon(t), c.Back.Canon(t))
		default:
			aspect, what = "json_standard", fmt.Sprintf("JSON form %q: encoding/json gives %s (%s), expected %s", string(r.Bytes), r.Jdec.Canon(t), r.JdecErr, c.Jdec.Canon(t))
		}
		if !textOK && known == "" {
			what += fmt.Sprintf("; the writer model prescribes %q", t.Bytes(c.Texts[0]))
		}
		rep.Mismatch(vh.Mismatch{Case: caseInfo(t, c, r, aspect), What: what, Known: known})
	}
	if !*flip {
		bulk(t, vecs, rep, &rot)
	}
	rep.Extra["text_drift"] = drift
	rep.Extra["known_outcome_but_other_text"] = knownDrift
	rep.Extra["deviation_changes_text_only"] = harmless
	rep.Emit()
}

// bulk: ReadWriteSDL / ReadWriteJSON hold of every value, the long and flat ones too: lists of 1200 of the objects (and of
// the lists) the vectors hold, a list of 1200 empty objects, one object with 1200 entries.  The expectation is the
// invariant itself: what is read back is the value; the JSON form decodes to it.
func bulk(t *vt.Tables, vecs []Vector, rep *vh.Report, rot *int) {
	var objs, lists []*vt.Val
	seen := map[string]bool{}
	for i := range vecs {
		v := vecs[i].V
		if v == nil || seen[v.Canon(t)] || vecs[i].OutsK != nil {
			continue
		}
		seen[v.Canon(t)] = true
		switch {
		case v.K == "obj" && len(objs) < 40:
			objs = append(objs, v)
		case v.K == "list" && len(lists) < 40:
			lists = append(lists, v)
		}
	}
	rep_ := func(src []*vt.Val, n int) *vt.Val {
		out := &vt.Val{K: "list"}
		for i := 0; i < n && 0 < len(src); i++ {
			out.List = append(out.List, src[i%len(src)])
		}
		return out
	}
	wide := &vt.Val{K: "obj"}
	for i := 0; i < 1200; i++ {
		wide.Ents = append(wide.Ents, vt.Ent{Key: t.Chars(fmt.Sprintf("k%d", i)), Val: &vt.Val{K: "obj"}})
	}
	cases := map[string]*vt.Val{"1200 objects": rep_(objs, 1200), "1200 lists": rep_(lists, 1200),
		"1200 empty objects": rep_([]*vt.Val{{K: "obj"}}, 1200), "1200 entries": wide}
	for name, v := range cases {
		if v.K == "list" && len(v.List) == 0 {
			continue
		}
		for _, format := range []string{"sdl", "json"} {
			for _, ind := range []int{-1, 0, 2} {
				r, err := run(t, v, format, ind, true, rot)
				if err != nil {
					vh.Die("bulk %s: %s", name, err)
				}
				rep.Case("bulk|"+name+"|"+format+fmt.Sprint(ind), true)
				rep.Class("bulk")
				what := ""
				switch {
				case r.WriteErr != "":
					what = "the writer failed: " + r.WriteErr
				case r.Back.Canon(t) != v.Canon(t):
					what = "the value read back is not the value: " + r.BackErr
				case format == "json" && r.Jdec.Canon(t) != v.Canon(t):
					what = "encoding/json does not decode the JSON form to the value: " + r.JdecErr
				}
				if what != "" {
					rep.Mismatch(vh.Mismatch{Case: map[string]interface{}{"value": "a list / object of " + name, "format": format, "indent": ind, "bytes": len(r.Bytes)},
						What: "bulk (" + name + "): " + what})
				}
			}
		}
	}
}

// ---------------------------------------------------------------- record ----

type gen struct {
	r *rand.Rand
	t *vt.Tables
	u *vt.Universe
	// characters worth meeting more often than the rest of the alphabet
	special []string
}

func (g *gen) pick(xs [][]string) []string { return append([]string{}, xs[g.r.Intn(len(xs))]...) }

func (g *gen) str(max int) []string {
	n := g.r.Intn(max + 1)
	out := []string{}
	for i := 0; i < n; i++ {
		if g.r.Intn(3) == 0 {
			out = append(out, g.special[g.r.Intn(len(g.special))])
		} else {
			out = append(out, g.t.CharList[g.r.Intn(len(g.t.CharList))])
		}
	}
	return out
}

func (g *gen) key() []string {
	switch x := g.r.Intn(100); {
	case x < 55:
		return g.pick(g.u.GoodKeys)
	case x < 75: // random key made of token characters
		n := 1 + g.r.Intn(3)
		out := []string{}
		for i := 0; i < n; i++ {
			out = append(out, g.u.TokenCh[g.r.Intn(len(g.u.TokenCh))])
		}
		return out
	case x < 85:
		return g.pick(g.u.SortKeys)
	case x < 94:
		return g.pick(g.u.OddKeys)
	default:
		return g.pick(g.u.EscKeys)
	}
}

func names(m map[string][]string) []string {
	out := []string{}
	for k := range m {
		out = append(out, k)
	}
	// map order is random: sort for determinism
	for i := range out {
		for j := i + 1; j < len(out); j++ {
			if out[j] < out[i] {
				out[i], out[j] = out[j], out[i]
			}
		}
	}
	return out
}

func (g *gen) value(depth int) *vt.Val {
	k := g.r.Intn(100)
	if depth <= 0 && k >= 60 {
		k = g.r.Intn(60)
	}
	switch {
	case k < 5:
		return &vt.Val{K: "null"}
	case k < 10:
		return &vt.Val{K: "bool", B: g.r.Intn(2) == 0}
	case k < 22:
		ns := names(g.u.Ints)
		return &vt.Val{K: "int", Name: ns[g.r.Intn(len(ns))]}
	case k < 30:
		ns := names(g.u.Floats)
		return &vt.Val{K: "float", Name: ns[g.r.Intn(len(ns))]}
	case k < 48:
		return &vt.Val{K: "str", Chars: g.str(6)}
	case k < 54:
		return &vt.Val{K: "sym", Chars: g.pick(g.u.Syms)}
	case k < 60:
		return &vt.Val{K: "var", Chars: g.pick(g.u.Vars)}
	case k < 80:
		n := g.r.Intn(5)
		out := &vt.Val{K: "list", List: []*vt.Val{}}
		for i := 0; i < n; i++ {
			out.List = append(out.List, g.value(depth-1))
		}
		return out
	default:
		n := g.r.Intn(5)
		out := &vt.Val{K: "obj", Ents: []vt.Ent{}}
		seen := map[string]bool{}
		for i := 0; i < n; i++ {
			key := g.key()
			if seen[g.t.Bytes(key)] {
				continue
			}
			seen[g.t.Bytes(key)] = true
			out.Ents = append(out.Ents, vt.Ent{Key: key, Val: g.value(depth - 1)})
		}
		return out
	}
}

type Record struct {
	V      *vt.Val  `json:"v"`
	Fmt    string   `json:"fmt"`
	Ind    int      `json:"ind"`
	Sorted bool     `json:"sorted"`
	Text   []string `json:"text"`
	Back   *vt.Val  `json:"back"`
	Jdec   *vt.Val  `json:"jdec"`
}

func cmdRecord(args []string) {
	fs := flag.NewFlagSet("record", flag.ExitOnError)
	up := fs.String("universe", "", "universe json")
	n := fs.Int("n", 500, "number of recorded executions")
	depth := fs.Int("depth", 4, "maximal nesting depth")
	out := fs.String("out", "", "ndjson output")
	corrupt := fs.Bool("selftest-corrupt", false, "negative control: damage one recorded field of every 5th record; the judge must reject those")
	_ = fs.Parse(args)
	var u vt.Universe
	vh.ReadJSON(*up, &u)
	t, err := vt.NewTables(&u)
	if err != nil {
		vh.Die("universe drift: %s", err)
	}
	g := &gen{r: rand.New(rand.NewSource(vh.Seed())), t: t, u: &u,
		special: []string{"QUOTE", "BSL", "LF", "TAB", "CR", "BS", "FF", "NUL", "C01", "C1F", "SP", "DEL", "U80", "EACU", "EMOJI", "UFFFD", "U85", "UAD", "U200B", "U2028", "U2029", "U202E", "UFEFF", "U1D173", "UE0067",
			"BADFF", "BADC3", "/", "#", "$", ",", ":", "u", "n", "0", "a", "[", "]", "{", "}"}}
	f, err := os.Create(*out)
	if err != nil {
		vh.Die("%s", err)
	}
	defer f.Close()
	enc := json.NewEncoder(f)
	rep := vh.NewReport("valuetext", "record")
	inds := []int{-3, -1, -1, 0, 0, 1, 2, 2, 3, 4}
	rot := 0
	for i := 0; i < *n; i++ {
		v := g.value(1 + g.r.Intn(*depth))
		if i%5 != 0 && v.K != "list" && v.K != "obj" { // most recorded values should be containers
			v = &vt.Val{K: "list", List: []*vt.Val{v, g.value(*depth - 1), g.value(*depth - 1)}}
		}
		format := []string{"sdl", "json"}[g.r.Intn(2)]
		ind := inds[g.r.Intn(len(inds))]
		sorted := g.r.Intn(3) != 0
		r, err := run(t, v, format, ind, sorted, &rot)
		if err != nil {
			vh.Die("record %d: %s", i, err)
		}
		c := &Vector{Fam: "random", V: v, Fmt: format, Ind: ind, Sorted: sorted}
		key := fmt.Sprintf("%s|%d|%v|%s", format, ind, sorted, v.Canon(t))
		rep.Case(key, nontrivial(t, v))
		rep.Class(fmt.Sprintf("mode-%s-ind%s-sort=%v", format, map[bool]string{true: "<0", false: map[bool]string{true: "=0", false: ">0"}[ind == 0]}[ind < 0], sorted))
		rep.Class(fmt.Sprintf("depth-%d", classes(rep, v)))
		if i%97 == 0 {
			rep.Sample(map[string]interface{}{"value": v, "format": format, "indent": ind, "sort": sorted, "written": string(r.Bytes)})
		}
		if r.WriteErr != "" {
			rep.Mismatch(vh.Mismatch{Case: caseInfo(t, c, r, "write"), What: "writing or reading failed: " + r.WriteErr})
		}
		if r.Note != "" {
			rep.Mismatch(vh.Mismatch{Case: caseInfo(t, c, r, "back"), What: "the two reader entry points disagree: " + r.Note})
		}
		rec := Record{V: v, Fmt: format, Ind: ind, Sorted: sorted, Text: r.Text, Back: r.Back, Jdec: r.Jdec}
		if *corrupt && i%5 == 0 {
			switch (i / 5) % 3 {
			case 0:
				rec.Back = &vt.Val{K: "list", List: []*vt.Val{rec.Back}}
			case 1:
				rec.Text = append(append([]string{}, rec.Text...), "]")
			default:
				rec.V = &vt.Val{K: "list", List: []*vt.Val{rec.V, {K: "null"}}}
			}
		}
		if err := enc.Encode(rec); err != nil {
			vh.Die("%s", err)
		}
	}
	rep.Emit()
}

func main() {
	if len(os.Args) < 2 {
		vh.Die("usage: valuetext replay|record ...")
	}
	switch os.Args[1] {
	case "replay":
		cmdReplay(os.Args[2:])
	case "record":
		cmdRecord(os.Args[2:])
	default:
		vh.Die("unknown subcommand %q", os.Args[1])
	}
}
