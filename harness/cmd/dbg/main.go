package main

import (
	"encoding/json"
	"fmt"
	"os"
	"strings"

	"github.com/uhn/ggql/pkg/ggql"

	"verifharness/sch"
)

func main() {
	var defs []sch.Def
	b, _ := os.ReadFile(os.Args[1])
	_ = json.Unmarshal(b, &defs)
	text, at := sch.DocText(defs)
	root := ggql.NewRoot(nil)
	var err error
	if at >= 0 {
		err = root.ParseReader(&sch.FaultyReader{Text: text, At: at})
	} else {
		err = root.ParseReader(strings.NewReader(text))
	}
	fmt.Println("err:", err)
	for _, t := range root.Types() {
		if !t.Core() {
			fmt.Println("type", t.Name())
		}
	}
}
