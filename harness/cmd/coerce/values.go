package main

// The JSON shapes exchanged with TLC (spec/Coerce.tla): abstract values, type
// references, cases; and the number lattice: every number is a NAMED POINT held
// in a Go kind.  This file owns the concrete Go values of the points.

import (
	"encoding/json"
	"fmt"
	"math"
	"math/big"
	"reflect"
	"sort"
	"strconv"
	"strings"
	"time"

	"github.com/uhn/ggql/pkg/ggql"
)

// Val is an abstract value of Coerce.tla: a record with tag k and the fields
// that tag uses.
type Val struct {
	K  string         `json:"k"`
	P  string         `json:"p,omitempty"`  // num: point
	G  string         `json:"g,omitempty"`  // num, wild: Go kind
	S  string         `json:"s"`            // str, sym, time, other, unk
	B  bool           `json:"b"`            // bool
	Xs []Val          `json:"xs"`           // list
	F  map[string]Val `json:"f"`            // obj
	N  string         `json:"n,omitempty"`  // var
	Lk string         `json:"lk,omitempty"` // Go list kind (C05)
	Et string         `json:"et,omitempty"` // Go element type of typed lists (C05)
	Gv *Val           `json:"gv,omitempty"` // raw, leak, rawof
	V  *Val           `json:"v,omitempty"`  // may
	U  *Val           `json:"u,omitempty"`  // named: the value of the underlying basic type
}

// MarshalJSON writes exactly the fields the tag uses (TLC compares records structurally).
func (v Val) MarshalJSON() ([]byte, error) {
	m := map[string]interface{}{"k": v.K}
	switch v.K {
	case "num":
		m["p"], m["g"] = v.P, v.G
	case "wild":
		m["g"] = v.G
	case "str", "sym", "time", "other", "unk":
		m["s"] = v.S
	case "bool":
		m["b"] = v.B
	case "list":
		xs := v.Xs
		if xs == nil {
			xs = []Val{}
		}
		m["xs"] = xs
		if v.Lk != "" {
			m["lk"], m["et"] = v.Lk, v.Et
		}
	case "obj":
		f := v.F
		if f == nil {
			f = map[string]Val{}
		}
		m["f"] = f
	case "var":
		m["n"] = v.N
	case "raw", "leak", "rawof":
		m["gv"] = v.Gv
	case "may":
		m["v"] = v.V
	case "named":
		m["u"] = v.U
	}
	return json.Marshal(m)
}

func (v *Val) UnmarshalJSON(b []byte) error {
	var raw struct {
		K  string          `json:"k"`
		P  string          `json:"p"`
		G  string          `json:"g"`
		S  string          `json:"s"`
		B  bool            `json:"b"`
		Xs []Val           `json:"xs"`
		F  json.RawMessage `json:"f"`
		N  string          `json:"n"`
		Lk string          `json:"lk"`
		Et string          `json:"et"`
		Gv *Val            `json:"gv"`
		V  *Val            `json:"v"`
		U  *Val            `json:"u"`
	}
	if err := json.Unmarshal(b, &raw); err != nil {
		return err
	}
	*v = Val{K: raw.K, P: raw.P, G: raw.G, S: raw.S, B: raw.B, Xs: raw.Xs, N: raw.N, Lk: raw.Lk, Et: raw.Et, Gv: raw.Gv, V: raw.V, U: raw.U}
	if v.K == "obj" {
		v.F = map[string]Val{}
		if len(raw.F) > 0 && raw.F[0] == '{' { // TLC prints the empty function as []
			return json.Unmarshal(raw.F, &v.F)
		}
	}
	return nil
}

func (v Val) String() string { b, _ := json.Marshal(v); return string(b) }

// ValMap is a name -> value map that TLC prints as [] when empty.
type ValMap map[string]Val

func (m *ValMap) UnmarshalJSON(b []byte) error {
	*m = ValMap{}
	if len(b) > 0 && b[0] == '[' {
		return nil
	}
	tmp := map[string]Val{}
	if err := json.Unmarshal(b, &tmp); err != nil {
		return err
	}
	*m = tmp
	return nil
}

// TRef is a type reference named | list | nonnull.
type TRef struct {
	K  string `json:"k"`
	N  string `json:"n,omitempty"`
	Of *TRef  `json:"of,omitempty"`
}

func (t *TRef) String() string {
	switch t.K {
	case "list":
		return "[" + t.Of.String() + "]"
	case "nonnull":
		return t.Of.String() + "!"
	}
	return t.N
}

// Enc is the field name suffix of a type expression: L = list, N = non-null.
func (t *TRef) Enc() string {
	switch t.K {
	case "list":
		return "L" + t.Of.Enc()
	case "nonnull":
		return "N" + t.Of.Enc()
	}
	return t.N
}

func (t *TRef) Base() string {
	if t.K == "named" {
		return t.N
	}
	return t.Of.Base()
}

type InField struct {
	N      string `json:"n"`
	T      *TRef  `json:"t"`
	HasDef bool   `json:"hasDef"`
	Def    Val    `json:"def"`
}

type VarDef = InField

// Universe is U-coerce as exported by MCCoerce.tla (@@UNI).
type Universe struct {
	Enums    map[string][]string  `json:"enums"`
	Inputs   map[string][]InField `json:"inputs"`
	Objects  []string             `json:"objects"`
	InTypes  []*TRef              `json:"inTypes"`
	OutTypes []*TRef              `json:"outTypes"`
	Points   map[string]string    `json:"points"`
	Holds    map[string][]string  `json:"holds"`
	CanonF32 map[string]string    `json:"canonF32"`
	CanonF64 map[string]string    `json:"canonF64"`
	// the times the specification names exactly (every other RFC 3339 text is "sometime" to it)
	KnownTimes []string `json:"knownTimes"`
}

// Case is one vector of MCCoerce.tla or one case generated on the Go side.
type Case struct {
	Fam string `json:"fam"`
	T   *TRef  `json:"t"`
	// C04
	Lit   *Val     `json:"lit,omitempty"`
	Vds   []VarDef `json:"vds,omitempty"`
	Given ValMap   `json:"given,omitempty"`
	Rx    bool     `json:"rx"`
	Omit  bool     `json:"omit"`
	// C04, family req2: how each of the two required arguments is given (lit | null | omit | unset)
	St map[string]string `json:"st,omitempty"`
	// C05
	Gv *Val `json:"gv,omitempty"`
	// expectations (C04: outcome record, C05: tree)
	Exp   *Exp     `json:"exp,omitempty"`
	ExpK  *Exp     `json:"expK,omitempty"`
	KDevs []string `json:"kdevs,omitempty"`
}

// Exp is either a C04 outcome [out, val] or a C05 tree (a Val).
type Exp struct {
	Out  string
	Val  *Val
	Tree *Val
}

func (e *Exp) UnmarshalJSON(b []byte) error {
	var probe struct {
		Out string `json:"out"`
		Val *Val   `json:"val"`
	}
	if err := json.Unmarshal(b, &probe); err != nil {
		return err
	}
	if probe.Out != "" {
		e.Out, e.Val = probe.Out, probe.Val
		return nil
	}
	e.Tree = &Val{}
	return json.Unmarshal(b, e.Tree)
}

func (e *Exp) MarshalJSON() ([]byte, error) {
	if e.Tree != nil {
		return json.Marshal(e.Tree)
	}
	m := map[string]interface{}{"out": e.Out}
	if e.Val != nil {
		m["val"] = e.Val
	}
	return json.Marshal(m)
}

// ------------------------------------------------------------------ points

var pointOrder = []string{"i0", "i1", "im1", "i42", "i2p24p1", "i2p31m1", "im2p31", "i2p31", "im2p31m1", "i2p32p1", "i2p53", "i2p53p1",
	"i2p63m1", "im2p63", "i2p63", "f1p5", "fm0p5", "f1em50", "ff32max", "f1e39", "f1e300", "nan", "pinf", "ninf"}

type point struct {
	name string
	i    *big.Int // integral points
	f    float64  // the others
}

var points = map[string]*point{}

// independent definitions of the points (checked against the decimal texts the specification exports)
var pointDefs = map[string]func() *big.Int{
	"i0": func() *big.Int { return big.NewInt(0) }, "i1": func() *big.Int { return big.NewInt(1) },
	"im1": func() *big.Int { return big.NewInt(-1) }, "i42": func() *big.Int { return big.NewInt(42) },
	"i2p24p1":  func() *big.Int { return pow2(24, 1) },
	"i2p31m1":  func() *big.Int { return pow2(31, -1) },
	"im2p31":   func() *big.Int { return new(big.Int).Neg(pow2(31, 0)) },
	"i2p31":    func() *big.Int { return pow2(31, 0) },
	"im2p31m1": func() *big.Int { return new(big.Int).Sub(new(big.Int).Neg(pow2(31, 0)), big.NewInt(1)) },
	"i2p32p1":  func() *big.Int { return pow2(32, 1) },
	"i2p53":    func() *big.Int { return pow2(53, 0) },
	"i2p53p1":  func() *big.Int { return pow2(53, 1) },
	"i2p63m1":  func() *big.Int { return pow2(63, -1) },
	"im2p63":   func() *big.Int { return new(big.Int).Neg(pow2(63, 0)) },
	"i2p63":    func() *big.Int { return pow2(63, 0) },
}

func pow2(e uint, add int64) *big.Int {
	return new(big.Int).Add(new(big.Int).Lsh(big.NewInt(1), e), big.NewInt(add))
}

// loadPoints builds the point table from the universe export and checks it against pointDefs.
func loadPoints(u *Universe) error {
	for name, dec := range u.Points {
		p := &point{name: name}
		switch name {
		case "nan":
			p.f = math.NaN()
		case "pinf":
			p.f = math.Inf(1)
		case "ninf":
			p.f = math.Inf(-1)
		default:
			if def, ok := pointDefs[name]; ok {
				i, ok2 := new(big.Int).SetString(dec, 10)
				if !ok2 || i.Cmp(def()) != 0 {
					return fmt.Errorf("point %s: the specification's text %q is not %s", name, dec, def())
				}
				p.i = i
			} else {
				f, err := strconv.ParseFloat(dec, 64)
				if err != nil {
					return fmt.Errorf("point %s: %s", name, err)
				}
				p.f = f
			}
		}
		points[name] = p
	}
	if len(points) != len(pointOrder) {
		return fmt.Errorf("the specification has %d points, the harness knows %d", len(points), len(pointOrder))
	}
	want := map[string]float64{"f1p5": 1.5, "fm0p5": -0.5, "f1em50": 1e-50, "ff32max": math.MaxFloat32, "f1e39": 1e39, "f1e300": 1e300}
	for n, f := range want {
		if points[n] == nil || points[n].f != f {
			return fmt.Errorf("point %s is not %v", n, f)
		}
	}
	// the Holds table: every listed (kind, point) must be exactly representable, and nothing else
	for kind, ps := range u.Holds {
		listed := map[string]bool{}
		for _, p := range ps {
			listed[p] = true
		}
		for _, name := range pointOrder {
			if exact := holdsExactly(kind, points[name]); exact != listed[name] {
				return fmt.Errorf("Holds[%s] disagrees with Go about %s (exactly representable: %v)", kind, name, exact)
			}
		}
	}
	for g, tab := range map[string]map[string]string{"float32": u.CanonF32, "float64": u.CanonF64} {
		for _, name := range pointOrder {
			c := canonPoint(goVal(name, g), g)
			want := name
			if x, ok := tab[name]; ok {
				want = x
			}
			if c != want {
				return fmt.Errorf("Canon table of the specification for %s: %s -> %s, Go says %s", g, name, want, c)
			}
		}
	}
	return nil
}

func holdsExactly(kind string, p *point) bool {
	if p.i != nil {
		switch kind {
		case "float32":
			f, acc := new(big.Float).SetInt(p.i).Float32()
			return acc == big.Exact && !math.IsInf(float64(f), 0)
		case "float64":
			_, acc := new(big.Float).SetInt(p.i).Float64()
			return acc == big.Exact
		}
		lo, hi := kindRange(kind)
		return p.i.Cmp(lo) >= 0 && p.i.Cmp(hi) <= 0
	}
	switch kind {
	case "float64":
		return true
	case "float32":
		return math.IsNaN(p.f) || float64(float32(p.f)) == p.f
	}
	return false
}

func kindRange(kind string) (lo, hi *big.Int) {
	bits := map[string]uint{"int": 64, "int8": 8, "int16": 16, "int32": 32, "int64": 64, "uint": 64, "uint8": 8, "uint16": 16, "uint32": 32, "uint64": 64}[kind]
	if strings.HasPrefix(kind, "u") {
		return big.NewInt(0), pow2(bits, -1)
	}
	return new(big.Int).Neg(pow2(bits-1, 0)), pow2(bits-1, -1)
}

// goVal is the value of Go kind `kind` nearest to the point (exact when Holds says so).
func goVal(name, kind string) interface{} {
	p := points[name]
	if p == nil {
		die("unknown point %q", name)
	}
	if p.i != nil {
		switch kind {
		case "float32":
			f, _ := new(big.Float).SetInt(p.i).Float32()
			return f
		case "float64":
			f, _ := new(big.Float).SetInt(p.i).Float64()
			return f
		}
		lo, hi := kindRange(kind)
		if p.i.Cmp(lo) < 0 || p.i.Cmp(hi) > 0 {
			die("point %s does not fit Go kind %s", name, kind)
		}
		if strings.HasPrefix(kind, "u") {
			u := p.i.Uint64()
			switch kind {
			case "uint":
				return uint(u)
			case "uint8":
				return uint8(u)
			case "uint16":
				return uint16(u)
			case "uint32":
				return uint32(u)
			}
			return u
		}
		i := p.i.Int64()
		switch kind {
		case "int":
			return int(i)
		case "int8":
			return int8(i)
		case "int16":
			return int16(i)
		case "int32":
			return int32(i)
		}
		return i
	}
	switch kind {
	case "float32":
		return float32(p.f)
	case "float64":
		return p.f
	}
	die("point %s cannot be held by Go kind %s", name, kind)
	return nil
}

// literal text of a point in a GraphQL document
func pointLiteral(name string) string {
	p := points[name]
	if p.i != nil {
		return p.i.String()
	}
	return strconv.FormatFloat(p.f, 'g', -1, 64)
}

// sameNumber: two Go numbers denote the same mathematical value (NaN equals NaN).
func sameNumber(a, b interface{}) bool {
	ai, aok := asBig(a)
	bi, bok := asBig(b)
	if aok && bok {
		return ai.Cmp(bi) == 0
	}
	af, afok := asFloat(a)
	bf, bfok := asFloat(b)
	if !afok || !bfok {
		return false
	}
	if aok != bok { // an integer against a float: compare exactly
		if math.IsNaN(af) || math.IsInf(af, 0) || math.IsNaN(bf) || math.IsInf(bf, 0) {
			return false
		}
		x, y := new(big.Float).SetPrec(200), new(big.Float).SetPrec(200)
		if aok {
			x.SetInt(ai)
			y.SetFloat64(bf)
		} else {
			x.SetFloat64(af)
			y.SetInt(bi)
		}
		return x.Cmp(y) == 0
	}
	if math.IsNaN(af) || math.IsNaN(bf) {
		return math.IsNaN(af) && math.IsNaN(bf)
	}
	return af == bf
}

func asBig(v interface{}) (*big.Int, bool) {
	rv := reflect.ValueOf(v)
	switch rv.Kind() {
	case reflect.Int, reflect.Int8, reflect.Int16, reflect.Int32, reflect.Int64:
		return big.NewInt(rv.Int()), true
	case reflect.Uint, reflect.Uint8, reflect.Uint16, reflect.Uint32, reflect.Uint64:
		return new(big.Int).SetUint64(rv.Uint()), true
	}
	return nil, false
}

func asFloat(v interface{}) (float64, bool) {
	rv := reflect.ValueOf(v)
	switch rv.Kind() {
	case reflect.Float32, reflect.Float64:
		return rv.Float(), true
	case reflect.Int, reflect.Int8, reflect.Int16, reflect.Int32, reflect.Int64:
		return float64(rv.Int()), true
	case reflect.Uint, reflect.Uint8, reflect.Uint16, reflect.Uint32, reflect.Uint64:
		return float64(rv.Uint()), true
	}
	return 0, false
}

func isNumber(v interface{}) bool { _, ok := asFloat(v); return ok }

// canonPoint names a Go number of kind g: the first point (in pointOrder) whose value of that
// kind equals it; "?" when it is no point at all.
func canonPoint(v interface{}, g string) string {
	for pass := 0; pass < 2; pass++ { // a point the kind holds exactly names the value, if there is one
		for _, name := range pointOrder {
			p := points[name]
			if !strings.HasPrefix(g, "float") {
				if p.i == nil {
					continue
				}
				lo, hi := kindRange(g)
				if p.i.Cmp(lo) < 0 || p.i.Cmp(hi) > 0 {
					continue
				}
			}
			if pass == 0 && !holdsExactly(g, p) {
				continue
			}
			if sameNumber(goVal(name, g), v) {
				return name
			}
		}
	}
	return "?"
}

// ------------------------------------------------------- abstract <-> Go values

var knownTimes = map[string]bool{} // filled from the universe (loadUniverse)

func mustTime(s string) time.Time {
	switch s { // times no RFC 3339 text can name
	case "year12345":
		return time.Date(12345, 1, 2, 3, 4, 5, 0, time.UTC)
	case "yearMinus5":
		return time.Date(-5, 1, 2, 3, 4, 5, 0, time.UTC)
	}
	t, err := time.Parse(time.RFC3339Nano, s)
	if err != nil {
		die("bad time name %q", s)
	}
	return t
}

// buildIn makes the Go value a caller puts into the variables map for an abstract value.
func buildIn(v Val) interface{} {
	switch v.K {
	case "null":
		return nil
	case "num":
		return goVal(v.P, v.G)
	case "str":
		return v.S
	case "bool":
		return v.B
	case "sym":
		return ggql.Symbol(v.S)
	case "time":
		return mustTime(v.S)
	case "list":
		out := make([]interface{}, 0, len(v.Xs))
		for _, x := range v.Xs {
			out = append(out, buildIn(x))
		}
		return out
	case "obj":
		out := map[string]interface{}{}
		for k, x := range v.F {
			out[k] = buildIn(x)
		}
		return out
	}
	die("cannot build an input value from %s", v)
	return nil
}

// litText renders an abstract value as a GraphQL literal.
func litText(v Val) string {
	switch v.K {
	case "null":
		return "null"
	case "num":
		return pointLiteral(v.P)
	case "str":
		return strconv.Quote(v.S)
	case "bool":
		return strconv.FormatBool(v.B)
	case "sym":
		return v.S
	case "var":
		return "$" + v.N
	case "list":
		parts := []string{}
		for _, x := range v.Xs {
			parts = append(parts, litText(x))
		}
		return "[" + strings.Join(parts, ", ") + "]"
	case "obj":
		keys := []string{}
		for k := range v.F {
			keys = append(keys, k)
		}
		sort.Strings(keys)
		parts := []string{}
		for _, k := range keys {
			parts = append(parts, k+": "+litText(v.F[k]))
		}
		return "{" + strings.Join(parts, ", ") + "}"
	}
	die("cannot write %s as a literal", v)
	return ""
}

// absGo abstracts a Go value (an argument a resolver received, or a raw value in a response).
func absGo(x interface{}) Val {
	switch tv := x.(type) {
	case nil:
		return Val{K: "null"}
	case string:
		return Val{K: "str", S: tv}
	case bool:
		return Val{K: "bool", B: tv}
	case ggql.Symbol:
		return Val{K: "sym", S: string(tv)}
	case ggql.Var:
		return Val{K: "var", N: string(tv)}
	case time.Time:
		s := tv.In(time.UTC).Format(time.RFC3339Nano)
		if !knownTimes[s] {
			s = "sometime"
		}
		return Val{K: "time", S: s}
	case []interface{}:
		out := Val{K: "list", Xs: []Val{}}
		for _, e := range tv {
			out.Xs = append(out.Xs, absGo(e))
		}
		return out
	case map[string]interface{}:
		out := Val{K: "obj", F: map[string]Val{}}
		for k, e := range tv {
			if e != nil { // a null field and an absent field denote the same input object
				out.F[k] = absGo(e)
			}
		}
		return out
	}
	if isNumber(x) {
		g := reflect.ValueOf(x).Kind().String()
		return Val{K: "num", P: canonPoint(x, g), G: g}
	}
	if ggql.IsNil(x) {
		return Val{K: "null"}
	}
	return Val{K: "unk", S: fmt.Sprintf("%T", x)}
}

// matchIn: the Go value a resolver received is (by Go kind and by value) what the abstract value says.
func matchIn(e Val, x interface{}) bool {
	switch e.K {
	case "null":
		return x == nil
	case "num":
		want := goVal(e.P, e.G)
		return x != nil && reflect.TypeOf(x) == reflect.TypeOf(want) && sameNumber(x, want)
	case "str":
		s, ok := x.(string)
		return ok && s == e.S
	case "bool":
		b, ok := x.(bool)
		return ok && b == e.B
	case "sym":
		s, ok := x.(ggql.Symbol)
		return ok && string(s) == e.S
	case "var": // (deviations only) an unreplaced variable
		s, ok := x.(ggql.Var)
		return ok && string(s) == e.N
	case "time":
		t, ok := x.(time.Time)
		return ok && t.Equal(mustTime(e.S))
	case "anytime":
		_, ok := x.(time.Time)
		return ok
	case "list":
		l, ok := x.([]interface{})
		if !ok || len(l) != len(e.Xs) {
			return false
		}
		for i := range l {
			if !matchIn(e.Xs[i], l[i]) {
				return false
			}
		}
		return true
	case "obj":
		m, ok := x.(map[string]interface{})
		if !ok {
			return false
		}
		n := 0
		for k, v := range m {
			if v == nil {
				continue
			}
			n++
			ev, has := e.F[k]
			if !has || !matchIn(ev, v) {
				return false
			}
		}
		want := 0
		for _, ev := range e.F {
			if ev.K != "null" {
				want++
			}
		}
		return n == want
	}
	return false
}

func die(format string, args ...interface{}) {
	panic(fmt.Sprintf(format, args...))
}
