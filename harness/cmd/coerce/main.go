// Command coerce is the conformance harness of the coercion properties C04 and
// C05 (spec/Coerce.tla, MCCoerce.tla, CoerceJudge.tla).
//
//	coerce replay -universe u.json -vectors v.json -prop C04|C05
//	coerce record -universe u.json -prop C04|C05 -n N -out cases.ndjson
package main

import (
	"encoding/json"
	"flag"
	"fmt"
	"math/rand"
	"os"
	"strings"

	"verifharness/vh"
)

func loadUniverse(path string) *Universe {
	var u Universe
	vh.ReadJSON(path, &u)
	if err := loadPoints(&u); err != nil {
		vh.Die("universe drift: %s", err)
	}
	if len(u.KnownTimes) == 0 {
		vh.Die("the universe names no times")
	}
	for _, t := range u.KnownTimes {
		knownTimes[t] = true
	}
	return &u
}

func caseJSON(c *Case) map[string]interface{} {
	m := map[string]interface{}{"fam": c.Fam, "type": c.T.String()}
	if c.Gv != nil {
		m["resolver_returns"] = c.Gv
		m["request"] = "{ o" + c.T.Enc() + " }"
	} else {
		m["request"] = requestIn(c)
		if len(c.Given) > 0 {
			m["variables"] = c.Given
		}
		if c.Rx {
			m["relaxed"] = true
		}
	}
	return m
}

func cmdReplay(args []string) {
	fs := flag.NewFlagSet("replay", flag.ExitOnError)
	up := fs.String("universe", "", "universe json")
	vp := fs.String("vectors", "", "vectors json")
	_ = fs.Parse(args)
	u := loadUniverse(*up)
	var cases []Case
	vh.ReadJSON(*vp, &cases)
	rep := vh.NewReport("coerce", "replay")
	worlds := []*world{newWorld(u, false, u.InTypes, u.OutTypes), newWorld(u, true, u.InTypes, u.OutTypes)}
	names := []string{"iface", "any"}
	for i := range cases {
		c := &cases[i]
		if c.Exp == nil {
			vh.Die("case %d has no expectation", i)
		}
		if c.Fam == "req2" {
			continue // run as sequences below
		}
		if c.Gv != nil {
			replayOut(rep, worlds, names, c, i)
		} else {
			replayIn(rep, worlds, names, c, i)
		}
	}
	replayReq2(rep, worlds, names, cases)
	rep.Emit()
}

// replayReq2: the cases of family req2, forwards and backwards, on each world's root.
func replayReq2(rep *vh.Report, worlds []*world, names []string, cases []Case) {
	var idx []int
	for i := range cases {
		if cases[i].Fam == "req2" {
			idx = append(idx, i)
		}
	}
	seq := append([]int{}, idx...)
	for j := len(idx) - 1; j >= 0; j-- {
		seq = append(seq, idx[j])
	}
	for wi, w := range worlds {
		for n, i := range seq {
			c := &cases[i]
			o := w.runReq2(c)
			rep.Case(fmt.Sprintf("req2|%s|%s|%d", names[wi], o.Request, n), c.Exp.Out == "call" || n > 0)
			rep.Class("req2")
			if o.Out != c.Exp.Out {
				rep.Mismatch(vh.Mismatch{Case: map[string]interface{}{"fam": "req2", "world": names[wi], "request": o.Request, "position_in_sequence": n + 1,
					"prescribed": c.Exp.Out, "observed": map[string]interface{}{"outcome": o.Out, "resolver_calls": o.Calls, "received": describe(o.Got), "errors": o.Errs, "why": o.Why}},
					What: fmt.Sprintf("two required arguments given as %v: the request must be %sed, observed %s", c.St, c.Exp.Out, o.Out)})
			}
		}
	}
}

func known(c *Case) string {
	if len(c.KDevs) == 0 {
		return "K"
	}
	return strings.Join(c.KDevs, "+")
}

func replayIn(rep *vh.Report, worlds []*world, names []string, c *Case, i int) {
	for wi, w := range worlds {
		o := w.runIn(c, (i+wi)%2 == 1)
		nontrivial := c.Lit != nil && (c.Lit.K != "null" || c.Omit)
		rep.Case("in|"+names[wi]+"|"+o.Request+"|"+vh.JS(c.Given)+fmt.Sprint(c.Rx), nontrivial)
		rep.Class(c.Fam)
		rep.Class("outcome:" + c.Exp.Out)
		if i%211 == 7 && wi == 0 && nontrivial {
			rep.Sample(map[string]interface{}{"request": o.Request, "variables": c.Given, "prescribed": c.Exp, "observed": o.Out,
				"resolver_received": describe(o.Got)})
		}
		why := agreesIn(c.Exp, o)
		if why == "" {
			// the same text for a field selected on members of different types of a list of an interface type
			if pobs, ok := w.runPets(c); ok {
				rep.Class("pets")
				for _, po := range pobs {
					if pw := agreesIn(c.Exp, po); pw != "" && !(c.ExpK != nil && agreesIn(c.ExpK, po) == "") {
						cs := caseJSON(c)
						cs["world"] = names[wi]
						cs["request"] = po.Request
						cs["prescribed"] = c.Exp
						cs["observed"] = map[string]interface{}{"outcome": po.Out, "resolver_calls": po.Calls, "received": describe(po.Got), "errors": po.Errs}
						rep.Mismatch(vh.Mismatch{Case: cs, What: "(member of a list of an interface type) " + pw})
						break
					}
				}
			}
			continue
		}
		cs := caseJSON(c)
		cs["world"] = names[wi]
		cs["prescribed"] = c.Exp
		cs["observed"] = map[string]interface{}{"outcome": o.Out, "resolver_calls": o.Calls, "received": describe(o.Got), "errors": o.Errs}
		kn := ""
		if c.ExpK != nil && agreesIn(c.ExpK, o) == "" {
			kn = known(c)
		}
		rep.Mismatch(vh.Mismatch{Case: cs, What: why, Known: kn})
	}
}

func replayOut(rep *vh.Report, worlds []*world, names []string, c *Case, i int) {
	for wi, w := range worlds {
		if wi == 1 && c.Fam != "otyped" && c.Fam != "oobj" {
			// behind an AnyResolver a value that is not a list is measured by the application's Len();
			// only the list shapes that reach AnyResolver.Len/Nth are run in that world
			continue
		}
		o := w.runOut(c)
		rep.Case("out|"+names[wi]+"|"+c.T.String()+"|"+c.Gv.String(), c.Gv.K != "null")
		rep.Class(c.Fam)
		if i%211 == 7 && wi == 0 && c.Gv.K != "null" {
			rep.Sample(map[string]interface{}{"request": o.Request, "declared": c.T.String(), "resolver_returns": describe(buildOut(*c.Gv)),
				"prescribed": c.Exp, "response": o.Text})
		}
		why := agreesOut(c.Exp.Tree, o, true)
		if why == "" {
			continue
		}
		cs := caseJSON(c)
		cs["world"] = names[wi]
		cs["resolver_value"] = describe(buildOut(*c.Gv))
		cs["prescribed"] = c.Exp
		cs["response"] = o.Text
		if o.Text == "" {
			cs["response"] = fmt.Sprintf("%v (%s)", o.Mem, o.JSONErr)
		}
		kn := ""
		if c.ExpK != nil && agreesOut(c.ExpK.Tree, o, false) == "" {
			kn = known(c)
		}
		rep.Mismatch(vh.Mismatch{Case: cs, What: why, Known: kn})
	}
}

// ------------------------------------------------------------- direction B

type gen struct {
	r *rand.Rand
	u *Universe
}

var inBases = []string{"Int", "Float", "Float64", "Int64", "String", "Boolean", "ID", "Time", "Color", "In"}
var outBases = []string{"Int", "Float", "Float64", "Int64", "String", "Boolean", "ID", "Time", "Color"}
var strPool = []string{"abc", "42", "1.5", "RED", "GREEN", "BLUE", "2020-01-02T03:04:05Z", "", "true", "4294967297"}
var kindNames = []string{"int", "int8", "int16", "int32", "int64", "uint", "uint8", "uint16", "uint32", "uint64", "float32", "float64"}

func (g *gen) typeExpr(bases []string, maxWrap int) *TRef {
	t := &TRef{K: "named", N: bases[g.r.Intn(len(bases))]}
	n := g.r.Intn(maxWrap + 1)
	for i := 0; i < n; i++ {
		if t.K != "nonnull" && g.r.Intn(3) == 0 {
			t = &TRef{K: "nonnull", Of: t}
		} else {
			t = &TRef{K: "list", Of: t}
		}
	}
	return t
}

func (g *gen) pick(xs []string) string { return xs[g.r.Intn(len(xs))] }

// num: a number; literal: as a document can write it (int64 / float64 after parsing), else in any
// Go kind that holds the point
func (g *gen) num(literal bool, among []string) Val {
	for {
		p := g.pick(among)
		if literal {
			if p == "nan" || p == "pinf" || p == "ninf" {
				continue
			}
			k := "float64"
			if pt := points[p]; pt.i != nil && holdsExactly("int64", pt) {
				k = "int64"
			}
			return Val{K: "num", P: p, G: k}
		}
		k := g.pick(kindNames)
		if holdsExactly(k, points[p]) {
			return Val{K: "num", P: p, G: k}
		}
	}
}

var smallPoints = []string{"i0", "i1", "im1", "i42", "i2p31m1", "im2p31", "f1p5"}

// junk: any leaf
func (g *gen) junk(literal bool) Val {
	switch g.r.Intn(7) {
	case 0:
		return Val{K: "null"}
	case 1, 2:
		return g.num(literal, pointOrder)
	case 3:
		return Val{K: "str", S: g.pick(strPool)}
	case 4:
		return Val{K: "bool", B: g.r.Intn(2) == 0}
	case 5:
		return Val{K: "sym", S: g.pick([]string{"RED", "GREEN", "BLUE"})}
	}
	return Val{K: "list", Xs: []Val{}}
}

// inValue: a value for an input position of type t; mostly conforming, sometimes not
func (g *gen) inValue(t *TRef, literal bool, depth int) Val {
	if g.r.Intn(8) == 0 {
		return g.junk(literal)
	}
	switch t.K {
	case "nonnull":
		return g.inValue(t.Of, literal, depth)
	case "list":
		if g.r.Intn(10) == 0 {
			return Val{K: "null"}
		}
		n := g.r.Intn(4)
		out := Val{K: "list", Xs: []Val{}}
		for i := 0; i < n; i++ {
			out.Xs = append(out.Xs, g.inValue(t.Of, literal, depth+1))
		}
		return out
	}
	if g.r.Intn(12) == 0 {
		return Val{K: "null"}
	}
	switch t.N {
	case "Int":
		if g.r.Intn(3) == 0 {
			return g.num(literal, pointOrder)
		}
		return g.num(literal, smallPoints)
	case "Float", "Float64", "Int64", "ID":
		if g.r.Intn(4) == 0 && t.N != "Float" {
			return Val{K: "str", S: g.pick(strPool)}
		}
		return g.num(literal, pointOrder)
	case "String":
		return Val{K: "str", S: g.pick(strPool)}
	case "Boolean":
		return Val{K: "bool", B: g.r.Intn(2) == 0}
	case "Time":
		return Val{K: "str", S: g.pick([]string{"2020-01-02T03:04:05Z", "abc"})}
	case "Color":
		if g.r.Intn(5) == 0 {
			return Val{K: "str", S: g.pick([]string{"RED", "BLUE"})}
		}
		return Val{K: "sym", S: g.pick([]string{"RED", "GREEN", "BLUE"})}
	case "In":
		out := Val{K: "obj", F: map[string]Val{}}
		for _, f := range g.u.Inputs["In"] {
			required := f.T.K == "nonnull"
			if f.N == "n" && depth > 2 {
				continue
			}
			if (required && g.r.Intn(8) != 0) || (!required && g.r.Intn(3) == 0) {
				out.F[f.N] = g.inValue(f.T, literal, depth+1)
			}
		}
		if g.r.Intn(10) == 0 {
			out.F["z"] = g.junk(literal)
		}
		return out
	}
	return Val{K: "null"}
}

// asJSON: numbers the way a JSON variables document delivers them (float64 when exact)
func asJSON(v Val) Val {
	switch v.K {
	case "num":
		if holdsExactly("float64", points[v.P]) {
			v.G = "float64"
		}
	case "list":
		xs := make([]Val, len(v.Xs))
		for i := range v.Xs {
			xs[i] = asJSON(v.Xs[i])
		}
		v.Xs = xs
	case "obj":
		f := map[string]Val{}
		for k, x := range v.F {
			f[k] = asJSON(x)
		}
		v.F = f
	}
	return v
}

func (g *gen) inCase(t *TRef) *Case {
	c := &Case{Fam: "random", T: t, Given: ValMap{}, Vds: []VarDef{}}
	c.Rx = t.Base() == "Color" && g.r.Intn(3) == 0
	switch g.r.Intn(6) {
	case 0, 1: // literal
		v := g.inValue(t, true, 0)
		c.Lit = &v
	case 2: // variable, any Go kind
		c.Lit = &Val{K: "var", N: "v"}
		c.Vds = []VarDef{{N: "v", T: t, Def: Val{K: "null"}}}
		c.Given["v"] = g.inValue(t, false, 0)
	case 3: // variable from a JSON document
		c.Lit = &Val{K: "var", N: "v"}
		c.Vds = []VarDef{{N: "v", T: t, Def: Val{K: "null"}}}
		c.Given["v"] = asJSON(g.inValue(t, true, 0))
	case 4: // default, sometimes overridden
		c.Lit = &Val{K: "var", N: "v"}
		c.Vds = []VarDef{{N: "v", T: t, HasDef: true, Def: g.inValue(t, true, 0)}}
		if g.r.Intn(2) == 0 {
			c.Given["v"] = asJSON(g.inValue(t, true, 0))
		}
	default: // variable nested in a literal list
		lt := t
		for lt.K == "nonnull" {
			lt = lt.Of
		}
		if lt.K != "list" {
			v := g.inValue(t, true, 0)
			c.Lit = &v
			break
		}
		good := g.inValue(lt.Of, true, 1)
		c.Lit = &Val{K: "list", Xs: []Val{good, {K: "var", N: "v"}}}
		c.Vds = []VarDef{{N: "v", T: lt.Of, Def: Val{K: "null"}}}
		c.Given["v"] = asJSON(g.inValue(lt.Of, true, 1))
	}
	if c.Lit.K == "null" && g.r.Intn(2) == 0 {
		c.Omit = true
	}
	return c
}

func (g *gen) outLeaf(base string) Val {
	if g.r.Intn(5) == 0 {
		switch g.r.Intn(6) {
		case 0:
			return Val{K: "null"}
		case 1:
			return Val{K: "nilptr"}
		case 2:
			return Val{K: "other", S: g.pick([]string{"map", "struct", "chan"})}
		case 3:
			return Val{K: "bool", B: true}
		case 4:
			return Val{K: "str", S: g.pick(strPool)}
		}
		return g.num(false, pointOrder)
	}
	switch base {
	case "Int":
		if g.r.Intn(2) == 0 {
			return g.num(false, smallPoints)
		}
		return g.num(false, pointOrder)
	case "Float", "Float64", "Int64":
		if g.r.Intn(6) == 0 {
			return Val{K: "str", S: g.pick(strPool)}
		}
		return g.num(false, pointOrder)
	case "String", "ID":
		if g.r.Intn(3) == 0 {
			return g.num(false, pointOrder)
		}
		return Val{K: "str", S: g.pick(strPool)}
	case "Boolean":
		if g.r.Intn(3) == 0 {
			return Val{K: "str", S: g.pick(strPool)}
		}
		return Val{K: "bool", B: g.r.Intn(2) == 0}
	case "Time":
		switch g.r.Intn(3) {
		case 0:
			return Val{K: "time", S: "2020-01-02T03:04:05Z"}
		case 1:
			return Val{K: "str", S: g.pick([]string{"2020-01-02T03:04:05Z", "abc"})}
		}
		return g.num(false, smallPoints)
	case "Color":
		if g.r.Intn(2) == 0 {
			return Val{K: "sym", S: g.pick([]string{"RED", "GREEN", "BLUE"})}
		}
		return Val{K: "str", S: g.pick([]string{"RED", "GREEN", "BLUE"})}
	}
	return Val{K: "null"}
}

var typedKinds = []string{"string", "int", "int64", "bool", "float32", "float64", "time"}
var reflKinds = []string{"int8", "int16", "int32", "uint", "uint8", "uint16", "uint32", "uint64", "sym"}

func (g *gen) homElem(et string) Val {
	switch et {
	case "string":
		return Val{K: "str", S: g.pick(strPool)}
	case "bool":
		return Val{K: "bool", B: g.r.Intn(2) == 0}
	case "time":
		return Val{K: "time", S: "2020-01-02T03:04:05Z"}
	case "sym":
		return Val{K: "sym", S: g.pick([]string{"RED", "GREEN", "BLUE"})}
	}
	for {
		p := g.pick(pointOrder)
		if holdsExactly(et, points[p]) {
			return Val{K: "num", P: p, G: et}
		}
	}
}

func (g *gen) outValue(t *TRef) Val {
	switch t.K {
	case "nonnull":
		return g.outValue(t.Of)
	case "list":
		switch g.r.Intn(12) {
		case 0:
			return Val{K: "null"}
		case 1:
			return g.outLeaf(t.Base()) // not a list
		}
		n := g.r.Intn(4)
		elemIsLeaf := t.Of.K == "named" || (t.Of.K == "nonnull" && t.Of.Of.K == "named")
		if elemIsLeaf && g.r.Intn(3) == 0 {
			lk, et := "typed", g.pick(typedKinds)
			switch g.r.Intn(4) {
			case 0:
				lk, et = "refl", g.pick(reflKinds)
			case 1:
				lk, et = "array", g.pick(append(append([]string{}, typedKinds[:6]...), reflKinds...))
			}
			out := Val{K: "list", Lk: lk, Et: et, Xs: []Val{}}
			for i := 0; i < n; i++ {
				out.Xs = append(out.Xs, g.homElem(et))
			}
			return out
		}
		out := Val{K: "list", Lk: g.pick([]string{"iface", "lres"}), Xs: []Val{}}
		for i := 0; i < n; i++ {
			out.Xs = append(out.Xs, g.outValue(t.Of))
		}
		return out
	}
	return g.outLeaf(t.N)
}

func hasLk(v Val, lks ...string) bool {
	if v.K == "list" {
		for _, lk := range lks {
			if v.Lk == lk {
				return true
			}
		}
		for _, x := range v.Xs {
			if hasLk(x, lks...) {
				return true
			}
		}
	}
	return false
}

func cmdRecord(args []string) {
	fs := flag.NewFlagSet("record", flag.ExitOnError)
	up := fs.String("universe", "", "universe json")
	prop := fs.String("prop", "C04", "C04 or C05")
	n := fs.Int("n", 500, "number of cases")
	outp := fs.String("out", "", "ndjson output")
	corrupt := fs.Int("corrupt", 0, "negative control: falsify the observation of every k-th record")
	_ = fs.Parse(args)
	u := loadUniverse(*up)
	rng := rand.New(rand.NewSource(vh.Seed()*7919 + int64(len(*prop))*104729 + int64((*prop)[2])))
	g := &gen{r: rng, u: u}
	rep := vh.NewReport("coerce", "record")
	out, err := os.Create(*outp)
	if err != nil {
		vh.Die("%s", err)
	}
	defer out.Close()
	enc := json.NewEncoder(out)
	// random type expressions, deeper than the enumerated ones
	var inT, outT []*TRef
	seen := map[string]bool{}
	for len(inT) < 60 {
		t := g.typeExpr(inBases, 4)
		if !seen["a"+t.Enc()] {
			seen["a"+t.Enc()] = true
			inT = append(inT, t)
		}
	}
	for len(outT) < 60 {
		t := g.typeExpr(outBases, 4)
		if !seen["o"+t.Enc()] {
			seen["o"+t.Enc()] = true
			outT = append(outT, t)
		}
	}
	worlds := []*world{newWorld(u, false, inT, outT), newWorld(u, true, inT, outT)}
	for i := 0; i < *n; i++ {
		falsify := *corrupt > 0 && i%*corrupt == 0
		if *prop == "C04" {
			c := g.inCase(inT[rng.Intn(len(inT))])
			w := worlds[rng.Intn(2)]
			o := w.runIn(c, rng.Intn(2) == 0)
			act := map[string]interface{}{"out": o.Out}
			if o.Out == "call" {
				act["val"] = absGo(o.Got)
			}
			if falsify { // negative control: claim the resolver was handed something it was not
				act["out"] = "call"
				act["val"] = Val{K: "str", S: "falsified"}
			}
			lit := *c.Lit
			_ = enc.Encode(map[string]interface{}{"r": "in", "t": c.T, "lit": lit, "vds": c.Vds, "given": c.Given, "rx": c.Rx, "omit": c.Omit,
				"act": act, "text": o.Request})
			rep.Case("in|"+o.Request+"|"+vh.JS(c.Given)+fmt.Sprint(c.Rx), lit.K != "null" || c.Omit)
			rep.Class("observed:" + o.Out)
			if i%97 == 0 {
				rep.Sample(map[string]interface{}{"request": o.Request, "variables": c.Given, "observed": o.Out, "resolver_received": describe(o.Got)})
			}
			continue
		}
		t := outT[rng.Intn(len(outT))]
		gv := g.outValue(t)
		c := &Case{Fam: "random", T: t, Gv: &gv}
		w := worlds[0]
		if top := gv; top.K == "list" && (top.Lk == "refl" || top.Lk == "array") && rng.Intn(2) == 0 {
			w = worlds[1] // AnyResolver.Len / Nth
		}
		o := w.runOut(c)
		paths := [][]string{}
		for p := range o.Errs {
			if p == "" {
				paths = append(paths, []string{})
			} else {
				paths = append(paths, strings.Split(p, "/"))
			}
		}
		act := absOutRaw(o.Mem)
		if falsify { // negative control: no expectation is met by this
			act = Val{K: "unk", S: "falsified"}
		}
		if o.BadErr != "" {
			act = Val{K: "unk", S: o.BadErr}
		}
		_ = enc.Encode(map[string]interface{}{"r": "out", "t": t, "gv": gv, "act": act, "errs": paths, "text": o.Text})
		rep.Case("out|"+t.String()+"|"+gv.String(), gv.K != "null")
		rep.Class("top:" + gv.K)
		if i%97 == 0 {
			rep.Sample(map[string]interface{}{"declared": t.String(), "resolver_returns": describe(buildOut(gv)), "response": o.Text})
		}
	}
	rep.Emit()
}

func main() {
	if len(os.Args) < 2 {
		vh.Die("usage: coerce replay|record ...")
	}
	defer func() {
		if r := recover(); r != nil {
			fmt.Fprintln(os.Stderr, "harness failure:", r)
			os.Exit(3)
		}
	}()
	switch os.Args[1] {
	case "replay":
		cmdReplay(os.Args[2:])
	case "record":
		cmdRecord(os.Args[2:])
	case "canon": // print the rounding collisions of the points (documentation of Coerce!CanonF32/CanonF64)
		var u Universe
		vh.ReadJSON(os.Args[2], &u)
		u.CanonF32, u.CanonF64 = nil, nil
		_ = loadPoints(&u)
		for _, g := range []string{"float32", "float64"} {
			for _, name := range pointOrder {
				if c := canonPoint(goVal(name, g), g); c != name {
					fmt.Printf("%s %s -> %s\n", g, name, c)
				}
			}
		}
	default:
		vh.Die("unknown mode %s", os.Args[1])
	}
}
