package main

// The universe U-coerce on a real ggql root: one field per input type
// expression with a capturing resolver (C04) and one field per declared result
// type whose resolver returns the Go value chosen by the case (C05).

import (
	"bytes"
	"encoding/json"
	"fmt"
	"math/big"
	"reflect"
	"regexp"
	"sort"
	"strings"
	"time"
	"verifharness/vh"

	"github.com/uhn/ggql/pkg/ggql"
)

type world struct {
	pets   []interface{}
	outs   map[string]bool // names of the output fields of the schema
	nOut   int
	root   *ggql.Root
	any    bool
	calls  int
	gotHas bool
	got    interface{}
	ret    interface{}
}

// the query object of the "iface" world
type queryRes struct{ w *world }

func (q *queryRes) Resolve(field *ggql.Field, args map[string]interface{}) (interface{}, error) {
	return q.w.serve(field, args)
}

type schemaRes struct{ q interface{} }

func (s *schemaRes) Resolve(field *ggql.Field, args map[string]interface{}) (interface{}, error) {
	return s.q, nil
}

// plain objects of the "any" world
type anySchema struct{ q *anyQuery }
type anyQuery struct{ w *world }

type anyRes struct{ w *world }

func (r *anyRes) Resolve(obj interface{}, field *ggql.Field, args map[string]interface{}) (interface{}, error) {
	switch o := obj.(type) {
	case *anySchema:
		return o.q, nil
	case *anyQuery:
		return r.w.serve(field, args)
	}
	return nil, fmt.Errorf("AnyResolver asked for %s on a %T", field.Name, obj)
}

func (r *anyRes) Len(list interface{}) int {
	rv := reflect.ValueOf(list)
	switch rv.Kind() {
	case reflect.Slice, reflect.Array:
		return rv.Len()
	}
	return 0
}

func (r *anyRes) Nth(list interface{}, i int) (interface{}, error) {
	return reflect.ValueOf(list).Index(i).Interface(), nil
}

// named Go types with the underlying kinds the scalars know (one of them with a String method, as generated enumerations have)
type nInt8 int8
type nInt16 int16
type nInt32 int32
type nInt64 int64
type nInt int
type nUint8 uint8
type nFloat64 float64
type nFloat32 float32
type nString string
type nBool bool

func (n nInt16) String() string { return "HIGH" }

// thing is an object value (type Thing)
type thing struct{}

func (t *thing) Resolve(field *ggql.Field, args map[string]interface{}) (interface{}, error) {
	return "thing", nil
}

// lres is a ggql.ListResolver
type lres struct{ xs []interface{} }

func (l *lres) Len() int              { return len(l.xs) }
func (l *lres) Nth(i int) interface{} { return l.xs[i] }

// PetCat and PetDog implement the interface Pet; each declares the argument x of say with another type (Int / ID).
// Their Go names are the GraphQL names, so that they are bound by name (iface world).
type PetCat struct {
	calls int
	got   interface{}
	has   bool
}
type PetDog struct{ PetCat }

func (p *PetCat) Resolve(field *ggql.Field, args map[string]interface{}) (interface{}, error) {
	p.calls++
	p.got, p.has = args["x"]
	return "ok", nil
}

// MemA and MemB are the members of the union Mem (bound by name); every field of theirs is answered with the value
// under test.
type MemA struct{ w *world }
type MemB struct{ MemA }

func (m *MemA) Resolve(field *ggql.Field, args map[string]interface{}) (interface{}, error) {
	return m.w.ret, nil
}

func (w *world) serve(field *ggql.Field, args map[string]interface{}) (interface{}, error) {
	if field.Name == "pets" {
		return w.pets, nil
	}
	if field.Name == "mem" {
		return []interface{}{&MemA{w: w}, &MemB{MemA{w: w}}, &MemA{w: w}}, nil
	}
	if field.Name == "two" {
		w.calls++
		w.got = []interface{}{args["p"], args["q"]}
		return "ok", nil
	}
	w.calls++
	if strings.HasPrefix(field.Name, "a") {
		w.got, w.gotHas = args["x"]
		return "ok", nil
	}
	return w.ret, nil
}

func sdlOf(u *Universe, inTypes, outTypes []*TRef) string {
	var b strings.Builder
	for n, vs := range u.Enums {
		b.WriteString("enum " + n + " { " + strings.Join(vs, " ") + " }\n")
	}
	for n, fs := range u.Inputs {
		b.WriteString("input " + n + " {\n")
		for _, f := range fs {
			b.WriteString("  " + f.N + ": " + f.T.String())
			if f.HasDef {
				b.WriteString(" = " + litText(f.Def))
			}
			b.WriteString("\n")
		}
		b.WriteString("}\n")
	}
	for _, o := range u.Objects {
		b.WriteString("type " + o + " { id: String }\n")
	}
	b.WriteString("interface Pet { say: String }\ntype PetCat implements Pet { say(x: Int): String }\ntype PetDog implements Pet { say(x: ID): String }\n")
	// the members of a union list declare one field name with different types (the type under test / its companion)
	for _, mt := range []string{"MemA", "MemB"} {
		b.WriteString("type " + mt + " {\n  id: String\n")
		seenM := map[string]bool{}
		for _, t := range outTypes {
			n := "o" + t.Enc()
			if seenM[n] {
				continue
			}
			seenM[n] = true
			ft := t
			if comp := companion(t); comp != nil && mt == "MemB" {
				ft = comp
			}
			b.WriteString("  " + n + ": " + ft.String() + "\n")
		}
		b.WriteString("}\n")
	}
	b.WriteString("union Mem = MemA | MemB\n")
	b.WriteString("type Query {\n  pets: [Pet]\n  mem: [Mem]\n  two(p: Int!, q: Int!): String\n")
	seen := map[string]bool{}
	for _, t := range inTypes {
		if n := "a" + t.Enc(); !seen[n] {
			seen[n] = true
			b.WriteString("  " + n + "(x: " + t.String() + "): String\n")
		}
	}
	for _, t := range outTypes {
		if n := "o" + t.Enc(); !seen[n] {
			seen[n] = true
			b.WriteString("  " + n + ": " + t.String() + "\n")
		}
	}
	b.WriteString("}\n")
	return b.String()
}

func newWorld(u *Universe, any bool, inTypes, outTypes []*TRef) *world {
	w := &world{any: any}
	if any {
		w.root = ggql.NewRoot(&anySchema{q: &anyQuery{w: w}})
		w.root.AnyResolver = &anyRes{w: w}
	} else {
		w.root = ggql.NewRoot(&schemaRes{q: &queryRes{w: w}})
	}
	w.outs = map[string]bool{}
	for _, t := range outTypes {
		w.outs["o"+t.Enc()] = true
	}
	sdl := sdlOf(u, inTypes, outTypes)
	if err := w.root.ParseString(sdl); err != nil {
		die("the universe's schema is rejected: %s\n%s", err, sdl)
	}
	if any == (vh.Seed()%2 == 0) {
		// One of the two roots has a past: documents that extend every input type and enum (twice) and were then
		// refused by validation, by an unknown extension, by a duplicate. A refused load leaves nothing behind, so
		// the expectations are the same.
		var ext strings.Builder
		for round := 0; round < 2; round++ {
			for n := range u.Inputs {
				fmt.Fprintf(&ext, "extend input %s { zz%d: Int = %d }\n", n, round, round)
			}
			for n := range u.Enums {
				fmt.Fprintf(&ext, "extend enum %s { ZZ%d }\n", n, round)
			}
		}
		for _, tail := range []string{"type Bad9 { __x: Int }", "extend type Nope9 { x: Int }", "type Query { x: Int }", "type Bad9 { x: Nope9 }"} {
			if err := w.root.ParseString(ext.String() + tail); err == nil {
				die("a document that must be refused was accepted: ... %s", tail)
			}
		}
	}
	return w
}

var rfc3339 = regexp.MustCompile(`^\d{4}-\d{2}-\d{2}T\d{2}:\d{2}:\d{2}(\.\d+)?(Z|[+-]\d{2}:\d{2})$`)

// companion returns the type with the same wrappers and another leaf type (nil for composite bases).
func companion(t *TRef) *TRef {
	swap := map[string]string{"Int": "ID", "ID": "Int", "String": "Int", "Float": "String", "Float64": "String", "Int64": "ID",
		"Boolean": "String", "Time": "String", "Color": "String"}
	switch t.K {
	case "list", "nonnull":
		of := companion(t.Of)
		if of == nil {
			return nil
		}
		return &TRef{K: t.K, Of: of}
	}
	if n, ok := swap[t.N]; ok {
		return &TRef{K: t.K, N: n}
	}
	return nil
}

// ---------------------------------------------------------------- C04

// runPets: the case's literal / variable as the argument x of the field say selected on a list of the interface Pet whose
// members alternate between a type that declares x as ID and one that declares it as Int.  The members whose
// declaration is the case's type must see exactly what the specification prescribes for that type, whatever the
// other members' declaration made of the same text.  (iface world, cases of type Int and ID.)
func (w *world) runPets(c *Case) (obs []inObs, ok bool) {
	if w.any || c.T.K != "named" || (c.T.N != "Int" && c.T.N != "ID") || c.Rx {
		return nil, false
	}
	req := strings.Replace(requestIn(c), "a"+c.T.Enc()+"(", "pets { say(", 1)
	if !strings.Contains(req, "pets { say(") {
		return nil, false // (the argument is left out: nothing to coerce)
	}
	req = strings.TrimSuffix(strings.TrimSpace(req), "}") + "} }"
	var vars map[string]interface{}
	if len(c.Given) > 0 {
		vars = map[string]interface{}{}
		for k, v := range c.Given {
			vars[k] = buildIn(v)
		}
	}
	pets := []interface{}{&PetDog{}, &PetCat{}, &PetDog{}, &PetCat{}}
	w.pets = pets
	resp := w.root.ResolveString(req, "", vars)
	errs, _ := resp["errors"].([]interface{})
	data, hasData := resp["data"].(map[string]interface{})
	for i, p := range pets {
		var pc *PetCat
		isCat := false
		switch tp := p.(type) {
		case *PetCat:
			pc, isCat = tp, true
		case *PetDog:
			pc = &tp.PetCat
		}
		if isCat != (c.T.N == "Int") {
			continue
		}
		o := inObs{Calls: pc.calls, Got: pc.got, Request: req + fmt.Sprintf(" [member %d, a %T]", i, p), Errs: errs, Data: resp["data"]}
		fieldErr := false
		for _, e := range errs {
			if em, ok := e.(map[string]interface{}); ok {
				if pp, ok := em["path"].([]interface{}); ok && len(pp) >= 3 && pp[0] == "pets" && pp[1] == i && pp[2] == "say" {
					fieldErr = true
				}
			}
		}
		switch {
		case pc.calls == 1 && !fieldErr && hasData:
			o.Out = "call"
		case pc.calls == 0 && fieldErr && hasData:
			o.Out = "fielderr"
		case pc.calls == 0 && !hasData && len(errs) > 0:
			o.Out = "varerr"
		default:
			o.Out = "other"
			o.Why = fmt.Sprintf("calls=%d errors=%v data=%v", pc.calls, errs, data)
		}
		obs = append(obs, o)
	}
	return obs, true
}

// runReq2: the field two(p: Int!, q: Int!) with each argument given as the case says.
func (w *world) runReq2(c *Case) inObs {
	var parts []string
	for _, n := range []string{"p", "q"} {
		switch c.St[n] {
		case "lit":
			parts = append(parts, n+": 1")
		case "null":
			parts = append(parts, n+": null")
		case "unset":
			parts = append(parts, n+": $u"+n)
		}
	}
	req := "query($up: Int, $uq: Int) { two"
	if len(parts) > 0 {
		req += "(" + strings.Join(parts, ", ") + ")"
	}
	req += " }"
	w.calls, w.got = 0, nil
	resp := w.root.ResolveString(req, "", nil)
	o := inObs{Calls: w.calls, Got: w.got, Request: req, Data: resp["data"]}
	o.Errs, _ = resp["errors"].([]interface{})
	data, hasData := resp["data"].(map[string]interface{})
	switch {
	case w.calls == 1 && len(o.Errs) == 0 && hasData && data["two"] == "ok":
		o.Out = "call"
	case w.calls == 0 && len(o.Errs) > 0:
		o.Out = "reject"
	default:
		o.Out = "other"
		o.Why = fmt.Sprintf("calls=%d errors=%d data=%v", w.calls, len(o.Errs), resp["data"])
	}
	return o
}

type inObs struct {
	Out     string // call | fielderr | varerr | other
	Calls   int
	Got     interface{} // the value received for x
	Errs    []interface{}
	Data    interface{}
	Request string
	Why     string
}

func requestIn(c *Case) string {
	var b strings.Builder
	if len(c.Vds) > 0 {
		b.WriteString("query(")
		for i, vd := range c.Vds {
			if i > 0 {
				b.WriteString(", ")
			}
			b.WriteString("$" + vd.N + ": " + vd.T.String())
			if vd.HasDef {
				b.WriteString(" = " + litText(vd.Def))
			}
		}
		b.WriteString(") ")
	}
	b.WriteString("{ a" + c.T.Enc())
	if !c.Omit {
		b.WriteString("(x: " + litText(*c.Lit) + ")")
	}
	b.WriteString(" }")
	return b.String()
}

func (w *world) runIn(c *Case, viaExecutable bool) inObs {
	req := requestIn(c)
	var vars map[string]interface{}
	if len(c.Given) > 0 {
		vars = map[string]interface{}{}
		for k, v := range c.Given {
			vars[k] = buildIn(v) // fresh containers: ggql coerces lists and maps in place
		}
	}
	w.calls, w.got, w.gotHas = 0, nil, false
	ggql.Relaxed = c.Rx
	defer func() { ggql.Relaxed = false }()
	var resp map[string]interface{}
	if viaExecutable {
		exe, err := w.root.ParseExecutableString(req)
		if err != nil {
			resp = map[string]interface{}{"errors": ggql.FormErrorsResult(err)}
		} else {
			// what the client wrote is what THIS call coerces: the same parsed executable is first resolved with
			// no variables and with the same variables (nothing of those calls may stay behind in the literals)
			_, _ = w.root.ResolveExecutable(exe, "", nil)
			if len(c.Given) > 0 {
				warm := map[string]interface{}{}
				for k, v := range c.Given {
					warm[k] = buildIn(v)
				}
				_, _ = w.root.ResolveExecutable(exe, "", warm)
			}
			w.calls, w.got, w.gotHas = 0, nil, false
			var res map[string]interface{}
			res, err = w.root.ResolveExecutable(exe, "", vars)
			if res == nil {
				res = map[string]interface{}{"data": nil}
			}
			if err != nil {
				res["errors"] = ggql.FormErrorsResult(err)
			}
			resp = res
		}
	} else {
		resp = w.root.ResolveString(req, "", vars)
	}
	o := inObs{Calls: w.calls, Got: w.got, Request: req, Data: resp["data"]}
	o.Errs, _ = resp["errors"].([]interface{})
	key := "a" + c.T.Enc()
	data, hasData := resp["data"].(map[string]interface{})
	fieldErr := false
	for _, e := range o.Errs {
		if em, ok := e.(map[string]interface{}); ok {
			if p, ok := em["path"].([]interface{}); ok && len(p) > 0 && p[0] == key {
				fieldErr = true
			}
		}
	}
	switch {
	case w.calls == 1 && len(o.Errs) == 0 && hasData && data[key] == "ok":
		o.Out = "call"
	case w.calls == 0 && hasData && data[key] == nil && fieldErr:
		o.Out = "fielderr"
	case w.calls == 0 && !hasData && len(o.Errs) > 0:
		o.Out = "varerr"
	default:
		o.Out = "other"
		o.Why = fmt.Sprintf("calls=%d errors=%d data=%v", w.calls, len(o.Errs), resp["data"])
	}
	return o
}

// agreesIn: the observation is an outcome the expectation allows ("" = yes, else why not).
func agreesIn(e *Exp, o inObs) string {
	val := func() string {
		if !matchIn(*e.Val, o.Got) {
			return fmt.Sprintf("the resolver received %s, prescribed is %s", describe(o.Got), e.Val)
		}
		return ""
	}
	switch e.Out {
	case "call":
		if o.Out != "call" {
			return "the resolver must be invoked with " + e.Val.String() + "; observed " + o.Out + " " + o.Why + errText(o.Errs)
		}
		return val()
	case "reject":
		if o.Out != "fielderr" && o.Out != "varerr" {
			if o.Out == "call" {
				return "the request must be rejected; the resolver was invoked with " + describe(o.Got)
			}
			return "the request must be rejected with an error for the field or the variable; observed " + o.Out + " " + o.Why
		}
	case "may":
		if o.Out == "call" {
			return val()
		}
		if o.Out != "fielderr" && o.Out != "varerr" {
			return "observed " + o.Out + " " + o.Why
		}
	case "fielderr", "varerr":
		if o.Out != e.Out {
			return "observed " + o.Out
		}
	default:
		return "unknown expectation " + e.Out
	}
	return ""
}

func errText(errs []interface{}) string {
	if len(errs) == 0 {
		return ""
	}
	b, _ := json.Marshal(errs)
	return " errors=" + string(b)
}

func describe(x interface{}) string {
	return fmt.Sprintf("%T(%v) = %s", x, x, absGo(x))
}

// ---------------------------------------------------------------- C05

var typedElem = map[string]reflect.Type{
	"string": reflect.TypeOf(""), "int": reflect.TypeOf(int(0)), "int64": reflect.TypeOf(int64(0)), "bool": reflect.TypeOf(false),
	"float32": reflect.TypeOf(float32(0)), "float64": reflect.TypeOf(float64(0)), "time": reflect.TypeOf(time.Time{}),
	"int8": reflect.TypeOf(int8(0)), "int32": reflect.TypeOf(int32(0)), "uint64": reflect.TypeOf(uint64(0)), "sym": reflect.TypeOf(ggql.Symbol("")),
	"uint8": reflect.TypeOf(uint8(0)), "int16": reflect.TypeOf(int16(0)), "uint": reflect.TypeOf(uint(0)), "uint16": reflect.TypeOf(uint16(0)),
	"uint32": reflect.TypeOf(uint32(0)),
}

// buildOut makes the Go value a resolver returns for an abstract Go value.
func buildOut(v Val) interface{} {
	switch v.K {
	case "null":
		return nil
	case "nilptr":
		return (*int)(nil)
	case "num":
		return goVal(v.P, v.G)
	case "str":
		return v.S
	case "bool":
		return v.B
	case "sym":
		return ggql.Symbol(v.S)
	case "time":
		return mustTime(v.S)
	case "node":
		return &thing{}
	case "named": // a value of a named Go type with that underlying basic type
		switch u := buildOut(*v.U).(type) {
		case int8:
			return nInt8(u)
		case int16:
			return nInt16(u)
		case int32:
			return nInt32(u)
		case int64:
			return nInt64(u)
		case int:
			return nInt(u)
		case uint8:
			return nUint8(u)
		case float64:
			return nFloat64(u)
		case float32:
			return nFloat32(u)
		case string:
			return nString(u)
		case bool:
			return nBool(u)
		}
		die("no named Go type for %v", *v.U)
		return nil
	case "other":
		switch v.S {
		case "map":
			return map[string]int{"a": 1}
		case "struct":
			return struct{ A int }{1}
		default:
			return make(chan int)
		}
	case "list":
		switch v.Lk {
		case "iface", "lres":
			xs := make([]interface{}, 0, len(v.Xs))
			for _, x := range v.Xs {
				xs = append(xs, buildOut(x))
			}
			if v.Lk == "lres" {
				return &lres{xs: xs}
			}
			return xs
		case "typed", "refl", "array":
			et := typedElem[v.Et]
			if et == nil {
				die("unknown element type %q", v.Et)
			}
			var rv reflect.Value
			if v.Lk == "array" {
				rv = reflect.New(reflect.ArrayOf(len(v.Xs), et)).Elem()
			} else {
				rv = reflect.MakeSlice(reflect.SliceOf(et), len(v.Xs), len(v.Xs))
			}
			for i, x := range v.Xs {
				rv.Index(i).Set(reflect.ValueOf(buildOut(x)).Convert(et))
			}
			return rv.Interface()
		}
	}
	die("cannot build a resolver value from %s", v)
	return nil
}

type outObs struct {
	Mem     interface{} // data[field] as returned
	JSON    interface{} // data[field] after WriteJSONValue + encoding/json (json.Number), jsonErr if that failed
	JSONErr string
	Text    string
	Errs    map[string]bool // error paths below the field ("" = the field itself), segments joined by "/"
	BadErr  string
	Request string
	Calls   int
}

func (w *world) runOut(c *Case) outObs {
	key := "o" + c.T.Enc()
	req := "{ " + key + " }"
	if c.T.Base() == "Thing" {
		req = "{ " + key + " { id } }"
	} else if comp := companion(c.T); comp != nil && w.outs["o"+comp.Enc()] && c.Gv.K == "list" {
		// the resolver's value is the application's: the SAME Go value also answers a field of another leaf type in this
		// request (before or after the field under test); what is placed at one position must not change with the other
		w.nOut++
		if w.nOut%2 == 0 {
			req = "{ " + key + " zz: o" + comp.Enc() + " }"
		} else {
			req = "{ zz: o" + comp.Enc() + " " + key + " }"
		}
	}
	w.calls = 0
	w.ret = buildOut(*c.Gv)
	resp := w.root.ResolveString(req, "", nil)
	o := outObs{Request: req, Errs: map[string]bool{}, Calls: w.calls}
	data, _ := resp["data"].(map[string]interface{})
	if data == nil {
		o.BadErr = fmt.Sprintf("no data object in the response: %v", resp)
		return o
	}
	o.Mem = data[key]
	if errs, ok := resp["errors"].([]interface{}); ok {
		for _, e := range errs {
			em, _ := e.(map[string]interface{})
			p, _ := em["path"].([]interface{})
			if len(p) > 0 && p[0] == "zz" {
				continue // the companion field's own failures
			}
			if len(p) == 0 || p[0] != key {
				o.BadErr = fmt.Sprintf("an error does not address the field: %v", em)
				continue
			}
			segs := []string{}
			for _, s := range p[1:] {
				switch ts := s.(type) {
				case int:
					segs = append(segs, fmt.Sprintf("i:%d", ts))
				case string:
					segs = append(segs, "k:"+ts)
				default:
					segs = append(segs, fmt.Sprintf("?:%v", s))
				}
			}
			o.Errs[strings.Join(segs, "/")] = true
		}
	}
	var buf bytes.Buffer
	if err := ggql.WriteJSONValue(&buf, resp, -1); err != nil {
		o.JSONErr = "WriteJSONValue: " + err.Error()
		return o
	}
	o.Text = buf.String()
	dec := json.NewDecoder(bytes.NewReader(buf.Bytes()))
	dec.UseNumber()
	var parsed map[string]interface{}
	if err := dec.Decode(&parsed); err != nil {
		o.JSONErr = "the response is not JSON: " + err.Error() + ": " + o.Text
		return o
	}
	if d, ok := parsed["data"].(map[string]interface{}); ok {
		o.JSON = d[key]
	} else {
		o.JSONErr = "no data object after decoding"
	}
	if !w.any && c.T.Base() != "Thing" && o.BadErr == "" {
		// the same value behind the same field name on the members of a union list, where the other member declares
		// the field with another type: what a MemA holds is what the field held above, before and after a MemB
		w.ret = buildOut(*c.Gv)
		r2 := w.root.ResolveString("{ mem { __typename "+key+" } }", "", nil)
		d2, _ := r2["data"].(map[string]interface{})
		l2, _ := d2["mem"].([]interface{})
		if len(l2) != 3 {
			o.BadErr = fmt.Sprintf("the members of the union list were not resolved: %v", r2)
			return o
		}
		for _, i := range []int{0, 2} {
			m, _ := l2[i].(map[string]interface{})
			if m == nil || m["__typename"] != "MemA" || !reflect.DeepEqual(m[key], o.Mem) {
				o.BadErr = fmt.Sprintf("member %d of the union list [MemA, MemB, MemA] holds %s for %s, the field on Query holds %s",
					i, describe(m[key]), key, describe(o.Mem))
				break
			}
		}
	}
	return o
}

// walkOut checks the in-memory result (and, when js is set, the decoded JSON) against the expected
// tree; need collects the positions that must carry an error.
type walker struct {
	need   map[string]bool
	errs   map[string]bool
	why    []string
	strict bool // also judge the decoded JSON
}

func pathStr(p []string) string { return strings.Join(p, "/") }

func (k *walker) fail(p []string, format string, args ...interface{}) bool {
	if len(k.why) < 4 {
		k.why = append(k.why, "at /"+pathStr(p)+": "+fmt.Sprintf(format, args...))
	}
	return false
}

func (k *walker) walk(e Val, mem interface{}, js interface{}, hasJS bool, p []string) bool {
	here := pathStr(p)
	switch e.K {
	case "errnull":
		k.need[here] = true
		if mem != nil {
			return k.fail(p, "must be null with an error, is %s", describe(mem))
		}
		if !k.errs[here] {
			return k.fail(p, "null without an error for this position")
		}
		return true
	case "may":
		if mem == nil && k.errs[here] {
			k.need[here] = true
			return true
		}
		return k.walk(*e.V, mem, js, hasJS, p)
	case "leak":
		k.need[here] = true
		if !k.errs[here] {
			return k.fail(p, "expected an error here")
		}
		return k.raw(*e.Gv, mem, p)
	case "raw":
		return k.raw(*e.Gv, mem, p)
	}
	if k.errs[here] {
		return k.fail(p, "an error is reported for a position that holds %s", describe(mem))
	}
	switch e.K {
	case "null":
		if mem != nil {
			return k.fail(p, "must be null, is %s", describe(mem))
		}
		if hasJS && js != nil {
			return k.fail(p, "JSON must be null, is %v", js)
		}
	case "num":
		want := goVal(e.P, e.G)
		if !isNumber(mem) || !sameNumber(mem, want) {
			return k.fail(p, "must be the number %v (%s as %s), is %s", want, e.P, e.G, describe(mem))
		}
		if hasJS {
			n, ok := js.(json.Number)
			if !ok {
				return k.fail(p, "JSON must be a number, is %T %v", js, js)
			}
			if !jsonNumberIs(n, e) {
				return k.fail(p, "JSON number %s is not %v (%s as %s)", n, want, e.P, e.G)
			}
		}
	case "wild":
		if !isNumber(mem) || reflect.ValueOf(mem).Kind().String() != e.G {
			return k.fail(p, "must be some %s, is %s", e.G, describe(mem))
		}
	case "str", "anystr", "anytime":
		s, ok := mem.(string)
		if !ok {
			return k.fail(p, "must be a string, is %s", describe(mem))
		}
		if e.K == "str" && s != e.S {
			return k.fail(p, "must be %q, is %q", e.S, s)
		}
		if e.K == "anytime" {
			if _, err := time.Parse(time.RFC3339Nano, s); err != nil || !rfc3339.MatchString(s) {
				return k.fail(p, "must be an RFC 3339 string, is %q", s)
			}
		}
		if hasJS {
			if j, ok := js.(string); !ok || j != s {
				return k.fail(p, "JSON must be the string %q, is %T %v", s, js, js)
			}
		}
	case "bool":
		b, ok := mem.(bool)
		if !ok || b != e.B {
			return k.fail(p, "must be %v, is %s", e.B, describe(mem))
		}
		if hasJS {
			if j, ok := js.(bool); !ok || j != b {
				return k.fail(p, "JSON must be %v, is %T %v", b, js, js)
			}
		}
	case "object":
		if _, ok := mem.(map[string]interface{}); !ok {
			return k.fail(p, "must be an object, is %s", describe(mem))
		}
		if hasJS {
			if _, ok := js.(map[string]interface{}); !ok {
				return k.fail(p, "JSON must be an object, is %T", js)
			}
		}
	case "list":
		l, ok := mem.([]interface{})
		if !ok {
			return k.fail(p, "must be a list, is %s", describe(mem))
		}
		if len(l) != len(e.Xs) {
			return k.fail(p, "must have %d elements, has %d", len(e.Xs), len(l))
		}
		var jl []interface{}
		if hasJS {
			if jl, ok = js.([]interface{}); !ok || len(jl) != len(l) {
				return k.fail(p, "JSON must be a list of %d elements, is %T %v", len(l), js, js)
			}
		}
		okAll := true
		for i := range l {
			var je interface{}
			if hasJS {
				je = jl[i]
			}
			if !k.walk(e.Xs[i], l[i], je, hasJS, append(append([]string{}, p...), fmt.Sprintf("i:%d", i))) {
				okAll = false
			}
		}
		return okAll
	default:
		return k.fail(p, "unknown expectation %s", e)
	}
	return true
}

// raw: the position holds the resolver's own value, unconverted
func (k *walker) raw(gv Val, mem interface{}, p []string) bool {
	want := buildOut(gv)
	if reflect.TypeOf(mem) != reflect.TypeOf(want) {
		return k.fail(p, "expected the unconverted %T, is %s", want, describe(mem))
	}
	if isNumber(want) {
		if !sameNumber(mem, want) {
			return k.fail(p, "expected the unconverted %v, is %s", want, describe(mem))
		}
		return true
	}
	if t, ok := want.(time.Time); ok {
		if !t.Equal(mem.(time.Time)) {
			return k.fail(p, "expected the unconverted %v", want)
		}
		return true
	}
	if !reflect.DeepEqual(mem, want) {
		return k.fail(p, "expected the unconverted %v, is %s", want, describe(mem))
	}
	return true
}

func jsonNumberIs(n json.Number, e Val) bool {
	want := goVal(e.P, e.G)
	switch e.G {
	case "int32", "int64":
		i, ok := new(big.Int).SetString(string(n), 10)
		wi, _ := asBig(want)
		return ok && i.Cmp(wi) == 0
	case "float32":
		f, err := n.Float64()
		return err == nil && float32(f) == want.(float32)
	case "float64":
		f, err := n.Float64()
		return err == nil && f == want.(float64)
	}
	return false
}

// agreesOut: "" when the observation is what the tree prescribes.
func agreesOut(e *Val, o outObs, strict bool) string {
	if o.BadErr != "" {
		return o.BadErr
	}
	k := &walker{need: map[string]bool{}, errs: o.Errs, strict: strict}
	hasJS := strict && o.JSONErr == ""
	ok := k.walk(*e, o.Mem, o.JSON, hasJS, nil)
	if !ok {
		return strings.Join(k.why, "; ")
	}
	extra := []string{}
	for p := range o.Errs {
		if !k.need[p] {
			extra = append(extra, "/"+p)
		}
	}
	if len(extra) > 0 {
		sort.Strings(extra)
		return "errors reported for positions that hold their prescribed value: " + strings.Join(extra, " ")
	}
	if strict && o.JSONErr != "" {
		return o.JSONErr
	}
	return ""
}

// absOutRaw abstracts data[field] for the TLC judge (values that leaked unconverted keep their Go identity).
func absOutRaw(x interface{}) Val {
	switch tv := x.(type) {
	case nil:
		return Val{K: "null"}
	case string:
		// (time.Parse alone is more lenient than RFC 3339: it takes an unpadded hour and a decimal comma)
		if _, err := time.Parse(time.RFC3339Nano, tv); err == nil && rfc3339.MatchString(tv) && !knownTimes[tv] {
			return Val{K: "str", S: "sometime"}
		}
		return Val{K: "str", S: tv}
	case bool:
		return Val{K: "bool", B: tv}
	case ggql.Symbol:
		return Val{K: "sym", S: string(tv)}
	case time.Time:
		return Val{K: "time", S: tv.In(time.UTC).Format(time.RFC3339Nano)}
	case []interface{}:
		out := Val{K: "list", Xs: []Val{}}
		for _, e := range tv {
			out.Xs = append(out.Xs, absOutRaw(e))
		}
		return out
	case map[string]interface{}:
		return Val{K: "object"}
	}
	if isNumber(x) {
		g := reflect.ValueOf(x).Kind().String()
		return Val{K: "num", P: canonPoint(x, g), G: g}
	}
	return Val{K: "unk", S: fmt.Sprintf("%T", x)}
}
