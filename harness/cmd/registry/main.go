// Command registry is the conformance harness for spec/Registry.tla
// (properties C19 and C20).
//
//	registry replay  -universe u.json -vectors v.json        TLC behaviours -> real code (gated schedule)
//	registry record  -universe u.json -n N -len L -out f     random sequential histories -> ndjson for RegistryTrace
//	registry sched   -universe u.json -out f [-procs 2|3]    Go-side exhaustive block schedules -> ndjson
//	registry stress  -universe u.json -iters N -out f        free-running goroutines -> ndjson (lock order)
package main

import (
	"encoding/json"
	"flag"
	"fmt"
	"math/rand"
	"os"
	"reflect"
	"runtime"
	"sort"
	"strconv"
	"strings"
	"sync"
	"sync/atomic"
	"time"

	"github.com/uhn/ggql/pkg/ggql"

	"verifharness/vh"
)

// ---------------------------------------------------------------- universe

type TV struct {
	K string      `json:"k"`
	V interface{} `json:"v"`
}

type PoolEnt struct {
	Pat    string `json:"pat"`
	Sel    string `json:"sel"`
	FailAt int    `json:"failAt"`
	Hide   bool   `json:"hide"` // value of the variable $hide of the subscriber's request
	Tag    string `json:"tag"`  // value of the variable $tag of the subscriber's request
}

type Universe struct {
	Pool    []PoolEnt                `json:"pool"`
	SelKeys map[string][][]string    `json:"selKeys"`
	EvVals  map[string]map[string]TV `json:"evVals"`
	Ids     []string                 `json:"ids"`
}

func (u *Universe) sdl() string {
	fields := map[string]string{}
	for _, ev := range u.EvVals {
		for f, tv := range ev {
			switch tv.K {
			case "str":
				fields[f] = "String"
			case "int":
				fields[f] = "Int"
			default:
				vh.Die("unknown value tag %q", tv.K)
			}
		}
	}
	names := make([]string, 0, len(fields))
	for f := range fields {
		names = append(names, f)
	}
	sort.Strings(names)
	var b strings.Builder
	b.WriteString("type Query { x: Int }\ntype Subscription { watch(sub: Int!): Ev }\ntype Ev {\n")
	for _, f := range names {
		fmt.Fprintf(&b, "  %s: %s\n", f, fields[f])
	}
	// fields that answer with what they are given (Registry!MsgOf, condition "arg")
	b.WriteString("  with(p: Pre): String\n  withl(l: [String]): String\n}\ninput Pre { s: String }\n")
	return b.String()
}

// selText renders a selection: the body of the subscription field and the fragment definitions it needs.
func (u *Universe) selText(sel string) (string, string) {
	var parts []string
	frags := ""
	for _, kf := range u.SelKeys[sel] {
		p := kf[1]
		if kf[0] != kf[1] {
			p = kf[0] + ": " + kf[1]
		}
		dir := ""
		if len(kf) > 2 && kf[2] == "arg" {
			// the variable stands INSIDE the literal written for the argument
			arg := "(p: {s: $tag})"
			if len(kf) > 3 && kf[3] == "list" {
				arg = "(l: [\"x\", $tag])"
			}
			parts = append(parts, kf[0]+": "+kf[1]+arg)
			continue
		}
		if len(kf) > 2 {
			switch kf[2] {
			case "skip":
				dir = " @skip(if: $hide)"
			case "incl":
				dir = " @include(if: $hide)"
			}
		}
		form := ""
		if len(kf) > 3 {
			form = kf[3]
		}
		switch form {
		case "inline":
			p = "..." + dir + " { " + p + " }"
		case "spread":
			frags += " fragment F_" + kf[0] + " on Ev { " + p + " }"
			p = "...F_" + kf[0] + dir
		default:
			p += dir
		}
		parts = append(parts, p)
	}
	return strings.Join(parts, " "), frags
}

// ------------------------------------------------------------------- world

type logEnt struct {
	Kind string      `json:"kind"` // send | cleanup
	S    int         `json:"s"`
	Msg  interface{} `json:"msg,omitempty"`
	Op   string      `json:"op,omitempty"` // probe mode: outer | inner
}

type world struct {
	concurrent bool                        // several goroutines use the root at once: what the registry holds between two calls is not this caller's to judge
	shared     bool                        // subscription requests are parsed once per selection and resolved per subscriber
	exes       map[string]*ggql.Executable // (guarded by mu)
	u          *Universe
	root       *ggql.Root
	subs       []*hsub // index s-1
	mu         sync.Mutex
	log        []logEnt
	evObj      map[string][2]interface{}
}

type hsub struct {
	w      *world
	s      int
	pat    string
	failAt int
	sends  int
	pure   bool  // race mode: no harness lock, atomic counters only
	nsend  int64 // atomic
	nclean int64 // atomic
}

// linger keeps a free-running callback busy for a moment: the application code a subscriber runs on a
// delivery or a clean-up takes time, and whatever the registry allows to happen meanwhile should get the
// chance to happen. (Where the callback runs inside the registry's critical section nothing can.)
var lingerCount int64

func linger() {
	runtime.Gosched()
	if atomic.AddInt64(&lingerCount, 1)%3 == 0 {
		time.Sleep(150 * time.Microsecond)
	}
}

func (h *hsub) Send(value interface{}) error {
	if h.pure || activeStress != nil {
		linger()
	}
	if h.pure {
		n := atomic.AddInt64(&h.nsend, 1)
		if h.failAt != 0 && int(n) == h.failAt {
			return fmt.Errorf("subscriber %d fails on delivery %d", h.s, n)
		}
		return nil
	}
	h.w.mu.Lock()
	h.sends++
	n := h.sends
	h.w.log = append(h.w.log, logEnt{Kind: "send", S: h.s, Msg: value, Op: probePhase()})
	h.w.mu.Unlock()
	probePoint("send", h.s)
	if h.failAt != 0 && n == h.failAt {
		return fmt.Errorf("subscriber %d fails on delivery %d", h.s, n)
	}
	return nil
}

func (h *hsub) Match(id string) bool {
	if !h.pure {
		probePoint("match", h.s)
	}
	return h.pat == "*" || h.pat == id
}

func (h *hsub) Unsubscribe() {
	if h.pure || activeStress != nil {
		linger()
	}
	if h.pure {
		atomic.AddInt64(&h.nclean, 1)
		return
	}
	h.w.mu.Lock()
	h.w.log = append(h.w.log, logEnt{Kind: "cleanup", S: h.s, Op: probePhase()})
	h.w.mu.Unlock()
	probePoint("cleanup", h.s)
}

type rootObj struct{ w *world }

func (r *rootObj) Resolve(field *ggql.Field, args map[string]interface{}) (interface{}, error) {
	switch field.Name {
	case "subscription":
		return &subObj{w: r.w}, nil
	case "query":
		return r, nil
	}
	return nil, nil
}

type subObj struct{ w *world }

func (so *subObj) Resolve(field *ggql.Field, args map[string]interface{}) (interface{}, error) {
	if field.Name != "watch" {
		return nil, fmt.Errorf("no field %s", field.Name)
	}
	var s int
	switch v := args["sub"].(type) {
	case int32:
		s = int(v)
	case int:
		s = v
	case int64:
		s = int(v)
	default:
		return nil, fmt.Errorf("bad sub argument %T", args["sub"])
	}
	if s < 1 || s > len(so.w.subs) {
		return nil, fmt.Errorf("no subscriber %d", s)
	}
	return ggql.NewSubscription(so.w.subs[s-1], field, args), nil
}

// evResolver is the event realised as a Resolver object.
type evResolver struct{ vals map[string]TV }

func (e *evResolver) Resolve(field *ggql.Field, args map[string]interface{}) (interface{}, error) {
	probePoint("resolve", 0)
	switch field.Name {
	case "with":
		return given(args["p"], nil), nil
	case "withl":
		return given(nil, args["l"]), nil
	}
	tv, ok := e.vals[field.Name]
	if !ok {
		return nil, fmt.Errorf("no field %s", field.Name)
	}
	return goVal(tv), nil
}

// given: what the fields with / withl answer with: the member s of the input object, the last member of the list.
func given(p, l interface{}) interface{} {
	if m, _ := p.(map[string]interface{}); m != nil {
		return m["s"]
	}
	if a, _ := l.([]interface{}); 0 < len(a) {
		return a[len(a)-1]
	}
	return nil
}

// evPlain is the event of the universes (a name and a number) for the reflection strategy: struct fields, and methods
// for the fields that take an argument.
type evPlain struct {
	Name string
	N    int
}

func (e *evPlain) With(p map[string]interface{}) interface{} { return given(p, nil) }
func (e *evPlain) Withl(l []interface{}) interface{}         { return given(nil, l) }

func goVal(tv TV) interface{} {
	switch tv.K {
	case "str":
		return tv.V.(string)
	case "int":
		return int(tv.V.(float64))
	}
	return nil
}

// evStruct builds the event as a plain struct for the reflection strategy.
func evStruct(vals map[string]TV) interface{} {
	if len(vals) == 2 && vals["name"].K == "str" && vals["n"].K == "int" {
		return &evPlain{Name: vals["name"].V.(string), N: int(vals["n"].V.(float64))}
	}
	names := make([]string, 0, len(vals))
	for f := range vals {
		names = append(names, f)
	}
	sort.Strings(names)
	var sf []reflect.StructField
	for _, f := range names {
		var t reflect.Type
		if vals[f].K == "str" {
			t = reflect.TypeOf("")
		} else {
			t = reflect.TypeOf(int(0))
		}
		sf = append(sf, reflect.StructField{Name: strings.ToUpper(f[:1]) + f[1:], Type: t})
	}
	st := reflect.New(reflect.StructOf(sf))
	for i, f := range names {
		st.Elem().Field(i).Set(reflect.ValueOf(goVal(vals[f])))
	}
	return st.Interface()
}

var worldCount int

func newWorld(u *Universe) *world {
	worldCount++
	w := &world{u: u, evObj: map[string][2]interface{}{}, shared: false, exes: map[string]*ggql.Executable{}}
	w.root = ggql.NewRoot(&rootObj{w: w})
	if err := w.root.ParseString(u.sdl()); err != nil {
		vh.Die("schema does not load: %s", err)
	}
	for i, pe := range u.Pool {
		w.subs = append(w.subs, &hsub{w: w, s: i + 1, pat: pe.Pat, failAt: pe.FailAt})
	}
	for name, vals := range u.EvVals {
		w.evObj[name] = [2]interface{}{&evResolver{vals: vals}, evStruct(vals)}
	}
	return w
}

func (w *world) subscribe(s int) map[string]interface{} {
	sel, frags := w.u.selText(w.u.Pool[s-1].Sel)
	hide := w.u.Pool[s-1].Hide
	usesHide := strings.Contains(sel, "$hide")
	tag := w.u.Pool[s-1].Tag
	usesTag := strings.Contains(sel, "$tag")
	if w.shared {
		// one parsed request per selection, resolved once per subscriber (a server that prepares its requests):
		// every subscription still gets its own selection set applied to the events
		w.mu.Lock()
		exe := w.exes[sel]
		if exe == nil {
			var err error
			decl := "$s: Int"
			if usesHide {
				decl += ", $hide: Boolean"
			}
			if usesTag {
				decl += ", $tag: String"
			}
			if exe, err = w.root.ParseExecutableString(fmt.Sprintf("subscription(%s) { watch(sub: $s) { %s } }%s", decl, sel, frags)); err != nil {
				w.mu.Unlock()
				return map[string]interface{}{"errors": ggql.FormErrorsResult(err)}
			}
			w.exes[sel] = exe
		}
		w.mu.Unlock()
		res, err := w.root.ResolveExecutable(exe, "", map[string]interface{}{"s": s, "hide": hide, "tag": tag})
		if res == nil {
			res = map[string]interface{}{}
		}
		if err != nil {
			res["errors"] = ggql.FormErrorsResult(err)
		}
		return res
	}
	if (s+worldCount)%2 == 0 {
		// another client's request, refused before anything is resolved (a variable that can not be coerced, reported at
		// line 4 of ITS document): its errors are its own, the answer to the subscription request that follows has none
		w.root.ResolveString("query Other(\n\n\n $v: Int) { __typename }", "", map[string]interface{}{"v": "no number"})
	}
	if (s+worldCount)%3 == 0 {
		// Registry!SubscribeRefused: a subscription request one of whose root fields fails is refused as a whole: it
		// registers nothing, whatever its other root fields resolved to (in either order)
		before := w.reg()
		for _, text := range []string{"subscription { a: watch(sub: %d) { name } b: watch(sub: 0) { name } }", "subscription { b: watch(sub: 0) { name } a: watch(sub: %d) { name } }"} {
			r := w.root.ResolveString(fmt.Sprintf(text, s), "", nil)
			if r["errors"] == nil {
				return map[string]interface{}{"errors": "a subscription request with a failing root field (no subscriber 0) was answered without errors: " + vh.JS(r)}
			}
		}
		if after := w.reg(); !w.concurrent && !intsEq(before, after) { // (with other goroutines at work the trace judges)
			return map[string]interface{}{"errors": fmt.Sprintf("a refused subscription request changed the registry: %v before, %v after", before, after)}
		}
	}
	// the subscription field stands in the operation itself, in an inline fragment or in a named fragment spread there
	field := fmt.Sprintf("watch(sub: %d) { %s }", s, sel)
	switch (s + worldCount) % 3 {
	case 1:
		field = "... on Subscription { " + field + " }"
	case 2:
		frags += " fragment Root on Subscription { " + field + " }"
		field = "...Root"
	}
	// the subscriber's variable comes with the request or is defaulted by it
	var decl []string
	vars := map[string]interface{}{}
	if usesHide {
		if s%2 == 1 {
			decl = append(decl, "$hide: Boolean")
			vars["hide"] = hide
		} else {
			decl = append(decl, fmt.Sprintf("$hide: Boolean = %v", hide))
		}
	}
	if usesTag { // (the other way round: the one that gives $hide leaves $tag to its default)
		if s%2 == 0 {
			decl = append(decl, "$tag: String")
			vars["tag"] = tag
		} else {
			decl = append(decl, fmt.Sprintf("$tag: String = %q", tag))
		}
	}
	if len(decl) == 0 {
		return w.root.ResolveString(fmt.Sprintf("subscription { %s }%s", field, frags), "", nil)
	}
	if len(vars) == 0 {
		vars = nil
	}
	return w.root.ResolveString(fmt.Sprintf("subscription(%s) { %s }%s", strings.Join(decl, ", "), field, frags), "", vars)
}

func (w *world) reg() []int {
	out := []int{}
	for _, sb := range w.root.VerifSubscribers() {
		if h, ok := sb.(*hsub); ok {
			out = append(out, h.s)
		} else {
			out = append(out, -1)
		}
	}
	return out
}

func (w *world) takeLog() []logEnt {
	w.mu.Lock()
	l := w.log
	w.log = nil
	w.mu.Unlock()
	return l
}

// ------------------------------------------------------------------ blocks

// Block mirrors one record of Registry.tla's hist variable.
type Block struct {
	P       int             `json:"p"`
	B       string          `json:"b"`
	S       int             `json:"s,omitempty"`
	ID      string          `json:"id,omitempty"`
	Ev      string          `json:"ev,omitempty"`
	Cnt     *int            `json:"cnt,omitempty"`
	Cleaned []int           `json:"cleaned,omitempty"`
	Sent    [][]interface{} `json:"sent,omitempty"`
	Err     *bool           `json:"err,omitempty"`
	Reg     []int           `json:"reg"`
	Seen    *bool           `json:"seen,omitempty"` // subret: the request's critical section was seen
	NoReg   bool            `json:"-"`              // the registry was not observed with this record
}

// MarshalJSON leaves reg out where the registry was not observed (start and return of a call).
func (b Block) MarshalJSON() ([]byte, error) {
	type plain Block
	js, err := json.Marshal(plain(b))
	if err != nil || !b.NoReg {
		return js, err
	}
	var m map[string]interface{}
	if err = json.Unmarshal(js, &m); err != nil {
		return nil, err
	}
	delete(m, "reg")
	return json.Marshal(m)
}

type Vector struct {
	Hist []Block `json:"hist"`
}

// op of a process, derived from the blocks
type op struct {
	kind string // sub | unsub | pub
	s    int
	id   string
	ev   string
}

type opResult struct {
	kind   string
	cnt    int
	err    error
	result map[string]interface{}
}

type arrival struct {
	p      int
	point  string // gate name or "done"
	result *opResult
}

// sched runs processes as goroutines gated at the out-of-lock verification points.
type sched struct {
	w        *world
	resume   map[int]chan struct{}
	arrive   chan arrival
	current  int
	lockBad  []string
	evMode   int
	finished map[int]bool
	pending  map[int]*opResult // result of the op that returned just before the last arrival
}

var activeSched *sched

func hook(point string, ref interface{}) {
	sc := activeSched
	if sc == nil {
		return
	}
	switch point {
	case "sub.before", "unsub.before", "pub.before", "pub.gap":
		p := sc.current
		sc.arrive <- arrival{p: p, point: point}
		<-sc.resume[p]
	case "sub.locked", "unsub.locked", "pub.locked1", "pub.locked2":
		// the registry's own in-lock points: they mark the end of a critical section, so the lock is held here.
		// (The points of other families - a resolver at work on an event, say - are not the registry's business.)
		if !sc.w.root.VerifSubLockHeld() {
			sc.lockBad = append(sc.lockBad, point)
		}
	}
}

func (sc *sched) runProc(p int, ops []op) {
	<-sc.resume[p]
	var last *opResult
	for _, o := range ops {
		// the gate at the start of the op reports the previous op's result
		sc.pending[p] = last
		switch o.kind {
		case "sub":
			r := sc.w.subscribe(o.s)
			last = &opResult{kind: "sub", result: r}
		case "unsub":
			c := sc.w.root.Unsubscribe(o.id)
			last = &opResult{kind: "unsub", cnt: c}
		case "pub":
			c, err := sc.w.root.AddEvent(o.id, sc.w.evObj[o.ev][sc.evMode])
			last = &opResult{kind: "pub", cnt: c, err: err}
		}
	}
	sc.pending[p] = last
	sc.arrive <- arrival{p: p, point: "done"}
}

const stepTimeout = 5 * time.Second

// step lets process p run until its next gate (or its end); returns where it arrived.
func (sc *sched) step(p int) (arrival, error) {
	sc.current = p
	sc.resume[p] <- struct{}{}
	select {
	case a := <-sc.arrive:
		if a.p != p {
			return a, fmt.Errorf("process %d arrived while %d was running", a.p, p)
		}
		a.result = sc.pending[p]
		return a, nil
	case <-time.After(stepTimeout):
		return arrival{}, fmt.Errorf("process %d did not reach its next verification point within %s (deadlock or hang)", p, stepTimeout)
	}
}

func opsOf(hist []Block) map[int][]op {
	ops := map[int][]op{}
	for _, b := range hist {
		switch b.B {
		case "sub":
			ops[b.P] = append(ops[b.P], op{kind: "sub", s: b.S})
		case "unsub":
			ops[b.P] = append(ops[b.P], op{kind: "unsub", id: b.ID})
		case "pub1":
			ops[b.P] = append(ops[b.P], op{kind: "pub", id: b.ID, ev: b.Ev})
		}
	}
	return ops
}

func intsEq(a, b []int) bool {
	if len(a) != len(b) {
		return false
	}
	for i := range a {
		if a[i] != b[i] {
			return false
		}
	}
	return true
}

func sortedCopy(a []int) []int {
	c := append([]int{}, a...)
	sort.Ints(c)
	return c
}

// execSchedule runs the processes' operations on a fresh root, letting them
// proceed block by block in the order given by schedule (a sequence of process
// ids, one entry per block), and returns the blocks as observed.
func execSchedule(u *Universe, init []int, ops map[int][]op, schedule []int, evMode int) (events []Block, problem string) {
	w := newWorld(u)
	w.shared = len(ops) <= 1 && worldCount%2 == 0
	activeSched = nil
	for _, s := range init {
		r := w.subscribe(s)
		if r["errors"] != nil {
			return nil, "initial subscribe failed: " + vh.JS(r)
		}
	}
	events = append(events, Block{B: "init", P: 0, Reg: w.reg()})
	if !intsEq(w.reg(), init) {
		return events, fmt.Sprintf("initial registry %v, want %v", w.reg(), init)
	}
	w.takeLog()
	sc := &sched{w: w, resume: map[int]chan struct{}{}, arrive: make(chan arrival, 16), evMode: evMode,
		finished: map[int]bool{}, pending: map[int]*opResult{}}
	activeSched = sc
	defer func() { activeSched = nil }()
	procs := []int{}
	for p := range ops {
		procs = append(procs, p)
	}
	sort.Ints(procs)
	at := map[int]string{}
	opIdx := map[int]int{}
	for _, p := range procs {
		sc.resume[p] = make(chan struct{})
		go sc.runProc(p, ops[p])
		a, err := sc.step(p)
		if err != nil {
			return events, err.Error()
		}
		at[p] = a.point
	}
	pubEvent := map[int]int{} // process -> index in events of its open pub1
	for _, p := range schedule {
		from := at[p]
		if from == "done" || from == "" {
			return events, fmt.Sprintf("schedule runs process %d which has nothing left to do", p)
		}
		a, err := sc.step(p)
		if err != nil {
			return events, err.Error()
		}
		at[p] = a.point
		lg := w.takeLog()
		if len(sc.lockBad) > 0 {
			bad := sc.lockBad
			sc.lockBad = nil
			return events, fmt.Sprintf("registry lock not held at in-lock point(s) %v", bad)
		}
		b := Block{P: p, Reg: w.reg(), Cleaned: []int{}}
		for _, le := range lg {
			if le.Kind == "send" {
				b.Sent = append(b.Sent, []interface{}{le.S, msgToModel(u, le.S, le.Msg)})
			} else {
				b.Cleaned = append(b.Cleaned, le.S)
			}
		}
		o := ops[p][opIdx[p]]
		switch from {
		case "sub.before":
			b.B, b.S = "sub", o.s
			if a.result == nil || a.result.result == nil || a.result.result["errors"] != nil {
				return append(events, b), "subscription request failed: " + vh.JS(a.result)
			}
			opIdx[p]++
		case "unsub.before":
			b.B, b.ID = "unsub", o.id
			c := a.result.cnt
			b.Cnt = &c
			opIdx[p]++
		case "pub.before":
			b.B, b.ID, b.Ev = "pub1", o.id, o.ev
			if b.Sent == nil {
				b.Sent = [][]interface{}{}
			}
			if a.point != "pub.gap" {
				return append(events, b), fmt.Sprintf("publish went from its first block to %q, not to the gap", a.point)
			}
			pubEvent[p] = len(events)
		case "pub.gap":
			b.B = "pub2"
			c := a.result.cnt
			f := a.result.err != nil
			events[pubEvent[p]].Cnt = &c
			events[pubEvent[p]].Err = &f
			opIdx[p]++
		}
		events = append(events, b)
	}
	for _, p := range procs {
		if at[p] != "done" {
			return events, fmt.Sprintf("process %d still at %q after the schedule ended", p, at[p])
		}
	}
	return events, ""
}

// compareBlocks checks an observed block against the model's.
func compareBlocks(o, m *Block) string {
	if o.B != m.B || o.P != m.P {
		return fmt.Sprintf("observed block %s by %d, model block %s by %d", o.B, o.P, m.B, m.P)
	}
	if !intsEq(o.Reg, m.Reg) {
		return fmt.Sprintf("registry after %s is %v, model says %v", m.B, o.Reg, m.Reg)
	}
	if !intsEq(sortedCopy(o.Cleaned), sortedCopy(m.Cleaned)) {
		return fmt.Sprintf("%s cleaned up %v, model says exactly %v, once each", m.B, o.Cleaned, m.Cleaned)
	}
	if vh.JS(normSent(o.Sent)) != vh.JS(normSent(m.Sent)) {
		return fmt.Sprintf("%s(%s,%s) delivered %s, model says %s (registration order, own selection)", m.B, m.ID, m.Ev, vh.JS(o.Sent), vh.JS(m.Sent))
	}
	if m.Cnt != nil && (o.Cnt == nil || *o.Cnt != *m.Cnt) {
		return fmt.Sprintf("%s(%s) returned count %v, model says %d", m.B, m.ID, ptrInt(o.Cnt), *m.Cnt)
	}
	if m.Err != nil && (o.Err == nil || *o.Err != *m.Err) {
		return fmt.Sprintf("%s(%s) error=%v, model says failure=%v", m.B, m.ID, ptrBool(o.Err), *m.Err)
	}
	return ""
}

func normSent(s [][]interface{}) interface{} {
	if len(s) == 0 {
		return []interface{}{}
	}
	var v interface{}
	_ = json.Unmarshal([]byte(vh.JS(s)), &v)
	return v
}

func ptrInt(p *int) interface{} {
	if p == nil {
		return nil
	}
	return *p
}

func ptrBool(p *bool) interface{} {
	if p == nil {
		return nil
	}
	return *p
}

// runVector executes the model behaviour v on the real code and compares block by block.
func runVector(u *Universe, v *Vector, evMode int) (events []Block, problem string, step int) {
	if len(v.Hist) == 0 || v.Hist[0].B != "init" {
		return nil, "vector does not start with init", 0
	}
	var schedule []int
	for _, b := range v.Hist[1:] {
		schedule = append(schedule, b.P)
	}
	events, problem = execSchedule(u, v.Hist[0].Reg, opsOf(v.Hist), schedule, evMode)
	for i := 1; i < len(events) && i < len(v.Hist); i++ {
		if msg := compareBlocks(&events[i], &v.Hist[i]); msg != "" {
			return events, msg, i
		}
	}
	if problem != "" {
		return events, problem, len(events)
	}
	if len(events) != len(v.Hist) {
		return events, fmt.Sprintf("observed %d blocks, model has %d", len(events), len(v.Hist)), len(events)
	}
	return events, "", 0
}

// ------------------------------------------------------------------ replay

func nontrivialVector(v *Vector) bool {
	// exercises the antecedents: at least one delivery and at least one removal
	sent, gone := false, false
	for _, b := range v.Hist {
		if len(b.Sent) > 0 {
			sent = true
		}
		if len(b.Cleaned) > 0 {
			gone = true
		}
	}
	return sent && gone
}

// interleavings enumerates all merges of the per-process block sequences.
func interleavings(blocks map[int]int) [][]int {
	procs := []int{}
	total := 0
	for p, n := range blocks {
		procs = append(procs, p)
		total += n
	}
	sort.Ints(procs)
	var out [][]int
	left := map[int]int{}
	for p, n := range blocks {
		left[p] = n
	}
	var rec func(cur []int)
	rec = func(cur []int) {
		if len(cur) == total {
			out = append(out, append([]int{}, cur...))
			return
		}
		for _, p := range procs {
			if left[p] > 0 {
				left[p]--
				rec(append(cur, p))
				left[p]++
			}
		}
	}
	rec(nil)
	return out
}

func blocksOf(ops []op) int {
	n := 0
	for _, o := range ops {
		if o.kind == "pub" {
			n += 2
		} else {
			n++
		}
	}
	return n
}

// cmdSched: Go-side exhaustive enumeration of programs x block schedules; the
// observed blocks are written as traces for RegistryTrace.tla to judge.
func cmdSched(args []string) {
	fs := flag.NewFlagSet("sched", flag.ExitOnError)
	up := fs.String("universe", "", "universe json")
	np := fs.Int("procs", 2, "processes (each runs one operation; with -ops 2 two)")
	nops := fs.Int("ops", 1, "operations per process")
	sample := fs.Int("sample", 0, "if >0 run only this many randomly chosen programs")
	outp := fs.String("out", "", "ndjson output")
	_ = fs.Parse(args)
	var u Universe
	vh.ReadJSON(*up, &u)
	rep := vh.NewReport("registry", "sched")
	out, err := os.Create(*outp)
	if err != nil {
		vh.Die("%s", err)
	}
	defer out.Close()
	enc := json.NewEncoder(out)
	_ = enc.Encode(map[string]interface{}{"b": "universe", "pool": u.Pool, "selKeys": u.SelKeys, "evVals": u.EvVals, "ids": u.Ids})
	ggql.VerifHook = hook
	evNames := []string{}
	for e := range u.EvVals {
		evNames = append(evNames, e)
	}
	sort.Strings(evNames)
	// initial registries: prefixes of the pool order plus one permuted
	var inits [][]int
	for _, in := range [][]int{{}, {1}, {1, 2}, {1, 2, 3}, {3, 1}, {2, 1, 3, 4}} {
		fits := true
		for _, s := range in {
			if s > len(u.Pool) {
				fits = false
			}
		}
		if fits {
			inits = append(inits, in)
		}
	}
	rng := rand.New(rand.NewSource(vh.Seed()))
	// alphabet of operations (subscribe of not-yet-registered subscribers is filtered per init)
	var alphabet []op
	for s := 1; s <= len(u.Pool); s++ {
		alphabet = append(alphabet, op{kind: "sub", s: s})
	}
	for _, id := range append([]string{"*"}, u.Ids...) {
		alphabet = append(alphabet, op{kind: "unsub", id: id})
	}
	for _, id := range u.Ids {
		alphabet = append(alphabet, op{kind: "pub", id: id, ev: evNames[0]})
	}
	// programs: every assignment of nops operations to each of np processes
	slots := *np * *nops
	var programs [][]op
	var gen func(cur []op)
	gen = func(cur []op) {
		if len(cur) == slots {
			programs = append(programs, append([]op{}, cur...))
			return
		}
		for _, o := range alphabet {
			dup := false
			if o.kind == "sub" {
				for _, c := range cur {
					if c.kind == "sub" && c.s == o.s {
						dup = true
					}
				}
			}
			if !dup {
				gen(append(cur, o))
			}
		}
	}
	gen(nil)
	if *sample > 0 && *sample < len(programs) {
		rng.Shuffle(len(programs), func(i, j int) { programs[i], programs[j] = programs[j], programs[i] })
		programs = programs[:*sample]
	}
	traces := 0
	for pi, prog := range programs {
		init := inits[(pi+int(vh.Seed()))%len(inits)]
		ok := true
		for _, o := range prog {
			if o.kind == "sub" {
				for _, s := range init {
					if s == o.s {
						ok = false
					}
				}
			}
		}
		if !ok {
			init = []int{}
		}
		ops := map[int][]op{}
		nb := map[int]int{}
		for p := 1; p <= *np; p++ {
			ops[p] = prog[(p-1)**nops : p**nops]
			nb[p] = blocksOf(ops[p])
		}
		for _, schedule := range interleavings(nb) {
			events, problem := execSchedule(&u, init, ops, schedule, (pi+traces)%2)
			traces++
			if problem != "" {
				rep.Mismatch(vh.Mismatch{Case: map[string]interface{}{"init": init, "program": fmt.Sprint(ops), "schedule": schedule, "observed": events}, What: problem})
				continue
			}
			for _, e := range events {
				_ = enc.Encode(e)
			}
			v := Vector{Hist: events}
			rep.Case(vh.JS(events), nontrivialVector(&v))
			if traces%211 == 1 {
				rep.Sample(events)
			}
		}
	}
	rep.Extra["programs"] = len(programs)
	rep.Extra["schedules"] = traces
	rep.Emit()
}

// cmdStress: free-running goroutines; blocks are logged by the in-lock hooks, so
// the log is ordered by the registry lock itself.
func cmdStress(args []string) {
	fs := flag.NewFlagSet("stress", flag.ExitOnError)
	up := fs.String("universe", "", "universe json")
	iters := fs.Int("iters", 50, "number of runs")
	ng := fs.Int("goroutines", 4, "goroutines per run")
	nops := fs.Int("ops", 3, "operations per goroutine")
	outp := fs.String("out", "", "ndjson output")
	_ = fs.Parse(args)
	var u Universe
	vh.ReadJSON(*up, &u)
	rep := vh.NewReport("registry", "stress")
	out, err := os.Create(*outp)
	if err != nil {
		vh.Die("%s", err)
	}
	defer out.Close()
	enc := json.NewEncoder(out)
	_ = enc.Encode(map[string]interface{}{"b": "universe", "pool": u.Pool, "selKeys": u.SelKeys, "evVals": u.EvVals, "ids": u.Ids})
	evNames := []string{}
	for e := range u.EvVals {
		evNames = append(evNames, e)
	}
	sort.Strings(evNames)
	rng := rand.New(rand.NewSource(vh.Seed()))
	for it := 0; it < *iters; it++ {
		w := newWorld(&u)
		w.concurrent = true
		st := &stressLog{w: w, u: &u, open: map[int64]int{}}
		// goroutine identity for the hook: each goroutine registers before each call
		activeStress = st
		ggql.VerifHook = stressHook
		// pre-register some subscribers sequentially
		ninit := rng.Intn(len(u.Pool))
		perm := rng.Perm(len(u.Pool))
		used := map[int]bool{}
		for _, i := range perm[:ninit] {
			activeStress = nil
			w.subscribe(i + 1)
			used[i+1] = true
		}
		activeStress = st
		st.events = append(st.events, Block{B: "init", P: 0, Reg: w.reg()})
		w.takeLog()
		// distribute the remaining subscribers over the goroutines
		free := []int{}
		for s := 1; s <= len(u.Pool); s++ {
			if !used[s] {
				free = append(free, s)
			}
		}
		progs := make([][]op, *ng)
		for g := 0; g < *ng; g++ {
			for k := 0; k < *nops; k++ {
				switch c := rng.Intn(10); {
				case c < 3 && len(free) > 0:
					progs[g] = append(progs[g], op{kind: "sub", s: free[0]})
					free = free[1:]
				case c < 8:
					progs[g] = append(progs[g], op{kind: "pub", id: u.Ids[rng.Intn(len(u.Ids))], ev: evNames[rng.Intn(len(evNames))]})
				default:
					ids := append([]string{"*"}, u.Ids...)
					progs[g] = append(progs[g], op{kind: "unsub", id: ids[rng.Intn(len(ids))]})
				}
			}
		}
		var wg sync.WaitGroup
		done := make(chan struct{})
		start := make(chan struct{})
		for g := 0; g < *ng; g++ {
			wg.Add(1)
			go func(p int, ops []op) {
				defer wg.Done()
				<-start
				for _, o := range ops {
					switch o.kind {
					case "sub":
						st.begin(p, o)
						r := w.subscribe(o.s)
						st.end(p, 0, r["errors"] != nil)
					case "unsub":
						st.begin(p, o)
						c := w.root.Unsubscribe(o.id)
						st.end(p, c, false)
					case "pub":
						st.begin(p, o)
						c, err := w.root.AddEvent(o.id, w.evObj[o.ev][p%2])
						st.end(p, c, err != nil)
					}
				}
			}(g+1, progs[g])
		}
		close(start)
		go func() { wg.Wait(); close(done) }()
		select {
		case <-done:
		case <-time.After(20 * time.Second):
			rep.Mismatch(vh.Mismatch{Case: fmt.Sprint(progs), What: "goroutines did not finish within 20s: deadlock"})
			rep.Emit()
			os.Exit(0)
		}
		ggql.VerifHook = nil
		activeStress = nil
		if len(st.problems) > 0 {
			rep.Mismatch(vh.Mismatch{Case: map[string]interface{}{"programs": fmt.Sprint(progs), "observed": st.events}, What: strings.Join(st.problems, "; ")})
			continue
		}
		for _, e := range st.events {
			_ = enc.Encode(e)
		}
		v := Vector{Hist: st.events}
		rep.Case(vh.JS(st.events), nontrivialVector(&v))
		if it < 2 {
			rep.Sample(st.events)
		}
	}
	rep.Emit()
}

// stressLog records blocks from inside the registry's critical sections.
type stressLog struct {
	w        *world
	u        *Universe
	events   []Block
	open     map[int64]int // goroutine id -> index of its open pub1 event
	cur      sync.Map      // goroutine id -> *curOp
	problems []string
}

type curOp struct {
	p   int
	o   op
	idx int // index of the last event of this op
	pub int // index of pub1 event
}

var activeStress *stressLog

func (st *stressLog) begin(p int, o op) {
	st.cur.Store(goid(), &curOp{p: p, o: o, idx: -1, pub: -1})
	if o.kind == "sub" {
		// a subscription request is also recorded by its start and its return (see RegistryTraceCalls.tla)
		st.w.mu.Lock()
		st.events = append(st.events, Block{P: p, B: "subcall", S: o.s, NoReg: true})
		st.w.mu.Unlock()
	}
}

// end patches the return values of the finished call into its events. It runs
// outside the lock, so it takes the harness' own mutex (w.mu), which the hooks
// also take: the recorded order is still the order of the critical sections.
func (st *stressLog) end(p int, cnt int, failed bool) {
	v, _ := st.cur.Load(goid())
	co := v.(*curOp)
	st.w.mu.Lock()
	defer st.w.mu.Unlock()
	switch co.o.kind {
	case "sub":
		if failed {
			st.problems = append(st.problems, fmt.Sprintf("subscription request for %d returned errors", co.o.s))
		}
		// without an in-lock point seen the registration is judged as a step somewhere between start and return
		seen := co.idx >= 0
		st.events = append(st.events, Block{P: p, B: "subret", S: co.o.s, Seen: &seen, NoReg: true})
	case "unsub":
		if co.idx < 0 {
			st.problems = append(st.problems, "unsubscribe returned without passing its in-lock point")
		} else {
			c := cnt
			st.events[co.idx].Cnt = &c
		}
	case "pub":
		if co.pub < 0 || co.idx == co.pub {
			st.problems = append(st.problems, "publish returned without passing both in-lock points")
		} else {
			c, f := cnt, failed
			st.events[co.pub].Cnt = &c
			st.events[co.pub].Err = &f
		}
	}
}

func stressHook(point string, ref interface{}) {
	st := activeStress
	if st == nil {
		return
	}
	switch point {
	case "sub.locked", "unsub.locked", "pub.locked1", "pub.locked2":
	default:
		return
	}
	v, ok := st.cur.Load(goid())
	if !ok {
		return
	}
	co := v.(*curOp)
	if !st.w.root.VerifSubLockHeld() {
		st.w.mu.Lock()
		st.problems = append(st.problems, "registry lock not held at "+point)
		st.w.mu.Unlock()
	}
	// we are inside the registry's critical section: the harness log since the last
	// in-lock point belongs to this block.
	st.w.mu.Lock()
	lg := st.w.log
	st.w.log = nil
	b := Block{P: co.p, Cleaned: []int{}}
	for _, le := range lg {
		if le.Kind == "send" {
			b.Sent = append(b.Sent, []interface{}{le.S, msgToModel(st.u, le.S, le.Msg)})
		} else {
			b.Cleaned = append(b.Cleaned, le.S)
		}
	}
	switch point {
	case "sub.locked":
		b.B, b.S = "sub", co.o.s
	case "unsub.locked":
		b.B, b.ID = "unsub", co.o.id
	case "pub.locked1":
		b.B, b.ID, b.Ev = "pub1", co.o.id, co.o.ev
		if b.Sent == nil {
			b.Sent = [][]interface{}{}
		}
		co.pub = len(st.events)
	case "pub.locked2":
		b.B = "pub2"
	}
	b.Reg = []int{}
	for _, sb := range st.w.root.VerifSubscribersLocked() {
		if h, ok := sb.(*hsub); ok {
			b.Reg = append(b.Reg, h.s)
		} else {
			b.Reg = append(b.Reg, -1)
		}
	}
	co.idx = len(st.events)
	st.events = append(st.events, b)
	st.w.mu.Unlock()
}

func cmdReplay(args []string) {
	fs := flag.NewFlagSet("replay", flag.ExitOnError)
	up := fs.String("universe", "", "universe json")
	vp := fs.String("vectors", "", "vectors json (list)")
	_ = fs.Parse(args)
	var u Universe
	vh.ReadJSON(*up, &u)
	var vecs []Vector
	vh.ReadJSON(*vp, &vecs)
	rep := vh.NewReport("registry", "replay")
	ggql.VerifHook = hook
	for i := range vecs {
		v := &vecs[i]
		evMode := i % 2
		_, problem, step := runVector(&u, v, evMode)
		key := vh.JS(v.Hist)
		rep.Case(key, nontrivialVector(v))
		for _, b := range v.Hist {
			rep.Class(b.B)
			if b.B == "pub2" && len(b.Cleaned) > 0 {
				rep.Class("failed-subscriber-removed")
			}
		}
		if i%997 == 0 {
			rep.Sample(v.Hist)
		}
		if problem != "" {
			rep.Mismatch(vh.Mismatch{Case: v, Step: step, What: problem})
		}
	}
	rep.Emit()
}

// ------------------------------------------------------------------ record

// recorder runs operations on the real code and writes the blocks it observes
// (in lock order) for RegistryTrace.tla.
type recorder struct {
	w      *world
	mu     sync.Mutex
	events []Block
	open   map[int]int // goroutine/process -> index of its pub1 event awaiting return values
}

func cmdRecord(args []string) {
	fs := flag.NewFlagSet("record", flag.ExitOnError)
	up := fs.String("universe", "", "universe json")
	n := fs.Int("n", 100, "number of histories")
	l := fs.Int("len", 12, "operations per history")
	outp := fs.String("out", "", "ndjson output")
	_ = fs.Parse(args)
	var u Universe
	vh.ReadJSON(*up, &u)
	rng := rand.New(rand.NewSource(vh.Seed()))
	rep := vh.NewReport("registry", "record")
	out, err := os.Create(*outp)
	if err != nil {
		vh.Die("%s", err)
	}
	defer out.Close()
	enc := json.NewEncoder(out)
	_ = enc.Encode(map[string]interface{}{"b": "universe", "pool": u.Pool, "selKeys": u.SelKeys, "evVals": u.EvVals, "ids": u.Ids})
	ggql.VerifHook = nil
	evNames := []string{}
	for e := range u.EvVals {
		evNames = append(evNames, e)
	}
	sort.Strings(evNames)
	for h := 0; h < *n; h++ {
		w := newWorld(&u)
		w.shared = worldCount%2 == 0 // sequential histories: every second root prepares its subscription requests
		used := map[int]bool{}
		events := []Block{{B: "init", P: 0, Reg: []int{}}}
		for k := 0; k < *l; k++ {
			switch c := rng.Intn(10); {
			case c < 4:
				var free []int
				for s := 1; s <= len(u.Pool); s++ {
					if !used[s] {
						free = append(free, s)
					}
				}
				if len(free) == 0 {
					continue
				}
				s := free[rng.Intn(len(free))]
				used[s] = true
				r := w.subscribe(s)
				if r["errors"] != nil {
					rep.Mismatch(vh.Mismatch{Case: events, What: "subscription request returned errors " + vh.JS(r)})
				}
				events = append(events, Block{P: 1, B: "sub", S: s, Reg: w.reg()})
			case c < 8:
				id := u.Ids[rng.Intn(len(u.Ids))]
				ev := evNames[rng.Intn(len(evNames))]
				cnt, err := w.root.AddEvent(id, w.evObj[ev][rng.Intn(2)])
				lg := w.takeLog()
				b1 := Block{P: 1, B: "pub1", ID: id, Ev: ev, Cnt: &cnt, Sent: [][]interface{}{}}
				failed := err != nil
				b1.Err = &failed
				b2 := Block{P: 1, B: "pub2", Cleaned: []int{}, Reg: w.reg()}
				for _, le := range lg {
					if le.Kind == "send" {
						b1.Sent = append(b1.Sent, []interface{}{le.S, msgToModel(&u, le.S, le.Msg)})
					} else {
						b2.Cleaned = append(b2.Cleaned, le.S)
					}
				}
				// the registry between the two blocks is not observable without hooks; the model
				// says it is unchanged by the first block, which the trace spec checks against reg of
				// the previous event.
				b1.Reg = events[len(events)-1].Reg
				events = append(events, b1, b2)
			default:
				ids := append([]string{"*"}, u.Ids...)
				id := ids[rng.Intn(len(ids))]
				cnt := w.root.Unsubscribe(id)
				lg := w.takeLog()
				b := Block{P: 1, B: "unsub", ID: id, Cnt: &cnt, Cleaned: []int{}, Reg: w.reg()}
				for _, le := range lg {
					if le.Kind == "cleanup" {
						b.Cleaned = append(b.Cleaned, le.S)
					} else {
						b.Sent = append(b.Sent, []interface{}{le.S, "unexpected send"})
					}
				}
				events = append(events, b)
			}
		}
		for _, e := range events {
			_ = enc.Encode(e)
		}
		v := Vector{Hist: events}
		rep.Case(vh.JS(events), nontrivialVector(&v))
		if h < 2 {
			rep.Sample(events)
		}
	}
	rep.Emit()
}

// msgToModel turns a delivered message into the model's [[key, {k,v}], ...] in the
// order of the subscriber's selection; keys the selection does not have are appended
// so that the judge sees them.
func msgToModel(u *Universe, s int, msg interface{}) interface{} {
	m, ok := msg.(map[string]interface{})
	if !ok {
		return []interface{}{[]interface{}{"!notamap", TV{K: "str", V: fmt.Sprintf("%v", msg)}}}
	}
	out := []interface{}{}
	seen := map[string]bool{}
	tag := func(v interface{}) TV {
		switch x := v.(type) {
		case string:
			return TV{K: "str", V: x}
		case int:
			return TV{K: "int", V: x}
		case int32:
			return TV{K: "int", V: int(x)}
		case int64:
			return TV{K: "int", V: int(x)}
		case nil:
			return TV{K: "null", V: 0}
		}
		return TV{K: "other", V: fmt.Sprintf("%T:%v", v, v)}
	}
	for _, kf := range u.SelKeys[u.Pool[s-1].Sel] {
		if v, has := m[kf[0]]; has {
			out = append(out, []interface{}{kf[0], tag(v)})
			seen[kf[0]] = true
		}
	}
	var extra []string
	for k := range m {
		if !seen[k] {
			extra = append(extra, k)
		}
	}
	sort.Strings(extra)
	for _, k := range extra {
		out = append(out, []interface{}{k, tag(m[k])})
	}
	return out
}

func main() {
	if len(os.Args) < 2 {
		vh.Die("usage: registry replay|record|sched|stress ...")
	}
	switch os.Args[1] {
	case "replay":
		cmdReplay(os.Args[2:])
	case "record":
		cmdRecord(os.Args[2:])
	case "sched":
		cmdSched(os.Args[2:])
	case "stress":
		cmdStress(os.Args[2:])
	case "race":
		cmdRace(os.Args[2:])
	case "probe":
		cmdProbe(os.Args[2:])
	default:
		vh.Die("unknown mode %s", os.Args[1])
	}
}

func goid() int64 {
	var buf [64]byte
	n := runtime.Stack(buf[:], false)
	f := strings.Fields(string(buf[:n]))
	if len(f) < 2 {
		return -1
	}
	id, _ := strconv.ParseInt(f[1], 10, 64)
	return id
}

// cmdRace: free-running goroutines with no hooks and no harness locks, meant to be
// built with -race.  Oracles: the race detector (exit status 66), a deadlock
// watchdog, clean-up at most once per subscriber, and quiescent consistency
// (after everything returned the registry holds exactly the subscribed,
// not-cleaned-up subscribers).
func cmdRace(args []string) {
	fs := flag.NewFlagSet("race", flag.ExitOnError)
	up := fs.String("universe", "", "universe json")
	iters := fs.Int("iters", 200, "number of runs")
	ng := fs.Int("goroutines", 8, "goroutines per run")
	nops := fs.Int("ops", 6, "operations per goroutine")
	_ = fs.Parse(args)
	var u Universe
	vh.ReadJSON(*up, &u)
	// a bigger pool: replicate the universe's pool
	base := u.Pool
	for len(u.Pool) < *ng**nops {
		u.Pool = append(u.Pool, base...)
	}
	rep := vh.NewReport("registry", "race")
	ggql.VerifHook = nil
	evNames := []string{}
	for e := range u.EvVals {
		evNames = append(evNames, e)
	}
	sort.Strings(evNames)
	rng := rand.New(rand.NewSource(vh.Seed()))
	for it := 0; it < *iters; it++ {
		w := newWorld(&u)
		w.concurrent = true
		for _, h := range w.subs {
			h.pure = true
		}
		next := int64(0)
		subscribed := make([]int32, len(w.subs)+1)
		var wg sync.WaitGroup
		start := make(chan struct{})
		seeds := make([]int64, *ng)
		for g := range seeds {
			seeds[g] = rng.Int63()
		}
		for g := 0; g < *ng; g++ {
			wg.Add(1)
			go func(p int, seed int64) {
				defer wg.Done()
				r := rand.New(rand.NewSource(seed))
				<-start
				for k := 0; k < *nops; k++ {
					switch c := r.Intn(10); {
					case c < 4:
						s := int(atomic.AddInt64(&next, 1))
						if s <= len(w.subs) {
							res := w.subscribe(s)
							if res["errors"] == nil {
								atomic.StoreInt32(&subscribed[s], 1)
							}
						}
					case c < 8:
						_, _ = w.root.AddEvent(u.Ids[r.Intn(len(u.Ids))], w.evObj[evNames[r.Intn(len(evNames))]][p%2])
					default:
						ids := append([]string{"*"}, u.Ids...)
						w.root.Unsubscribe(ids[r.Intn(len(ids))])
					}
				}
			}(g+1, seeds[g])
		}
		done := make(chan struct{})
		close(start)
		go func() { wg.Wait(); close(done) }()
		select {
		case <-done:
		case <-time.After(30 * time.Second):
			rep.Mismatch(vh.Mismatch{Case: it, What: "goroutines did not finish within 30s: deadlock"})
			rep.Emit()
			os.Exit(0)
		}
		inReg := map[int]bool{}
		for _, s := range w.reg() {
			if inReg[s] {
				rep.Mismatch(vh.Mismatch{Case: it, What: fmt.Sprintf("subscriber %d is registered twice", s)})
			}
			inReg[s] = true
		}
		removedAny := false
		for _, h := range w.subs {
			nc := atomic.LoadInt64(&h.nclean)
			if nc > 1 {
				rep.Mismatch(vh.Mismatch{Case: it, What: fmt.Sprintf("subscriber %d cleaned up %d times", h.s, nc)})
			}
			if nc > 0 {
				removedAny = true
			}
			want := subscribed[h.s] == 1 && nc == 0
			if want != inReg[h.s] {
				rep.Mismatch(vh.Mismatch{Case: it, What: fmt.Sprintf("at quiescence subscriber %d: subscribed=%v cleanups=%d registered=%v", h.s, subscribed[h.s] == 1, nc, inReg[h.s])})
			}
		}
		rep.Case(fmt.Sprintf("%d-%d", vh.Seed(), it), removedAny)
	}
	rep.Sample(map[string]interface{}{"goroutines": *ng, "ops_each": *nops, "runs": *iters})
	rep.Emit()
}
