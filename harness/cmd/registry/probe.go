package main

// probe: operations started from inside the application callbacks of another operation.
//
// A subscriber's Send, Match and clean-up and an event's resolver are application code the registry calls
// while it works on a publish or an unsubscribe. Whenever such a callback runs with the registry lock FREE, a
// second goroutine could run a whole registry operation at that moment - and the callback itself can, on the
// same goroutine, which is what this mode does: the outer operation is paused inside its k-th callback, the
// inner operation runs to its end, the outer one goes on. Everything the subscribers saw is recorded with the
// operation it belongs to; checks/registry.py lays the two operations' blocks out in every order the
// subscribers' own views allow and RegistryTrace.tla says whether at least one of them is a behaviour of
// Registry.tla. (Where every callback runs with the lock held, as in the code this was written against, no
// probe can fire: the mode then reports how many callbacks it found locked, and that is all.)

import (
	"encoding/json"
	"flag"
	"fmt"
	"os"
	"sort"
	"time"

	"github.com/uhn/ggql/pkg/ggql"

	"verifharness/vh"
)

type probeState struct {
	w      *world
	k      int // fire in the k-th callback that finds the lock free (0: never, only count)
	phase  string
	free   int // callbacks of the outer operation that found the registry lock free
	held   int // ... and held
	fired  bool
	at     string
	atS    int
	inner  op
	evMode int
	res    *opResult
	kinds  map[string]int
}

var activeProbe *probeState

func probePhase() string {
	if ps := activeProbe; ps != nil {
		return ps.phase
	}
	return ""
}

func probePoint(kind string, s int) {
	ps := activeProbe
	if ps == nil || ps.phase != "outer" {
		return
	}
	if ps.w.root.VerifSubLockHeld() {
		ps.held++
		return
	}
	ps.free++
	ps.kinds[kind]++
	if ps.free != ps.k || ps.fired {
		return
	}
	ps.fired, ps.at, ps.atS = true, kind, s
	ps.phase = "inner"
	ps.res = runOp(ps.w, ps.inner, ps.evMode)
	ps.phase = "outer"
}

func runOp(w *world, o op, evMode int) *opResult {
	switch o.kind {
	case "sub":
		return &opResult{kind: "sub", result: w.subscribe(o.s)}
	case "unsub":
		return &opResult{kind: "unsub", cnt: w.root.Unsubscribe(o.id)}
	default:
		c, err := w.root.AddEvent(o.id, w.evObj[o.ev][evMode])
		return &opResult{kind: "pub", cnt: c, err: err}
	}
}

type probeOp struct {
	Kind string `json:"kind"`
	S    int    `json:"s,omitempty"`
	ID   string `json:"id,omitempty"`
	Ev   string `json:"ev,omitempty"`
	Cnt  int    `json:"cnt"`
	Err  bool   `json:"err"`
}

type probeRec struct {
	Init  []int                    `json:"init"`
	Outer probeOp                  `json:"outer"`
	Inner probeOp                  `json:"inner"`
	K     int                      `json:"k"`
	At    string                   `json:"at"`
	AtS   int                      `json:"at_s"`
	Log   []map[string]interface{} `json:"log"`
	Reg   []int                    `json:"reg"`
}

func mkProbeOp(o op, r *opResult) probeOp {
	po := probeOp{Kind: o.kind, S: o.s, ID: o.id, Ev: o.ev}
	if r != nil {
		po.Cnt = r.cnt
		po.Err = r.err != nil || (r.result != nil && r.result["errors"] != nil)
	}
	return po
}

// probeRun runs outer on a fresh world with the given initial registry; inner is started in the k-th
// unlocked callback.
func probeRun(u *Universe, init []int, outer, inner op, k, evMode int) (ps *probeState, rec *probeRec, problem string) {
	w := newWorld(u)
	w.shared = false
	for _, s := range init {
		if r := w.subscribe(s); r["errors"] != nil {
			return nil, nil, "initial subscribe failed: " + vh.JS(r)
		}
	}
	w.takeLog()
	ps = &probeState{w: w, k: k, phase: "outer", inner: inner, evMode: evMode, kinds: map[string]int{}}
	activeProbe = ps
	done := make(chan *opResult, 1)
	go func() { done <- runOp(w, outer, evMode) }()
	var ores *opResult
	select {
	case ores = <-done:
	case <-time.After(10 * time.Second):
		activeProbe = nil
		return ps, nil, "the operations did not return within 10s (the inner one was started with the registry lock free)"
	}
	activeProbe = nil
	rec = &probeRec{Init: init, Outer: mkProbeOp(outer, ores), Inner: mkProbeOp(inner, ps.res), K: k, At: ps.at, AtS: ps.atS, Reg: w.reg()}
	for _, le := range w.takeLog() {
		e := map[string]interface{}{"op": le.Op, "kind": le.Kind, "s": le.S}
		if le.Kind == "send" {
			e["msg"] = msgToModel(u, le.S, le.Msg)
		}
		rec.Log = append(rec.Log, e)
	}
	return ps, rec, ""
}

func cmdProbe(args []string) {
	fs := flag.NewFlagSet("probe", flag.ExitOnError)
	up := fs.String("universe", "", "universe json")
	outp := fs.String("out", "", "json output: the fired probes")
	maxFired := fs.Int("max", 400, "stop after this many fired probes")
	_ = fs.Parse(args)
	var u Universe
	vh.ReadJSON(*up, &u)
	rep := vh.NewReport("registry", "probe")
	ggql.VerifHook = nil
	evNames := []string{}
	for e := range u.EvVals {
		evNames = append(evNames, e)
	}
	sort.Strings(evNames)
	var inits [][]int
	for _, in := range [][]int{{1}, {1, 2}, {1, 2, 3}, {3, 1}, {2, 1, 3, 4}, {3, 2, 1}} {
		fits := true
		for _, s := range in {
			if s > len(u.Pool) {
				fits = false
			}
		}
		if fits {
			inits = append(inits, in)
		}
	}
	var outers, inners []op
	for _, id := range append([]string{"*"}, u.Ids...) {
		outers = append(outers, op{kind: "unsub", id: id})
	}
	for _, id := range u.Ids {
		outers = append(outers, op{kind: "pub", id: id, ev: evNames[0]})
	}
	inners = append(inners, outers...)
	var fired []*probeRec
	runs, callbacks, free := 0, 0, 0
	kinds := map[string]int{}
	for _, init := range inits {
		inInit := map[int]bool{}
		for _, s := range init {
			inInit[s] = true
		}
		myInners := append([]op{}, inners...)
		for s := 1; s <= len(u.Pool); s++ {
			if !inInit[s] {
				myInners = append(myInners, op{kind: "sub", s: s})
				break
			}
		}
		for _, outer := range outers {
			for evMode := 0; evMode < 2; evMode++ {
				ps, _, problem := probeRun(&u, init, outer, op{}, 0, evMode)
				runs++
				if problem != "" {
					rep.Mismatch(vh.Mismatch{Case: map[string]interface{}{"init": init, "outer": fmt.Sprint(outer)}, What: problem})
					continue
				}
				callbacks += ps.held + ps.free
				free += ps.free
				for k, n := range ps.kinds {
					kinds[k] += n
				}
				rep.Case(vh.JS([]interface{}{init, fmt.Sprint(outer), evMode}), ps.held > 0)
				for k := 1; k <= ps.free && len(fired) < *maxFired; k++ {
					for _, inner := range myInners {
						ps2, rec, problem := probeRun(&u, init, outer, inner, k, evMode)
						runs++
						if problem != "" {
							rep.Mismatch(vh.Mismatch{Case: map[string]interface{}{"init": init, "outer": fmt.Sprint(outer), "inner": fmt.Sprint(inner), "k": k}, What: problem})
							continue
						}
						if ps2.fired {
							fired = append(fired, rec)
						}
					}
				}
			}
		}
	}
	rep.Extra["probe_runs"] = runs
	rep.Extra["callbacks_seen"] = callbacks
	rep.Extra["callbacks_with_lock_free"] = free
	rep.Extra["callbacks_with_lock_free_by_kind"] = kinds
	rep.Extra["probes_fired"] = len(fired)
	fh, err := os.Create(*outp)
	if err != nil {
		vh.Die("%s", err)
	}
	_ = json.NewEncoder(fh).Encode(map[string]interface{}{
		"universe": map[string]interface{}{"b": "universe", "pool": u.Pool, "selKeys": u.SelKeys, "evVals": u.EvVals, "ids": u.Ids},
		"fired":    fired,
	})
	fh.Close()
	rep.Emit()
}
