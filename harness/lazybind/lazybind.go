// Package lazybind is the Go side of spec/LazyBind.tla (property C12): cold
// roots over the universes U-lazy (spec/LazyUniverse.tla, Go types in
// lazyuni) and U-exec (spec/ExecUniverse.tla, Go types in gq/refluni), a
// goroutine runner that starts N requests at the same instant on one root, and
// helpers to compare responses.
//
// Everything the goroutines share besides the ggql root is immutable after
// construction and nothing here takes a lock while requests run: extra
// synchronisation inside resolvers would order the goroutines and blind the
// race detector for the code under test.
package lazybind

import (
	"sync"
	"encoding/json"
	"fmt"
	"io"
	"runtime"
	"sort"
	"strconv"
	"strings"
	"sync/atomic"
	"time"

	"github.com/uhn/ggql/pkg/ggql"

	"verifharness/gq"
	"verifharness/gq/refluni"
	"verifharness/lazybind/lazyuni"
)

// ---------------------------------------------------------------- U-lazy

// StrSet is a set of strings that TLC prints as a JSON array.
type StrSet []string

func (s StrSet) Has(x string) bool {
	for _, e := range s {
		if e == x {
			return true
		}
	}
	return false
}

// World is one world of U-lazy.
type World struct {
	SDL      string     `json:"sdl"`
	Register [][]string `json:"register"`
	Scan     []string   `json:"scan"`
	Objs     StrSet     `json:"objs"`
}

// Visit is one visit of a request's program (LazyBind.tla).
type Visit struct {
	K string `json:"k"`
	O string `json:"o"`
	A string `json:"a"`
	T string `json:"T"`
	F string `json:"f"`
}

// Req is a request of U-lazy with the response prescribed per outcome.
type Req struct {
	Text   string                  `json:"text"`
	Op     string                  `json:"op"`
	Vars   gq.ValMap               `json:"vars"`
	Visits []Visit                 `json:"visits"`
	Resp   map[string]*gq.Response `json:"resp"`
}

type LazyUni struct {
	Worlds map[string]*World `json:"worlds"`
	Reqs   map[string]*Req   `json:"reqs"`
	ReqSeq []string          `json:"reqSeq"`
}

// LabelCode says where a labelled access of the model lives in the code.
type LabelCode struct {
	Fn  string   `json:"fn"`
	K   string   `json:"k"`
	Var string   `json:"var"`
	Dev string   `json:"dev"`
	Src []string `json:"src"`
}

// Export is the "@@UNI" line of MCLazyBind.
type Export struct {
	Uni    LazyUni              `json:"uni"`
	Labels map[string]LabelCode `json:"labels"`
}

// NewLazyRoot builds a cold root for a world of U-lazy: schema loaded, declared
// registrations made, nothing resolved yet.
func NewLazyRoot(w *World) (*ggql.Root, error) {
	root := ggql.NewRoot(lazyuni.NewSchema())
	if err := root.ParseString(w.SDL); err != nil {
		return nil, fmt.Errorf("U-lazy schema rejected: %w\n%s", err, w.SDL)
	}
	for _, r := range w.Register {
		if len(r) != 2 {
			return nil, fmt.Errorf("bad register entry %v", r)
		}
		s := lazyuni.Sample(r[0])
		if s == nil {
			return nil, fmt.Errorf("no Go type %s", r[0])
		}
		if err := root.RegisterType(s, r[1]); err != nil {
			return nil, err
		}
	}
	return root, nil
}

// CheckWorld verifies the facts about the real root that the universe states
// and the model relies on: the scan order is the order of the object types in
// Root.types (getReflectType and implementor walk that list).
func CheckWorld(w *World) error {
	root, err := NewLazyRoot(w)
	if err != nil {
		return err
	}
	var real []string
	for _, t := range root.Types() {
		if o, ok := t.(*ggql.Object); ok && StrSet(w.Scan).Has(o.Name()) {
			real = append(real, o.Name())
		}
	}
	if strings.Join(real, ",") != strings.Join(w.Scan, ",") {
		return fmt.Errorf("scan order %v is not the order of Root.types %v", w.Scan, real)
	}
	return nil
}

// ---------------------------------------------------------------- U-exec

// ExecWorld realises U-exec with the reflected Go types of gq/refluni, with
// Resolver objects or behind an AnyResolver.  All node objects are built up
// front; ReflResolve only reads.
type ExecWorld struct {
	U     *gq.Universe
	nodes map[string]interface{}
}

// The argument maps the resolvers were handed, and what they held then: the map is the application's once it has
// been given to a resolver (a resolver that works lazily keeps it, a subscription does); nobody writes into it later.
var kept struct {
	mu    sync.Mutex
	items []keptArgs
}

type keptArgs struct {
	at  string
	raw map[string]interface{}
	was string
}

func argsText(args map[string]interface{}) string {
	am := gq.ValMap{}
	for n, a := range args {
		am[n] = gq.ArgToValue(a)
	}
	b, _ := json.Marshal(am)
	return string(b)
}

// ArgsTampered looks at every argument map handed out since the last call and says which one changed ("" if none).
func ArgsTampered() string {
	kept.mu.Lock()
	defer kept.mu.Unlock()
	out := ""
	for _, k := range kept.items {
		if now := argsText(k.raw); now != k.was && out == "" {
			out = fmt.Sprintf("the arguments map handed to the resolver of %s was changed after the call: it was %s, it is %s", k.at, k.was, now)
		}
	}
	kept.items = nil
	return out
}

// ReflResolve implements refluni.Backend without any shared mutable state.
func (w *ExecWorld) ReflResolve(id, field string, args map[string]interface{}) (interface{}, error) {
	if 0 < len(args) {
		kept.mu.Lock()
		if len(kept.items) < 4096 {
			kept.items = append(kept.items, keptArgs{at: id + "." + field, raw: args, was: argsText(args)})
		}
		kept.mu.Unlock()
	}
	if id == "$root" {
		if r, ok := w.U.Roots[field]; ok {
			return w.nodes[r], nil
		}
		return nil, fmt.Errorf("no root %s", field)
	}
	nd, ok := w.U.Data[id]
	if !ok {
		return nil, fmt.Errorf("no node %s", id)
	}
	v, ok := nd[field]
	if !ok {
		return nil, fmt.Errorf("node %s has no field %s", id, field)
	}
	switch v.K {
	case "echo":
		fd := w.U.Types[w.U.NodeType[id]].Fields[field]
		var b strings.Builder
		for _, a := range fd.Args {
			b.WriteString(a.N + "=")
			if av, has := args[a.N]; has {
				b.WriteString(w.U.ValStr(a.Type, gq.ArgToValue(av)))
			} else {
				b.WriteString("-")
			}
			b.WriteString(";")
		}
		return b.String(), nil
	case "err":
		return nil, fmt.Errorf("%s", v.S)
	case "errs":
		var es ggql.Errors
		for i := int64(0); i < v.I; i++ {
			es = append(es, fmt.Errorf("group member %d", i))
		}
		return nil, es
	}
	return w.toGo(v), nil
}

func (w *ExecWorld) toGo(v gq.Value) interface{} {
	switch v.K {
	case "str", "enum":
		return v.S
	case "int":
		return int(v.I)
	case "bool":
		return v.B
	case "node":
		return w.nodes[v.S]
	case "list":
		out := make([]interface{}, 0, len(v.L))
		for _, e := range v.L {
			out = append(out, w.toGo(e))
		}
		return out
	}
	return nil
}

// Kinds of U-exec roots: the reflection strategy with the three ways the Go
// types A, B, C become known, and the two other resolver strategies.
const (
	BindByName = iota
	BindRegister
	BindGoDir
	StratIface // every node implements ggql.Resolver
	StratAny   // untyped nodes behind Root.AnyResolver
	NumRootKinds
)

var RootKindNames = []string{"refl-byname", "refl-register", "refl-godir", "iface", "any"}

// resNode is a node realised as a ggql.Resolver; anyNode one behind the root's AnyResolver.
type resNode struct {
	w  *ExecWorld
	id string
}

func (n *resNode) Resolve(field *ggql.Field, args map[string]interface{}) (interface{}, error) {
	if n.id == "$root" {
		return n.w.ReflResolve("$root", field.Name, nil)
	}
	return n.w.ReflResolve(n.id, field.Name, args)
}

type anyNode struct{ id string }

type anyRes struct{ w *ExecWorld }

func (r *anyRes) Resolve(obj interface{}, field *ggql.Field, args map[string]interface{}) (interface{}, error) {
	n, ok := obj.(*anyNode)
	if !ok {
		return nil, fmt.Errorf("AnyResolver asked to resolve %s on a %T", field.Name, obj)
	}
	if n.id == "$root" {
		return r.w.ReflResolve("$root", field.Name, nil)
	}
	return r.w.ReflResolve(n.id, field.Name, args)
}

func (r *anyRes) Len(list interface{}) int {
	if l, ok := list.([]interface{}); ok {
		return len(l)
	}
	return 0
}

func (r *anyRes) Nth(list interface{}, i int) (interface{}, error) {
	if l, ok := list.([]interface{}); ok && 0 <= i && i < len(l) {
		return l[i], nil
	}
	return nil, fmt.Errorf("bad list access")
}

// NewExecRoot builds a cold root over U-exec.
func NewExecRoot(u *gq.Universe, kind int) (*ggql.Root, error) {
	w := &ExecWorld{U: u, nodes: map[string]interface{}{}}
	var root *ggql.Root
	switch kind {
	case StratIface:
		for id := range u.NodeType {
			w.nodes[id] = &resNode{w: w, id: id}
		}
		root = ggql.NewRoot(&resNode{w: w, id: "$root"})
	case StratAny:
		for id := range u.NodeType {
			w.nodes[id] = &anyNode{id: id}
		}
		root = ggql.NewRoot(&anyNode{id: "$root"})
		root.AnyResolver = &anyRes{w: w}
	default:
		for id, tn := range u.NodeType {
			w.nodes[id] = refluni.New(w, tn, id)
		}
		root = ggql.NewRoot(&refluni.Schema{B: w})
	}
	sdl := u.SDL()
	if kind == BindGoDir {
		for _, tn := range []string{"A", "B", "C"} {
			was := sdl
			sdl = strings.Replace(sdl, "type "+tn+" implements Named {", "type "+tn+" implements Named @go(type: \"refluni."+tn+"\") {", 1)
			if sdl == was {
				sdl = strings.Replace(sdl, "type "+tn+" {", "type "+tn+" @go(type: \"refluni."+tn+"\") {", 1)
			}
		}
	}
	if err := root.ParseString(sdl); err != nil {
		return nil, fmt.Errorf("U-exec schema rejected: %w\n%s", err, sdl)
	}
	if kind == BindRegister {
		for _, tn := range []string{"A", "B", "C", "Query", "Mutation"} {
			if _, ok := u.Types[tn]; ok {
				if err := root.RegisterType(refluni.New(w, tn, ""), tn); err != nil {
					return nil, err
				}
			}
		}
	}
	return root, nil
}

// ---------------------------------------------------------------- requests

// Request is what one goroutine sends.
type Request struct {
	Name string
	Text string
	Op   string
	Vars gq.ValMap
}

var runCount int64

type onlyReader struct{ io.Reader }

// Run parses and resolves the request on root (Root.ResolveString, the same
// entry point a server uses) with its own copy of the variables.
func (r *Request) Run(root *ggql.Root) map[string]interface{} {
	// every other call hands the request over as a plain io.Reader (what an HTTP body is): no ReadByte, no Len
	if atomic.AddInt64(&runCount, 1)%2 == 0 {
		return root.ResolveReader(onlyReader{strings.NewReader(r.Text)}, r.Op, gq.VarsToGo(r.Vars))
	}
	return root.ResolveString(r.Text, r.Op, gq.VarsToGo(r.Vars))
}

// Canon renders a response deterministically (map keys sorted).
func Canon(v interface{}) string {
	var b strings.Builder
	canon(&b, v)
	return b.String()
}

func canon(b *strings.Builder, v interface{}) {
	switch x := v.(type) {
	case nil:
		b.WriteString("null")
	case map[string]interface{}:
		keys := make([]string, 0, len(x))
		for k := range x {
			keys = append(keys, k)
		}
		sort.Strings(keys)
		b.WriteString("{")
		for i, k := range keys {
			if i > 0 {
				b.WriteString(",")
			}
			b.WriteString(strconv.Quote(k) + ":")
			canon(b, x[k])
		}
		b.WriteString("}")
	case []interface{}:
		b.WriteString("[")
		for i, e := range x {
			if i > 0 {
				b.WriteString(",")
			}
			canon(b, e)
		}
		b.WriteString("]")
	case string:
		b.WriteString(strconv.Quote(x))
	default:
		fmt.Fprintf(b, "%T(%v)", v, v)
	}
}

// CanonResponse is Canon with the error list sorted: the order in which ggql
// reports independent errors of one request is not part of the response's identity.
func CanonResponse(res map[string]interface{}) string {
	cp := map[string]interface{}{}
	for k, v := range res {
		cp[k] = v
	}
	if el, ok := res["errors"].([]interface{}); ok {
		ss := make([]string, 0, len(el))
		for _, e := range el {
			ss = append(ss, Canon(e))
		}
		sort.Strings(ss)
		cp["errors"] = "sorted:" + strings.Join(ss, ";")
	}
	return Canon(cp)
}

// ---------------------------------------------------------------- runner

// Outcome of one goroutine of an iteration.
type Outcome struct {
	Results []map[string]interface{} // one per request of the goroutine's program
	Panic   string
}

// RunConcurrently starts one goroutine per program on the same root; all of them
// are released at the same instant.  Each goroutine resolves its requests one
// after the other.  It returns false if they did not all finish within the
// timeout (deadlock watchdog); the stacks of all goroutines are returned then.
func RunConcurrently(root *ggql.Root, programs [][]*Request, timeout time.Duration) (outs []Outcome, finished bool, stacks string) {
	outs = make([]Outcome, len(programs))
	start := make(chan struct{})
	done := make(chan int, len(programs))
	for i := range programs {
		go func(i int) {
			defer func() {
				if r := recover(); r != nil {
					buf := make([]byte, 4096)
					n := runtime.Stack(buf, false)
					outs[i].Panic = fmt.Sprintf("%v\n%s", r, buf[:n])
				}
				done <- i
			}()
			<-start
			for _, rq := range programs[i] {
				outs[i].Results = append(outs[i].Results, rq.Run(root))
			}
		}(i)
	}
	close(start)
	timer := time.NewTimer(timeout)
	defer timer.Stop()
	for n := 0; n < len(programs); n++ {
		select {
		case <-done:
		case <-timer.C:
			buf := make([]byte, 1<<20)
			k := runtime.Stack(buf, true)
			return outs, false, string(buf[:k])
		}
	}
	return outs, true, ""
}
