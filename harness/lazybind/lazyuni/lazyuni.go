// Package lazyuni is the Go realisation of the universe U-lazy
// (spec/LazyUniverse.tla): plain structs and methods that ggql binds by
// reflection on first use.  Only the shape is written here (reflection cannot
// create methods); which GraphQL type each Go type realises, the requests and
// the prescribed responses are defined in the TLA+ module.
//
// The GraphQL object type Canine is realised by the Go type Dog on purpose:
// the names differ, so the binding has to be declared (@go, RegisterType) or
// is only learned when a Dog is met in a Canine-typed position.
//
// Nothing in this package synchronises: a resolver that took a lock would add
// happens-before edges between the goroutines of a stress run and hide races
// of the code under test from the race detector.
package lazyuni

import "strings"

type Schema struct{ Q *Query }

func (s *Schema) Query() *Query { return s.Q }

type Query struct {
	D *Dog
	C *Cat
}

func (q *Query) Title() string { return "T" }
func (q *Query) Echo(s string, i int32) string {
	return s + "/" + itoa(int(i))
}
func (q *Query) Dog() *Dog          { return q.D }
func (q *Query) Cat() *Cat          { return q.C }
func (q *Query) Pet() interface{}   { return q.C }
func (q *Query) Stray() interface{} { return q.D }
func (q *Query) Any() interface{}   { return q.C }
func (q *Query) Any2() interface{}  { return q.D }
func (q *Query) Odd() interface{}   { return &Other{X: 1} }

type Dog struct{ Name string }

func (d *Dog) Bark(times int32) string {
	w := make([]string, 0, times)
	for i := int32(0); i < times; i++ {
		w = append(w, "woof")
	}
	return strings.Join(w, " ")
}

type Cat struct {
	Name  string
	Lives int
}

type Other struct{ X int }

// NewSchema returns a fresh root object (nothing is shared between two of them).
func NewSchema() *Schema {
	return &Schema{Q: &Query{D: &Dog{Name: "rex"}, C: &Cat{Name: "tom", Lives: 9}}}
}

// Sample returns a value of the named Go type, for Root.RegisterType.
func Sample(goType string) interface{} {
	switch goType {
	case "Schema":
		return &Schema{}
	case "Query":
		return &Query{}
	case "Dog":
		return &Dog{}
	case "Cat":
		return &Cat{}
	case "Other":
		return &Other{}
	}
	return nil
}

func itoa(i int) string {
	if i == 0 {
		return "0"
	}
	neg := i < 0
	if neg {
		i = -i
	}
	var b [20]byte
	p := len(b)
	for i > 0 {
		p--
		b[p] = byte('0' + i%10)
		i /= 10
	}
	if neg {
		p--
		b[p] = '-'
	}
	return string(b[p:])
}
