package sch

import (
	"fmt"
	"math/rand"

	"verifharness/gq"
)

// Gen generates random well-formed definition sets (valid by construction) and
// random load histories over them (conformance direction B of the schema family).
type Gen struct {
	R *rand.Rand
}

func named(n string) *gq.TRef    { return &gq.TRef{K: "named", N: n} }
func listOf(t *gq.TRef) *gq.TRef { return &gq.TRef{K: "list", Of: t} }
func nonNull(t *gq.TRef) *gq.TRef {
	if t.K == "nonnull" {
		return t
	}
	return &gq.TRef{K: "nonnull", Of: t}
}

func baseDef(kind, name string) Def {
	return Def{Kind: kind, Name: name, Ifaces: []string{}, Fields: []FieldD{}, Members: []string{}, Values: []EV{},
		InFields: []ArgD{}, Args: []ArgD{}, Locs: []string{}, Dirs: []DU{}, Roots: []RootD{}}
}

func (g *Gen) wrap(t *gq.TRef) *gq.TRef {
	switch g.R.Intn(6) {
	case 0:
		return nonNull(t)
	case 1:
		return listOf(t)
	case 2:
		return nonNull(listOf(nonNull(t)))
	case 3:
		return listOf(listOf(t))
	}
	return t
}

func (g *Gen) pick(xs []string) string { return xs[g.R.Intn(len(xs))] }

var scalars = []string{"String", "Int", "Boolean", "ID", "Float"}

func (g *Gen) defaultFor(t *gq.TRef, enums map[string][]string) (bool, gq.Value) {
	if g.R.Intn(3) != 0 || t.K != "named" {
		return false, gq.Null()
	}
	switch t.N {
	case "String":
		return true, gq.Str(fmt.Sprintf("s%d", g.R.Intn(5)))
	case "Int":
		return true, gq.Int(int64(g.R.Intn(100) - 50))
	case "Boolean":
		return true, gq.Bool(g.R.Intn(2) == 0)
	}
	if vs, ok := enums[t.N]; ok {
		return true, gq.Value{K: "enum", S: g.pick(vs)}
	}
	return false, gq.Null()
}

func (g *Gen) desc() string {
	if g.R.Intn(4) == 0 {
		return fmt.Sprintf("about %d", g.R.Intn(9))
	}
	return ""
}

// Defs returns a random well-formed definition set.
func (g *Gen) Defs() []Def {
	var defs []Def
	enums := map[string][]string{}
	var enumNames, inputNames, ifaceNames, objNames, unionNames, scalarNames []string
	for i := 0; i < 1+g.R.Intn(2); i++ {
		d := baseDef("ENUM", fmt.Sprintf("E%d", i))
		d.Desc = g.desc()
		for v := 0; v < 1+g.R.Intn(3); v++ {
			ev := EV{N: fmt.Sprintf("V%d%d", i, v), Desc: g.desc(), Dirs: []DU{}}
			if g.R.Intn(6) == 0 {
				ev.Dirs = append(ev.Dirs, DU{N: "deprecated", Args: []AV{}})
			}
			d.Values = append(d.Values, ev)
			enums[d.Name] = append(enums[d.Name], ev.N)
		}
		enumNames = append(enumNames, d.Name)
		defs = append(defs, d)
	}
	if g.R.Intn(2) == 0 {
		d := baseDef("SCALAR", "Sc0")
		scalarNames = append(scalarNames, d.Name)
		defs = append(defs, d)
	}
	inTypes := func() []string { return append(append(append([]string{}, scalars...), enumNames...), inputNames...) }
	args := func(n int, prefix string) []ArgD {
		out := []ArgD{}
		for a := 0; a < n; a++ {
			t := g.wrap(named(g.pick(inTypes())))
			hd, dv := g.defaultFor(t, enums)
			out = append(out, ArgD{N: fmt.Sprintf("%s%d", prefix, a), Desc: g.desc(), Type: t, HasDef: hd, Def: dv, Dirs: []DU{}})
		}
		return out
	}
	for i := 0; i < 1+g.R.Intn(2); i++ {
		d := baseDef("INPUT_OBJECT", fmt.Sprintf("N%d", i))
		d.InFields = args(1+g.R.Intn(3), "f")
		inputNames = append(inputNames, d.Name)
		defs = append(defs, d)
	}
	ifaceFields := map[string][]FieldD{}
	for i := 0; i < g.R.Intn(3); i++ {
		d := baseDef("INTERFACE", fmt.Sprintf("I%d", i))
		d.Desc = g.desc()
		for f := 0; f < 1+g.R.Intn(2); f++ {
			d.Fields = append(d.Fields, FieldD{N: fmt.Sprintf("i%d%d", i, f), Desc: g.desc(), Type: g.wrap(named(g.pick(scalars))),
				Args: args(g.R.Intn(2), "a"), Dirs: []DU{}})
		}
		ifaceFields[d.Name] = d.Fields
		ifaceNames = append(ifaceNames, d.Name)
		defs = append(defs, d)
	}
	nobj := 2 + g.R.Intn(3)
	for i := 0; i < nobj; i++ {
		objNames = append(objNames, fmt.Sprintf("O%d", i))
	}
	if g.R.Intn(2) == 0 {
		unionNames = append(unionNames, "U0")
	}
	outTypes := func() []string {
		o := append(append(append(append([]string{}, scalars...), enumNames...), objNames...), ifaceNames...)
		o = append(o, unionNames...)
		return append(o, scalarNames...)
	}
	for i, on := range objNames {
		d := baseDef("OBJECT", on)
		d.Desc = g.desc()
		for _, in := range ifaceNames {
			if g.R.Intn(2) == 0 {
				d.Ifaces = append(d.Ifaces, in)
				d.Fields = append(d.Fields, ifaceFields[in]...)
			}
		}
		for f := 0; f < 1+g.R.Intn(3); f++ {
			fd := FieldD{N: fmt.Sprintf("o%d%d", i, f), Desc: g.desc(), Type: g.wrap(named(g.pick(outTypes()))), Args: args(g.R.Intn(3), "a"), Dirs: []DU{}}
			if g.R.Intn(8) == 0 {
				fd.Dirs = append(fd.Dirs, DU{N: "deprecated", Args: []AV{{N: "reason", V: gq.Str("old")}}})
			}
			d.Fields = append(d.Fields, fd)
		}
		defs = append(defs, d)
	}
	for _, un := range unionNames {
		d := baseDef("UNION", un)
		for _, on := range objNames {
			if g.R.Intn(2) == 0 || len(d.Members) == 0 {
				d.Members = append(d.Members, on)
			}
		}
		defs = append(defs, d)
	}
	q := baseDef("OBJECT", "Query")
	for f := 0; f < 1+g.R.Intn(3); f++ {
		q.Fields = append(q.Fields, FieldD{N: fmt.Sprintf("q%d", f), Type: g.wrap(named(g.pick(outTypes()))), Args: args(g.R.Intn(2), "a"), Dirs: []DU{}})
	}
	defs = append(defs, q)
	if g.R.Intn(3) == 0 {
		m := baseDef("OBJECT", "Mutation")
		m.Fields = append(m.Fields, FieldD{N: "m0", Type: named(g.pick(objNames)), Args: args(1, "a"), Dirs: []DU{}})
		defs = append(defs, m)
	}
	// a directive with a defaulted argument, used on some types
	if g.R.Intn(2) == 0 {
		d := baseDef("DIRECTIVE", "mark")
		d.Args = []ArgD{{N: "v", Type: named("Int"), HasDef: true, Def: gq.Int(1), Dirs: []DU{}}, {N: "s", Type: named("String"), Def: gq.Null(), Dirs: []DU{}}}
		d.Locs = []string{"OBJECT", "ENUM", "INTERFACE", "UNION", "INPUT_OBJECT", "SCALAR"}
		for i := range defs {
			if defs[i].Kind != "DIRECTIVE" && g.R.Intn(3) == 0 {
				u := DU{N: "mark", Args: []AV{}}
				switch g.R.Intn(3) {
				case 0:
					u.Args = append(u.Args, AV{N: "v", V: gq.Int(int64(g.R.Intn(9)))})
				case 1:
					u.Args = append(u.Args, AV{N: "s", V: gq.Str("x")})
				}
				defs[i].Dirs = append(defs[i].Dirs, u)
			}
		}
		defs = append(defs, d)
	}
	return defs
}

// shrink moves the last member of d into an extend block (nil if nothing to move).
func shrink(d Def) []Def {
	x := baseDef(d.Kind, d.Name)
	x.Ext = true
	switch {
	case (d.Kind == "OBJECT" || d.Kind == "INTERFACE") && len(d.Fields) > 1 && len(d.Ifaces) == 0:
		x.Fields = []FieldD{d.Fields[len(d.Fields)-1]}
		d.Fields = d.Fields[:len(d.Fields)-1]
	case d.Kind == "ENUM" && len(d.Values) > 1:
		x.Values = []EV{d.Values[len(d.Values)-1]}
		d.Values = d.Values[:len(d.Values)-1]
	case d.Kind == "UNION" && len(d.Members) > 1:
		x.Members = []string{d.Members[len(d.Members)-1]}
		d.Members = d.Members[:len(d.Members)-1]
	case d.Kind == "INPUT_OBJECT" && len(d.InFields) > 1:
		x.InFields = []ArgD{d.InFields[len(d.InFields)-1]}
		d.InFields = d.InFields[:len(d.InFields)-1]
	default:
		return nil
	}
	return []Def{d, x}
}

// History arranges a definition set into 1-3 loads (random order, random extend moves) and
// injects failing definitions into some of them.
func (g *Gen) History() [][]Def {
	defs := g.Defs()
	var pool []Def
	var later []Def
	for _, d := range defs {
		if g.R.Intn(4) == 0 {
			if parts := shrink(d); parts != nil {
				pool = append(pool, parts[0])
				later = append(later, parts[1])
				continue
			}
		}
		pool = append(pool, d)
	}
	g.R.Shuffle(len(pool), func(i, j int) { pool[i], pool[j] = pool[j], pool[i] })
	n := 1 + g.R.Intn(3)
	docs := make([][]Def, n)
	for i, d := range pool {
		k := 0
		if n > 1 {
			k = i * n / len(pool)
			if g.R.Intn(5) == 0 {
				k = g.R.Intn(n)
			}
		}
		docs[k] = append(docs[k], d)
	}
	for _, x := range later {
		k := g.R.Intn(n)
		docs[k] = append(docs[k], x)
	}
	var out [][]Def
	for _, d := range docs {
		if len(d) == 0 {
			continue
		}
		// a failing load before the real one
		if g.R.Intn(3) == 0 {
			bad := append([]Def{}, d...)
			at := g.R.Intn(len(bad) + 1)
			var f Def
			switch g.R.Intn(6) {
			case 0:
				f = baseDef("SYNTAX", "")
			case 1:
				f = baseDef("READFAULT", "")
			case 2:
				f = baseDef("OBJECT", "Zz")
				f.Fields = []FieldD{{N: "q", Type: named("NoSuchType"), Args: []ArgD{}, Dirs: []DU{}}}
			case 3:
				f = baseDef("OBJECT", "Zz") // empty object
			case 4:
				f = baseDef("OBJECT", "NoSuchTypeToExtend")
				f.Ext = true
				f.Fields = []FieldD{{N: "q", Type: named("Int"), Args: []ArgD{}, Dirs: []DU{}}}
			case 5:
				f = baseDef("INPUT_OBJECT", "Zi")
				f.InFields = []ArgD{{N: "o", Type: named("Query"), Def: gq.Null(), Dirs: []DU{}}}
			}
			bad = append(bad[:at], append([]Def{f}, bad[at:]...)...)
			out = append(out, bad)
		}
		out = append(out, d)
	}
	return out
}
