package sch

import (
	"fmt"
	"sort"
	"strings"

	"github.com/uhn/ggql/pkg/ggql"
	"verifharness/gq"
)

// IntrospectionQuery is the full introspection request; %s is the includeDeprecated argument.
const introspectionQuery = `query Intro {
  __schema {
    queryType { name } mutationType { name } subscriptionType { name }
    types {
      kind name description
      fields(includeDeprecated: %[1]s) { name description args { ...IV } type { ...TR } isDeprecated deprecationReason }
      inputFields { ...IV }
      interfaces { ...TR }
      enumValues(includeDeprecated: %[1]s) { name description isDeprecated deprecationReason }
      possibleTypes { ...TR }
    }
    directives { name description locations args { ...IV } }
  }
}
fragment IV on __InputValue { name description type { ...TR } defaultValue }
fragment TR on __Type { kind name ofType { kind name ofType { kind name ofType { kind name ofType { kind name } } } } }
`

func m(x interface{}) map[string]interface{} {
	r, _ := x.(map[string]interface{})
	return r
}

func l(x interface{}) []interface{} {
	r, _ := x.([]interface{})
	return r
}

func str(x interface{}) string {
	s, _ := x.(string)
	return s
}

// typeView renders a __Type reference the way Introspect!TypeView does.
func typeView(t map[string]interface{}) string {
	if t == nil {
		return "<nil>"
	}
	var rec func(t map[string]interface{}) (string, string)
	rec = func(t map[string]interface{}) (string, string) {
		switch str(t["kind"]) {
		case "LIST":
			s, k := rec(m(t["ofType"]))
			return "[" + s + "]", k
		case "NON_NULL":
			s, k := rec(m(t["ofType"]))
			return s + "!", k
		}
		return str(t["name"]), str(t["kind"])
	}
	s, k := rec(t)
	return s + ":" + k
}

func argsView(args []interface{}) map[string]interface{} {
	out := map[string]interface{}{}
	for _, a := range args {
		am := m(a)
		tv := typeView(m(am["type"]))
		out[str(am["name"])] = map[string]interface{}{"desc": str(am["description"]), "type": tv, "def": defView(am["defaultValue"], tv)}
	}
	return out
}

// defView reads a defaultValue back: the value the text denotes, as Introspect!ArgsView has it.  A default of a String or
// ID position is given as it is (ggql's tests pin that), every other default as a schema would write it.
func defView(x interface{}, typeView string) interface{} {
	if x == nil {
		return gq.Null()
	}
	text, ok := x.(string)
	if !ok {
		return map[string]interface{}{"k": "other", "v": fmt.Sprintf("defaultValue is no String: %T:%v", x, x)}
	}
	base := typeView // (a view that has no ":" is that of a corrupt answer: it shows as a difference elsewhere)
	if i := strings.Index(typeView, ":"); i >= 0 {
		base = typeView[:i]
	}
	base = strings.TrimSuffix(base, "!")
	if base == "String" || base == "ID" {
		return gq.Str(text)
	}
	v, err := ggql.ParseValueString(text)
	if err != nil {
		return map[string]interface{}{"k": "other", "v": fmt.Sprintf("defaultValue %q is not the text of a value: %v", text, err)}
	}
	return gq.ArgToValue(v)
}

func names2(ts []interface{}) []interface{} {
	out := []interface{}{}
	for _, t := range ts {
		out = append(out, str(m(t)["name"]))
	}
	sort.Slice(out, func(i, j int) bool { return out[i].(string) < out[j].(string) })
	return out
}

func reason(x interface{}) interface{} {
	if x == nil {
		return map[string]interface{}{"k": "null", "v": float64(0)}
	}
	if s, ok := x.(string); ok {
		return map[string]interface{}{"k": "str", "v": s}
	}
	return map[string]interface{}{"k": "other", "v": fmt.Sprintf("%T:%v", x, x)}
}

var introCore = map[string]bool{"__Type": true, "__Schema": true, "__Field": true, "__InputValue": true, "__EnumValue": true,
	"__Directive": true, "__TypeKind": true, "__DirectiveLocation": true}
var coreDirs = map[string]bool{"skip": true, "include": true, "deprecated": true, "go": true}

// IntroView runs the introspection request on the root and projects the response onto the
// view of Introspect!IntroView. errs is non-nil if the response carries errors.
// UndeclaredLocs counts the directive locations reported that __DirectiveLocation does not declare (see IntroView).
var UndeclaredLocs int

// PseudoTypes counts the entries of `types` that are no types (see IntroView).
var PseudoTypes int

func IntroView(root *ggql.Root, includeDeprecated bool) (view map[string]interface{}, errs interface{}) {
	inc := "false"
	if includeDeprecated {
		inc = "true"
	}
	res := root.ResolveString(fmt.Sprintf(introspectionQuery, inc), "Intro", nil)
	if res["errors"] != nil {
		errs = res["errors"]
	}
	sc := m(m(res["data"])["__schema"])
	roots := map[string]interface{}{"query": str(m(sc["queryType"])["name"]), "mutation": str(m(sc["mutationType"])["name"]),
		"subscription": str(m(sc["subscriptionType"])["name"])}
	types := map[string]interface{}{}
	for _, t := range l(sc["types"]) {
		tm := m(t)
		name := str(tm["name"])
		if str(tm["kind"]) == "SCHEMA" || name == "" || name == "schema" {
			// known finding SchemaBlockListedAsType: the schema block is kept in the root's type list and comes out of
			// `types` as an OBJECT called "schema"; it is left out of the view and reported on its own (PseudoTypes)
			PseudoTypes++
			continue
		}
		if introCore[name] || builtinScalars[name] {
			continue
		}
		fields := map[string]interface{}{}
		for _, f := range l(tm["fields"]) {
			fm := m(f)
			dep, _ := fm["isDeprecated"].(bool)
			fields[str(fm["name"])] = map[string]interface{}{"desc": str(fm["description"]), "type": typeView(m(fm["type"])),
				"args": argsView(l(fm["args"])), "dep": dep, "reason": reason(fm["deprecationReason"])}
		}
		values := map[string]interface{}{}
		for _, v := range l(tm["enumValues"]) {
			vm := m(v)
			dep, _ := vm["isDeprecated"].(bool)
			values[str(vm["name"])] = map[string]interface{}{"desc": str(vm["description"]), "dep": dep, "reason": reason(vm["deprecationReason"])}
		}
		types[name] = map[string]interface{}{"kind": str(tm["kind"]), "desc": str(tm["description"]), "fields": fields,
			"ifaces": names2(l(tm["interfaces"])), "possible": names2(l(tm["possibleTypes"])), "values": values,
			"infields": argsView(l(tm["inputFields"]))}
	}
	// what __DirectiveLocation declares, as introspection itself reports it
	declaredLocs := map[string]bool{}
	if dl := root.ResolveString(`{ __type(name: "__DirectiveLocation") { enumValues { name } } }`, "", nil); dl["errors"] == nil {
		for _, v := range l(m(m(dl["data"])["__type"])["enumValues"]) {
			declaredLocs[str(m(v)["name"])] = true
		}
	}
	dirs := map[string]interface{}{}
	for _, d := range l(sc["directives"]) {
		dm := m(d)
		name := str(dm["name"])
		if coreDirs[name] {
			continue
		}
		locs := []interface{}{}
		for _, x := range l(dm["locations"]) {
			locs = append(locs, fmt.Sprint(x))
			if len(declaredLocs) > 0 && !declaredLocs[fmt.Sprint(x)] {
				// known finding LocationNotInIntrospectionEnum: a location is the name of a value of __DirectiveLocation
				UndeclaredLocs++
			}
		}
		sort.Slice(locs, func(i, j int) bool { return locs[i].(string) < locs[j].(string) })
		dirs[name] = map[string]interface{}{"desc": str(dm["description"]), "locs": locs, "args": argsView(l(dm["args"]))}
	}
	return map[string]interface{}{"roots": roots, "types": types, "dirs": dirs}, errs
}
