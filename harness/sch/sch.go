// Package sch is the Go side of the type-system specifications
// (spec/SchemaCore.tla, SchemaRules.tla, Loader.tla): abstract definitions as
// exchanged with TLC, their rendering to SDL text, the read-back of a real
// Root into the canonical form of SchemaCore!Canon, and comparison.
package sch

import (
	"encoding/json"
	"fmt"
	"sort"
	"strings"

	"github.com/uhn/ggql/pkg/ggql"

	"verifharness/gq"
)

type AV struct {
	N string   `json:"n"`
	V gq.Value `json:"v"`
}

type DU struct {
	N    string `json:"n"`
	Args []AV   `json:"args"`
}

type ArgD struct {
	N      string   `json:"n"`
	Desc   string   `json:"desc"`
	Type   *gq.TRef `json:"type"`
	HasDef bool     `json:"hasDef"`
	Def    gq.Value `json:"def"`
	Dirs   []DU     `json:"dirs"`
}

type FieldD struct {
	N    string   `json:"n"`
	Desc string   `json:"desc"`
	Type *gq.TRef `json:"type"`
	Args []ArgD   `json:"args"`
	Dirs []DU     `json:"dirs"`
}

type EV struct {
	N    string `json:"n"`
	Desc string `json:"desc"`
	Dirs []DU   `json:"dirs"`
}

type RootD struct {
	Op   string `json:"op"`
	Type string `json:"type"`
}

// Def is one definition of SchemaCore.tla.
type Def struct {
	Kind     string   `json:"kind"`
	Name     string   `json:"name"`
	Desc     string   `json:"desc"`
	Ext      bool     `json:"ext"`
	Ifaces   []string `json:"ifaces"`
	Fields   []FieldD `json:"fields"`
	Members  []string `json:"members"`
	Values   []EV     `json:"values"`
	InFields []ArgD   `json:"infields"`
	Args     []ArgD   `json:"args"`
	Locs     []string `json:"locs"`
	Dirs     []DU     `json:"dirs"`
	Roots    []RootD  `json:"roots"`
}

// ---------------------------------------------------------------- rendering

// GQLQuote writes a string as a single line GraphQL string with escapes ggql's reader understands.
func GQLQuote(s string) string {
	var b strings.Builder
	b.WriteByte('"')
	for _, r := range s {
		switch {
		case r == '"':
			b.WriteString(`\"`)
		case r == '\\':
			b.WriteString(`\\`)
		case r == '\n':
			b.WriteString(`\n`)
		case r == '\t':
			b.WriteString(`\t`)
		case r == '\r':
			b.WriteString(`\r`)
		case r < 0x20:
			b.WriteString(fmt.Sprintf(`\u%04x`, r))
		default:
			b.WriteRune(r)
		}
	}
	b.WriteByte('"')
	return b.String()
}

func descText(d string, indent string) string {
	if d == "" {
		return ""
	}
	return indent + GQLQuote(d) + "\n"
}

func usesText(us []DU) string {
	var b strings.Builder
	for _, u := range us {
		b.WriteString(" @" + u.N)
		if len(u.Args) > 0 {
			var as []string
			for _, a := range u.Args {
				as = append(as, a.N+": "+gq.Lit(a.V))
			}
			b.WriteString("(" + strings.Join(as, ", ") + ")")
		}
	}
	return b.String()
}

func argsText(args []ArgD) string {
	if len(args) == 0 {
		return ""
	}
	var as []string
	for _, a := range args {
		s := ""
		if a.Desc != "" {
			s += GQLQuote(a.Desc) + " "
		}
		s += a.N + ": " + a.Type.String()
		if a.HasDef {
			s += " = " + gq.Lit(a.Def)
		}
		s += usesText(a.Dirs)
		as = append(as, s)
	}
	return "(" + strings.Join(as, ", ") + ")"
}

// SDL renders one definition. SYNTAX renders text that does not parse.
func (d *Def) SDL() string {
	var b strings.Builder
	b.WriteString(descText(d.Desc, ""))
	if d.Ext {
		b.WriteString("extend ")
	}
	switch d.Kind {
	case "SYNTAX":
		return "type { oops\n"
	case "OBJECT", "INTERFACE":
		if d.Kind == "OBJECT" {
			b.WriteString("type " + d.Name)
			if len(d.Ifaces) > 0 {
				b.WriteString(" implements " + strings.Join(d.Ifaces, " & "))
			}
		} else {
			b.WriteString("interface " + d.Name)
		}
		b.WriteString(usesText(d.Dirs) + " {\n")
		for _, f := range d.Fields {
			b.WriteString(descText(f.Desc, "  "))
			b.WriteString("  " + f.N + argsText(f.Args) + ": " + f.Type.String() + usesText(f.Dirs) + "\n")
		}
		b.WriteString("}\n")
	case "UNION":
		b.WriteString("union " + d.Name + usesText(d.Dirs) + " = " + strings.Join(d.Members, " | ") + "\n")
	case "ENUM":
		b.WriteString("enum " + d.Name + usesText(d.Dirs) + " {\n")
		for _, v := range d.Values {
			b.WriteString(descText(v.Desc, "  "))
			b.WriteString("  " + v.N + usesText(v.Dirs) + "\n")
		}
		b.WriteString("}\n")
	case "INPUT_OBJECT":
		b.WriteString("input " + d.Name + usesText(d.Dirs) + " {\n")
		for _, f := range d.InFields {
			b.WriteString(descText(f.Desc, "  "))
			b.WriteString("  " + f.N + ": " + f.Type.String())
			if f.HasDef {
				b.WriteString(" = " + gq.Lit(f.Def))
			}
			b.WriteString(usesText(f.Dirs) + "\n")
		}
		b.WriteString("}\n")
	case "SCALAR":
		b.WriteString("scalar " + d.Name + usesText(d.Dirs) + "\n")
	case "DIRECTIVE":
		b.WriteString("directive @" + d.Name + argsText(d.Args) + " on " + strings.Join(d.Locs, " | ") + "\n")
	case "SCHEMA":
		b.WriteString("schema" + usesText(d.Dirs) + " {\n")
		for _, r := range d.Roots {
			b.WriteString("  " + r.Op + ": " + r.Type + "\n")
		}
		b.WriteString("}\n")
	}
	return b.String()
}

// HasCloseFault reports whether the document is to be delivered through ParseFS from a file whose Close fails.
func HasCloseFault(defs []Def) bool {
	for i := range defs {
		if defs[i].Kind == "CLOSEFAULT" {
			return true
		}
	}
	return false
}

// DocText renders a document; faultAt is the byte offset at which a READFAULT
// pseudo definition asks the reader to fail (-1: none).
func DocText(defs []Def) (text string, faultAt int) {
	faultAt = -1
	var b strings.Builder
	for i := range defs {
		if defs[i].Kind == "CLOSEFAULT" {
			continue // (how the document is delivered, not part of its text: see HasCloseFault)
		}
		if defs[i].Kind == "READFAULT" {
			if faultAt < 0 {
				faultAt = b.Len()
			}
			continue
		}
		b.WriteString(defs[i].SDL())
		b.WriteString("\n")
	}
	return b.String(), faultAt
}

// FaultyReader serves text up to a byte offset and then fails.
type FaultyReader struct {
	Text string
	At   int
	pos  int
}

func (r *FaultyReader) Read(p []byte) (int, error) {
	if r.pos >= r.At {
		return 0, fmt.Errorf("injected read failure at offset %d", r.At)
	}
	n := copy(p, r.Text[r.pos:r.At])
	r.pos += n
	return n, nil
}

// ---------------------------------------------------------------- read-back

func tref(t ggql.Type) interface{} {
	switch tt := t.(type) {
	case *ggql.List:
		return map[string]interface{}{"k": "list", "of": tref(tt.Base)}
	case *ggql.NonNull:
		return map[string]interface{}{"k": "nonnull", "of": tref(tt.Base)}
	case nil:
		return map[string]interface{}{"k": "named", "n": "<nil>"}
	}
	return map[string]interface{}{"k": "named", "n": t.Name()}
}

func val(v interface{}) interface{} {
	b, _ := json.Marshal(gq.ArgToValue(v))
	var out interface{}
	_ = json.Unmarshal(b, &out)
	return out
}

type dirDefs map[string][]ArgD

func uses(us []*ggql.DirectiveUse, dd dirDefs) []interface{} {
	out := []interface{}{}
	for _, u := range us {
		args := map[string]interface{}{}
		for k, av := range u.Args {
			if av != nil {
				args[k] = val(av.Value)
			}
		}
		name := "<nil>"
		if u.Directive != nil {
			name = u.Directive.Name()
		}
		// defaults of the directive definition count as given (C16)
		for _, a := range dd[name] {
			if _, has := args[a.N]; !has { // not given: the default, or null without one
				dv := gq.Null()
				if a.HasDef {
					dv = a.Def
				}
				b, _ := json.Marshal(dv)
				var x interface{}
				_ = json.Unmarshal(b, &x)
				args[a.N] = x
			}
		}
		out = append(out, map[string]interface{}{"n": name, "args": args})
	}
	return out
}

func argMap(args []*ggql.Arg, dd dirDefs) map[string]interface{} {
	out := map[string]interface{}{}
	for _, a := range args {
		m := map[string]interface{}{"type": tref(a.Type), "hasDef": a.Default != nil, "desc": a.Desc, "dirs": uses(a.Dirs, dd)}
		if a.Default != nil {
			m["def"] = val(a.Default)
		} else {
			m["def"] = val(nil)
		}
		out[a.N] = m
	}
	return out
}

func fieldMap(fds []*ggql.FieldDef, dd dirDefs) map[string]interface{} {
	out := map[string]interface{}{}
	for _, f := range fds {
		out[f.N] = map[string]interface{}{"type": tref(f.Type), "desc": f.Desc, "args": argMap(f.Args(), dd), "dirs": uses(f.Dirs, dd)}
	}
	return out
}

func names(ts []ggql.Type) []interface{} {
	out := []interface{}{}
	for _, t := range ts {
		if t == nil {
			out = append(out, "<nil>")
			continue
		}
		out = append(out, t.Name())
	}
	return out
}

func emptyDef(kind, desc string) map[string]interface{} {
	return map[string]interface{}{"kind": kind, "desc": desc, "ifaces": []interface{}{}, "members": []interface{}{}, "locs": []interface{}{},
		"fields": map[string]interface{}{}, "values": map[string]interface{}{}, "infields": map[string]interface{}{},
		"args": map[string]interface{}{}, "dirs": []interface{}{}}
}

var builtinScalars = map[string]bool{"String": true, "Int": true, "Float": true, "Float64": true, "Boolean": true, "ID": true, "Time": true, "Int64": true}

// coreDirArgs are the defaults of the directives every root has.
func coreDirDefs() dirDefs {
	return dirDefs{"deprecated": {{N: "reason", HasDef: true, Def: gq.Str("\"No longer supported\"")}}}
}

// ReadBack projects a real root onto the canonical form of SchemaCore!Canon.
func ReadBack(root *ggql.Root) (out map[string]interface{}) {
	// a root whose tables are corrupt (nil entries, dangling members) must show as a difference, not kill the harness
	defer func() {
		if r := recover(); r != nil {
			out = map[string]interface{}{"unreadable": fmt.Sprintf("walking the root's types through the public API panicked: %v", r)}
		}
	}()
	return readBack(root)
}

func readBack(root *ggql.Root) map[string]interface{} {
	dd := coreDirDefs()
	dirs := map[string]interface{}{}
	for _, t := range root.VerifDirectives() {
		d, _ := t.(*ggql.Directive)
		if d == nil || d.Core() {
			continue
		}
		var ads []ArgD
		for _, a := range d.VerifArgs() {
			ad := ArgD{N: a.N, HasDef: a.Default != nil}
			if a.Default != nil {
				ad.Def = gq.ArgToValue(a.Default)
			}
			ads = append(ads, ad)
		}
		dd[d.N] = ads
	}
	for _, t := range root.VerifDirectives() {
		d, _ := t.(*ggql.Directive)
		if d == nil || d.Core() {
			continue
		}
		m := emptyDef("DIRECTIVE", d.Desc)
		locs := []interface{}{}
		for _, l := range d.On {
			locs = append(locs, string(l))
		}
		m["locs"] = locs
		m["args"] = argMap(d.VerifArgs(), dd)
		m["dirs"] = uses(d.Dirs, dd)
		dirs[d.N] = m
	}
	types := map[string]interface{}{}
	for _, t := range root.Types() {
		if t.Core() || builtinScalars[t.Name()] {
			continue
		}
		if _, isSchema := t.(*ggql.Schema); isSchema {
			continue // the schema block is observed through the operation roots
		}
		kind := string(ggql.Locate(t))
		if _, built := t.(*builtScalar); built { // (ggql.Locate knows its own scalar types only)
			kind = "SCALAR"
		}
		m := emptyDef(kind, t.Description())
		m["dirs"] = uses(t.Directives(), dd)
		switch tt := t.(type) {
		case *ggql.Object:
			m["ifaces"] = names(tt.Interfaces)
			m["fields"] = fieldMap(tt.Fields(), dd)
		case *ggql.Interface:
			m["fields"] = fieldMap(tt.Fields(), dd)
		case *ggql.Union:
			m["members"] = names(tt.Members)
		case *ggql.Enum:
			vs := map[string]interface{}{}
			for _, ev := range tt.Values() {
				vs[string(ev.Value)] = map[string]interface{}{"desc": ev.Description, "dirs": uses(ev.Directives, dd)}
			}
			m["values"] = vs
		case *ggql.Input:
			fs := map[string]interface{}{}
			for _, f := range tt.Fields() {
				fm := map[string]interface{}{"type": tref(f.Type), "hasDef": f.Default != nil, "desc": f.Desc, "dirs": uses(f.Dirs, dd), "def": val(f.Default)}
				fs[f.N] = fm
			}
			m["infields"] = fs
		}
		types[t.Name()] = m
	}
	roots := map[string]interface{}{"query": "", "mutation": "", "subscription": ""}
	if s := root.VerifSchema(); s != nil {
		for _, f := range s.Fields() {
			if f.Type != nil {
				roots[f.N] = f.Type.Name()
			}
		}
	}
	return map[string]interface{}{"types": types, "dirs": dirs, "roots": roots}
}

// ------------------------------------------------------------- normalising

// Normalise brings TLC's JSON of a canonical schema and a read-back to one
// shape: empty objects and empty arrays are the same thing, arrays that stand
// for sets are sorted by their JSON text.
func Normalise(x interface{}) interface{} {
	switch v := x.(type) {
	case map[string]interface{}:
		if len(v) == 0 {
			return []interface{}{}
		}
		out := map[string]interface{}{}
		for k, e := range v {
			out[k] = Normalise(e)
		}
		return out
	case []interface{}:
		out := make([]interface{}, len(v))
		for i, e := range v {
			out[i] = Normalise(e)
		}
		return out
	case float64:
		return v
	}
	return x
}

// setKeys are the members of the canonical form that are sets.
var setKeys = map[string]bool{"ifaces": true, "members": true, "locs": true, "dirs": true, "possible": true}

// SortSets sorts set-valued members (after Normalise).
func SortSets(x interface{}) interface{} {
	switch v := x.(type) {
	case map[string]interface{}:
		for k, e := range v {
			e = SortSets(e)
			if arr, ok := e.([]interface{}); ok && setKeys[k] {
				sort.Slice(arr, func(i, j int) bool { return js(arr[i]) < js(arr[j]) })
			}
			v[k] = e
		}
		return v
	case []interface{}:
		for i, e := range v {
			v[i] = SortSets(e)
		}
		return v
	}
	return x
}

func js(x interface{}) string {
	b, _ := json.Marshal(x)
	return string(b)
}

// Diff returns a description of the first differences between two canonical schemas.
func Diff(exp, act interface{}) []string {
	e := SortSets(Normalise(exp))
	a := SortSets(Normalise(act))
	var out []string
	var walk func(path string, x, y interface{})
	walk = func(path string, x, y interface{}) {
		if len(out) >= 5 {
			return
		}
		xm, xok := x.(map[string]interface{})
		ym, yok := y.(map[string]interface{})
		if xok && yok {
			keys := map[string]bool{}
			for k := range xm {
				keys[k] = true
			}
			for k := range ym {
				keys[k] = true
			}
			ks := make([]string, 0, len(keys))
			for k := range keys {
				ks = append(ks, k)
			}
			sort.Strings(ks)
			for _, k := range ks {
				xv, xh := xm[k]
				yv, yh := ym[k]
				switch {
				case !xh:
					out = append(out, fmt.Sprintf("%s.%s: present (%s) but the model has none", path, k, js(yv)))
				case !yh:
					out = append(out, fmt.Sprintf("%s.%s: missing, the model has %s", path, k, js(xv)))
				default:
					walk(path+"."+k, xv, yv)
				}
			}
			return
		}
		if js(x) != js(y) {
			out = append(out, fmt.Sprintf("%s: is %s, the model says %s", path, js(y), js(x)))
		}
	}
	walk("schema", e, a)
	return out
}
