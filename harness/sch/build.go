package sch

// Build turns abstract definitions into ggql types the way an application does that builds
// its schema in Go instead of writing SDL: composite literals with Ref place holders for
// every named type and directive, the Add* methods for members. The result is handed to
// Root.AddTypes (Loader.tla: a load delivered "via types").

import (
	"fmt"
	"strconv"

	"github.com/uhn/ggql/pkg/ggql"

	"verifharness/gq"
)

// GoValue is the Go form the SDL reader gives a value (defaults, directive arguments).
func GoValue(v gq.Value) interface{} {
	switch v.K {
	case "str":
		return v.S
	case "int":
		return v.I
	case "bool":
		return v.B
	case "enum":
		return ggql.Symbol(v.S)
	case "num", "float":
		if i, err := strconv.ParseInt(v.S, 10, 64); err == nil {
			return i
		}
		if f, err := strconv.ParseFloat(v.S, 64); err == nil {
			return f
		}
		return v.S
	case "list":
		out := make([]interface{}, 0, len(v.L))
		for _, e := range v.L {
			out = append(out, GoValue(e))
		}
		return out
	case "obj":
		out := map[string]interface{}{}
		for k, e := range v.O {
			out[k] = GoValue(e)
		}
		return out
	}
	return nil
}

// builtScalar is a scalar as an application defines one in Go: ggql.Scalar embedded, values taken and given as they are
// (a bare ggql.Scalar is neither an input nor an output type).
type builtScalar struct{ ggql.Scalar }

func (s *builtScalar) CoerceIn(v interface{}) (interface{}, error)  { return v, nil }
func (s *builtScalar) CoerceOut(v interface{}) (interface{}, error) { return v, nil }

func ref(n string) ggql.Type { return &ggql.Ref{Base: ggql.Base{N: n}} }

func goType(t *gq.TRef) ggql.Type {
	switch t.K {
	case "list":
		return &ggql.List{Base: goType(t.Of)}
	case "nonnull":
		return &ggql.NonNull{Base: goType(t.Of)}
	}
	return ref(t.N)
}

func goUses(us []DU) []*ggql.DirectiveUse {
	var out []*ggql.DirectiveUse
	for _, u := range us {
		du := &ggql.DirectiveUse{Directive: ref(u.N)}
		if len(u.Args) > 0 {
			du.Args = map[string]*ggql.ArgValue{}
			for _, a := range u.Args {
				if _, dup := du.Args[a.N]; dup {
					return append(out, nil) // reported by the caller
				}
				du.Args[a.N] = &ggql.ArgValue{Arg: a.N, Value: GoValue(a.V)}
			}
		}
		out = append(out, du)
	}
	return out
}

func usesOK(us []*ggql.DirectiveUse) error {
	for _, u := range us {
		if u == nil {
			return fmt.Errorf("a directive use with the same argument twice can not be built in Go (a map)")
		}
	}
	return nil
}

func goArg(a *ArgD) (*ggql.Arg, error) {
	out := &ggql.Arg{Base: ggql.Base{N: a.N, Desc: a.Desc, Dirs: goUses(a.Dirs)}, Type: goType(a.Type)}
	if a.HasDef {
		out.Default = GoValue(a.Def)
	}
	return out, usesOK(out.Dirs)
}

func goField(f *FieldD) (*ggql.FieldDef, error) {
	fd := &ggql.FieldDef{Base: ggql.Base{N: f.N, Desc: f.Desc, Dirs: goUses(f.Dirs)}, Type: goType(f.Type)}
	if err := usesOK(fd.Dirs); err != nil {
		return nil, err
	}
	for i := range f.Args {
		a, err := goArg(&f.Args[i])
		if err == nil {
			err = fd.AddArg(a)
		}
		if err != nil {
			return nil, err
		}
	}
	return fd, nil
}

// ErrNotBuildable marks documents that have no Go form (an unbuildable load is skipped, not judged).
var ErrNotBuildable = fmt.Errorf("not buildable")

// Build returns the types for Root.AddTypes. An error of an Add* method is the refusal of
// the definition at construction time and is returned as such.
func Build(root *ggql.Root, defs []Def) (types []ggql.Type, err error) {
	for i := range defs {
		d := &defs[i]
		if d.Ext || d.Kind == "SCHEMA" || d.Kind == "SYNTAX" || d.Kind == "READFAULT" || d.Kind == "CLOSEFAULT" {
			return nil, ErrNotBuildable
		}
		base := ggql.Base{N: d.Name, Desc: d.Desc, Dirs: goUses(d.Dirs)}
		if err = usesOK(base.Dirs); err != nil {
			return nil, ErrNotBuildable
		}
		switch d.Kind {
		case "OBJECT":
			t := &ggql.Object{Base: base}
			for _, n := range d.Ifaces {
				t.Interfaces = append(t.Interfaces, ref(n))
			}
			for k := range d.Fields {
				var fd *ggql.FieldDef
				if fd, err = goField(&d.Fields[k]); err == nil {
					err = t.AddField(fd)
				}
				if err != nil {
					return nil, err
				}
			}
			types = append(types, t)
		case "INTERFACE":
			t := &ggql.Interface{Base: base} // (Root is left to AddTypes: an application has no reason to know it is needed)
			for k := range d.Fields {
				var fd *ggql.FieldDef
				if fd, err = goField(&d.Fields[k]); err == nil {
					err = t.AddField(fd)
				}
				if err != nil {
					return nil, err
				}
			}
			types = append(types, t)
		case "UNION":
			t := &ggql.Union{Base: base}
			for _, n := range d.Members {
				t.Members = append(t.Members, ref(n))
			}
			types = append(types, t)
		case "ENUM":
			t := &ggql.Enum{Base: base}
			for k := range d.Values {
				v := &d.Values[k]
				ev := &ggql.EnumValue{Value: ggql.Symbol(v.N), Description: v.Desc, Directives: goUses(v.Dirs)}
				if err = usesOK(ev.Directives); err != nil {
					return nil, ErrNotBuildable
				}
				if err = t.AddValue(ev); err != nil {
					return nil, err
				}
			}
			types = append(types, t)
		case "INPUT_OBJECT":
			t := &ggql.Input{Base: base}
			for k := range d.InFields {
				f := &d.InFields[k]
				inf := &ggql.InputField{Base: ggql.Base{N: f.N, Desc: f.Desc, Dirs: goUses(f.Dirs)}, Type: goType(f.Type)}
				if err = usesOK(inf.Dirs); err != nil {
					return nil, ErrNotBuildable
				}
				if f.HasDef {
					inf.Default = GoValue(f.Def)
				}
				if err = t.AddField(inf); err != nil {
					return nil, err
				}
			}
			types = append(types, t)
		case "SCALAR":
			types = append(types, &builtScalar{ggql.Scalar{Base: base}})
		case "DIRECTIVE":
			t := &ggql.Directive{Base: base}
			for _, l := range d.Locs {
				t.On = append(t.On, ggql.Location(l))
			}
			for k := range d.Args {
				var a *ggql.Arg
				if a, err = goArg(&d.Args[k]); err == nil {
					err = t.AddArg(a)
				}
				if err != nil {
					return nil, err
				}
			}
			types = append(types, t)
		default:
			return nil, ErrNotBuildable
		}
	}
	return types, nil
}
