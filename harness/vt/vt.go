// Package vt is the Go side of spec/ValueText.tla (property C18): tagged
// values as they cross the TLC/Go boundary, the lexical alphabet, the named
// numbers, and the conversions between tagged values and the Go values
// ggql's value writers and reader work on.
//
// Nothing in here computes an expectation: texts, read-back values and decoded
// JSON are prescribed by TLC.  This package only translates.
package vt

import (
	"encoding/json"
	"fmt"
	"io"
	"math"
	"sort"
	"strconv"
	"strings"
	"unicode/utf8"

	"github.com/uhn/ggql/pkg/ggql"
)

// Val is a tagged value of spec/ValueText.tla.
type Val struct {
	K     string   // null bool int float str sym var list obj err none
	B     bool     // bool
	Name  string   // int, float: name of the point; err: reason
	Chars []string // str, sym, var: lexical characters
	List  []*Val   // list
	Ents  []Ent    // obj (ordered)
}

type Ent struct {
	Key []string `json:"key"`
	Val *Val     `json:"val"`
}

type rawVal struct {
	K  string    `json:"k"`
	B  *bool     `json:"b,omitempty"`
	N  *string   `json:"n,omitempty"`
	Cs *[]string `json:"cs,omitempty"`
	Xs *[]*Val   `json:"xs,omitempty"`
	Es *[]Ent    `json:"es,omitempty"`
}

// Every tag has payload fields of its own (see spec/ValueText.tla):
// {"k":"null"} {"k":"bool","b":true} {"k":"int","n":"one"} {"k":"str","cs":[..]}
// {"k":"list","xs":[..]} {"k":"obj","es":[{"key":[..],"val":{..}}]} {"k":"err","n":".."}
func (v *Val) UnmarshalJSON(b []byte) error {
	var r rawVal
	if err := json.Unmarshal(b, &r); err != nil {
		return err
	}
	*v = Val{K: r.K}
	need := func(ok bool, f string) error {
		if !ok {
			return fmt.Errorf("value with tag %q lacks field %q", r.K, f)
		}
		return nil
	}
	switch r.K {
	case "null", "none":
	case "bool":
		if err := need(r.B != nil, "b"); err != nil {
			return err
		}
		v.B = *r.B
	case "int", "float", "err":
		if err := need(r.N != nil, "n"); err != nil {
			return err
		}
		v.Name = *r.N
	case "str", "sym", "var":
		if err := need(r.Cs != nil, "cs"); err != nil {
			return err
		}
		v.Chars = append([]string{}, (*r.Cs)...)
	case "list":
		if err := need(r.Xs != nil, "xs"); err != nil {
			return err
		}
		v.List = append([]*Val{}, (*r.Xs)...)
	case "obj":
		if err := need(r.Es != nil, "es"); err != nil {
			return err
		}
		v.Ents = []Ent{}
		for _, e := range *r.Es {
			if e.Key == nil {
				e.Key = []string{}
			}
			if e.Val == nil {
				return fmt.Errorf("map entry without value")
			}
			v.Ents = append(v.Ents, e)
		}
	default:
		return fmt.Errorf("unknown value tag %q", r.K)
	}
	return nil
}

func (v *Val) MarshalJSON() ([]byte, error) {
	m := map[string]interface{}{"k": v.K}
	switch v.K {
	case "bool":
		m["b"] = v.B
	case "int", "float", "err":
		m["n"] = v.Name
	case "str", "sym", "var":
		if v.Chars == nil {
			m["cs"] = []string{}
		} else {
			m["cs"] = v.Chars
		}
	case "list":
		if v.List == nil {
			m["xs"] = []*Val{}
		} else {
			m["xs"] = v.List
		}
	case "obj":
		if v.Ents == nil {
			m["es"] = []Ent{}
		} else {
			m["es"] = v.Ents
		}
	}
	return json.Marshal(m)
}

// Canon is a canonical rendering (map entries in byte order of their keys): two
// values are equal in the sense of the specification iff their Canon is equal.
func (v *Val) Canon(t *Tables) string {
	var b strings.Builder
	v.canon(t, &b)
	return b.String()
}

func (v *Val) canon(t *Tables, b *strings.Builder) {
	switch v.K {
	case "null", "none":
		b.WriteString(v.K)
	case "bool":
		fmt.Fprintf(b, "bool:%v", v.B)
	case "int", "float", "err":
		b.WriteString(v.K + ":" + v.Name)
	case "str", "sym", "var":
		b.WriteString(v.K + ":" + strings.Join(v.Chars, " ") + ";")
	case "list":
		b.WriteString("[")
		for _, x := range v.List {
			x.canon(t, b)
			b.WriteString(",")
		}
		b.WriteString("]")
	case "obj":
		es := append([]Ent{}, v.Ents...)
		sort.SliceStable(es, func(i, j int) bool { return t.Bytes(es[i].Key) < t.Bytes(es[j].Key) })
		b.WriteString("{")
		for _, e := range es {
			b.WriteString(strings.Join(e.Key, " ") + "=>")
			e.Val.canon(t, b)
			b.WriteString(",")
		}
		b.WriteString("}")
	}
}

// ------------------------------------------------------------- tables ----

// Universe is the @@UNI export of spec/MCValueText.tla.
type Universe struct {
	CP       map[string]int      `json:"cp"`
	Bad      []string            `json:"bad"`
	Ints     map[string][]string `json:"ints"`
	Floats   map[string][]string `json:"floats"`
	Syms     [][]string          `json:"syms"`
	Vars     [][]string          `json:"vars"`
	GoodKeys [][]string          `json:"goodKeys"`
	OddKeys  [][]string          `json:"oddKeys"`
	EscKeys  [][]string          `json:"escKeys"`
	SortKeys [][]string          `json:"sortKeys"`
	TokenCh  []string            `json:"tokenCh"`
}

// the harness' own idea of the named numbers (checked against the spelling tables of the spec)
var intPoints = map[string]int64{
	"zero": 0, "one": 1, "two": 2, "m1": -1, "i7": 7, "m7": -7, "i10": 10, "i42": 42,
	"i16max": math.MaxInt16, "i16min": math.MinInt16, "i16over": math.MaxInt16 + 1,
	"i32max": math.MaxInt32, "i32over": math.MaxInt32 + 1, "i32min": math.MinInt32,
	"i53": 1<<53 + 1, "max64": math.MaxInt64, "min64": math.MinInt64,
}

var floatPoints = map[string]float64{
	"f1_5": 1.5, "fm0_5": -0.5, "f0_1": 0.1, "fpi": math.Pi, "f1e300": 1e300, "f1em50": 1e-50, "fm2_5em10": -2.5e-10,
	"f1e21": 1e21, "fden": math.SmallestNonzeroFloat64, "fmax": math.MaxFloat64, "f123456_5": 123456.5,
	"f1234567_5": 1234567.5, "f1em4": 0.0001, "f1em5": 0.00001,
}

// the bytes of the two "bad byte" characters
var badBytes = map[string]byte{"BADC3": 0xC3, "BADFF": 0xFF}

type Tables struct {
	U        *Universe
	byName   map[string]string // character name -> bytes
	byRune   map[rune]string
	intName  map[int64]string
	fltName  map[float64]string
	F32ok    map[string]bool // float points that can be handed over as float32
	CharList []string        // all character names, sorted
	tokenCh  map[string]bool
}

// NewTables checks the universe exported by the specification against the
// harness' own tables (universe drift) and builds the lookup maps.
func NewTables(u *Universe) (*Tables, error) {
	t := &Tables{U: u, byName: map[string]string{}, byRune: map[rune]string{}, intName: map[int64]string{},
		fltName: map[float64]string{}, F32ok: map[string]bool{}, tokenCh: map[string]bool{}}
	for name, cp := range u.CP {
		if !utf8.ValidRune(rune(cp)) {
			return nil, fmt.Errorf("character %s: %#x is not a Unicode scalar value", name, cp)
		}
		if len(name) == 1 && int(name[0]) != cp {
			return nil, fmt.Errorf("character %q is named by itself but has code point %#x", name, cp)
		}
		t.byName[name] = string(rune(cp))
		if other, dup := t.byRune[rune(cp)]; dup {
			return nil, fmt.Errorf("characters %s and %s share code point %#x", name, other, cp)
		}
		t.byRune[rune(cp)] = name
		t.CharList = append(t.CharList, name)
	}
	for _, n := range []string{"QUOTE", "BSL", "SP", "LF", "TAB", "CR", "NUL", "UFFFD"} {
		want := map[string]rune{"QUOTE": '"', "BSL": '\\', "SP": ' ', "LF": '\n', "TAB": '\t', "CR": '\r', "NUL": 0, "UFFFD": 0xFFFD}[n]
		if t.byName[n] != string(want) {
			return nil, fmt.Errorf("character %s is not %q in the specification", n, want)
		}
	}
	for _, b := range u.Bad {
		x, ok := badBytes[b]
		if !ok {
			return nil, fmt.Errorf("unknown bad byte %s", b)
		}
		t.byName[b] = string([]byte{x})
		t.CharList = append(t.CharList, b)
	}
	sort.Strings(t.CharList)
	for _, c := range u.TokenCh {
		t.tokenCh[c] = true
	}
	if len(u.Ints) != len(intPoints) || len(u.Floats) != len(floatPoints) {
		return nil, fmt.Errorf("number tables differ in size: spec %d/%d, harness %d/%d", len(u.Ints), len(u.Floats), len(intPoints), len(floatPoints))
	}
	for name, sp := range u.Ints {
		want, ok := intPoints[name]
		got, err := strconv.ParseInt(t.Bytes(sp), 10, 64)
		if !ok || err != nil || got != want {
			return nil, fmt.Errorf("int point %s: spec spells %q, harness has %d", name, t.Bytes(sp), want)
		}
		t.intName[want] = name
	}
	for name, sp := range u.Floats {
		want, ok := floatPoints[name]
		got, err := strconv.ParseFloat(t.Bytes(sp), 64)
		if !ok || err != nil || got != want {
			return nil, fmt.Errorf("float point %s: spec spells %q, harness has %v", name, t.Bytes(sp), want)
		}
		if want == math.Trunc(want) && math.Abs(want) < 1e15 {
			return nil, fmt.Errorf("float point %s is integral; the property is about non-integral floats", name)
		}
		t.fltName[want] = name
		// handed over as a float32 only when that loses nothing (then "the value" is beyond dispute)
		if float64(float32(want)) == want {
			t.F32ok[name] = true
		}
	}
	return t, nil
}

// Bytes is the text a sequence of lexical characters stands for.
func (t *Tables) Bytes(chars []string) string {
	var b strings.Builder
	for _, c := range chars {
		s, ok := t.byName[c]
		if !ok {
			b.WriteString("<?" + c + ">")
			continue
		}
		b.WriteString(s)
	}
	return b.String()
}

// Known says whether every character name is in the alphabet.
func (t *Tables) Known(chars []string) bool {
	for _, c := range chars {
		if _, ok := t.byName[c]; !ok {
			return false
		}
	}
	return true
}

func (t *Tables) IsTokenCh(c string) bool { return t.tokenCh[c] }

// Chars splits real bytes into lexical characters (lossless: unknown runes and
// bytes get a name of their own, so a text outside the alphabet never compares
// equal to a text of the model).
func (t *Tables) Chars(s string) []string {
	out := []string{}
	for i := 0; i < len(s); {
		r, n := utf8.DecodeRuneInString(s[i:])
		if r == utf8.RuneError && n <= 1 {
			name := fmt.Sprintf("?x%02x", s[i])
			for k, b := range badBytes {
				if b == s[i] {
					if _, ok := t.byName[k]; ok {
						name = k
					}
				}
			}
			out = append(out, name)
			i++
			continue
		}
		if name, ok := t.byRune[r]; ok {
			out = append(out, name)
		} else {
			out = append(out, fmt.Sprintf("?%04x", r))
		}
		i += n
	}
	return out
}

// ------------------------------------------------ tagged value -> Go ----

// Build makes the Go value ggql's writers are given.  rot selects among the Go
// kinds that can hold a number (int, int64, int32, int16 / float64, float32).
func (t *Tables) Build(v *Val, rot *int) (interface{}, error) {
	switch v.K {
	case "null":
		return nil, nil
	case "bool":
		return v.B, nil
	case "int":
		x, ok := intPoints[v.Name]
		if !ok {
			return nil, fmt.Errorf("unknown int point %q", v.Name)
		}
		*rot++
		kinds := []interface{}{int(x), x}
		if x >= math.MinInt32 && x <= math.MaxInt32 {
			kinds = append(kinds, int32(x))
		}
		if x >= math.MinInt16 && x <= math.MaxInt16 {
			kinds = append(kinds, int16(x))
		}
		return kinds[*rot%len(kinds)], nil
	case "float":
		x, ok := floatPoints[v.Name]
		if !ok {
			return nil, fmt.Errorf("unknown float point %q", v.Name)
		}
		*rot++
		if t.F32ok[v.Name] && *rot%3 == 0 {
			return float32(x), nil
		}
		return x, nil
	case "str":
		return t.Bytes(v.Chars), nil
	case "sym":
		return ggql.Symbol(t.Bytes(v.Chars)), nil
	case "var":
		return ggql.Var(t.Bytes(v.Chars)), nil
	case "list":
		out := make([]interface{}, 0, len(v.List))
		for _, x := range v.List {
			g, err := t.Build(x, rot)
			if err != nil {
				return nil, err
			}
			out = append(out, g)
		}
		return out, nil
	case "obj":
		out := map[string]interface{}{}
		for _, e := range v.Ents {
			g, err := t.Build(e.Val, rot)
			if err != nil {
				return nil, err
			}
			k := t.Bytes(e.Key)
			if _, dup := out[k]; dup {
				return nil, fmt.Errorf("duplicate key %q", k)
			}
			out[k] = g
		}
		return out, nil
	}
	return nil, fmt.Errorf("cannot build a Go value from tag %q", v.K)
}

// ------------------------------------------------ Go -> tagged value ----

var ErrVal = &Val{K: "err", Name: "unreadable"}

// FromParsed abstracts what ggql.ParseValueString returned.
func (t *Tables) FromParsed(g interface{}) *Val {
	switch x := g.(type) {
	case nil:
		return &Val{K: "null"}
	case bool:
		return &Val{K: "bool", B: x}
	case int64:
		return t.intVal(x)
	case int:
		return t.intVal(int64(x))
	case int32:
		return t.intVal(int64(x))
	case float64:
		return t.floatVal(x)
	case float32:
		return &Val{K: "float", Name: "?float32:" + strconv.FormatFloat(float64(x), 'g', -1, 32)}
	case string:
		return &Val{K: "str", Chars: t.Chars(x)}
	case ggql.Symbol:
		return &Val{K: "sym", Chars: t.Chars(string(x))}
	case ggql.Var:
		return &Val{K: "var", Chars: t.Chars(string(x))}
	case []interface{}:
		out := &Val{K: "list", List: []*Val{}}
		for _, e := range x {
			out.List = append(out.List, t.FromParsed(e))
		}
		return out
	case map[string]interface{}:
		return t.objVal(x, t.FromParsed)
	case json.Number:
		if i, err := strconv.ParseInt(string(x), 10, 64); err == nil {
			return t.intVal(i)
		}
		if f, err := strconv.ParseFloat(string(x), 64); err == nil {
			return t.floatVal(f)
		}
		return &Val{K: "err", Name: "?number:" + string(x)}
	}
	return &Val{K: "err", Name: fmt.Sprintf("?%T", g)}
}

func (t *Tables) intVal(x int64) *Val {
	if n, ok := t.intName[x]; ok {
		return &Val{K: "int", Name: n}
	}
	return &Val{K: "int", Name: "?" + strconv.FormatInt(x, 10)}
}

func (t *Tables) floatVal(x float64) *Val {
	if n, ok := t.fltName[x]; ok {
		return &Val{K: "float", Name: n}
	}
	return &Val{K: "float", Name: "?" + strconv.FormatFloat(x, 'g', -1, 64)}
}

func (t *Tables) objVal(m map[string]interface{}, conv func(interface{}) *Val) *Val {
	keys := make([]string, 0, len(m))
	for k := range m {
		keys = append(keys, k)
	}
	sort.Strings(keys)
	out := &Val{K: "obj", Ents: []Ent{}}
	for _, k := range keys {
		out.Ents = append(out.Ents, Ent{Key: t.Chars(k), Val: conv(m[k])})
	}
	return out
}

// JSONDecode hands the bytes to encoding/json (numbers kept as text, exactly one
// value allowed) and abstracts the result; ErrVal when encoding/json refuses.
func (t *Tables) JSONDecode(b []byte) (*Val, error) {
	dec := json.NewDecoder(strings.NewReader(string(b)))
	dec.UseNumber()
	var g interface{}
	if err := dec.Decode(&g); err != nil {
		return ErrVal, err
	}
	var extra interface{}
	if err := dec.Decode(&extra); err != io.EOF {
		return ErrVal, fmt.Errorf("data after the first JSON value")
	}
	if !json.Valid(b) {
		return ErrVal, fmt.Errorf("json.Valid says no")
	}
	return t.FromParsed(g), nil
}
