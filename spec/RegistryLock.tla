---------------------------- MODULE RegistryLock ----------------------------
(***************************************************************************)
(* The subscription registry as root.go implements it: one mutex           *)
(* (Root.subLock), the slice Root.subscriptions, and the three code paths  *)
(* subscribe / Unsubscribe / AddEvent transcribed step by step:            *)
(*                                                                         *)
(*   call -> [want lock] -> acquire -> critical section -> release -> ...  *)
(*                                                                         *)
(* The critical sections are transcriptions of the Go loops (index based   *)
(* reverse scan with in-place deletion; removal of failed subscribers by   *)
(* identity), NOT the declarative effects of Registry.tla.  TLC checks     *)
(*   - mutual exclusion and absence of deadlock,                           *)
(*   - that every step of this module is a step of Registry.tla or leaves  *)
(*     its variables unchanged (refinement: property RegistrySpec),        *)
(*   - the real-time guarantees of C20 that need call/return instants      *)
(*     (ReachesSeen, NoDeliveryAfterUnsubReturned),                        *)
(*   - termination of every started call under weak fairness.              *)
(* Dev selects named deviations of the algorithm; with Dev = {} the module *)
(* is the code as it stands.  Each deviation is shown (by a separate TLC   *)
(* run in the thorough tier) to violate a property, which demonstrates     *)
(* that the properties are not vacuous.                                    *)
(***************************************************************************)
EXTENDS Registry

CONSTANT Dev   \* subset of {"ForwardScan", "RemoveFailedByMatch", "NoPhase2Lock", "CleanupOutsideCheck"}

VARIABLES
  lock,        \* 0 or the process holding Root.subLock
  lpc,         \* fine-grained program counter per process
  cur,         \* the operation a process is executing
  subRet,      \* subscribers whose subscription request has returned
  unsubRet,    \* subscribers removed by an Unsubscribe call that has returned
  seen         \* per process: subscribers whose subscribe had returned when its publish was called

lvars == <<vars, lock, lpc, cur, subRet, unsubRet, seen>>
NoOp == [k |-> "none"]

RemoveAt(s, i) == SubSeq(s, 1, i - 1) \o SubSeq(s, i + 1, Len(s))
Count(seq, x) == Cardinality({i \in DOMAIN seq : seq[i] = x})

\* for i := len(subs)-1; 0 <= i; i-- { s := subs[i]; if P(s) { subs = append(subs[:i], subs[i+1:]...); s.Unsubscribe(); cnt++ } }
RECURSIVE RevScan(_, _, _)
RevScan(acc, i, K) ==
  IF i = 0 \/ i > Len(acc.subs) THEN acc
  ELSE LET s == acc.subs[i] IN
       IF s \in K
       THEN RevScan([subs |-> RemoveAt(acc.subs, i), cleaned |-> Append(acc.cleaned, s), cnt |-> acc.cnt + 1], i - 1, K)
       ELSE RevScan(acc, i - 1, K)

\* the same loop written forwards (a classical defect: skips the element after a deleted one)
RECURSIVE FwdScan(_, _, _)
FwdScan(acc, i, K) ==
  IF i > Len(acc.subs) THEN acc
  ELSE LET s == acc.subs[i] IN
       IF s \in K
       THEN FwdScan([subs |-> RemoveAt(acc.subs, i), cleaned |-> Append(acc.cleaned, s), cnt |-> acc.cnt + 1], i + 1, K)
       ELSE FwdScan(acc, i + 1, K)

\* K is the set of subscribers for which the loop's test (Match, or identity) holds
Scan(subs, K) ==
  IF "ForwardScan" \in Dev THEN FwdScan([subs |-> subs, cleaned |-> <<>>, cnt |-> 0], 1, K)
  ELSE RevScan([subs |-> subs, cleaned |-> <<>>, cnt |-> 0], Len(subs), K)

\* for _, f := range failed { reverse scan removing entries identical to f }
RECURSIVE DropFailed(_, _)
DropFailed(acc, fl) ==
  IF fl = <<>> THEN acc
  ELSE LET f == Head(fl)
           r == IF "RemoveFailedByMatch" \in Dev
                THEN RevScan([subs |-> acc.subs, cleaned |-> acc.cleaned, cnt |-> 0], Len(acc.subs),
                             {s \in Subs : Pool[s].pat = Pool[f].pat})
                ELSE RevScan([subs |-> acc.subs, cleaned |-> acc.cleaned, cnt |-> 0], Len(acc.subs),
                             {f})
       IN DropFailed([subs |-> r.subs, cleaned |-> r.cleaned], Tail(fl))

Bump(f, seq) == [s \in Subs |-> f[s] + Count(seq, s)]

LInit ==
  /\ Init
  /\ lock = 0
  /\ lpc = [p \in Procs |-> "idle"]
  /\ cur = [p \in Procs |-> NoOp]
  /\ subRet = Range(reg)
  /\ unsubRet = {}
  /\ seen = [p \in Procs |-> {}]

Ops(usedNow) ==
  {[k |-> "sub", s |-> s] : s \in Subs \ usedNow}
    \cup {[k |-> "unsub", id |-> id] : id \in Ids \cup {"*"}}
    \cup {[k |-> "pub", id |-> id, ev |-> ev] : id \in Ids, ev \in EvIds}

\* the application calls into the library.  A subscriber object is handed to
\* exactly one subscription request, so it is reserved here.
Call(p) ==
  /\ lpc[p] = "idle" /\ nops[p] < MaxOps
  /\ \E o \in Ops(used \cup {cur[q].s : q \in {q \in Procs : cur[q].k = "sub"}}) :
       /\ cur' = [cur EXCEPT ![p] = o]
       /\ lpc' = [lpc EXCEPT ![p] = o.k \o "_want"]
       /\ seen' = [seen EXCEPT ![p] = IF o.k = "pub" THEN subRet ELSE {}]
  /\ UNCHANGED <<vars, lock, subRet, unsubRet>>

Acquire(p, from, to) ==
  /\ lpc[p] = from /\ lock = 0
  /\ lock' = p
  /\ lpc' = [lpc EXCEPT ![p] = to]
  /\ UNCHANGED <<vars, cur, subRet, unsubRet, seen>>

\* --- subscribe ---------------------------------------------------------
SubBody(p) ==
  /\ lpc[p] = "sub_in" /\ lock = p
  /\ reg' = Append(reg, cur[p].s)
  /\ used' = used \cup {cur[p].s}
  /\ nops' = [nops EXCEPT ![p] = @ + 1]
  /\ hist' = Append(hist, [p |-> p, b |-> "sub", s |-> cur[p].s, reg |-> reg'])
  /\ lpc' = [lpc EXCEPT ![p] = "sub_rel"]
  /\ UNCHANGED <<sends, pc, failed, hvars, lock, cur, subRet, unsubRet, seen>>

SubRelease(p) ==
  /\ lpc[p] = "sub_rel" /\ lock = p
  /\ lock' = 0
  /\ subRet' = subRet \cup {cur[p].s}
  /\ lpc' = [lpc EXCEPT ![p] = "idle"]
  /\ cur' = [cur EXCEPT ![p] = NoOp]
  /\ UNCHANGED <<vars, unsubRet, seen>>

\* --- Unsubscribe -------------------------------------------------------
UnsubBody(p) ==
  /\ lpc[p] = "unsub_in" /\ lock = p
  /\ LET r == Scan(reg, {s \in Subs : Match(s, cur[p].id)}) IN
       /\ reg' = r.subs
       /\ cleanups' = Bump(cleanups, r.cleaned)
       /\ removed' = removed \cup Range(r.cleaned)
       /\ hist' = Append(hist, [p |-> p, b |-> "unsub", id |-> cur[p].id, cnt |-> r.cnt,
                                cleaned |-> Range(r.cleaned), reg |-> r.subs])
       /\ cur' = [cur EXCEPT ![p] = [k |-> "unsub", id |-> cur[p].id, gone |-> Range(r.cleaned)]]
  /\ nops' = [nops EXCEPT ![p] = @ + 1]
  /\ lpc' = [lpc EXCEPT ![p] = "unsub_rel"]
  /\ UNCHANGED <<used, sends, pc, failed, delivered, pubSeq, curPub, lock, subRet, unsubRet, seen>>

UnsubRelease(p) ==
  /\ lpc[p] = "unsub_rel" /\ lock = p
  /\ lock' = 0
  /\ unsubRet' = unsubRet \cup cur[p].gone
  /\ lpc' = [lpc EXCEPT ![p] = "idle"]
  /\ cur' = [cur EXCEPT ![p] = NoOp]
  /\ UNCHANGED <<vars, subRet, seen>>

\* --- AddEvent ----------------------------------------------------------
\* for _, s := range root.subscriptions { if s.sub.Match(id) { resolve; cnt++; if Send fails { failed = append(failed, s) } } }
RECURSIVE Deliver(_, _, _, _, _)
Deliver(acc, subs, i, id, ev) ==
  IF i > Len(subs) THEN acc
  ELSE LET s == subs[i] IN
       IF Match(s, id)
       THEN LET n == acc.sends[s] + 1
                fails == Pool[s].failAt # 0 /\ n = Pool[s].failAt
            IN Deliver([sends |-> [acc.sends EXCEPT ![s] = n],
                        sent |-> Append(acc.sent, <<s, MsgOf(s, ev)>>),
                        failed |-> IF fails THEN Append(acc.failed, s) ELSE acc.failed,
                        cnt |-> acc.cnt + 1], subs, i + 1, id, ev)
       ELSE Deliver(acc, subs, i + 1, id, ev)

Pub1Body(p) ==
  /\ lpc[p] = "pub_in1" /\ lock = p
  /\ LET r == Deliver([sends |-> sends, sent |-> <<>>, failed |-> <<>>, cnt |-> 0], reg, 1, cur[p].id, cur[p].ev) IN
       /\ sends' = r.sends
       /\ failed' = [failed EXCEPT ![p] = r.failed]
       /\ delivered' = delivered \o [i \in 1..Len(r.sent) |-> [pub |-> pubSeq + 1, s |-> r.sent[i][1], msg |-> r.sent[i][2]]]
       /\ hist' = Append(hist, [p |-> p, b |-> "pub1", id |-> cur[p].id, ev |-> cur[p].ev, cnt |-> r.cnt,
                                sent |-> r.sent, err |-> (r.failed # <<>>), reg |-> reg])
  /\ pubSeq' = pubSeq + 1
  /\ curPub' = [curPub EXCEPT ![p] = pubSeq + 1]
  /\ pc' = [pc EXCEPT ![p] = "gap"]
  /\ nops' = [nops EXCEPT ![p] = @ + 1]
  /\ lpc' = [lpc EXCEPT ![p] = "pub_rel1"]
  /\ UNCHANGED <<reg, used, cleanups, removed, lock, cur, subRet, unsubRet, seen>>

Pub1Release(p) ==
  /\ lpc[p] = "pub_rel1" /\ lock = p
  /\ lock' = 0
  /\ lpc' = [lpc EXCEPT ![p] = "pub_want2"]
  /\ UNCHANGED <<vars, cur, subRet, unsubRet, seen>>

Pub2Body(p) ==
  /\ lpc[p] = "pub_in2" /\ (lock = p \/ "NoPhase2Lock" \in Dev)
  /\ LET r == DropFailed([subs |-> reg, cleaned |-> <<>>], failed[p]) IN
       /\ reg' = r.subs
       /\ cleanups' = Bump(cleanups, r.cleaned)
       /\ removed' = removed \cup Range(r.cleaned)
       /\ hist' = Append(hist, [p |-> p, b |-> "pub2", cleaned |-> Range(r.cleaned), reg |-> r.subs])
  /\ failed' = [failed EXCEPT ![p] = <<>>]
  /\ pc' = [pc EXCEPT ![p] = "idle"]
  /\ lpc' = [lpc EXCEPT ![p] = "pub_rel2"]
  /\ UNCHANGED <<used, sends, nops, delivered, pubSeq, curPub, lock, cur, subRet, unsubRet, seen>>

Pub2Release(p) ==
  /\ lpc[p] = "pub_rel2" /\ (lock = p \/ "NoPhase2Lock" \in Dev)
  /\ lock' = IF lock = p THEN 0 ELSE lock
  /\ lpc' = [lpc EXCEPT ![p] = "idle"]
  /\ cur' = [cur EXCEPT ![p] = NoOp]
  /\ UNCHANGED <<vars, subRet, unsubRet, seen>>

Step(p) ==
  \/ Call(p)
  \/ Acquire(p, "sub_want", "sub_in") \/ SubBody(p) \/ SubRelease(p)
  \/ Acquire(p, "unsub_want", "unsub_in") \/ UnsubBody(p) \/ UnsubRelease(p)
  \/ Acquire(p, "pub_want", "pub_in1") \/ Pub1Body(p) \/ Pub1Release(p)
  \/ (IF "NoPhase2Lock" \in Dev
      THEN lpc[p] = "pub_want2" /\ lpc' = [lpc EXCEPT ![p] = "pub_in2"] /\ UNCHANGED <<vars, lock, cur, subRet, unsubRet, seen>>
      ELSE Acquire(p, "pub_want2", "pub_in2"))
  \/ Pub2Body(p) \/ Pub2Release(p)

LNext == \E p \in Procs : Step(p)

LSpec == LInit /\ [][LNext]_lvars
\* fairness on everything except starting a new call
Progress(p) ==
  \/ Acquire(p, "sub_want", "sub_in") \/ SubBody(p) \/ SubRelease(p)
  \/ Acquire(p, "unsub_want", "unsub_in") \/ UnsubBody(p) \/ UnsubRelease(p)
  \/ Acquire(p, "pub_want", "pub_in1") \/ Pub1Body(p) \/ Pub1Release(p)
  \/ Acquire(p, "pub_want2", "pub_in2") \/ Pub2Body(p) \/ Pub2Release(p)
LFairSpec == LSpec /\ \A p \in Procs : SF_lvars(Progress(p))

-----------------------------------------------------------------------------
\* refinement: a fine-grained step is a block of Registry.tla or invisible to it
RegistrySpec == Init /\ [][Next]_vars

MutualExclusion ==
  \A p \in Procs : lpc[p] \in {"sub_in", "sub_rel", "unsub_in", "unsub_rel", "pub_in1", "pub_rel1", "pub_in2", "pub_rel2"}
                      => lock = p
LockOwnerInside == lock # 0 => lpc[lock] \in {"sub_in", "sub_rel", "unsub_in", "unsub_rel", "pub_in1", "pub_rel1", "pub_in2", "pub_rel2"}

\* no deadlock other than "everybody finished"
Finished == \A p \in Procs : lpc[p] = "idle" /\ nops[p] = MaxOps
NoDeadlock == Finished \/ ENABLED LNext

\* C20: an event published after a subscription request returned reaches that
\* subscriber (unless it has been removed meanwhile)
ReachesSeen ==
  [][\A p \in Procs :
       (lpc[p] = "pub_in1" /\ lpc'[p] = "pub_rel1") =>
          \A s \in seen[p] : (Match(s, cur[p].id) /\ s \notin removed)
              => \E i \in 1..Len(NewDeliveries) : NewDeliveries[i].s = s]_lvars
\* C20: no message is delivered to a subscriber after the unsubscribe call that removed it has returned
NoDeliveryAfterUnsubReturned ==
  [][\A i \in 1..Len(NewDeliveries) : NewDeliveries[i].s \notin unsubRet]_lvars

\* liveness: every call returns
AllReturn == \A p \in Procs : (lpc[p] # "idle") ~> (lpc[p] = "idle")

LockView == <<impl, hvars, lock, lpc, cur, subRet, unsubRet, seen>>
=============================================================================
