---------------------------- MODULE DocGenJudge ----------------------------
(***************************************************************************)
(* Conformance direction B for C03: inputs generated on the Go side        *)
(* (random derivations of the grammars of DocGen.tla, longer than the      *)
(* enumerated ones, with random token-level and byte-level mutations) were *)
(* handed to every public entry point of the real code inside isolated     *)
(* workers.  Each record of cases.ndjson carries                           *)
(*   lang, toks   the token string the generator claims to have derived    *)
(*   tm, bm       the number of token-level / byte-level mutations applied *)
(*   claim        "derived" (a sentence of the grammar) or "mutated"       *)
(*   sites        the outcomes other than "returns" observed for it: the   *)
(*                site of a panic, of a stack overflow or of a hang        *)
(* The specification prescribes "returns" for every input, so a record is  *)
(* ok exactly when sites is empty.  Otherwise the second oracle is         *)
(* consulted: the record is `known` when every observed site is one a      *)
(* deviation listed as a known finding explains AND the input satisfies    *)
(* that deviation's necessary condition (DocGen!Allowed; for byte-mutated  *)
(* inputs, whose bytes are no longer the rendering of toks, only the       *)
(* language restricts: DocGen!AllowedBytes).                               *)
(* The judge also checks the generator it is paired with: what it claims   *)
(* to be a derivation must be accepted by the recogniser Derives, and      *)
(* every token must belong to the language's alphabet (`gen`).             *)
(***************************************************************************)
EXTENDS DocGen, Json

CONSTANTS KnownDev, NBlocks

JRecs == ndJsonDeserialize("cases.ndjson")
N == Len(JRecs)

VARIABLES jp, ji
jvars == <<jp, ji>>
JInit == jp = "blk" /\ ji \in 1..NBlocks
JNext == jp = "blk" /\ jp' = "rec" /\ ji' \in {i \in 1..N : (i % NBlocks) + 1 = ji}
JSpec == JInit /\ [][JNext]_jvars

Rec == JRecs[ji]
Toks == Rec.toks
Sites == {Rec.sites[i] : i \in DOMAIN Rec.sites}

Verdict ==
  LET gen == /\ \A i \in DOMAIN Toks : Toks[i] \in Alpha(Rec.lang)
             /\ (Rec.claim = "derived") => (Rec.tm = 0 /\ Rec.bm = 0 /\ Valid(Rec.lang, Toks))
      strict == Sites = {}
      adm == IF Rec.bm > 0 THEN AllowedBytes(KnownDev, Rec.lang) ELSE Allowed(KnownDev, Rec.lang, Toks)
      known == (~strict) /\ Sites \subseteq SitesOf(adm)
  IN [ i |-> ji, ok |-> strict, gen |-> gen, known |-> known,
       kdevs |-> IF known THEN {d \in adm : DevSites[d] \cap Sites # {}} ELSE {},
       unexplained |-> Sites \ SitesOf(adm) ]

Judge == jp = "rec" => PrintT("@@VER " \o ToJson(Verdict))
=============================================================================
