----------------------------- MODULE SchemaCore -----------------------------
(***************************************************************************)
(* Abstract type-system documents and schemas (C13 - C17).                 *)
(*                                                                         *)
(* A definition is a record with ALL of the fields below (unused ones      *)
(* empty), so that documents can be transported as JSON and every operator *)
(* can access every field:                                                 *)
(*   kind   "OBJECT" | "INTERFACE" | "UNION" | "ENUM" | "INPUT_OBJECT" |   *)
(*          "SCALAR" | "DIRECTIVE" | "SCHEMA"                              *)
(*   name, desc, ext (TRUE for an `extend` block)                          *)
(*   ifaces   sequence of names          (OBJECT)                          *)
(*   fields   sequence of FieldD         (OBJECT, INTERFACE)               *)
(*   members  sequence of names          (UNION)                           *)
(*   values   sequence of EV             (ENUM)                            *)
(*   infields sequence of ArgD           (INPUT_OBJECT)                    *)
(*   args     sequence of ArgD           (DIRECTIVE)                       *)
(*   locs     sequence of location names (DIRECTIVE)                       *)
(*   dirs     sequence of DU             (directive uses on the definition)*)
(*   roots    sequence of [op, type]     (SCHEMA)                          *)
(* FieldD = [n, desc, type, args, dirs]   ArgD = [n, desc, type, hasDef,   *)
(* def, dirs]   EV = [n, desc, dirs]   DU = [n, args: seq of [n, v]]       *)
(*                                                                         *)
(* A schema (the observable state of a Root) is                            *)
(*   [types : name -> merged definition, dirs : name -> definition,        *)
(*    roots : [query, mutation, subscription] -> type name or "",          *)
(*    explicit : whether a `schema` block fixed the roots]                 *)
(***************************************************************************)
EXTENDS GQLCore

ArgD(n, t) == [n |-> n, desc |-> "", type |-> t, hasDef |-> FALSE, def |-> NullV, dirs |-> <<>>]
ArgDD(n, t, d) == [n |-> n, desc |-> "", type |-> t, hasDef |-> TRUE, def |-> d, dirs |-> <<>>]
FieldD(n, t, args) == [n |-> n, desc |-> "", type |-> t, args |-> args, dirs |-> <<>>]
EV(n) == [n |-> n, desc |-> "", dirs |-> <<>>]
DU(n, args) == [n |-> n, args |-> args]
AV(n, v) == [n |-> n, v |-> v]
RootD(op, t) == [op |-> op, type |-> t]

BaseDef(kind, name) ==
  [kind |-> kind, name |-> name, desc |-> "", ext |-> FALSE, ifaces |-> <<>>, fields |-> <<>>, members |-> <<>>,
   values |-> <<>>, infields |-> <<>>, args |-> <<>>, locs |-> <<>>, dirs |-> <<>>, roots |-> <<>>]
ObjectD(name, ifaces, fields) == [BaseDef("OBJECT", name) EXCEPT !.ifaces = ifaces, !.fields = fields]
InterfaceD(name, fields) == [BaseDef("INTERFACE", name) EXCEPT !.fields = fields]
UnionD(name, members) == [BaseDef("UNION", name) EXCEPT !.members = members]
EnumD(name, values) == [BaseDef("ENUM", name) EXCEPT !.values = values]
InputD(name, infields) == [BaseDef("INPUT_OBJECT", name) EXCEPT !.infields = infields]
ScalarD(name) == BaseDef("SCALAR", name)
DirectiveD(name, args, locs) == [BaseDef("DIRECTIVE", name) EXCEPT !.args = args, !.locs = locs]
SchemaD(roots) == [BaseDef("SCHEMA", "") EXCEPT !.roots = roots]
Ext(d) == [d EXCEPT !.ext = TRUE]
WithDirs(d, ds) == [d EXCEPT !.dirs = ds]
WithDesc(d, s) == [d EXCEPT !.desc = s]

S == Named("String")
I == Named("Int")
B == Named("Boolean")

BuiltinScalars == {"String", "Int", "Float", "Float64", "Boolean", "ID", "Time", "Int64"}
AllLocations == {"SCHEMA", "SCALAR", "OBJECT", "FIELD_DEFINITION", "ARGUMENT_DEFINITION", "INTERFACE", "UNION", "ENUM",
                 "ENUM_VALUE", "INPUT_OBJECT", "INPUT_FIELD_DEFINITION", "QUERY", "MUTATION", "SUBSCRIPTION", "FIELD",
                 "FRAGMENT_DEFINITION", "FRAGMENT_SPREAD", "INLINE_FRAGMENT", "VARIABLE_DEFINITION"}
\* the directives every root has
CoreDirs ==
  [ skip       |-> DirectiveD("skip", <<ArgD("if", NonNull(B))>>, <<"FIELD", "FRAGMENT_SPREAD", "INLINE_FRAGMENT">>),
    include    |-> DirectiveD("include", <<ArgD("if", NonNull(B))>>, <<"FIELD", "FRAGMENT_SPREAD", "INLINE_FRAGMENT">>),
    deprecated |-> DirectiveD("deprecated", <<ArgDD("reason", S, StrV("\"No longer supported\""))>>, <<"FIELD_DEFINITION", "ENUM_VALUE">>),
    go         |-> DirectiveD("go", <<ArgD("type", NonNull(S))>>, <<"SCHEMA", "QUERY", "MUTATION", "SUBSCRIPTION", "OBJECT", "FIELD_DEFINITION">>) ]

EmptyFn == [x \in {} |-> 0]
NoRoots == [query |-> "", mutation |-> "", subscription |-> ""]
EmptySchema == [types |-> EmptyFn, dirs |-> EmptyFn, roots |-> NoRoots, explicit |-> FALSE]

Put(f, k, v) == [x \in DOMAIN f \cup {k} |-> IF x = k THEN v ELSE f[x]]
Names(seq) == [i \in DOMAIN seq |-> seq[i].n]
NameSet(seq) == {seq[i].n : i \in DOMAIN seq}
HasDup(seq) == \E i, j \in DOMAIN seq : i # j /\ seq[i] = seq[j]
ByName(seq, n) == CHOOSE x \in Range(seq) : x.n = n

\* implicit operation roots: the types named Query, Mutation, Subscription
ImplicitRoots(types) ==
  [ query |-> IF "Query" \in DOMAIN types THEN "Query" ELSE "",
    mutation |-> IF "Mutation" \in DOMAIN types THEN "Mutation" ELSE "",
    subscription |-> IF "Subscription" \in DOMAIN types THEN "Subscription" ELSE "" ]

-----------------------------------------------------------------------------
(* Merging an `extend` block into a definition.  Result [ok, def, why]. *)

Merge(cur, x) ==
  IF cur.kind # x.kind THEN [ok |-> FALSE, def |-> cur, why |-> "type_mismatch", off |-> x.name]
  ELSE IF NameSet(cur.fields) \cap NameSet(x.fields) # {} \/ HasDup(Names(x.fields))
  THEN [ok |-> FALSE, def |-> cur, why |-> "duplicate_field", off |-> x.name]
  ELSE IF NameSet(cur.infields) \cap NameSet(x.infields) # {} \/ HasDup(Names(x.infields))
  THEN [ok |-> FALSE, def |-> cur, why |-> "duplicate_input_field", off |-> x.name]
  ELSE IF NameSet(cur.values) \cap NameSet(x.values) # {} \/ HasDup(Names(x.values))
  THEN [ok |-> FALSE, def |-> cur, why |-> "duplicate_enum_value", off |-> x.name]
  ELSE IF Range(cur.members) \cap Range(x.members) # {}
  THEN [ok |-> FALSE, def |-> cur, why |-> "duplicate_member", off |-> x.name]
  ELSE IF Range(cur.ifaces) \cap Range(x.ifaces) # {}
  THEN [ok |-> FALSE, def |-> cur, why |-> "duplicate_interface", off |-> x.name]
  ELSE IF NameSet(cur.dirs) \cap NameSet(x.dirs) # {}
  THEN [ok |-> FALSE, def |-> cur, why |-> "duplicate_directive", off |-> x.name]
  ELSE [ok |-> TRUE, why |-> "", off |-> "",
        def |-> [cur EXCEPT !.fields = @ \o x.fields, !.infields = @ \o x.infields, !.values = @ \o x.values,
                            !.members = @ \o x.members, !.ifaces = @ \o x.ifaces, !.dirs = @ \o x.dirs]]

-----------------------------------------------------------------------------
(* Canonical, order-free form of a schema: what "defines the same schema" compares (C15, C16). *)

AllDirs(s) == [n \in DOMAIN s.dirs \cup DOMAIN CoreDirs |-> IF n \in DOMAIN s.dirs THEN s.dirs[n] ELSE CoreDirs[n]]

\* a directive use as a name plus an argument map, with the defaults of the directive's
\* definition filled in ("once directive-argument defaults are taken into account", C16)
CanonUse(s, du) ==
  LET given == [x \in NameSet(du.args) |-> ByName(du.args, x).v]
      decl == IF du.n \in DOMAIN AllDirs(s) THEN AllDirs(s)[du.n].args ELSE <<>>
      missing == NameSet(decl) \ DOMAIN given          \* an argument not given has its default, or null without one
  IN [n |-> du.n, args |-> [x \in DOMAIN given \cup missing |->
                              IF x \in DOMAIN given THEN given[x]
                              ELSE IF ByName(decl, x).hasDef THEN ByName(decl, x).def ELSE NullV]]
CanonUses(s, uses) == {CanonUse(s, uses[i]) : i \in DOMAIN uses}
CanonArgs(s, args) ==
  [n \in NameSet(args) |-> LET a == ByName(args, n) IN
     [type |-> a.type, hasDef |-> a.hasDef, def |-> a.def, desc |-> a.desc, dirs |-> CanonUses(s, a.dirs)]]
CanonDef(s, d) ==
  [ kind |-> d.kind, desc |-> d.desc,
    ifaces |-> Range(d.ifaces), members |-> Range(d.members), locs |-> Range(d.locs),
    fields |-> [n \in NameSet(d.fields) |-> LET f == ByName(d.fields, n) IN
                  [type |-> f.type, desc |-> f.desc, args |-> CanonArgs(s, f.args), dirs |-> CanonUses(s, f.dirs)]],
    values |-> [n \in NameSet(d.values) |-> LET v == ByName(d.values, n) IN [desc |-> v.desc, dirs |-> CanonUses(s, v.dirs)]],
    infields |-> CanonArgs(s, d.infields),
    args |-> CanonArgs(s, d.args),
    dirs |-> CanonUses(s, d.dirs) ]
Canon(s) ==
  [ types |-> [n \in DOMAIN s.types |-> CanonDef(s, s.types[n])],
    dirs |-> [n \in DOMAIN s.dirs |-> CanonDef(s, s.dirs[n])],
    roots |-> s.roots ]
=============================================================================
