------------------------------ MODULE FragDocs ------------------------------
(***************************************************************************)
(* The document space of the recursion model (ResolveDepth.tla), its       *)
(* static analysis (spread cycles, divergence of today's code) and its     *)
(* rendering as token strings of DocGen.tla's executable language.         *)
(*                                                                         *)
(* Documents: { a { BODY } } over U-exec (Query.a : A, A.self : A, A.n),   *)
(* fragments F and G with type condition A (applies) or B (never applies   *)
(* under a).  A selection is a leaf (n), an object field (self {...}), a   *)
(* spread (...F) or an inline fragment (... {...} / ... on T {...}).       *)
(***************************************************************************)
EXTENDS Naturals, Sequences, FiniteSets

Leaf == [k |-> "leaf"]
Obj(ss) == [k |-> "obj", s |-> ss]
Spr(f) == [k |-> "spread", f |-> f]
Inl(c, ss) == [k |-> "inline", c |-> c, s |-> ss]

FragNames == {"F", "G", "H"}
Sel0 == {Leaf, Spr("F"), Spr("G")}
Seqs12(X) == {<<x>> : x \in X} \cup {<<x, y>> : x \in X, y \in X}
Body0 == Seqs12(Sel0)
One0 == {<<x>> : x \in Sel0}
\* fragment bodies: flat, or one object / inline level around a flat body
FragBodies(rich) == IF rich THEN Body0 \cup {<<Obj(b)>> : b \in One0} \cup {<<Inl("", b)>> : b \in One0} \cup {<<Inl("A", b)>> : b \in {<<Spr("F")>>, <<Spr("G")>>}}
                    ELSE Body0
OpBodies == { <<Spr("F")>>, <<Spr("G")>>, <<Spr("F"), Spr("G")>>, <<Leaf, Spr("F")>>, <<Inl("", <<Spr("F")>>)>>, <<Inl("B", <<Spr("F")>>)>>,
              <<Obj(<<Spr("F")>>)>>, <<Obj(<<Obj(<<Spr("G")>>)>>)>> }
Absent == [def |-> FALSE, cond |-> "A", body |-> <<>>]
FragDef(c, b) == [def |-> TRUE, cond |-> c, body |-> b]
\* a document: the body under { a { ... } } and the two fragment definitions (G may be missing)
Docs(rich) ==
  {[body |-> ob, F |-> FragDef(fc, fb), G |-> g, H |-> Absent] :
      ob \in OpBodies, fc \in {"A", "B"}, fb \in FragBodies(rich),
      g \in {Absent} \cup {FragDef(gc, gb) : gc \in {"A", "B"}, gb \in FragBodies(rich)}}

\* three fragments, every one applicable: a spread cycle can lie BEHIND the fragment the operation enters through
\* (F -> G -> H -> G), and each fragment may also be reached a second time on another path
Sel3 == {Leaf, Spr("F"), Spr("G"), Spr("H")}
Body3 == {<<x>> : x \in Sel3} \cup {<<Leaf, x>> : x \in Sel3 \ {Leaf}} \cup {<<Obj(<<x>>)>> : x \in Sel3 \ {Leaf}}
           \cup {<<Spr("G"), Spr("H")>>, <<Inl("A", <<Spr("H")>>)>>}
Docs3 ==
  {[body |-> <<Spr(e)>>, F |-> FragDef("A", fb), G |-> FragDef("A", gb), H |-> FragDef("A", hb)] :
      e \in {"F", "G"}, fb \in Body3, gb \in Body3, hb \in Body3}

Frag(doc, f) == CASE f = "F" -> doc.F [] f = "G" -> doc.G [] OTHER -> doc.H
CondApplies(c, t) == c = "" \/ c = t

\* ---- static analysis of the fragment graph
RECURSIVE SpreadsND(_, _)     \* fragments spread in ss without passing an object field, under applicable inline conditions
SpreadsND(ss, t) ==
  IF ss = <<>> THEN {}
  ELSE LET h == Head(ss)
           r == SpreadsND(Tail(ss), t)
       IN CASE h.k = "spread" -> {h.f} \cup r
            [] h.k = "inline" -> (IF CondApplies(h.c, t) THEN SpreadsND(h.s, t) ELSE {}) \cup r
            [] OTHER -> r
RECURSIVE SpreadsAll(_)       \* every fragment spread anywhere in ss
SpreadsAll(ss) ==
  IF ss = <<>> THEN {}
  ELSE LET h == Head(ss)
           r == SpreadsAll(Tail(ss))
       IN CASE h.k = "spread" -> {h.f} \cup r
            [] h.k \in {"inline", "obj"} -> SpreadsAll(h.s) \cup r
            [] OTHER -> r
RECURSIVE SpreadsLive(_, _)   \* fragments spread in ss at places that are executed (type t = "A" throughout)
SpreadsLive(ss, t) ==
  IF ss = <<>> THEN {}
  ELSE LET h == Head(ss)
           r == SpreadsLive(Tail(ss), t)
       IN CASE h.k = "spread" -> {h.f} \cup r
            [] h.k = "inline" -> (IF CondApplies(h.c, t) THEN SpreadsLive(h.s, t) ELSE {}) \cup r
            [] h.k = "obj" -> SpreadsLive(h.s, t) \cup r
            [] OTHER -> r

Enterable(doc, f) == Frag(doc, f).def /\ CondApplies(Frag(doc, f).cond, "A")
\* closure of a one-step relation over the two fragment names
Closure(step(_), S) == LET s1 == S \cup UNION {step(f) : f \in S}
                           s2 == s1 \cup UNION {step(f) : f \in s1}
                       IN s2 \cup UNION {step(f) : f \in s2}
StepAll(doc, f) == IF Frag(doc, f).def THEN SpreadsAll(Frag(doc, f).body) ELSE {}
StepLive(doc, f) == IF Enterable(doc, f) THEN SpreadsLive(Frag(doc, f).body, "A") ELSE {}
StepND(doc, f) == IF Enterable(doc, f) THEN SpreadsND(Frag(doc, f).body, "A") ELSE {}

\* GraphQL validation rule: fragment spreads must not form cycles (whatever the type conditions)
HasSpreadCycle(doc) ==
  \E f \in FragNames : LET step(x) == StepAll(doc, x) IN f \in Closure(step, StepAll(doc, f))
\* fragments whose body is executed at all
Entered(doc) == LET step(x) == StepLive(doc, x) IN {f \in Closure(step, SpreadsLive(doc.body, "A")) : Enterable(doc, f)}
\* the code as it is today never comes back: an executed fragment reaches itself without a decrement
Diverges(doc) ==
  \E f \in Entered(doc) : LET step(x) == StepND(doc, x) IN f \in Closure(step, StepND(doc, f))


\* ---- rendering as tokens
RECURSIVE RenderSels(_)
RenderSel(h) ==
  CASE h.k = "leaf" -> <<"n">>
    [] h.k = "obj" -> <<"self", "{">> \o RenderSels(h.s) \o <<"}">>
    [] h.k = "spread" -> <<"...", h.f>>
    [] h.k = "inline" -> (IF h.c = "" THEN <<"...", "{">> ELSE <<"...", "on", h.c, "{">>) \o RenderSels(h.s) \o <<"}">>
RenderSels(ss) == IF ss = <<>> THEN <<>> ELSE RenderSel(Head(ss)) \o RenderSels(Tail(ss))
RenderFrag(n, fd) == IF fd.def THEN <<"fragment", n, "on", fd.cond, "{">> \o RenderSels(fd.body) \o <<"}">> ELSE <<>>
RenderDoc(d) == <<"{", "a", "{">> \o RenderSels(d.body) \o <<"}", "}">> \o RenderFrag("F", d.F) \o RenderFrag("G", d.G) \o RenderFrag("H", d.H)
=============================================================================
