--------------------------- MODULE RegistryTrace ---------------------------
(***************************************************************************)
(* Judges behaviours recorded from the real registry (harness/cmd/registry *)
(* record | sched | stress) against Registry.tla.  The file trace.ndjson   *)
(* holds one "universe" record followed by any number of traces, each      *)
(* starting with an "init" record; every other record is one block as      *)
(* observed on the real code (who ran it, its arguments, what subscribers  *)
(* were called with what, what was returned, the registry afterwards).     *)
(* A record is accepted only if the corresponding action of Registry is    *)
(* enabled and produces exactly the observed outputs; all invariants and   *)
(* action properties of Registry are evaluated along the way.              *)
(***************************************************************************)
EXTENDS Registry, Json

JTrace == ndJsonDeserialize("trace.ndjson")
TPool == JTrace[1].pool
TSelKeys == JTrace[1].selKeys
TEvVals == JTrace[1].evVals
TIds == Range(JTrace[1].ids)

VARIABLE l     \* index of the next record to consume
tvars == <<vars, l>>

SetOf(seq) == {seq[i] : i \in DOMAIN seq}
Last(seq) == seq[Len(seq)]

ResetTo(r) ==
  /\ reg' = r
  /\ used' = Range(r)
  /\ sends' = [s \in Subs |-> 0]
  /\ pc' = [p \in Procs |-> "idle"]
  /\ nops' = [p \in Procs |-> 0]
  /\ failed' = [p \in Procs |-> <<>>]
  /\ delivered' = <<>>
  /\ cleanups' = [s \in Subs |-> 0]
  /\ removed' = {}
  /\ pubSeq' = 0
  /\ curPub' = [p \in Procs |-> 0]
  /\ hist' = << [p |-> 0, b |-> "init", reg |-> r] >>

TraceInit ==
  /\ l = 3
  /\ JTrace[2].b = "init"
  /\ reg = JTrace[2].reg
  /\ used = Range(reg)
  /\ sends = [s \in Subs |-> 0]
  /\ pc = [p \in Procs |-> "idle"]
  /\ nops = [p \in Procs |-> 0]
  /\ failed = [p \in Procs |-> <<>>]
  /\ delivered = <<>>
  /\ cleanups = [s \in Subs |-> 0]
  /\ removed = {}
  /\ pubSeq = 0
  /\ curPub = [p \in Procs |-> 0]
  /\ hist = << [p |-> 0, b |-> "init", reg |-> reg] >>

Ev == JTrace[l]
EvCleaned == IF "cleaned" \in DOMAIN Ev THEN Ev.cleaned ELSE <<>>
EvSent == IF "sent" \in DOMAIN Ev THEN Ev.sent ELSE <<>>
IsEvent(b) == l <= Len(JTrace) /\ Ev.b = b /\ l' = l + 1

TraceReset == IsEvent("init") /\ ResetTo(Ev.reg)

\* The registry after a block is part of every record written from inside the critical sections. Records laid
\* out by checks/registry.py for two overlapping operations (probe mode) carry it on the last block only.
RegOK == ("reg" \in DOMAIN Ev) => reg' = Ev.reg

TraceSub ==
  /\ IsEvent("sub")
  /\ Subscribe(Ev.p, Ev.s)
  /\ RegOK
  /\ EvCleaned = <<>> /\ EvSent = <<>>

TraceUnsub ==
  /\ IsEvent("unsub")
  /\ Unsubscribe(Ev.p, Ev.id)
  /\ RegOK
  /\ Last(hist').cnt = Ev.cnt
  /\ Last(hist').cleaned = SetOf(EvCleaned) /\ Len(EvCleaned) = Cardinality(SetOf(EvCleaned))
  /\ EvSent = <<>>

TracePub1 ==
  /\ IsEvent("pub1")
  /\ Publish1(Ev.p, Ev.id, Ev.ev)
  /\ RegOK
  /\ Last(hist').cnt = Ev.cnt
  /\ Last(hist').sent = EvSent
  /\ Last(hist').err = Ev.err
  /\ EvCleaned = <<>>

TracePub2 ==
  /\ IsEvent("pub2")
  /\ Publish2(Ev.p)
  /\ RegOK
  /\ Last(hist').cleaned = SetOf(EvCleaned) /\ Len(EvCleaned) = Cardinality(SetOf(EvCleaned))
  /\ EvSent = <<>>

TraceNext == TraceReset \/ TraceSub \/ TraceUnsub \/ TracePub1 \/ TracePub2

TraceSpec == TraceInit /\ [][TraceNext]_tvars

\* Registry's action properties, exempting the artificial reset between two traces
AtReset == l <= Len(JTrace) /\ JTrace[l].b = "init"
TNoDeliveryAfterRemoval == [][AtReset \/ NoDeliveryAfterRemovalStep]_tvars
TRemovalPermanent == [][AtReset \/ RemovalPermanentStep]_tvars
TDeliveredAppendOnly == [][AtReset \/ DeliveredAppendOnlyStep]_tvars

\* every record consumed <=> the whole file is explained by Registry
TraceAccepted ==
  LET d == TLCGet("stats").diameter IN
  IF d + 1 = Len(JTrace) THEN TRUE
  ELSE /\ PrintT("@@REJ " \o ToJson([consumed |-> d + 1, total |-> Len(JTrace)]))
       /\ FALSE
=============================================================================
