------------------------- MODULE RegistryUniverses -------------------------
(* Constant universes for the Registry family.  They exist only here; the   *)
(* Go harness receives them through the "@@UNI" export of MCRegistry.       *)
EXTENDS Integers, Sequences

V(k, v) == [k |-> k, v |-> v]

MCPoolA == << [pat |-> "a", sel |-> "s1", failAt |-> 1, hide |-> FALSE, tag |-> "t1"],
              [pat |-> "a", sel |-> "s2", failAt |-> 0, hide |-> TRUE, tag |-> "t2"],
              [pat |-> "*", sel |-> "s1", failAt |-> 2, hide |-> TRUE, tag |-> "t3"],
              [pat |-> "b", sel |-> "s2", failAt |-> 0, hide |-> FALSE, tag |-> "t4"] >>
\* adjacent matching subscribers, all failing, wildcard first
MCPoolB == << [pat |-> "*", sel |-> "s2", failAt |-> 1, hide |-> FALSE, tag |-> "t1"],
              [pat |-> "a", sel |-> "s1", failAt |-> 1, hide |-> TRUE, tag |-> "t2"],
              [pat |-> "a", sel |-> "s1", failAt |-> 2, hide |-> FALSE, tag |-> "t3"],
              [pat |-> "b", sel |-> "s2", failAt |-> 1, hide |-> TRUE, tag |-> "t4"] >>
\* two adjacent subscribers matching "a", the first failing at once; a wildcard failing on its 2nd delivery
MCPoolC == << [pat |-> "a", sel |-> "s1", failAt |-> 1, hide |-> TRUE, tag |-> "t1"],
              [pat |-> "a", sel |-> "s2", failAt |-> 0, hide |-> FALSE, tag |-> "t2"],
              [pat |-> "*", sel |-> "s1", failAt |-> 2, hide |-> FALSE, tag |-> "t3"] >>
\* selection id -> <<responseKey, fieldName, condition, form>>; s2 uses an alias and two fields; both have a key whose
\* presence depends on the variable $hide of the subscriber's own request, written on a fragment spread in s1 and on
\* an inline fragment in s2 (form "" = on the field itself)
MCSelKeys == [ s1 |-> << <<"name", "name", "", "">>, <<"n", "n", "incl", "spread">>, <<"w", "with", "arg", "">> >>,
               s2 |-> << <<"n", "n", "skip", "inline">>, <<"t", "name", "", "">>, <<"w", "withl", "arg", "list">> >> ]
MCEvVals == [ e1 |-> [name |-> V("str", "one"), n |-> V("int", 1)],
              e2 |-> [name |-> V("str", "two"), n |-> V("int", 2)] ]

MCInitEmpty == { <<>> }
MCInitSome == { <<>>, <<1>>, <<1, 2>>, <<1, 2, 3>>, <<3, 1>>, <<2, 1, 3, 4>> }
MCInitC == { <<>>, <<1, 2>>, <<1, 2, 3>>, <<3, 1>> }
=============================================================================
