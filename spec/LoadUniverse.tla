---------------------------- MODULE LoadUniverse ----------------------------
(***************************************************************************)
(* U-load: a pool of type-system definitions of every kind, of `extend`    *)
(* and `schema` blocks and of failing definitions (one per failure class   *)
(* of C14), and the documents built from them.                             *)
(***************************************************************************)
EXTENDS Loader

DQuery == ObjectD("Query", <<>>, <<FieldD("a", Named("A"), <<>>), FieldD("n", I, <<>>)>>)
DA == ObjectD("A", <<>>, <<FieldD("x", S, <<>>), FieldD("peer", Named("B"), <<>>)>>)
DB == ObjectD("B", <<"N">>, <<FieldD("name", S, <<>>)>>)
DN == InterfaceD("N", <<FieldD("name", S, <<>>)>>)
DU1 == UnionD("U", <<"A", "B">>)
DE == EnumD("E", <<EV("P"), EV("Q")>>)
DIn == InputD("In", <<ArgDD("f", I, IntV(3)), ArgD("e", Named("E"))>>)
DMut == ObjectD("Mutation", <<>>, <<FieldD("set", Named("A"), <<ArgD("in", Named("In"))>>)>>)
DTag == DirectiveD("tag", <<ArgDD("v", I, IntV(1))>>, <<"OBJECT", "FIELD_DEFINITION", "ENUM_VALUE">>)
DDate == ScalarD("Date")
XQuery == Ext(ObjectD("Query", <<>>, <<FieldD("b", Named("B"), <<>>)>>))
XA == Ext(WithDirs(ObjectD("A", <<>>, <<FieldD("y", I, <<>>)>>), <<DU("tag", <<>>)>>))
XE == Ext(EnumD("E", <<EV("R")>>))
XU == Ext(UnionD("U", <<"Query">>))
XIn == Ext(InputD("In", <<ArgD("g", S)>>))
DSchema == SchemaD(<<RootD("query", "Query"), RootD("mutation", "Mutation")>>)
DSchemaQ == SchemaD(<<RootD("query", "A")>>)

DMut2 == ObjectD("Mutation", <<>>, <<FieldD("ping", I, <<>>)>>)
DSub == ObjectD("Subscription", <<>>, <<FieldD("tick", I, <<>>)>>)
XQuery2 == Ext(ObjectD("Query", <<>>, <<FieldD("c", I, <<>>)>>))
XE2 == Ext(EnumD("E", <<EV("T")>>))
XIn2 == Ext(InputD("In", <<ArgD("h", I)>>))
\* an extension that makes an existing object implement an interface: no type is added, only the relation changes
XAImpl == Ext(ObjectD("A", <<"N">>, <<FieldD("name", S, <<>>)>>))
\* an explicit schema block that names the query root only, while objects called Mutation / Subscription exist or arrive later
\* schema extensions: they add operation roots to a schema DECLARED by a schema block; the roots made up from the
\* types called Query / Mutation / Subscription are no schema block and cannot be extended
XSchemaSub == Ext(SchemaD(<<RootD("subscription", "Subscription")>>))
XSchemaMut == Ext(SchemaD(<<RootD("mutation", "Mutation")>>))
DTop == ObjectD("Top", <<>>, <<FieldD("n", I, <<>>)>>)
DSchemaTop == SchemaD(<<RootD("query", "Top")>>)

Syntax == BaseDef("SYNTAX", "")
ReadFault == BaseDef("READFAULT", "")
CloseFault == BaseDef("CLOSEFAULT", "")
\* extensions that only add directive uses, of every kind that can carry them (what a refused load must take back)
XDateTag == Ext(WithDirs(ScalarD("Date"), <<DU("tag", <<>>)>>))
XETag == Ext(WithDirs(EnumD("E", <<EV("S")>>), <<DU("tag", <<>>)>>))
XUTag == Ext(WithDirs(UnionD("U", <<"Query">>), <<DU("tag", <<>>)>>))
XInTag == Ext(WithDirs(InputD("In", <<ArgD("k", I)>>), <<DU("tag", <<>>)>>))
XNTag == Ext(WithDirs(InterfaceD("N", <<>>), <<DU("tag", <<>>)>>))
FUndef == ObjectD("Z", <<>>, <<FieldD("q", Named("Nope"), <<>>)>>)
FDup == ObjectD("A", <<>>, <<FieldD("x", I, <<>>)>>)
FXDupField == Ext(ObjectD("A", <<>>, <<FieldD("z", I, <<>>), FieldD("x", I, <<>>)>>))
FXNotFound == Ext(ObjectD("Nope", <<>>, <<FieldD("z", I, <<>>)>>))
FXKind == Ext(EnumD("A", <<EV("V")>>))
FEmpty == ObjectD("Z", <<>>, <<>>)
FIface == ObjectD("Z", <<"N">>, <<FieldD("other", I, <<>>)>>)
FInOut == InputD("I2", <<ArgD("a", Named("A"))>>)
\* extensions of a type loaded EARLIER that invalidate types the document itself does not mention:
\* an interface gains a field its implementors lack; a union gains a member that is no object
FXIface == Ext(InterfaceD("N", <<FieldD("id", Named("ID"), <<>>)>>))
FXUnion == Ext(UnionD("U", <<"E">>))

\* a second directive and a further enum: what a refused load (a document, or types handed to AddTypes) has to take
\* back when the failure comes after them - the table of directives is kept apart from the table of types
DMark == DirectiveD("mark", <<ArgD("w", S)>>, <<"OBJECT", "ENUM">>)
DE3 == EnumD("E3", <<EV("X")>>)

\* a directive whose argument is an input object with a default, used on a type, and an extension that gives the input
\* type one more defaulted field: checking the defaults completes them - in a copy, or a refused load leaves its mark
DCfg == DirectiveD("cfg", <<ArgDD("o", Named("In"), V("obj", [f |-> IntV(2)]))>>, <<"OBJECT", "FIELD_DEFINITION">>)
DUseCfg == WithDirs(ObjectD("W", <<>>, <<FieldD("w", I, <<>>)>>), <<DU("cfg", <<AV("o", V("obj", [f |-> IntV(4)]))>>)>>)
XInD == Ext(InputD("In", <<ArgDD("k", I, IntV(5))>>))
\* ... and the same with LISTS of input objects as the default and as the value of a use
DCfgL == DirectiveD("cfgl", <<ArgDD("os", ListOf(Named("In")), ListV(<<V("obj", [f |-> IntV(2)]), V("obj", [e |-> V("enum", "P")])>>))>>, <<"OBJECT">>)
DUseCfgL == WithDirs(ObjectD("WL", <<>>, <<FieldD("w", I, <<>>)>>), <<DU("cfgl", <<AV("os", ListV(<<V("obj", [f |-> IntV(4)]), V("obj", [x \in {} |-> NullV])>>))>>)>>)

\* a directive whose argument is non-null and has a default: left out the default stands in, an explicit null is refused -
\* in the document that defines the directive and in a later one
DReq == DirectiveD("req", <<ArgDD("n", NonNull(I), IntV(3))>>, <<"OBJECT">>)
UseReq(name, args) == WithDirs(ObjectD(name, <<>>, <<FieldD("r", I, <<>>)>>), <<DU("req", args)>>)

GoodDocs ==
  { <<DQuery, DA, DB, DN>>, <<DU1, DE, DIn>>, <<DMut>>, <<DTag, DDate>>, <<XQuery>>, <<XA>>, <<XE, XU>>, <<XIn>>,
    <<DSchema>>, <<DSchemaQ>>, <<DE>>, <<DIn, DMut>>, <<DMut2>>, <<DSub>>, <<XQuery2, XE2>>,
    <<XAImpl>>, <<DTop, DSchemaTop>>, <<DSub, XSchemaSub>>, <<XSchemaMut>>, <<XDateTag>>, <<DMark, DE3>>, <<DCfg, DUseCfg>>, <<DCfgL, DUseCfgL>>, <<XInD>>, <<DReq>>, <<WithDesc(ScalarD("Date"), "again")>>, <<UseReq("R1", <<>>)>>, <<DReq, UseReq("R2", <<AV("n", IntV(5))>>)>>,
    \* types and directives have name spaces of their own: one document defines a directive and a scalar of one name and uses both
    <<DirectiveD("both", <<>>, <<"OBJECT">>), ScalarD("both"), WithDirs(ObjectD("Holder", <<>>, <<FieldD("d", Named("both"), <<>>)>>), <<DU("both", <<>>)>>)>>,
    <<EnumD("both2", <<EV("P")>>), DirectiveD("both2", <<>>, <<"ENUM">>)>> }
BadDocs ==
  { <<Syntax>>, <<XQuery, Syntax>>, <<DSchemaQ, Syntax>>, <<DE, ReadFault>>, <<XE, ReadFault, XU>>,
    <<XE, FXNotFound>>, <<XQuery, FEmpty>>, <<DSchemaQ, FUndef>>, <<FDup>>, <<XIn, FXDupField>>, <<XQuery, FXKind>>,
    <<FIface>>, <<XE, FInOut>>, <<DDate, FUndef>>, <<XA, XU, FEmpty>>,
    \* an operation root type in a document refused only by the final validation; one type extended twice before the failure
    <<FXIface>>, <<DDate, FXIface>>, <<FXUnion>>,
    <<XDateTag, FEmpty>>, <<XETag, XUTag, FUndef>>, <<XInTag, XNTag, FEmpty>>, <<DSub, CloseFault>>, <<XQuery, XE, CloseFault>>,
    \* a scalar declared again (silently skipped), this time with a description, in documents refused afterwards
    <<WithDesc(ScalarD("Date"), "late"), FEmpty>>, <<WithDesc(ScalarD("Date"), "late"), FUndef>>, <<WithDesc(ScalarD("Date"), "late"), FDup>>,
    <<XInD, FEmpty>>, <<UseReq("R3", <<AV("n", NullV)>>)>>, <<DReq, UseReq("R3", <<AV("n", NullV)>>)>>, <<DMark, FUndef>>, <<DMark, DE3, FEmpty>>, <<DE3, FDup>>, <<DMark, FDup>>,
    \* names no name rule allows, in every place a name stands (delivered as text they do not even parse; built in Go and
    \* handed to AddTypes they are refused by the rules)
    <<ObjectD("-lead", <<>>, <<FieldD("x", I, <<>>)>>)>>, <<ObjectD("Ok7", <<>>, <<FieldD("$x", I, <<>>)>>)>>, <<EnumD("Ok8", <<EV("P"), EV("%V")>>)>>,
    <<DirectiveD("-d", <<>>, <<"OBJECT">>)>>, <<ObjectD("Ok9", <<>>, <<FieldD("y", I, <<ArgD("-a", I)>>)>>)>>, <<InputD("Ok10", <<ArgD("f", I), ArgD("a-b", I)>>)>>,
    <<DirectiveD("ok11", <<ArgD("-a", I)>>, <<"OBJECT">>)>>,
    <<ObjectD("{OMEGA}mega", <<>>, <<FieldD("x", I, <<>>)>>)>>, <<ObjectD("Ok12", <<>>, <<FieldD("caf{E}", I, <<>>)>>)>>,
    <<DMut2, FEmpty>>, <<DSub, FInOut>>, <<XQuery, XQuery2, FEmpty>>, <<XE, XE2, FXNotFound>>, <<XIn, XIn2, FXDupField>> }
G1 == <<DQuery, DA, DB, DN>>
G2 == <<DU1, DE, DIn>>
Prefixes == [ p0 |-> <<>>, p1 |-> <<G1>>, p2 |-> <<G1, G2>>, p3 |-> <<G1, G2, <<DTag, DDate>>, <<DMut>>>>, p4 |-> <<G1, <<DReq, DMark>>>> ]
LoadDocs == GoodDocs \cup BadDocs
=============================================================================
