------------------------------- MODULE DocGen -------------------------------
(***************************************************************************)
(* C03 - no schema text, request, value or variable map can crash or hang  *)
(* the library.                                                            *)
(*                                                                         *)
(* The property prescribes ONE outcome for every input: the entry point    *)
(* RETURNS (a result or an error, within the time bound).  What a          *)
(* specification can add to that is (1) the inputs: this module defines,   *)
(* over small token alphabets, the three input languages of ggql (schema   *)
(* SDL "sdl", executable documents "exe", values "val") as grammars,       *)
(* derivations of those grammars as a state machine (action Expand),       *)
(* mutation actions on derived token strings (Delete, Duplicate, Insert,   *)
(* Replace, Truncate, InsertNUL, CRLF), all token strings up to a length,  *)
(* and the JSON-shaped values variable maps are built from; (2) the        *)
(* deviations: each known defect is a NAME with the set of crash sites it  *)
(* explains and a necessary condition on the input; Allowed(dv, ...) is    *)
(* the set of outcomes other than "returns" admitted under the deviations  *)
(* dv.  dv = {} is the property: nothing but "returns".                    *)
(*                                                                         *)
(* The recursion bound of request resolution is modelled in                *)
(* ResolveDepth.tla.                                                       *)
(*                                                                         *)
(* A token is a string code.  It is written as its code, except for the    *)
(* codes in Raw, which stand for the given bytes.  Nonterminals are the    *)
(* field names of the grammar records (N_...).  No production is empty and *)
(* no grammar is left recursive, so a sentential form never derives a      *)
(* string shorter than itself: this bounds Expand and makes Derives        *)
(* terminate.                                                              *)
(***************************************************************************)
EXTENDS GQLCore

Langs == {"sdl", "exe", "val"}

Raw == [ NUL  |-> <<0>>,                       \* a NUL byte (ggql's parsers use 0 for "end of input")
         BAD  |-> <<255>>,                     \* a byte that is not UTF-8
         BOM  |-> <<239, 187, 191>>,
         HBOM |-> <<239, 187>>,                \* a truncated byte order mark
         NL   |-> <<10>>,
         CMT  |-> <<35, 99, 10>>,              \* "#c" newline
         HASH |-> <<35>>,                      \* a comment that the end of input terminates
         BSL  |-> <<92>>,                      \* backslash
         DQ   |-> <<34>>,                      \* one double quote
         TQ   |-> <<34, 34, 34>>,
         STR  |-> <<34, 120, 34>>,             \* "x"
         ESTR |-> <<34, 92, 34, 92, 117, 48, 48, 101, 57, 34>>,   \* "\"é"
         BSTR |-> <<34, 34, 34, 98, 10, 32, 34, 34, 34>>,          \* """b newline space """
         UTF  |-> <<195, 169>> ]               \* e acute

Seps == [ none |-> <<>>, sp |-> <<32>>, nl |-> <<10>>, crlf |-> <<13, 10>>, comma |-> <<44>> ]
\* every vector that does not name a layout is written in each of these
Layouts == <<"sp", "none">>

\* ---------------------------------------------------------------- grammars
ValAlts == { <<"STR">>, <<"1">>, <<"1.5">>, <<"true">>, <<"null">>, <<"RED">>, <<"$", "v">>, <<"BSTR">>,
             <<"[", "]">>, <<"[", "N_Val", "]">>, <<"{", "}">>, <<"{", "a", ":", "N_Val", "}">> }
TypeAlts == { <<"N_Named">>, <<"N_Named", "!">>, <<"[", "N_Type", "]">>, <<"[", "N_Type", "]", "!">> }

ExeG ==
  [ N_Doc    |-> { <<"N_Def">>, <<"N_Def", "N_Def">>, <<"N_Def", "N_Frag">>, <<"N_Frag", "N_Def">> },
    N_Def    |-> { <<"N_SelSet">>, <<"query", "N_SelSet">>, <<"query", "A", "N_SelSet">>, <<"query", "N_Vars", "N_SelSet">>,
                   <<"query", "A", "N_Vars", "N_SelSet">>, <<"mutation", "N_SelSet">>, <<"subscription", "N_SelSet">>,
                   <<"query", "N_Dir", "N_SelSet">> },
    N_Frag   |-> { <<"fragment", "F", "on", "N_TC", "N_SelSet">>, <<"fragment", "G", "on", "N_TC", "N_SelSet">>,
                   <<"fragment", "F", "on", "N_TC", "N_Dir", "N_SelSet">> },
    N_TC     |-> { <<"Query">>, <<"A">>, <<"B">>, <<"Nope">> },
    N_SelSet |-> { <<"{", "N_Sel", "}">>, <<"{", "N_Sel", "N_Sel", "}">> },
    N_Sel    |-> { <<"N_Field">>, <<"...", "F">>, <<"...", "G">>, <<"...", "on", "N_TC", "N_SelSet">>, <<"...", "N_SelSet">>,
                   <<"...", "F", "N_Dir">>, <<"...", "N_Dir", "N_SelSet">> },
    N_Field  |-> { <<"N_FN">>, <<"N_FN", "N_SelSet">>, <<"N_FN", "N_Args">>, <<"N_FN", "N_Args", "N_SelSet">>,
                   <<"s", ":", "N_FN">>, <<"N_FN", "N_Dir">> },
    N_FN     |-> { <<"a">>, <<"title">>, <<"echo">>, <<"self">>, <<"n">>, <<"__typename">>, <<"nope">>, <<"set">> },
    N_Args   |-> { <<"(", "N_Arg", ")">>, <<"(", "N_Arg", "N_Arg", ")">> },
    N_Arg    |-> { <<"s", ":", "N_Val">>, <<"i", ":", "N_Val">>, <<"in", ":", "N_Val">>, <<"x", ":", "N_Val">> },
    N_Val    |-> ValAlts,
    N_Dir    |-> { <<"@", "skip", "(", "if", ":", "N_Val", ")">>, <<"@", "include", "(", "if", ":", "N_Val", ")">>, <<"@", "nope">>,
                   <<"@", "skip">> },
    N_Vars   |-> { <<"(", "N_Var", ")">>, <<"(", "N_Var", "N_Var", ")">> },
    N_Var    |-> { <<"$", "v", ":", "N_Type">>, <<"$", "v", ":", "N_Type", "=", "N_Val">>, <<"$", "a", ":", "N_Type">>,
                   <<"$", "v", ":", "N_Type", "N_Dir">> },
    N_Type   |-> TypeAlts,
    N_Named  |-> { <<"String">>, <<"Int">>, <<"Boolean">>, <<"In">>, <<"Nope">>, <<"A">> } ]

SdlG ==
  [ N_Doc     |-> { <<"N_Def">>, <<"N_Def", "N_Def">> },
    N_Def     |-> { <<"N_TD">>, <<"extend", "N_TD">>, <<"STR", "N_TD">>, <<"BSTR", "N_TD">> },
    N_TD      |-> { <<"type", "N_TN", "N_Fields">>, <<"type", "N_TN", "implements", "N_Impl", "N_Fields">>,
                    <<"type", "N_TN", "N_Dir", "N_Fields">>, <<"interface", "N_TN", "N_Fields">>,
                    <<"union", "N_TN", "=", "N_Members">>, <<"union", "N_TN", "N_Dir", "=", "N_Members">>,
                    <<"enum", "N_TN", "{", "N_EV", "}">>, <<"enum", "N_TN", "{", "N_EV", "N_EV", "}">>,
                    <<"input", "N_TN", "{", "N_IF", "}">>, <<"input", "N_TN", "{", "N_IF", "N_IF", "}">>,
                    <<"scalar", "N_TN">>, <<"scalar", "N_TN", "N_Dir">>,
                    <<"directive", "@", "N_DN", "on", "N_Locs">>, <<"directive", "@", "N_DN", "N_ArgDefs", "on", "N_Locs">>,
                    <<"schema", "{", "query", ":", "N_TN", "}">>, <<"schema", "N_Dir", "{", "query", ":", "N_TN", "mutation", ":", "N_TN", "}">> },
    N_TN      |-> { <<"Query">>, <<"T">>, <<"A">>, <<"Named">>, <<"In">>, <<"String">>, <<"__T">> },
    N_Impl    |-> { <<"Named">>, <<"Named", "&", "T">>, <<"&", "Named">> },
    N_Fields  |-> { <<"{", "N_FD", "}">>, <<"{", "N_FD", "N_FD", "}">> },
    N_FD      |-> { <<"a", ":", "N_Type">>, <<"a", "N_ArgDefs", ":", "N_Type">>, <<"b", ":", "N_Type", "N_Dir">>, <<"STR", "a", ":", "N_Type">>,
                    <<"name", ":", "N_Type">> },
    N_ArgDefs |-> { <<"(", "N_AD", ")">>, <<"(", "N_AD", "N_AD", ")">> },
    N_AD      |-> { <<"x", ":", "N_Type">>, <<"x", ":", "N_Type", "=", "N_Val">>, <<"y", ":", "N_Type", "N_Dir">>, <<"STR", "x", ":", "N_Type">> },
    N_Type    |-> TypeAlts,
    N_Named   |-> { <<"String">>, <<"Int">>, <<"T">>, <<"Query">>, <<"In">>, <<"Nope">>, <<"Named">> },
    N_Members |-> { <<"T">>, <<"T", "|", "A">>, <<"|", "T">>, <<"String">> },
    N_EV      |-> { <<"RED">>, <<"GREEN">>, <<"RED", "N_Dir">>, <<"true">>, <<"STR", "RED">> },
    N_IF      |-> { <<"a", ":", "N_Type">>, <<"a", ":", "N_Type", "=", "N_Val">>, <<"n", ":", "N_Type", "N_Dir">> },
    N_Dir     |-> { <<"@", "deprecated">>, <<"@", "deprecated", "(", "reason", ":", "N_Val", ")">>, <<"@", "d">>, <<"@", "d", "(", "x", ":", "N_Val", ")">>,
                    <<"@", "go", "(", "type", ":", "STR", ")">>, <<"@", "skip", "(", "if", ":", "N_Val", ")">> },
    N_DN      |-> { <<"d">>, <<"skip">>, <<"e">> },
    N_Locs    |-> { <<"N_Loc">>, <<"N_Loc", "|", "N_Loc">>, <<"|", "N_Loc">> },
    N_Loc     |-> { <<"FIELD_DEFINITION">>, <<"OBJECT">>, <<"SCALAR">>, <<"ENUM_VALUE">>, <<"ARGUMENT_DEFINITION">>, <<"INPUT_FIELD_DEFINITION">>, <<"NOPE">> },
    N_Val     |-> ValAlts ]

ValG ==
  [ N_Doc |-> { <<"N_Val">> },
    N_Val |-> { <<"N_Str">>, <<"N_Num">>, <<"true">>, <<"false">>, <<"null">>, <<"RED">>, <<"$", "v">>,
                <<"[", "]">>, <<"[", "N_Val", "]">>, <<"[", "N_Val", ",", "N_Val", "]">>, <<"[", "N_Val", "N_Val", "]">>,
                <<"{", "}">>, <<"{", "N_Key", ":", "N_Val", "}">>, <<"{", "N_Key", ":", "N_Val", ",", "N_Key", ":", "N_Val", "}">> },
    N_Key |-> { <<"a">>, <<"STR">>, <<"ESTR">>, <<"b">> },
    N_Str |-> { <<"STR">>, <<"BSTR">>, <<"ESTR">>, <<"DQ", "DQ">>, <<"DQ", "N_Ch", "DQ">>, <<"DQ", "N_Ch", "N_Ch", "DQ">>, <<"TQ", "N_Ch", "TQ">> },
    N_Ch  |-> { <<"a">>, <<"BSL", "n">>, <<"BSL", "DQ">>, <<"BSL", "BSL">>, <<"BSL", "u00e9">>, <<"UTF">>, <<"NL">>, <<"{">> },
    N_Num |-> { <<"1">>, <<"-1">>, <<"1.5">>, <<"0">>, <<"1e3">>, <<"-1.5E-3">>, <<"9223372036854775808">> } ]

G(lang) == CASE lang = "exe" -> ExeG [] lang = "sdl" -> SdlG [] lang = "val" -> ValG
Start == "N_Doc"

IsNT(lang, s) == s \in DOMAIN G(lang)
NTIdx(lang, f) == {i \in 1..Len(f) : IsNT(lang, f[i])}
Complete(lang, f) == NTIdx(lang, f) = {}
FirstNT(lang, f) == CHOOSE i \in NTIdx(lang, f) : \A j \in NTIdx(lang, f) : i <= j
\* action Expand: the leftmost nonterminal is replaced by one of its alternatives
Expansions(lang, f, max) ==
  LET i == FirstNT(lang, f)
  IN {g \in {SubSeq(f, 1, i - 1) \o rhs \o SubSeq(f, i + 1, Len(f)) : rhs \in G(lang)[f[i]]} : Len(g) <= max}

\* the token string t is derivable from the sentential form f
RECURSIVE Derives(_, _, _)
Derives(lang, f, t) ==
  IF f = <<>> THEN t = <<>>
  ELSE IF Len(f) > Len(t) THEN FALSE
  ELSE IF IsNT(lang, f[1]) THEN \E rhs \in G(lang)[f[1]] : Derives(lang, rhs \o Tail(f), t)
  ELSE f[1] = t[1] /\ Derives(lang, Tail(f), Tail(t))
Valid(lang, t) == Derives(lang, <<Start>>, t)

\* ---------------------------------------------------------------- alphabets
\* every token a grammar can produce
RECURSIVE SeqSet(_)
SeqSet(s) == IF s = <<>> THEN {} ELSE {Head(s)} \cup SeqSet(Tail(s))
GrammarToks(lang) == UNION {UNION {SeqSet(rhs) : rhs \in G(lang)[nt]} : nt \in DOMAIN G(lang)} \ DOMAIN G(lang)

\* the tokens all short strings are built from (24 per language)
Core ==
  [ exe |-> {"{", "}", "(", ")", ":", "$", "@", "...", "[", "]", "=", "DQ", "BSL", "query", "fragment", "on", "a", "s", "F", "Query", "1", "CMT", "NUL", "BAD"},
    sdl |-> {"{", "}", "(", ")", ":", "[", "]", "!", "=", "@", "|", "type", "input", "enum", "union", "directive", "extend", "Query", "a", "String", "DQ", "1", "HASH", "NUL"},
    val |-> {"{", "}", "[", "]", ":", ",", "DQ", "BSL", "$", "-", "1", ".", "e", "0", "a", "u", "true", "null", "NUL", "BAD", "HASH", "NL", "(", "TQ"} ]
\* a smaller alphabet for one more token of length
Small ==
  [ exe |-> {"{", "}", "(", ")", ":", "$", "@", "...", "DQ", "query", "fragment", "a", "NUL"},
    sdl |-> {"{", "}", "(", ")", ":", "[", "@", "=", "|", "type", "extend", "Query", "a", "DQ"},
    val |-> {"{", "}", "[", "]", ":", "DQ", "BSL", "$", "-", "1", "a", "u", "NUL"} ]
\* the tokens Insert and Replace put into a derived string
MutToks ==
  [ exe |-> {"{", "}", "(", ")", "$", "...", "@", ":", "DQ", "BSL", "BAD", "fragment", "!", "HBOM"},
    sdl |-> {"{", "}", "(", ")", "@", ":", "=", "|", "&", "DQ", "TQ", "BAD", "extend", "HBOM", "!"},
    val |-> {"{", "}", "[", "]", ":", "DQ", "BSL", "BAD", "$", "-", "TQ", "HBOM", "HASH"} ]
AlphaOf(lang) == GrammarToks(lang) \cup Core[lang] \cup MutToks[lang] \cup {"NUL", "BOM"}
AlphaT == [l \in Langs |-> AlphaOf(l)]     \* (a constant: evaluated once)
Alpha(lang) == AlphaT[lang]

\* ---------------------------------------------------------------- mutations
Delete(t, i) == SubSeq(t, 1, i - 1) \o SubSeq(t, i + 1, Len(t))
Duplicate(t, i) == SubSeq(t, 1, i) \o SubSeq(t, i, Len(t))
Insert(t, i, k) == SubSeq(t, 1, i - 1) \o <<k>> \o SubSeq(t, i, Len(t))       \* i in 1..Len(t)+1
Replace(t, i, k) == [t EXCEPT ![i] = k]
Truncate(t, i) == SubSeq(t, 1, i)                                              \* i in 0..Len(t)-1
\* all results of one token-level mutation (CRLF changes the layout, not the tokens: see MCDocGen)
Mutants(lang, t) ==
  {Delete(t, i) : i \in 1..Len(t)} \cup {Duplicate(t, i) : i \in 1..Len(t)}
    \cup {Insert(t, i, k) : i \in 1..(Len(t) + 1), k \in MutToks[lang] \cup {"NUL"}}
    \cup {Replace(t, i, k) : i \in 1..Len(t), k \in MutToks[lang]}
    \cup {Truncate(t, i) : i \in 0..(Len(t) - 1)}
\* a cheaper set for the second mutation: structure-breaking ones only
Mutants2(lang, t) ==
  {Delete(t, i) : i \in 1..Len(t)} \cup {Truncate(t, i) : i \in 0..(Len(t) - 1)}
    \cup {Insert(t, i, "NUL") : i \in 1..(Len(t) + 1)} \cup {Duplicate(t, i) : i \in 1..Len(t)}

\* ---------------------------------------------------------- variable values
FloatV(s) == V("float", s)
ObjV(f) == V("obj", f)
Atoms == {NullV, BoolV(TRUE), IntV(1), FloatV("1.5"), StrV("s")}
Wrap(X) == {ListV(<<>>), ObjV([k \in {} |-> NullV])} \cup {ListV(<<x>>) : x \in X} \cup {ObjV([k \in {"a"} |-> x]) : x \in X}
RECURSIVE JsonVals(_)
JsonVals(d) == IF d = 0 THEN Atoms ELSE Atoms \cup Wrap(JsonVals(d - 1))
\* the variable maps a request with the variable names vn is resolved with: no map, the empty map,
\* one variable set, all variables set to the same value (realised by the harness from vn and d)
VarNames(t) == {t[i + 1] : i \in {j \in 1..(Len(t) - 1) : t[j] = "$" /\ t[j + 1] \in {"v", "a", "s", "u"}}}

\* ---------------------------------------------------------------- deviations
(* A deviation names a genuine defect: the sites (top ggql frame and message class of a panic,   *)
(* recursion cycle of a stack overflow, innermost stable frame of a hang) it explains, and a     *)
(* necessary condition on the input.  An outcome at any other site, or at a listed site for an   *)
(* input that cannot trigger the defect, is a violation.                                         *)
DevSites ==
  [ FragCycleUnbounded |-> {"overflow:ggql.(*Root).resolveFragRef+ggql.(*Root).resolveSels"},
    VarDefNilType      |-> {"panic:ggql.(*VarDef).Validate:nil-deref"},
    NoRootObject       |-> {"panic:ggql.(*Root).regField:nil-deref"},
    NoSchemaResolve    |-> {"panic:ggql.(*Root).getFieldDef:nil-deref"} ]
DevNames == DOMAIN DevSites

Has(t, k) == \E i \in 1..Len(t) : t[i] = k
MayTrigger(d, lang, t) ==
  CASE d = "FragCycleUnbounded" -> lang = "exe" /\ Has(t, "...") /\ Has(t, "fragment")
    [] d = "VarDefNilType"      -> lang = "exe" /\ Has(t, "$") /\ Has(t, ":")
    [] d = "NoRootObject"       -> lang \in {"exe", "sdl"} /\ t # <<>>
    [] d = "NoSchemaResolve"    -> lang = "exe" /\ t # <<>>
    [] OTHER -> FALSE

\* the deviations (each standing for its sites) that may show on input t of language lang under dv
Allowed(dv, lang, t) == {d \in dv \cap DevNames : MayTrigger(d, lang, t)}
\* when the bytes are not the rendering of t (byte-level mutations on the Go side) only the language restricts
AllowedBytes(dv, lang) == {d \in dv \cap DevNames : MayTrigger(d, lang, <<"$", ":", "...", "fragment">>)}
SitesOf(devs) == UNION {DevSites[d] : d \in devs}

Expected == "returns"
=============================================================================
