---------------------------- MODULE MCExecNoMut ----------------------------
(***************************************************************************)
(* The execution family over U-nomut (ExecUniverse!UNoMut): the schema has *)
(* no type called Mutation and so no root for mutations.  A mutation is    *)
(* refused, whatever else is in the document, and nothing is resolved for  *)
(* it (C10) - also on a root that was once offered a type Mutation in a    *)
(* document it refused (the harness does that before the first request).   *)
(* Same vector format as MCExec.tla.                                       *)
(***************************************************************************)
EXTENDS ExecGen, Json

CONSTANTS Fams, KnownDev
VARIABLES phase, cs
mcvars == <<phase, cs>>

MTitle == Op("M", "mutation", <<>>, <<F("", "title")>>)
MA == Op("M", "mutation", <<>>, <<FS("", "a", <<F("", "name")>>), F("", "title")>>)
QA == Op("A", "query", <<>>, <<F("", "title"), FS("", "a", <<F("", "n")>>)>>)
FamNoMut ==
  { Case("nomut", [ops |-> o, frags |-> <<>>], n, NoVars, {}) :
      o \in { <<MTitle>>, <<MA>>, <<QA, MTitle>>, <<MA, QA>>, <<QA>>, <<Op("", "mutation", <<>>, <<F("", "title")>>)>> }, n \in {"", "M", "A"} }
FamiliesNoMut == [ nomut |-> FamNoMut ]

MCInit == phase = "fam" /\ cs \in {[fam |-> f] : f \in Fams}
MCNext == phase = "fam" /\ phase' = "case" /\ cs' \in FamiliesNoMut[cs.fam]
MCSpec == MCInit /\ [][MCNext]_mcvars

ASSUME PrintT("@@UNI " \o ToJson(UNoMut))

Exp(dv) == Response(UNoMut, cs.doc, cs.op, cs.vars, dv)
Vector ==
  LET e == Exp({})
      k == Exp(KnownDev)
  IN IF e = k THEN [fam |-> cs.fam, doc |-> cs.doc, op |-> cs.op, vars |-> cs.vars, faults |-> cs.faults, exp |-> e]
     ELSE [fam |-> cs.fam, doc |-> cs.doc, op |-> cs.op, vars |-> cs.vars, faults |-> cs.faults, exp |-> e, expK |-> k,
           kdevs |-> {d \in KnownDev : Exp({d}) # e}]
Emit == phase = "case" => PrintT("@@VEC " \o ToJson(Vector))
\* the oracle itself: a mutation is never executed here
OracleErrPaths == phase = "case" => \A i \in DOMAIN cs.doc.ops : (ChooseOp(cs.doc, cs.op) = i /\ cs.doc.ops[i].type = "mutation") => ~Exp({}).hasData
OracleNoOpNoCall == phase = "case" => LET e == Exp({}) IN (~e.hasData) => e.calls = <<>>
OracleFaultMonotone == TRUE
OracleMergeEquiv == phase = "case" => Exp({}).data = Exp({"DeclarativeMerge"}).data
OraclePrecedence == TRUE
=============================================================================
