----------------------------- MODULE SchemaRules -----------------------------
(***************************************************************************)
(* The type-system rules of property C13 as a predicate on abstract        *)
(* schemas: Violations(s, dv) is the set of [rule, off] pairs (rule name   *)
(* and offending name); a schema is valid iff the set is empty.  Written   *)
(* from the property statement's catalogue; dv names the places where the  *)
(* current ggql is known to enforce less (known_findings.json).            *)
(***************************************************************************)
EXTENDS SchemaCore

Viol(rule, off) == [rule |-> rule, off |-> off]

TypeDefined(s, n) == n \in BuiltinScalars \/ n \in DOMAIN s.types
KindOfT(s, n) == IF n \in BuiltinScalars THEN "SCALAR" ELSE IF n \in DOMAIN s.types THEN s.types[n].kind ELSE "UNDEFINED"
IsInputT(s, t) == KindOfT(s, BaseName(t)) \in {"SCALAR", "ENUM", "INPUT_OBJECT"}
IsOutputT(s, t) == KindOfT(s, BaseName(t)) \in {"SCALAR", "OBJECT", "INTERFACE", "UNION", "ENUM"}
RECURSIVE WrapDepth(_)
WrapDepth(t) == IF t.k = "named" THEN 0 ELSE 1 + WrapDepth(t.of)
RECURSIVE DoubleNonNull(_)
DoubleNonNull(t) == t.k # "named" /\ ((t.k = "nonnull" /\ t.of.k = "nonnull") \/ DoubleNonNull(t.of))

\* names: [_A-Za-z][_0-9A-Za-z]*, not starting with "__".  The universes use these representatives.
\* (a digit first; punctuation first - only a schema built in Go can have such a name, SDL text does not get that far; a
\* character in the middle that no name has)
BadNames == {"9lives", "7", "-lead", "$x", "%V", "a-b", "-d", "-a", "{OMEGA}mega", "caf{E}"}   \* ({OMEGA}, {E}: a Greek capital, e-acute; the harness writes them)
ReservedNames == {"__Secret", "__f", "__a", "__V"}
NameViols(kind, n) ==
  (IF n \in BadNames THEN {Viol("bad_name", n)} ELSE {}) \cup (IF n \in ReservedNames THEN {Viol("reserved_name", n)} ELSE {})

\* ---- directive uses ------------------------------------------------------
\* does value v fit scalar/enum/input type t (only what directive arguments in the universes need)
\* (lists member by member; input objects field by field: only declared fields, and every field that is left out has a
\* default or may be null)
RECURSIVE Coercible(_, _, _)
Coercible(s, t, v) ==
  IF v.k = "null" THEN t.k # "nonnull"
  ELSE IF t.k = "nonnull" THEN Coercible(s, t.of, v)
  ELSE IF t.k = "list" THEN (IF v.k = "list" THEN \A i \in DOMAIN v.v : Coercible(s, t.of, v.v[i]) ELSE Coercible(s, t.of, v))
  ELSE LET b == t.n IN
       CASE v.k = "list" -> FALSE
         [] b = "Int" -> v.k = "int"
         [] b = "String" -> v.k = "str"
         [] b = "Boolean" -> v.k = "bool"
         [] b = "ID" -> v.k \in {"str", "int"}
         [] b \in {"Float", "Float64"} -> v.k \in {"int", "num"}
         [] KindOfT(s, b) = "ENUM" -> v.k = "enum" /\ v.v \in NameSet(s.types[b].values)
         [] KindOfT(s, b) = "INPUT_OBJECT" ->
              LET fs == s.types[b].infields IN
              /\ v.k = "obj"
              /\ DOMAIN v.v \subseteq NameSet(fs)
              /\ \A i \in DOMAIN fs : IF fs[i].n \in DOMAIN v.v THEN Coercible(s, fs[i].type, v.v[fs[i].n])
                                        ELSE fs[i].hasDef \/ fs[i].type.k # "nonnull"
         [] OTHER -> TRUE

\* deviation DirArgErrorUnnamed: the error for an uncoercible directive argument (or default) gives
\* the position and the expected type but not the argument or directive
Unnamed(dv, name, t) == IF "DirArgErrorUnnamed" \in dv THEN BaseName(t) ELSE name

UseViols(s, dv, where, loc, uses) ==
  UNION { LET du == uses[i] IN
          IF du.n \notin DOMAIN AllDirs(s) THEN {Viol("undefined_directive", du.n)}
          ELSE LET d == AllDirs(s)[du.n] IN
               (IF loc \notin Range(d.locs) THEN {Viol("directive_location", du.n)} ELSE {})
               \cup { Viol("directive_unknown_arg", du.args[j].n) : j \in {j \in DOMAIN du.args : du.args[j].n \notin NameSet(d.args)} }
               \cup { Viol("directive_arg_value", Unnamed(dv, du.args[j].n, ByName(d.args, du.args[j].n).type)) :
                        j \in {j \in DOMAIN du.args : du.args[j].n \in NameSet(d.args)
                                                      /\ ~Coercible(s, ByName(d.args, du.args[j].n).type, du.args[j].v)} }
        : i \in DOMAIN uses }
  \cup (IF HasDup(Names(uses)) /\ FALSE THEN {} ELSE {})

\* ---- references ----------------------------------------------------------
RefViols(s, t) == IF TypeDefined(s, BaseName(t)) THEN {} ELSE {Viol("undefined_type", BaseName(t))}

ArgsViols(s, dv, owner, args, fieldLevelChecked) ==
  (IF HasDup(Names(args)) THEN {Viol("duplicate_argument", owner)} \cup {Viol("duplicate_argument", args[i].n) : i \in {i \in DOMAIN args : \E j \in DOMAIN args : j # i /\ args[j].n = args[i].n}} ELSE {})
  \cup UNION { LET a == args[i] IN
               RefViols(s, a.type) \cup NameViols("argument", a.n)
               \cup (IF TypeDefined(s, BaseName(a.type)) /\ ~IsInputT(s, a.type) THEN {Viol("argument_not_input_type", a.n)} ELSE {})
               \cup (IF DoubleNonNull(a.type) THEN {Viol("double_non_null", a.n)} ELSE {})
               \cup (IF fieldLevelChecked THEN UseViols(s, dv, a.n, "ARGUMENT_DEFINITION", a.dirs)
                     ELSE { v \in UseViols(s, dv, a.n, "ARGUMENT_DEFINITION", a.dirs) : v.rule = "undefined_directive" })
             : i \in DOMAIN args }

FieldsViols(s, dv, d) ==
  (IF d.fields = <<>> THEN {Viol("empty", d.name)} ELSE {})
  \cup (IF HasDup(Names(d.fields)) THEN {Viol("duplicate_field", d.name)} \cup {Viol("duplicate_field", d.fields[i].n) : i \in {i \in DOMAIN d.fields : \E j \in DOMAIN d.fields : j # i /\ d.fields[j].n = d.fields[i].n}} ELSE {})
  \cup UNION { LET f == d.fields[i]
                   chk == "FieldLevelDirUseUnchecked" \notin dv IN
               RefViols(s, f.type) \cup NameViols("field", f.n)
               \cup (IF TypeDefined(s, BaseName(f.type)) /\ ~IsOutputT(s, f.type) THEN {Viol("field_not_output_type", f.n)} ELSE {})
               \cup (IF DoubleNonNull(f.type) THEN {Viol("double_non_null", f.n)} ELSE {})
               \cup ArgsViols(s, dv, f.n, f.args, chk)
               \cup (IF chk THEN UseViols(s, dv, f.n, "FIELD_DEFINITION", f.dirs)
                     ELSE { v \in UseViols(s, dv, f.n, "FIELD_DEFINITION", f.dirs) : v.rule = "undefined_directive" })
             : i \in DOMAIN d.fields }

\* ---- interfaces ----------------------------------------------------------
RECURSIVE SubType(_, _, _)
\* may a field of type `sub` stand for an interface field of type `target`
SubType(s, target, sub) ==
  \/ target = sub
  \/ sub.k = "nonnull" /\ target.k # "nonnull" /\ SubType(s, target, sub.of)
  \/ target.k = "list" /\ sub.k = "list" /\ SubType(s, target.of, sub.of)
  \/ target.k = "nonnull" /\ sub.k = "nonnull" /\ SubType(s, target.of, sub.of)
  \/ /\ target.k = "named" /\ sub.k = "named"
     /\ \/ KindOfT(s, target.n) = "UNION" /\ sub.n \in Range(s.types[target.n].members)
        \/ KindOfT(s, target.n) = "INTERFACE" /\ KindOfT(s, sub.n) = "OBJECT" /\ target.n \in Range(s.types[sub.n].ifaces)

ImplViols(s, d) ==
  UNION { LET iname == d.ifaces[k] IN
          IF ~TypeDefined(s, iname) THEN {Viol("undefined_type", iname)}
          ELSE IF KindOfT(s, iname) # "INTERFACE" THEN {Viol("not_an_interface", iname)}
          ELSE UNION { LET fi == s.types[iname].fields[j] IN
                       IF fi.n \notin NameSet(d.fields) THEN {Viol("interface_field_missing", fi.n)}
                       ELSE LET fo == ByName(d.fields, fi.n) IN
                            (IF SubType(s, fi.type, fo.type) THEN {} ELSE {Viol("interface_field_type", fi.n)})
                            \cup { Viol("interface_arg_missing", fi.args[a].n) : a \in {a \in DOMAIN fi.args : fi.args[a].n \notin NameSet(fo.args)} }
                            \cup { Viol("interface_arg_type", fi.args[a].n) :
                                     a \in {a \in DOMAIN fi.args : fi.args[a].n \in NameSet(fo.args) /\ ByName(fo.args, fi.args[a].n).type # fi.args[a].type} }
                            \cup { Viol("interface_extra_required_arg", fo.args[a].n) :
                                     a \in {a \in DOMAIN fo.args : fo.args[a].n \notin NameSet(fi.args) /\ fo.args[a].type.k = "nonnull"} }
                     : j \in DOMAIN s.types[iname].fields }
        : k \in DOMAIN d.ifaces }

\* ---- directive definitions ------------------------------------------------
RECURSIVE DirReach(_, _, _)
\* directives reachable from directive n through the uses on directive arguments
DirReach(s, frontier, seen) ==
  IF frontier = {} THEN seen
  ELSE LET next == UNION { UNION { NameSet(AllDirs(s)[n].args[i].dirs) : i \in DOMAIN AllDirs(s)[n].args }
                           : n \in frontier \cap DOMAIN AllDirs(s) }
       IN DirReach(s, next \ seen, seen \cup next)
DirCycle(s, n) == n \in DirReach(s, {n}, {})

DefViols(s, dv, d) ==
  LET locOf == [k \in {"OBJECT", "INTERFACE", "UNION", "ENUM", "INPUT_OBJECT", "SCALAR", "SCHEMA"} |-> k]   \* type-level location = kind
  IN (IF d.kind \in {"DIRECTIVE", "SCHEMA"} THEN {} ELSE NameViols("type", d.name))
     \cup (IF d.kind = "DIRECTIVE" THEN NameViols("directive", d.name) ELSE UseViols(s, dv, d.name, locOf[d.kind], d.dirs))
     \cup CASE d.kind = "OBJECT" -> FieldsViols(s, dv, d) \cup ImplViols(s, d)
            [] d.kind = "INTERFACE" -> FieldsViols(s, dv, d)
            [] d.kind = "UNION" ->
                 (IF d.members = <<>> THEN {Viol("empty", d.name)} ELSE {})
                 \cup UNION { IF ~TypeDefined(s, d.members[i]) THEN {Viol("undefined_type", d.members[i])}
                              ELSE IF KindOfT(s, d.members[i]) # "OBJECT" THEN {Viol("union_member_not_object", d.members[i])} ELSE {}
                            : i \in DOMAIN d.members }
            [] d.kind = "ENUM" ->
                 (IF d.values = <<>> THEN {Viol("empty", d.name)} ELSE {})
                 \cup (IF HasDup(Names(d.values)) THEN {Viol("duplicate_enum_value", d.name)} \cup {Viol("duplicate_enum_value", d.values[i].n) : i \in {i \in DOMAIN d.values : \E j \in DOMAIN d.values : j # i /\ d.values[j].n = d.values[i].n}} ELSE {})
                 \cup UNION { NameViols("enum value", d.values[i].n)
                              \cup (IF d.values[i].n \in {"true", "false", "null"} THEN {Viol("bad_enum_value", d.values[i].n)} ELSE {})
                              \cup UseViols(s, dv, d.values[i].n, "ENUM_VALUE", d.values[i].dirs)
                            : i \in DOMAIN d.values }
            [] d.kind = "INPUT_OBJECT" ->
                 (IF d.infields = <<>> THEN {Viol("empty", d.name)} ELSE {})
                 \cup (IF HasDup(Names(d.infields)) THEN {Viol("duplicate_input_field", d.name)} \cup {Viol("duplicate_input_field", d.infields[i].n) : i \in {i \in DOMAIN d.infields : \E j \in DOMAIN d.infields : j # i /\ d.infields[j].n = d.infields[i].n}} ELSE {})
                 \cup UNION { LET f == d.infields[i]
                                  chk == "FieldLevelDirUseUnchecked" \notin dv IN
                              RefViols(s, f.type) \cup NameViols("field", f.n)
                              \cup (IF TypeDefined(s, BaseName(f.type)) /\ ~IsInputT(s, f.type) THEN {Viol("input_field_not_input_type", f.n)} ELSE {})
                              \cup (IF chk THEN UseViols(s, dv, f.n, "INPUT_FIELD_DEFINITION", f.dirs)
                                    ELSE { v \in UseViols(s, dv, f.n, "INPUT_FIELD_DEFINITION", f.dirs) : v.rule = "undefined_directive" })
                            : i \in DOMAIN d.infields }
            [] d.kind = "DIRECTIVE" ->
                 { Viol("bad_location", d.locs[i]) : i \in {i \in DOMAIN d.locs : d.locs[i] \notin AllLocations} }
                 \cup (IF HasDup(Names(d.args)) THEN {Viol("duplicate_argument", d.name)} ELSE {})
                 \cup UNION { LET a == d.args[i] IN
                              RefViols(s, a.type) \cup NameViols("argument", a.n)
                              \cup (IF TypeDefined(s, BaseName(a.type)) /\ ~IsInputT(s, a.type)
                                       /\ ("DirArgNestedNonInput" \notin dv \/ a.type.k = "named")
                                    THEN {Viol("directive_arg_not_input_type", a.n)} ELSE {})
                              \cup (IF a.hasDef /\ TypeDefined(s, BaseName(a.type)) /\ IsInputT(s, a.type) /\ ~Coercible(s, a.type, a.def)
                                    THEN {Viol("directive_arg_default", Unnamed(dv, a.n, a.type))} ELSE {})
                              \cup UseViols(s, dv, a.n, IF "ArgDefLocation" \in dv THEN "INPUT_FIELD_DEFINITION" ELSE "ARGUMENT_DEFINITION", a.dirs)
                            : i \in DOMAIN d.args }
                 \cup (IF DirCycle(s, d.name) THEN {Viol("directive_cycle", d.name)} ELSE {})
            [] OTHER -> {}

RootViols(s) ==
  { Viol("root_not_object", s.roots[op]) : op \in {op \in DOMAIN s.roots : s.roots[op] # "" /\ KindOfT(s, s.roots[op]) # "OBJECT"} }

Violations(s, dv) ==
  UNION { DefViols(s, dv, s.types[n]) : n \in DOMAIN s.types }
  \cup UNION { DefViols(s, dv, s.dirs[n]) : n \in DOMAIN s.dirs }
  \cup RootViols(s)

Valid(s, dv) == Violations(s, dv) = {}
=============================================================================
