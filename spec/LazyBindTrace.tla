---------------------------- MODULE LazyBindTrace ----------------------------
(***************************************************************************)
(* Judges access logs recorded from the real code (harness/cmd/lazybind    *)
(* trace) against LazyBind.tla.                                            *)
(*                                                                         *)
(* lazytrace.ndjson holds any number of traces.  A trace is the log of ONE *)
(* goroutine that resolved a sequence of requests on a cold root:          *)
(*   {"t":"begin","w":world,"reqs":[request names]}                        *)
(*   {"t":"acc","l":label,"o":object type,"f":field,"held":[locks],        *)
(*    "m":meta of o,"b":binding of o.f}      one per verification point    *)
(*   {"t":"end","outs":[outcome per request]}                              *)
(* The verification points sit immediately before each access to           *)
(* Object.meta / the FieldDef binding; "held" is the set of mutexes that   *)
(* are REALLY locked at that moment (observed with TryLock while nothing   *)
(* else runs), "m"/"b" the real values.                                    *)
(*                                                                         *)
(* The judge runs the one-goroutine machine of LazyBind over the program   *)
(* the universe gives for those requests.  Steps without an access are     *)
(* taken silently; an access step must consume the next record, which must *)
(* carry the same label and target, the values the model has, and a held   *)
(* set that covers the locks the model requires at that access             *)
(* (Required).  A record the model cannot explain, a missing record, or a  *)
(* different outcome ends the trace with the verdict ok = FALSE.           *)
(* With Dev = {} a log is accepted only if the code follows the lock       *)
(* discipline that TLC proved race free; with Dev = K the known deviations *)
(* are allowed (second oracle, for attribution).                           *)
(***************************************************************************)
EXTENDS LazyBind, LazyUniverse, Json

JTrace == ndJsonDeserialize("lazytrace.ndjson")
NRec == Len(JTrace)

VARIABLES
  l,      \* index of the next record
  ti,     \* number of the current trace
  ph,     \* "idle" (between traces) or "run"
  names   \* the requests of the current trace

tvars == <<vars, l, ti, ph, names>>

VisitsOf(ns) == Flatten([i \in DOMAIN ns |-> LazyReqs[ns[i]].visits])
RECURSIVE EndIdx(_, _)
EndIdx(ns, i) == IF i = 0 THEN 0 ELSE EndIdx(ns, i - 1) + Len(LazyReqs[ns[i]].visits)
ReqOuts(ns, o) == [i \in DOMAIN ns |-> o[EndIdx(ns, i)]]

Rec == JTrace[l]
HasRec == l <= NRec
Me == CHOOSE g \in G : TRUE

RECURSIVE NextBegin(_)
NextBegin(i) == IF i > NRec THEN i ELSE IF JTrace[i].t = "begin" THEN i ELSE NextBegin(i + 1)

HeldOf(r) == {<<r.held[i].k, r.held[i].o, r.held[i].f>> : i \in DOMAIN r.held}

\* the record is the access the machine is about to make
Match(r) ==
  LET a == Acc(Me) IN
  /\ r.l = a.l
  /\ r.o = a.v[2]
  /\ r.f = a.v[3]
  /\ Required(Me) \subseteq HeldOf(r)
  /\ (a.l \in CallsOut => HeldOf(r) = {})          \* nothing held where ggql calls into application code
  /\ IF a.v[1] = "meta" THEN r.m = meta[a.v[2]] ELSE r.b = bind[<<a.v[2], a.v[3]>>].k

Verdict(ok, why) ==
  PrintT("@@VER " \o ToJson([i |-> ti, ok |-> ok, at |-> l, why |-> why, w |-> wn, reqs |-> names]))

TInit ==
  /\ l = 1 /\ ti = 0 /\ ph = "idle" /\ names = <<>>
  /\ InitWith("plain", [g \in G |-> <<>>])
  /\ TLCSet(1, 1)

Mark == TLCSet(1, IF l' > TLCGet(1) THEN l' ELSE TLCGet(1))

TBegin ==
  /\ ph = "idle" /\ HasRec /\ Rec.t = "begin"
  /\ names' = Rec.reqs
  /\ LET p == [g \in G |-> VisitsOf(Rec.reqs)] IN
       /\ wn' = Rec.w
       /\ prog' = p
       /\ meta' = [o \in Worlds[Rec.w].objs |-> Worlds[Rec.w].static[o]]
       /\ bind' = [fd \in Fds(Worlds[Rec.w]) |-> NoBind]
       /\ objMu' = [o \in Worlds[Rec.w].objs |-> 0]
       /\ fdMu' = [fd \in Fds(Worlds[Rec.w]) |-> 0]
       /\ loc' = [g \in G |-> InitLoc(p[g])]
       /\ out' = [g \in G |-> <<>>]
  /\ ti' = ti + 1 /\ ph' = "run" /\ l' = l + 1
  /\ Mark

\* a record that is not the start of a trace while none is running
TStray ==
  /\ ph = "idle" /\ HasRec /\ Rec.t # "begin"
  /\ Verdict(FALSE, "record outside a trace")
  /\ l' = NextBegin(l + 1) /\ Mark
  /\ UNCHANGED <<vars, ti, ph, names>>

TSilent ==
  /\ ph = "run" /\ ~AllDone /\ Acc(Me).k = "N"
  /\ Step(Me)
  /\ UNCHANGED <<l, ti, ph, names>>

TAccess ==
  /\ ph = "run" /\ ~AllDone /\ Acc(Me).k # "N"
  /\ HasRec /\ Rec.t = "acc" /\ Match(Rec)
  /\ Step(Me)
  /\ l' = l + 1 /\ Mark
  /\ UNCHANGED <<ti, ph, names>>

TEnd ==
  /\ ph = "run" /\ AllDone
  /\ HasRec /\ Rec.t = "end" /\ Rec.outs = ReqOuts(names, out[Me])
  /\ Verdict(TRUE, "")
  /\ ph' = "idle" /\ l' = l + 1 /\ Mark
  /\ UNCHANGED <<vars, ti, names>>

Why ==
  IF ~AllDone
  THEN IF ~HasRec \/ Rec.t # "acc"
       THEN "the model makes access " \o Acc(Me).l \o " on " \o Acc(Me).v[2] \o "." \o Acc(Me).v[3] \o " but the log has none"
       ELSE IF Rec.l # Acc(Me).l \/ Rec.o # Acc(Me).v[2] \/ Rec.f # Acc(Me).v[3]
       THEN "logged access " \o Rec.l \o " on " \o Rec.o \o "." \o Rec.f \o " where the model makes " \o Acc(Me).l
              \o " on " \o Acc(Me).v[2] \o "." \o Acc(Me).v[3]
       ELSE IF ~(Required(Me) \subseteq HeldOf(Rec))
       THEN "access " \o Rec.l \o " on " \o Rec.o \o "." \o Rec.f \o " without the lock the model requires"
       ELSE IF Acc(Me).l \in CallsOut /\ HeldOf(Rec) # {}
       THEN "the call into application code at " \o Rec.l \o " on " \o Rec.o \o "." \o Rec.f \o " is made with a lock held"
       ELSE "access " \o Rec.l \o " on " \o Rec.o \o "." \o Rec.f \o " saw a value the model does not have there"
  ELSE IF HasRec /\ Rec.t = "acc"
  THEN "logged access " \o Rec.l \o " on " \o Rec.o \o "." \o Rec.f \o " after the model finished"
  ELSE IF HasRec /\ Rec.t = "end" THEN "outcomes differ from the model's"
  ELSE "trace not closed"

TAbort ==
  /\ ph = "run"
  /\ \/ ~AllDone /\ Acc(Me).k # "N" /\ ~(HasRec /\ Rec.t = "acc" /\ Match(Rec))
     \/ AllDone /\ ~(HasRec /\ Rec.t = "end" /\ Rec.outs = ReqOuts(names, out[Me]))
  /\ Verdict(FALSE, Why)
  /\ ph' = "idle" /\ l' = NextBegin(l) /\ Mark
  /\ UNCHANGED <<vars, ti, names>>

TNext == TBegin \/ TStray \/ TSilent \/ TAccess \/ TEnd \/ TAbort
TSpec == TInit /\ [][TNext]_tvars

\* the whole file has been judged
TDone ==
  IF TLCGet(1) = NRec + 1 THEN TRUE
  ELSE PrintT("@@INCOMPLETE " \o ToJson([consumed |-> TLCGet(1) - 1, total |-> NRec])) /\ FALSE
=============================================================================
