------------------------------- MODULE Loader -------------------------------
(***************************************************************************)
(* Loading type-system documents into a Root (C14, C16; structural half of *)
(* C15).  The state is the abstract schema of SchemaCore; one action,      *)
(* Load(doc), is the whole critical section of Root.ParseReader / AddTypes *)
(* as the property statements see it:                                      *)
(*                                                                         *)
(*   - a load either commits the document's effect or leaves the           *)
(*     observable schema exactly as it was (Atomic);                       *)
(*   - what is committed does not depend on how the definitions are        *)
(*     ordered inside a document, split over documents or written as       *)
(*     `extend` blocks (checked by MCLoader over arrangements).            *)
(*                                                                         *)
(* A document is a sequence of definitions; two pseudo definitions model   *)
(* faults: kind "SYNTAX" (text that does not parse) and kind "READFAULT"   *)
(* (the reader fails at that point of the stream).                         *)
(*                                                                         *)
(* LoadResult(s, doc, dv) = [ok, s, why, off]; dv = {} is the property.    *)
(* LoadVia(s, doc, dv, via): the same delivered as SDL text ("sdl") or as   *)
(* Go-built types through Root.AddTypes ("types").                         *)
(* Deviations reproduce how root.go behaves where it is known to differ.   *)
(***************************************************************************)
EXTENDS Introspect

Fail(s, why, off) == [ok |-> FALSE, s |-> s, why |-> why, off |-> off, offs |-> {off}]

\* (CLOSEFAULT: the document is delivered through ParseFS from a file whose Close fails after all of it was read)
IsFault(d) == d.kind \in {"SYNTAX", "READFAULT", "CLOSEFAULT"}
NewDefs(doc) == SelectSeq(doc, LAMBDA d : ~d.ext /\ d.kind # "SCHEMA" /\ ~IsFault(d))
ExtDefs(doc) == SelectSeq(doc, LAMBDA d : d.ext)
SchemaDefs(doc) == SelectSeq(doc, LAMBDA d : ~d.ext /\ d.kind = "SCHEMA")

CoreTypeNames == BuiltinScalars \cup {"__Type", "__Schema", "__Field", "__InputValue", "__EnumValue", "__Directive",
                                      "__TypeKind", "__DirectiveLocation"}

\* add the new definitions one by one; a second definition of a name is an error,
\* except that a scalar whose name is taken is silently ignored (documented in addTypes)
RECURSIVE AddNew(_, _, _)
AddNew(s, defs, i) ==
  IF i > Len(defs) THEN [ok |-> TRUE, s |-> s, why |-> "", off |-> "", offs |-> {}]
  ELSE LET d == defs[i] IN
       IF d.kind = "DIRECTIVE"
       THEN IF d.name \in DOMAIN s.dirs \cup DOMAIN CoreDirs THEN Fail(s, "duplicate", d.name)
            ELSE AddNew([s EXCEPT !.dirs = Put(@, d.name, d)], defs, i + 1)
       ELSE IF d.name \in DOMAIN s.types \cup CoreTypeNames
            THEN IF d.kind = "SCALAR" THEN AddNew(s, defs, i + 1) ELSE Fail(s, "duplicate", d.name)
            ELSE AddNew([s EXCEPT !.types = Put(@, d.name, d)], defs, i + 1)

RootsOf(sd) == [op \in {"query", "mutation", "subscription"} |->
                  IF op \in {sd.roots[i].op : i \in DOMAIN sd.roots}
                  THEN (CHOOSE r \in Range(sd.roots) : r.op = op).type ELSE ""]

\* merge the extend blocks in order
RECURSIVE AddExt(_, _, _)
AddExt(s, exts, i) ==
  IF i > Len(exts) THEN [ok |-> TRUE, s |-> s, why |-> "", off |-> "", offs |-> {}]
  ELSE LET x == exts[i] IN
       IF x.kind = "SCHEMA"
       THEN IF ~s.explicit THEN Fail(s, "extend_not_found", "schema")
            ELSE LET add == RootsOf(x)
                     clash == {op \in DOMAIN add : add[op] # "" /\ s.roots[op] # ""} IN
                 IF clash # {} THEN Fail(s, "duplicate_field", "schema")
                 ELSE AddExt([s EXCEPT !.roots = [op \in DOMAIN @ |-> IF add[op] # "" THEN add[op] ELSE @[op]]], exts, i + 1)
       ELSE IF x.name \in DOMAIN s.types
       THEN LET m == Merge(s.types[x.name], [x EXCEPT !.ext = FALSE]) IN
            IF m.ok THEN AddExt([s EXCEPT !.types = Put(@, x.name, [m.def EXCEPT !.ext = FALSE])], exts, i + 1)
            ELSE Fail(s, m.why, m.off)
       ELSE IF x.name \in DOMAIN s.dirs \cup DOMAIN CoreDirs
       THEN Fail(s, "cannot_extend_directive", x.name)        \* ggql: "can not extend a directive"
       ELSE Fail(s, "extend_not_found", x.name)

LoadResult(s, doc, dv) ==
  IF \E i \in DOMAIN doc : IsFault(doc[i])
  THEN Fail(s, "syntax", "")
  ELSE LET a == AddNew(s, NewDefs(doc), 1) IN
       IF ~a.ok THEN Fail(s, a.why, a.off)
       ELSE IF SchemaDefs(doc) # <<>> /\ (a.s.explicit \/ Len(SchemaDefs(doc)) > 1)
       THEN Fail(s, "duplicate", "schema")                       \* at most one schema block per root
       ELSE LET sds == SchemaDefs(doc)
                s1 == IF sds = <<>> THEN a.s
                      ELSE [a.s EXCEPT !.roots = RootsOf(sds[Len(sds)]), !.explicit = TRUE]
                b == AddExt(s1, ExtDefs(doc), 1) IN
            IF ~b.ok THEN Fail(s, b.why, b.off)
            ELSE LET s2 == IF b.s.explicit THEN b.s ELSE [b.s EXCEPT !.roots = ImplicitRoots(b.s.types)]
                     vs == Violations(s2, dv) IN
                 IF vs # {} THEN [ok |-> FALSE, s |-> s, why |-> "invalid", off |-> (CHOOSE v \in vs : TRUE).off, offs |-> {v.off : v \in vs}]
                 ELSE [ok |-> TRUE, s |-> s2, why |-> "", off |-> "", offs |-> {}]

\* Root.AddTypes(types...): definitions an application built in Go (composite literals with Ref place holders,
\* the Add* methods) instead of writing SDL. There is nothing to read, no extend block and no schema block. The
\* new definitions are added and the whole schema validated exactly as for a document; the operation roots are
\* ParseReader's business (assureSchema) - AddTypes leaves them as they are, and the next document loaded finds
\* the types named Query / Mutation / Subscription.
TypesEligible(doc) == \A i \in DOMAIN doc : ~doc[i].ext /\ doc[i].kind # "SCHEMA" /\ ~IsFault(doc[i])
AddTypesResult(s, doc, dv) ==
  LET a == AddNew(s, doc, 1) IN
  IF ~a.ok THEN Fail(s, a.why, a.off)
  ELSE LET vs == Violations(a.s, dv) IN
       IF vs # {} THEN [ok |-> FALSE, s |-> s, why |-> "invalid", off |-> (CHOOSE v \in vs : TRUE).off, offs |-> {v.off : v \in vs}]
       ELSE [ok |-> TRUE, s |-> a.s, why |-> "", off |-> "", offs |-> {}]

LoadVia(s, doc, dv, via) == IF via = "types" THEN AddTypesResult(s, doc, dv) ELSE LoadResult(s, doc, dv)

\* Root.RegisterType / Root.RegisterField bind Go types, struct fields and methods to declared types (for the reflection
\* resolver; RegisterField also says in which order a method takes the field's arguments).  They are no part of the type
\* system: accepted or refused, the declared schema is what it was.  A stuttering step here; the harness takes such
\* steps - registrations that must be refused - between the loads of a history (cmd/schema/regprobe.go) and the
\* comparison that follows every load judges the root.
Registration(s) == s
=============================================================================
