----------------------------- MODULE MCLazyBind -----------------------------
(***************************************************************************)
(* TLC instance of LazyBind over the universe U-lazy.                      *)
(*                                                                         *)
(* Init picks a world and a mix: which requests each goroutine runs, one   *)
(* after the other, from a cold root.  Mix families (constant Modes):      *)
(*   single  one goroutine, one request                                    *)
(*   pair    two goroutines, one request each (all unordered pairs)        *)
(*   seq     one goroutine, two requests in sequence (all ordered pairs)   *)
(*   pairsel pairs of requests from TripleReqs only                        *)
(*   pairwith / seqwith  pairs / sequences with a request from TripleReqs  *)
(*   triple  three goroutines, one request each, requests from TripleReqs  *)
(*   pairseq two goroutines, the first runs two requests (from TripleReqs) *)
(* TLC explores every interleaving of the labelled steps.  It prints       *)
(*   @@UNI  the universe and the label -> code table                       *)
(*   @@VEC  per (world, mix): the outcome S prescribes for every request   *)
(*   @@OUT  per final state: the outcomes the machine produced             *)
(*   @@RACE each pair of racing labels met (only when EmitRaces is checked)*)
(***************************************************************************)
EXTENDS LazyBind, LazyUniverse, Json

CONSTANTS
  Plan,        \* world name -> set of mix families explored in that world
  TripleReqs   \* request names used by the families pairsel, triple, pairseq

VARIABLE mix   \* goroutine -> sequence of request names

mcvars == <<vars, mix>>

\* U-exec (the universe of the execution family) is used by the free-running stress as well
EU == INSTANCE ExecUniverse
ASSUME PrintT("@@UNI " \o ToJson([uni |-> LazyUni, labels |-> LabelCode]))
ASSUME PrintT("@@UEXEC " \o ToJson(EU!UExec))
ASSUME TLCSet(2, {})

NReq == Len(LazyReqSeq)
Mk(s) == [g \in G |-> IF g <= Len(s) THEN s[g] ELSE <<>>]
InTriple(i) == LazyReqSeq[i] \in TripleReqs

MixSet(Modes) ==
  (IF "single" \in Modes THEN {Mk(<< <<LazyReqSeq[i]>> >>) : i \in 1..NReq} ELSE {})
  \cup (IF "pair" \in Modes
        THEN {Mk(<< <<LazyReqSeq[p[1]]>>, <<LazyReqSeq[p[2]]>> >>) : p \in {p \in (1..NReq) \X (1..NReq) : p[1] <= p[2]}}
        ELSE {})
  \cup (IF "pairsel" \in Modes
        THEN {Mk(<< <<LazyReqSeq[p[1]]>>, <<LazyReqSeq[p[2]]>> >>) :
                p \in {p \in (1..NReq) \X (1..NReq) : p[1] <= p[2] /\ InTriple(p[1]) /\ InTriple(p[2])}}
        ELSE {})
  \cup (IF "pairwith" \in Modes
        THEN {Mk(<< <<LazyReqSeq[p[1]]>>, <<LazyReqSeq[p[2]]>> >>) :
                p \in {p \in (1..NReq) \X (1..NReq) : p[1] <= p[2] /\ (InTriple(p[1]) \/ InTriple(p[2]))}}
        ELSE {})
  \cup (IF "seqwith" \in Modes
        THEN {Mk(<< <<LazyReqSeq[p[1]], LazyReqSeq[p[2]]>> >>) :
                p \in {p \in (1..NReq) \X (1..NReq) : InTriple(p[1]) \/ InTriple(p[2])}}
        ELSE {})
  \cup (IF "seq" \in Modes
        THEN {Mk(<< <<LazyReqSeq[p[1]], LazyReqSeq[p[2]]>> >>) : p \in (1..NReq) \X (1..NReq)}
        ELSE {})
  \cup (IF "triple" \in Modes
        THEN {Mk(<< <<LazyReqSeq[p[1]]>>, <<LazyReqSeq[p[2]]>>, <<LazyReqSeq[p[3]]>> >>) :
                p \in {p \in (1..NReq) \X (1..NReq) \X (1..NReq) :
                         p[1] <= p[2] /\ p[2] <= p[3] /\ InTriple(p[1]) /\ InTriple(p[2]) /\ InTriple(p[3])}}
        ELSE {})
  \cup (IF "pairseq" \in Modes
        THEN {Mk(<< <<LazyReqSeq[p[1]], LazyReqSeq[p[2]]>>, <<LazyReqSeq[p[3]]>> >>) :
                p \in {p \in (1..NReq) \X (1..NReq) \X (1..NReq) : InTriple(p[1]) /\ InTriple(p[2]) /\ InTriple(p[3])}}
        ELSE {})

VisitsOf(names) == Flatten([i \in DOMAIN names |-> LazyReqs[names[i]].visits])
ProgOf(m) == [g \in G |-> VisitsOf(m[g])]

\* the worlds differ only in how Canine's Go type is made known: the full set of pairs is
\* explored in the world where it is not, the other worlds get the mixes that involve it
QuickPlan == [plain |-> {"single", "pair", "seq"}, godir |-> {"single", "seq", "pairsel"}, registered |-> {"single", "seq", "pairsel"}]
FullPlan == [w \in DOMAIN LazyWorlds |-> {"single", "pair", "seq", "triple", "pairseq"}]
PairPlan == [w \in DOMAIN LazyWorlds |-> {"single", "pair", "seq"}]
\* for M(K) in the quick tier: the mixes with a request whose outcome M(K) can change
KQuickPlan == [plain |-> {"single", "pairwith", "seqwith"}, godir |-> {"single"}, registered |-> {"single"}]
SmallPlan == [plain |-> {"pairsel", "seq"}]
\* one goroutine only (access logs of single requests and of sequences: C02 borrows them)
SeqPlan == [w \in DOMAIN LazyWorlds |-> {"single", "seq"}]
TriplePlan == [plain |-> {"triple", "pairseq"}]

MCInit == \E w \in DOMAIN Plan : \E m \in MixSet(Plan[w]) : mix = m /\ InitWith(w, ProgOf(m))
MCNext == Next /\ UNCHANGED mix
MCSpec == MCInit /\ [][MCNext]_mcvars
MCFairSpec == MCSpec /\ \A g \in G : WF_mcvars(Step(g) /\ UNCHANGED mix)

-----------------------------------------------------------------------------
\* index of the last visit of the i-th request of a goroutine
RECURSIVE EndIdx(_, _)
EndIdx(names, i) == IF i = 0 THEN 0 ELSE EndIdx(names, i - 1) + Len(LazyReqs[names[i]].visits)

ReqOuts(g, o) == [i \in DOMAIN mix[g] |-> o[EndIdx(mix[g], i)]]

IsInitial == \A g \in G : out[g] = <<>> /\ loc[g].vi = 1 /\ loc[g].pc \in {"start", "done"}

\* S must prescribe, for every request, an outcome the universe has a response for
EmitVec ==
  IsInitial =>
    /\ \A g \in G : \A i \in DOMAIN mix[g] :
         ReqOuts(g, SOut(prog[g]))[i] \in DOMAIN LazyReqs[mix[g][i]].resp
    /\ PrintT("@@VEC " \o ToJson([w |-> wn, mix |-> mix, exp |-> [g \in G |-> ReqOuts(g, SOut(prog[g]))]]))

EmitOut ==
  AllDone => PrintT("@@OUT " \o ToJson([w |-> wn, mix |-> mix, out |-> [g \in G |-> ReqOuts(g, out[g])]]))

\* every outcome the machine produces has a prescribed response (also under deviations)
OutcomeKnown ==
  AllDone => \A g \in G : \A i \in DOMAIN mix[g] : ReqOuts(g, out[g])[i] \in DOMAIN LazyReqs[mix[g][i]].resp

EmitRaces ==
  \A p \in Racing :
    LET r == <<Acc(p[1]).l, Acc(p[2]).l>> IN
    IF r \in TLCGet(2) THEN TRUE
    ELSE /\ TLCSet(2, TLCGet(2) \cup {r})
         /\ PrintT("@@RACE " \o ToJson([a |-> Acc(p[1]).l, b |-> Acc(p[2]).l, var |-> Acc(p[1]).v[1], w |-> wn, mix |-> mix]))

MCTermination == <>AllDone
=============================================================================
