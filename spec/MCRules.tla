------------------------------- MODULE MCRules -------------------------------
(***************************************************************************)
(* C13: well-formed base schemas and, for each, every single-rule          *)
(* violation obtainable by one mutation of the rule catalogue, at every    *)
(* position where the mutation applies.  The verdict and the offender are  *)
(* NOT taken from the mutation's label: they are computed by               *)
(* Loader!LoadResult / SchemaRules!Violations on the mutated document; TLC *)
(* checks that each mutation indeed breaks (at least) its rule and that    *)
(* the bases are valid, so the catalogue and the rules agree.              *)
(***************************************************************************)
EXTENDS SchemaBases

CONSTANTS KnownDev, WithIntro

RECURSIVE Rebase(_, _)
Rebase(t, n) == IF t.k = "named" THEN Named(n) ELSE [t EXCEPT !.of = Rebase(t.of, n)]

Mut(doc, name) == [doc |-> doc, mut |-> name]
WithFields(doc) == {i \in DOMAIN doc : doc[i].fields # <<>> /\ ~doc[i].ext}
FArgs(doc) == {<<i, j>> \in (DOMAIN doc) \X (1..8) : j \in DOMAIN doc[i].fields /\ doc[i].fields[j].args # <<>>}
Kind(doc, k) == {i \in DOMAIN doc : doc[i].kind = k /\ ~doc[i].ext}
NotExtended(doc, i) == ~\E k \in DOMAIN doc : doc[k].ext /\ doc[k].name = doc[i].name
Drop(seq, j) == SubSeq(seq, 1, j - 1) \o SubSeq(seq, j + 1, Len(seq))

Mutations(doc) ==
  \* ---- undefined references
  { Mut([doc EXCEPT ![i].fields[j].type = Rebase(@, "Nope")], "undef_field_type") : <<i, j>> \in {p \in (DOMAIN doc) \X (1..8) : p[1] \in WithFields(doc) /\ p[2] \in DOMAIN doc[p[1]].fields} }
  \cup { Mut([doc EXCEPT ![p[1]].fields[p[2]].args[1].type = Rebase(@, "Nope")], "undef_arg_type") : p \in FArgs(doc) }
  \cup { Mut([doc EXCEPT ![i].infields[1].type = Rebase(@, "Nope")], "undef_input_field_type") : i \in Kind(doc, "INPUT_OBJECT") }
  \cup { Mut([doc EXCEPT ![i].ifaces = Append(@, "Nope")], "undef_interface") : i \in Kind(doc, "OBJECT") }
  \cup { Mut([doc EXCEPT ![i].members = Append(@, "Nope")], "undef_member") : i \in Kind(doc, "UNION") }
  \cup { Mut([doc EXCEPT ![i].dirs = Append(@, DU("nodir", <<>>))], "undef_directive_type_level") : i \in {i \in DOMAIN doc : doc[i].kind \notin {"DIRECTIVE", "SCHEMA"}} }
  \cup { Mut([doc EXCEPT ![i].fields[1].dirs = Append(@, DU("nodir", <<>>))], "undef_directive_field_level") : i \in WithFields(doc) }
  \cup { Mut([doc EXCEPT ![i].values[1].dirs = Append(@, DU("nodir", <<>>))], "undef_directive_enum_value") : i \in Kind(doc, "ENUM") }
  \cup { Mut([doc EXCEPT ![p[1]].fields[p[2]].args[1].dirs = Append(@, DU("nodir", <<>>))], "undef_directive_field_arg") : p \in FArgs(doc) }
  \cup { Mut([doc EXCEPT ![i].infields[1].dirs = Append(@, DU("nodir", <<>>))], "undef_directive_input_field") : i \in Kind(doc, "INPUT_OBJECT") }
  \cup { Mut([doc EXCEPT ![i].args[1].type = Named("Nope")], "undef_directive_arg_type") : i \in Kind(doc, "DIRECTIVE") }
  \* ---- duplicates
  \cup { Mut([doc EXCEPT ![i].fields = Append(@, @[1])], "dup_field") : i \in WithFields(doc) }
  \cup { Mut([doc EXCEPT ![p[1]].fields[p[2]].args = Append(@, @[1])], "dup_arg") : p \in FArgs(doc) }
  \cup { Mut([doc EXCEPT ![i].values = Append(@, @[1])], "dup_enum_value") : i \in Kind(doc, "ENUM") }
  \cup { Mut([doc EXCEPT ![i].infields = Append(@, @[1])], "dup_input_field") : i \in Kind(doc, "INPUT_OBJECT") }
  \cup { Mut(Append(doc, doc[i]), "dup_type") : i \in {i \in DOMAIN doc : doc[i].kind \notin {"SCALAR", "SCHEMA"} /\ ~doc[i].ext} }
  \* ---- names
  \cup { Mut([doc EXCEPT ![i].fields[1].n = "__f"], "reserved_field_name") : i \in WithFields(doc) }
  \cup { Mut([doc EXCEPT ![p[1]].fields[p[2]].args[1].n = "__a"], "reserved_arg_name") : p \in FArgs(doc) }
  \cup { Mut([doc EXCEPT ![i].values[1].n = "__V"], "reserved_enum_value") : i \in Kind(doc, "ENUM") }
  \cup { Mut(Append(doc, ObjectD("__Secret", <<>>, <<FieldD("x", I, <<>>)>>)), "reserved_type_name") }
  \cup { Mut([doc EXCEPT ![i].fields[1].n = "9lives"], "bad_field_name") : i \in WithFields(doc) }
  \cup { Mut([doc EXCEPT ![i].values[1].n = "true"], "enum_value_true") : i \in Kind(doc, "ENUM") }
  \* ---- input / output positions, at wrapper depth 0, 1, 2
  \cup { Mut([doc EXCEPT ![i].fields[1].type = w], "field_of_input_type") :
           i \in WithFields(doc), w \in IF \E k \in DOMAIN doc : doc[k].kind = "INPUT_OBJECT"
                                        THEN LET n == doc[CHOOSE k \in DOMAIN doc : doc[k].kind = "INPUT_OBJECT"].name IN {Named(n), ListOf(Named(n)), NonNull(ListOf(NonNull(Named(n))))}
                                        ELSE {} }
  \cup { Mut([doc EXCEPT ![p[1]].fields[p[2]].args[1].type = w], "arg_of_output_type") :
           p \in FArgs(doc), w \in LET n == doc[CHOOSE k \in DOMAIN doc : doc[k].kind = "OBJECT"].name IN {Named(n), ListOf(Named(n)), NonNull(ListOf(NonNull(Named(n))))} }
  \cup { Mut([doc EXCEPT ![i].infields[1].type = w], "input_field_of_output_type") :
           i \in Kind(doc, "INPUT_OBJECT"), w \in LET n == doc[CHOOSE k \in DOMAIN doc : doc[k].kind = "OBJECT"].name IN {Named(n), ListOf(Named(n))} }
  \cup { Mut([doc EXCEPT ![p[1]].args[p[2]] = ArgD(@.n, w)], "directive_arg_of_output_type") :
           p \in {p \in (DOMAIN doc) \X (1..4) : p[1] \in Kind(doc, "DIRECTIVE") /\ p[2] \in DOMAIN doc[p[1]].args}, w \in LET n == doc[CHOOSE k \in DOMAIN doc : doc[k].kind = "OBJECT"].name IN {Named(n), ListOf(ListOf(NonNull(Named(n))))} }
  \* ---- interfaces
  \cup { Mut([doc EXCEPT ![i].fields = Drop(@, 1)], "interface_field_missing") : i \in {i \in Kind(doc, "OBJECT") : doc[i].ifaces # <<>> /\ Len(doc[i].fields) > 1} }
  \cup { Mut([doc EXCEPT ![i].fields[1].type = ListOf(I)], "interface_field_type") : i \in {i \in Kind(doc, "OBJECT") : doc[i].ifaces # <<>>} }
  \* an interface field of composite type implemented by a LIST of an implementor / of the interface itself (a list is no subtype of its member)
  \cup UNION { LET t == doc[p[1]].fields[p[2]].type IN
                 { Mut([doc EXCEPT ![p[1]].fields[p[2]].type = w], "interface_field_type_listed") :
                     w \in {ListOf(t), NonNull(ListOf(NonNull(Named(BaseName(t))))), ListOf(ListOf(Named(BaseName(t))))} }
               : p \in {q \in (DOMAIN doc) \X (1..8) : q[1] \in Kind(doc, "OBJECT") /\ doc[q[1]].ifaces # <<>> /\ q[2] \in DOMAIN doc[q[1]].fields
                                                     /\ doc[q[1]].fields[q[2]].n = "peer"} }
  \cup { Mut([doc EXCEPT ![i].fields[1].args = Drop(@, 1)], "interface_arg_missing") : i \in {i \in Kind(doc, "OBJECT") : doc[i].ifaces # <<>> /\ doc[i].fields[1].args # <<>>} }
  \cup { Mut([doc EXCEPT ![i].fields[1].args = Append(@, ArgD("must", NonNull(I)))], "interface_extra_required_arg") : i \in {i \in Kind(doc, "OBJECT") : doc[i].ifaces # <<>>} }
  \cup { Mut([doc EXCEPT ![i].fields[1].args[1].type = I], "interface_arg_type") : i \in {i \in Kind(doc, "OBJECT") : doc[i].ifaces # <<>> /\ doc[i].fields[1].args # <<>>} }
  \cup { Mut([doc EXCEPT ![i].ifaces = Append(@, doc[CHOOSE k \in DOMAIN doc : doc[k].kind = "ENUM"].name)], "implements_non_interface") : i \in Kind(doc, "OBJECT") }
  \* the argument of an implementing field has the type the interface gives it - the non-null wrapper included, at any level
  \cup { Mut(doc \o << InterfaceD("NN", <<FieldD("f", I, <<ArgD("a", ts[1])>>)>>), ObjectD("ImplNN", <<"NN">>, <<FieldD("f", I, <<ArgD("a", ts[2])>>)>>) >>,
              "interface_arg_nullability") :
           ts \in { <<NonNull(I), I>>, <<I, NonNull(I)>>, <<NonNull(ListOf(NonNull(I))), ListOf(NonNull(I))>>, <<ListOf(NonNull(I)), ListOf(I)>> } }
  \* ---- unions, emptiness
  \cup { Mut([doc EXCEPT ![i].members = Append(@, n)], "union_member_not_object") :
           i \in Kind(doc, "UNION"), n \in {doc[k].name : k \in {k \in DOMAIN doc : doc[k].kind \in {"ENUM", "INTERFACE", "INPUT_OBJECT", "SCALAR"}}} \cup {"Int"} }
  \cup { Mut([doc EXCEPT ![i].fields = <<>>], "empty_fields") : i \in {i \in WithFields(doc) : doc[i].ifaces = <<>> /\ NotExtended(doc, i)} }
  \cup { Mut([doc EXCEPT ![i].values = <<>>], "empty_enum") : i \in {i \in Kind(doc, "ENUM") : NotExtended(doc, i)} }
  \cup { Mut([doc EXCEPT ![i].infields = <<>>], "empty_input") : i \in {i \in Kind(doc, "INPUT_OBJECT") : NotExtended(doc, i)} }
  \* ---- directive uses: location, arguments; definitions: cycles, locations
  \cup { Mut(Append([doc EXCEPT ![i].dirs = Append(@, DU("objonly", <<>>))], DirectiveD("objonly", <<ArgD("x", I)>>, <<"OBJECT">>)), "directive_location_type_level") :
           i \in {i \in DOMAIN doc : doc[i].kind \in {"ENUM", "INTERFACE", "UNION", "INPUT_OBJECT", "SCALAR"} /\ ~doc[i].ext} }
  \cup { Mut(Append([doc EXCEPT ![i].fields[1].dirs = Append(@, DU("objonly", <<>>))], DirectiveD("objonly", <<ArgD("x", I)>>, <<"OBJECT">>)), "directive_location_field_level") : i \in WithFields(doc) }
  \cup { Mut(Append([doc EXCEPT ![p[1]].fields[p[2]].args[1].dirs = Append(@, DU("objonly", <<>>))], DirectiveD("objonly", <<ArgD("x", I)>>, <<"OBJECT">>)), "directive_location_arg_level") : p \in FArgs(doc) }
  \cup { Mut(Append([doc EXCEPT ![i].values[1].dirs = Append(@, DU("objonly", <<>>))], DirectiveD("objonly", <<ArgD("x", I)>>, <<"OBJECT">>)), "directive_location_enum_value") : i \in Kind(doc, "ENUM") }
  \cup { Mut(Append([doc EXCEPT ![i].infields[1].dirs = Append(@, DU("objonly", <<>>))], DirectiveD("objonly", <<ArgD("x", I)>>, <<"OBJECT">>)), "directive_location_input_field") : i \in Kind(doc, "INPUT_OBJECT") }
  \cup { Mut(Append([doc EXCEPT ![i].dirs = Append(@, DU("objonly", <<AV("bogus", IntV(1))>>))], DirectiveD("objonly", <<ArgD("x", I)>>, <<"OBJECT">>)), "directive_unknown_arg") : i \in Kind(doc, "OBJECT") }
  \cup { Mut(Append([doc EXCEPT ![i].dirs = Append(@, DU("objonly", <<AV("x", StrV("notanint"))>>))], DirectiveD("objonly", <<ArgD("x", I)>>, <<"OBJECT">>)), "directive_arg_value") : i \in Kind(doc, "OBJECT") }
  \cup { Mut(Append(doc, DirectiveD("loop", <<WD(ArgD("a", I), <<DU("loop", <<>>)>>)>>, <<"ARGUMENT_DEFINITION">>)), "directive_cycle_self") }
  \cup { Mut(doc \o << DirectiveD("ping", <<WD(ArgD("a", I), <<DU("pong", <<>>)>>)>>, <<"ARGUMENT_DEFINITION">>),
                      DirectiveD("pong", <<WD(ArgD("b", I), <<DU("ping", <<>>)>>)>>, <<"ARGUMENT_DEFINITION">>) >>, "directive_cycle_two") }
  \* the same cycles through directives declared for other (or more) locations than ARGUMENT_DEFINITION
  \cup { Mut(Append(doc, DirectiveD("loop", <<WD(ArgD("a", I), <<DU("loop", <<>>)>>)>>, locs)), "directive_cycle_self_locs") :
           locs \in {<<"INPUT_FIELD_DEFINITION">>, <<"ARGUMENT_DEFINITION", "INPUT_FIELD_DEFINITION">>, <<"INPUT_FIELD_DEFINITION", "OBJECT">>} }
  \cup { Mut(doc \o << DirectiveD("ping", <<WD(ArgD("a", I), <<DU("pong", <<>>)>>)>>, l1),
                      DirectiveD("pong", <<WD(ArgD("b", I), <<DU("ping", <<>>)>>)>>, l2) >>, "directive_cycle_two_locs") :
           l1 \in {<<"ARGUMENT_DEFINITION", "INPUT_FIELD_DEFINITION">>, <<"INPUT_FIELD_DEFINITION">>}, l2 \in {<<"INPUT_FIELD_DEFINITION">>, <<"ARGUMENT_DEFINITION", "INPUT_FIELD_DEFINITION">>} }
  \cup { Mut(Append(doc, DirectiveD("where", <<>>, <<"OBJECT", "NOWHERE">>)), "directive_bad_location") }
  \cup { Mut(doc \o << DirectiveD("onarg", <<>>, <<"ARGUMENT_DEFINITION">>), DirectiveD("uses", <<WD(ArgD("a", I), <<DU("onarg", <<>>)>>)>>, <<"OBJECT">>) >>, "valid_directive_on_directive_arg") }
  \cup { Mut(doc \o << DirectiveD("oninf", <<>>, <<"INPUT_FIELD_DEFINITION">>), DirectiveD("uses", <<WD(ArgD("a", I), <<DU("oninf", <<>>)>>)>>, <<"OBJECT">>) >>, "directive_location_directive_arg") }
  \cup { Mut(Append(doc, DirectiveD("dflt", <<ArgDD("x", I, StrV("notanint"))>>, <<"OBJECT">>)), "directive_arg_default") }
  \* ---- control: still valid after a harmless change
  \cup { Mut(Append(doc, ObjectD("Extra", <<>>, <<FieldD("x", I, <<>>)>>)), "valid_extra_type"), Mut(doc, "valid_unchanged") }
  \* deprecated members of every kind, with and without a reason (C17: deprecation flag, reason, includeDeprecated)
  \* a second directive with an argument called `reason`, used before and after @deprecated on fields and enum values
  \cup { Mut(doc \o << DirectiveD("audit", <<ArgD("reason", S)>>, <<"FIELD_DEFINITION", "ENUM_VALUE">>),
                      ObjectD("Aud", <<>>, << WD(FieldD("f1", S, <<>>), <<DU("deprecated", <<AV("reason", StrV("use f2"))>>), DU("audit", <<AV("reason", StrV("pci"))>>)>>),
                                              WD(FieldD("f2", S, <<>>), <<DU("audit", <<AV("reason", StrV("pci"))>>), DU("deprecated", <<AV("reason", StrV("use f3"))>>)>>),
                                              WD(FieldD("f3", S, <<>>), <<DU("deprecated", <<>>), DU("audit", <<AV("reason", StrV("pci"))>>)>>),
                                              WD(FieldD("f4", S, <<>>), <<DU("audit", <<AV("reason", StrV("pci"))>>)>>) >>),
                      EnumD("AudE", << WD(EV("V1"), <<DU("deprecated", <<AV("reason", StrV("faded"))>>), DU("audit", <<AV("reason", StrV("pci"))>>)>>),
                                       WD(EV("V2"), <<DU("audit", <<AV("reason", StrV("pci"))>>)>>), EV("V3") >>) >>, "valid_deprecated_and_audit") }
  \cup { Mut(doc \o << InterfaceD("Old", <<FieldD("keep", S, <<>>), WD(FieldD("gone", S, <<>>), <<DU("deprecated", <<>>)>>)>>),
                      ObjectD("Impl", <<"Old">>, <<FieldD("keep", S, <<>>), WD(FieldD("gone", S, <<>>), <<DU("deprecated", <<AV("reason", StrV("because"))>>)>>),
                                                  WD(FieldD("also", I, <<ArgD("x", I)>>), <<DU("deprecated", <<>>)>>)>>),
                      EnumD("Dep", <<EV("KEEP"), WD(EV("GONE"), <<DU("deprecated", <<AV("reason", StrV("old value"))>>)>>), WD(EV("GONE2"), <<DU("deprecated", <<>>)>>)>>) >>,
              "valid_deprecated_members") }
  \* an object implementing two interfaces and a union extended later (C17: interfaces, possibleTypes)
  \cup { Mut(doc \o << InterfaceD("I1", <<FieldD("p", S, <<>>)>>), InterfaceD("I2", <<FieldD("q", I, <<>>)>>),
                      ObjectD("Both", <<"I1", "I2">>, <<FieldD("p", S, <<>>), FieldD("q", I, <<>>)>>),
                      ObjectD("OnlyI1", <<"I1">>, <<FieldD("p", NonNull(S), <<>>)>>),
                      UnionD("Mix", <<"Both">>), Ext(UnionD("Mix", <<"OnlyI1">>)) >>, "valid_two_interfaces") }

VARIABLES phase, cs
rvars == <<phase, cs>>
RInit == phase = "base" /\ cs \in {[base |-> b] : b \in DOMAIN Bases}
RNext == phase = "base" /\ phase' = "case" /\ cs' \in {[base |-> cs.base, doc |-> m.doc, mut |-> m.mut] : m \in Mutations(Bases[cs.base])}
RSpec == RInit /\ [][RNext]_rvars

Result == LoadResult(EmptySchema, cs.doc, {})
ResultK == LoadResult(EmptySchema, cs.doc, KnownDev)

BasesValid == \A b \in DOMAIN Bases : LoadResult(EmptySchema, Bases[b], {}).ok
\* every mutation but the controls is refused by the specification, the controls are accepted
MutationsRefused == phase = "case" =>
  IF cs.mut \in {"valid_extra_type", "valid_unchanged", "valid_directive_on_directive_arg", "valid_deprecated_members", "valid_deprecated_and_audit", "valid_two_interfaces"} THEN Result.ok ELSE ~Result.ok

\* all names an error may mention to "name the offender": those of every violated rule
Offs(r) == IF r.ok THEN {} ELSE IF r.why # "invalid" THEN {r.off} ELSE r.offs
Step(r) == [doc |-> cs.doc, ok |-> r.ok, why |-> r.why, off |-> r.off, offs |-> Offs(r), canon |-> Canon(r.s)]
             @@ (IF WithIntro /\ r.ok THEN [intro |-> Intro(r.s)] ELSE <<>>)
Same(a, b) == a.ok = b.ok /\ Offs(a) = Offs(b) /\ Canon(a.s) = Canon(b.s)
Vector ==
  IF Same(Result, ResultK)
  THEN [hist |-> <<Step(Result)>>, tag |-> cs.base \o ":" \o cs.mut]
  ELSE [hist |-> <<Step(Result) @@ [okK |-> ResultK.ok, canonK |-> Canon(ResultK.s), offsK |-> Offs(ResultK),
                                    kdevs |-> {d \in KnownDev : ~Same(LoadResult(EmptySchema, cs.doc, {d}), Result)}]>>,
        tag |-> cs.base \o ":" \o cs.mut]
Emit == phase = "case" => PrintT("@@VEC " \o ToJson(Vector))
=============================================================================
