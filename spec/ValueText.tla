----------------------------- MODULE ValueText -----------------------------
(***************************************************************************)
(* C18 - value text formats.                                               *)
(*                                                                         *)
(* A model of ggql's two value writers (WriteSDLValue / WriteJSONValue,    *)
(* pkg/ggql/value.go: writeValue, writeMap, elementSep, writeString) and   *)
(* of its value reader (ParseValueString, pkg/ggql/parser.go: readValue,   *)
(* readString, readEscaped, readToken, readNumberToken, skipSpace), plus a *)
(* small strict JSON grammar (RFC 8259) that plays the part of "a standard *)
(* JSON parser".                                                           *)
(*                                                                         *)
(* Two levels:                                                             *)
(*   tokens  the writer produces a sequence of tokens - punctuation,       *)
(*           single space, newline+indentation, bare word, variable,       *)
(*           quoted string - this is where the separator rules live;       *)
(*   chars   Spell(tokens) is the written text as a sequence of lexical    *)
(*           characters (names from the alphabet CP below); the readers    *)
(*           work on characters like the real single-pass parser does,     *)
(*           this is where the escape rules live.                          *)
(*                                                                         *)
(* Values are tagged records:                                              *)
(*   [k "null"] | [k "bool", b] | [k "int", n name] | [k "float", n name]  *)
(*   [k "str", cs <<chars>>] | [k "sym", cs] | [k "var", cs]               *)
(*   [k "list", xs <<values>>]                                             *)
(*   [k "obj", es <<[key |-> <<chars>>, val |-> value], ...>>]  (ordered)  *)
(*   [k "err", n reason]                                                   *)
(* Numbers are named points (TLC integers are 32 bit, there are no floats);*)
(* IntSpell / FloatSpell give their decimal spelling.                      *)
(*                                                                         *)
(* Every writer operator takes dv, a set of named deviations.  dv = {} is  *)
(* the design that satisfies the property; a name in dv switches one place *)
(* of the writer to what the code does today:                              *)
(*   "JsonKeyNotEscaped"  JSON form: map keys are written between quotes   *)
(*                        without escaping                                 *)
(*   "SdlKeyNotQuoted"    SDL form: map keys are always written bare, also *)
(*                        when they are not made of token characters       *)
(***************************************************************************)
EXTENDS Integers, Sequences, FiniteSets, TLC

\* ------------------------------------------------------------ alphabet ----
\* name of a lexical character -> Unicode code point.  Printable ASCII is named
\* by itself except QUOTE (") and BSL (backslash).  BADC3 / BADFF are single
\* bytes that are not valid UTF-8 (they have no code point and are not in CP).
CP ==
  "NUL" :> 0 @@ "C01" :> 1 @@ "BS" :> 8 @@ "TAB" :> 9 @@ "LF" :> 10 @@ "FF" :> 12 @@ "CR" :> 13 @@ "C1F" :> 31
  @@ "SP" :> 32 @@ "!" :> 33 @@ "QUOTE" :> 34 @@ "#" :> 35 @@ "$" :> 36 @@ "%" :> 37 @@ "&" :> 38 @@ "'" :> 39
  @@ "(" :> 40 @@ ")" :> 41 @@ "*" :> 42 @@ "+" :> 43 @@ "," :> 44 @@ "-" :> 45 @@ "." :> 46 @@ "/" :> 47
  @@ "0" :> 48 @@ "1" :> 49 @@ "2" :> 50 @@ "3" :> 51 @@ "4" :> 52 @@ "5" :> 53 @@ "6" :> 54 @@ "7" :> 55
  @@ "8" :> 56 @@ "9" :> 57 @@ ":" :> 58 @@ ";" :> 59 @@ "<" :> 60 @@ "=" :> 61 @@ ">" :> 62 @@ "?" :> 63
  @@ "@" :> 64 @@ "A" :> 65 @@ "B" :> 66 @@ "C" :> 67 @@ "D" :> 68 @@ "E" :> 69 @@ "F" :> 70 @@ "G" :> 71
  @@ "H" :> 72 @@ "I" :> 73 @@ "J" :> 74 @@ "K" :> 75 @@ "L" :> 76 @@ "M" :> 77 @@ "N" :> 78 @@ "O" :> 79
  @@ "P" :> 80 @@ "Q" :> 81 @@ "R" :> 82 @@ "S" :> 83 @@ "T" :> 84 @@ "U" :> 85 @@ "V" :> 86 @@ "W" :> 87
  @@ "X" :> 88 @@ "Y" :> 89 @@ "Z" :> 90 @@ "[" :> 91 @@ "BSL" :> 92 @@ "]" :> 93 @@ "^" :> 94 @@ "_" :> 95
  @@ "`" :> 96 @@ "a" :> 97 @@ "b" :> 98 @@ "c" :> 99 @@ "d" :> 100 @@ "e" :> 101 @@ "f" :> 102 @@ "g" :> 103
  @@ "h" :> 104 @@ "i" :> 105 @@ "j" :> 106 @@ "k" :> 107 @@ "l" :> 108 @@ "m" :> 109 @@ "n" :> 110 @@ "o" :> 111
  @@ "p" :> 112 @@ "q" :> 113 @@ "r" :> 114 @@ "s" :> 115 @@ "t" :> 116 @@ "u" :> 117 @@ "v" :> 118 @@ "w" :> 119
  @@ "x" :> 120 @@ "y" :> 121 @@ "z" :> 122 @@ "{" :> 123 @@ "|" :> 124 @@ "}" :> 125 @@ "~" :> 126 @@ "DEL" :> 127
  @@ "U80" :> 128 @@ "EACU" :> 233 @@ "U7FF" :> 2047 @@ "U800" :> 2048 @@ "UFFFD" :> 65533 @@ "U10000" :> 65536
  @@ "EMOJI" :> 128512 @@ "U10FFFF" :> 1114111
  \* invisible characters: a C1 control, format characters (category Cf) inside and above the BMP, the line and
  \* paragraph separators, the byte order mark as a character
  @@ "U85" :> 133 @@ "UAD" :> 173 @@ "U200B" :> 8203 @@ "U2028" :> 8232 @@ "U2029" :> 8233 @@ "U202E" :> 8238
  @@ "UFEFF" :> 65279 @@ "U1D173" :> 119155 @@ "UE0067" :> 917607

UChars == DOMAIN CP                       \* characters that are Unicode scalar values
Cp(c) == IF c \in UChars THEN CP[c] ELSE 2000000   \* anything else sorts last and is no control character
BadBytes == {"BADC3", "BADFF"}            \* bytes that are not valid UTF-8
Chars == UChars \cup BadBytes

Digits == {"0", "1", "2", "3", "4", "5", "6", "7", "8", "9"}
Lower == {c \in UChars : CP[c] >= 97 /\ CP[c] <= 122}
Upper == {c \in UChars : CP[c] >= 65 /\ CP[c] <= 90}
TokenCh == Lower \cup Upper \cup Digits \cup {"_"}         \* parser.go charMap 't'
SpaceCh == {"SP", "TAB", "LF", "CR", ","}                  \* parser.go charMap 'w' (a comma is white space)
NumCh == Digits \cup {"+", "-", ".", "e", "E"}             \* parser.go numMap 'n'
NumStart == Digits \cup {"-"}
NumFollow == {"EOF", "SP", "TAB", "LF", "CR", "FF", ",", "}", "]", "{", "[", ")"}
HexVal == "0" :> 0 @@ "1" :> 1 @@ "2" :> 2 @@ "3" :> 3 @@ "4" :> 4 @@ "5" :> 5 @@ "6" :> 6 @@ "7" :> 7
       @@ "8" :> 8 @@ "9" :> 9 @@ "a" :> 10 @@ "b" :> 11 @@ "c" :> 12 @@ "d" :> 13 @@ "e" :> 14 @@ "f" :> 15
       @@ "A" :> 10 @@ "B" :> 11 @@ "C" :> 12 @@ "D" :> 13 @@ "E" :> 14 @@ "F" :> 15
HexDigit == <<"0", "1", "2", "3", "4", "5", "6", "7", "8", "9", "a", "b", "c", "d", "e", "f">>
CharOfCP == [n \in {CP[c] : c \in UChars} |-> CHOOSE c \in UChars : CP[c] = n]

\* -------------------------------------------------------------- numbers ----
IntSpell ==
  "zero" :> <<"0">>
  @@ "one" :> <<"1">>
  @@ "two" :> <<"2">>
  @@ "m1" :> <<"-", "1">>
  @@ "i7" :> <<"7">>
  @@ "m7" :> <<"-", "7">>
  @@ "i10" :> <<"1", "0">>
  @@ "i42" :> <<"4", "2">>
  @@ "i16max" :> <<"3", "2", "7", "6", "7">>
  @@ "i16min" :> <<"-", "3", "2", "7", "6", "8">>
  @@ "i16over" :> <<"3", "2", "7", "6", "8">>
  @@ "i32max" :> <<"2", "1", "4", "7", "4", "8", "3", "6", "4", "7">>
  @@ "i32over" :> <<"2", "1", "4", "7", "4", "8", "3", "6", "4", "8">>
  @@ "i32min" :> <<"-", "2", "1", "4", "7", "4", "8", "3", "6", "4", "8">>
  @@ "i53" :> <<"9", "0", "0", "7", "1", "9", "9", "2", "5", "4", "7", "4", "0", "9", "9", "3">>
  @@ "max64" :> <<"9", "2", "2", "3", "3", "7", "2", "0", "3", "6", "8", "5", "4", "7", "7", "5", "8", "0", "7">>
  @@ "min64" :> <<"-", "9", "2", "2", "3", "3", "7", "2", "0", "3", "6", "8", "5", "4", "7", "7", "5", "8", "0", "8">>

\* shortest decimal text that reads back as the same float64 (what 'g', -1 prints)
FloatSpell ==
  "f1_5" :> <<"1", ".", "5">>
  @@ "fm0_5" :> <<"-", "0", ".", "5">>
  @@ "f0_1" :> <<"0", ".", "1">>
  @@ "fpi" :> <<"3", ".", "1", "4", "1", "5", "9", "2", "6", "5", "3", "5", "8", "9", "7", "9", "3">>
  @@ "f1e300" :> <<"1", "e", "+", "3", "0", "0">>
  @@ "f1em50" :> <<"1", "e", "-", "5", "0">>
  @@ "fm2_5em10" :> <<"-", "2", ".", "5", "e", "-", "1", "0">>
  @@ "f1e21" :> <<"1", "e", "+", "2", "1">>
  @@ "fden" :> <<"5", "e", "-", "3", "2", "4">>
  @@ "fmax" :> <<"1", ".", "7", "9", "7", "6", "9", "3", "1", "3", "4", "8", "6", "2", "3", "1", "5", "7", "e", "+", "3", "0", "8">>
  @@ "f123456_5" :> <<"1", "2", "3", "4", "5", "6", ".", "5">>
  @@ "f1234567_5" :> <<"1", ".", "2", "3", "4", "5", "6", "7", "5", "e", "+", "0", "6">>
  @@ "f1em4" :> <<"0", ".", "0", "0", "0", "1">>
  @@ "f1em5" :> <<"1", "e", "-", "0", "5">>

IntNames == DOMAIN IntSpell
FloatNames == DOMAIN FloatSpell
IntOfSpell == [s \in {IntSpell[n] : n \in IntNames} |-> CHOOSE n \in IntNames : IntSpell[n] = s]
FloatOfSpell == [s \in {FloatSpell[n] : n \in FloatNames} |-> CHOOSE n \in FloatNames : FloatSpell[n] = s]

\* --------------------------------------------------------------- values ----
\* every tag has payload fields of its own, so that two records with different tags never have a
\* field of the same name with values of different types (TLC compares records field by field, in
\* an order that is not under the specification's control)
NullV == [k |-> "null"]
NoneV == [k |-> "none"]
BoolV(b) == [k |-> "bool", b |-> b]
IntV(n) == [k |-> "int", n |-> n]
FloatV(n) == [k |-> "float", n |-> n]
StrV(cs) == [k |-> "str", cs |-> cs]
SymV(cs) == [k |-> "sym", cs |-> cs]
VarV(cs) == [k |-> "var", cs |-> cs]
ListV(s) == [k |-> "list", xs |-> s]
ObjV(es) == [k |-> "obj", es |-> es]
Ent(k, v) == [key |-> k, val |-> v]
ErrV == [k |-> "err", n |-> "unreadable"]

IsColl(v) == v.k \in {"list", "obj"}
Range(f) == {f[i] : i \in DOMAIN f}

\* byte order of two keys (what sort.Strings uses): UTF-8 byte order is code point order
RECURSIVE KeyLess(_, _)
KeyLess(a, b) == IF a = <<>> THEN b # <<>>
                 ELSE IF b = <<>> THEN FALSE
                 ELSE IF a[1] = b[1] THEN KeyLess(Tail(a), Tail(b))
                 ELSE Cp(a[1]) < Cp(b[1])

RECURSIVE InsertEnt(_, _)
InsertEnt(e, s) == IF s = <<>> THEN <<e>>
                   ELSE IF KeyLess(e.key, s[1].key) THEN <<e>> \o s
                   ELSE <<s[1]>> \o InsertEnt(e, Tail(s))
RECURSIVE SortEnts(_)
SortEnts(s) == IF s = <<>> THEN <<>> ELSE InsertEnt(s[1], SortEnts(Tail(s)))

\* maps with their entries in key order, recursively (canonical form; also what Sort = true visits)
RECURSIVE Canon(_)
Canon(v) == CASE v.k = "list" -> ListV([i \in DOMAIN v.xs |-> Canon(v.xs[i])])
              [] v.k = "obj" -> ObjV(SortEnts([i \in DOMAIN v.es |-> Ent(v.es[i].key, Canon(v.es[i].val))]))
              [] OTHER -> v

\* bytes that are not valid UTF-8 come out as U+FFFD
FixCh(c) == IF c \in BadBytes THEN "UFFFD" ELSE c
FixStr(cs) == [i \in DOMAIN cs |-> FixCh(cs[i])]
RECURSIVE Norm(_)
Norm(v) == CASE v.k = "str" -> StrV(FixStr(v.cs))
             [] v.k = "list" -> ListV([i \in DOMAIN v.xs |-> Norm(v.xs[i])])
             [] v.k = "obj" -> ObjV([i \in DOMAIN v.es |-> Ent(v.es[i].key, Norm(v.es[i].val))])
             [] OTHER -> v

\* symbols and variables as strings (what the JSON form can carry)
RECURSIVE Strs(_)
Strs(v) == CASE v.k = "sym" -> StrV(v.cs)
             [] v.k = "var" -> StrV(<<"$">> \o v.cs)
             [] v.k = "list" -> ListV([i \in DOMAIN v.xs |-> Strs(v.xs[i])])
             [] v.k = "obj" -> ObjV([i \in DOMAIN v.es |-> Ent(v.es[i].key, Strs(v.es[i].val))])
             [] OTHER -> v

\* ------------------------------------------------------- writer: tokens ----
P(c) == [t |-> "p", c |-> c]              \* one punctuation character
SPt == [t |-> "sp"]                       \* one space
NLt(n) == [t |-> "nl", n |-> n]           \* newline followed by n spaces
Wd(cs) == [t |-> "w", cs |-> cs]          \* bare word: null true false number symbol bare-key
Vr(cs) == [t |-> "var", cs |-> cs]        \* $name
Qs(cs) == [t |-> "q", cs |-> cs]          \* " cs "   (cs is the text between the quotes)

Spaces(n) == [i \in 1..n |-> "SP"]
Spell1(tk) == CASE tk.t = "p" -> <<tk.c>>
                [] tk.t = "sp" -> <<"SP">>
                [] tk.t = "nl" -> <<"LF">> \o Spaces(tk.n)
                [] tk.t = "w" -> tk.cs
                [] tk.t = "var" -> <<"$">> \o tk.cs
                [] tk.t = "q" -> <<"QUOTE">> \o tk.cs \o <<"QUOTE">>
RECURSIVE Spell(_)
Spell(tks) == IF tks = <<>> THEN <<>> ELSE Spell1(tks[1]) \o Spell(Tail(tks))
SLen1(tk) == CASE tk.t = "p" -> 1 [] tk.t = "sp" -> 1 [] tk.t = "nl" -> 1 + tk.n
               [] tk.t = "w" -> Len(tk.cs) [] tk.t = "var" -> 1 + Len(tk.cs) [] tk.t = "q" -> 2 + Len(tk.cs)
RECURSIVE SLen(_)
SLen(tks) == IF tks = <<>> THEN 0 ELSE SLen1(tks[1]) + SLen(Tail(tks))

\* writeString: the text of one character between quotes
EscCh(c) ==
  CASE c = "BS" -> <<"BSL", "b">>
    [] c = "FF" -> <<"BSL", "f">>
    [] c = "LF" -> <<"BSL", "n">>
    [] c = "CR" -> <<"BSL", "r">>
    [] c = "TAB" -> <<"BSL", "t">>
    [] c = "BSL" -> <<"BSL", "BSL">>
    [] c = "QUOTE" -> <<"BSL", "QUOTE">>
    [] c \in BadBytes -> <<"UFFFD">>
    [] OTHER -> IF Cp(c) < 32
                THEN <<"BSL", "u", "0", "0", HexDigit[(Cp(c) \div 16) + 1], HexDigit[(Cp(c) % 16) + 1]>>
                ELSE <<c>>
RECURSIVE Escape(_)
Escape(cs) == IF cs = <<>> THEN <<>> ELSE EscCh(cs[1]) \o Escape(Tail(cs))

BareSafe(key) == key # <<>> /\ \A i \in DOMAIN key : key[i] \in TokenCh

\* the writer's context: C.sdl (SDL or JSON form), C.ind (indent option), C.dv (deviations),
\* C.guide (<<>>, or a text that tells in which order map entries are visited, see WMap)
KeyTok(key, C) ==
  IF C.sdl
  THEN IF "SdlKeyNotQuoted" \in C.dv \/ BareSafe(key) THEN Wd(key) ELSE Qs(Escape(key))
  ELSE IF "JsonKeyNotEscaped" \in C.dv THEN Qs(key) ELSE Qs(Escape(key))

\* elementSep
ElemSep(C, e) ==
  IF C.sdl
  THEN CASE C.ind = 0 -> <<P(","), SPt>>
         [] C.ind > 0 -> <<>>
         [] OTHER -> IF IsColl(e) THEN <<>> ELSE <<P(",")>>
  ELSE IF C.ind = 0 THEN <<P(","), SPt>> ELSE <<P(",")>>

Close(br, depth, C) ==
  (IF C.ind > 0 THEN <<NLt(depth * C.ind)>> ELSE <<>>) \o <<P(br)>>
  \o (IF C.ind > 0 /\ depth = 0 THEN <<NLt(0)>> ELSE <<>>)

Guided(C) == C.guide # <<>>
IsPrefixAt(p, text, pos) == pos + Len(p) <= Len(text) /\ SubSeq(text, pos + 1, pos + Len(p)) = p
RemoveAt(s, k) == SubSeq(s, 1, k - 1) \o SubSeq(s, k + 1, Len(s))

MapSep(noSep, C) == IF (~C.sdl \/ C.ind <= 0) /\ ~noSep
                    THEN <<P(",")>> \o (IF C.ind = 0 THEN <<SPt>> ELSE <<>>) ELSE <<>>
MapPre(e, noSep, depth, C) ==
  MapSep(noSep, C) \o (IF C.ind > 0 THEN <<NLt((depth + 1) * C.ind)>> ELSE <<>>)
  \o <<KeyTok(e.key, C), P(":")>> \o (IF C.ind >= 0 THEN <<SPt>> ELSE <<>>)

RECURSIVE WV(_, _, _, _), WList(_, _, _, _, _), WMap(_, _, _, _, _)
\* tokens written for value v at nesting depth `depth`; pos = number of characters written before
\* (only maintained when the writer is guided)
WV(v, depth, pos, C) ==
  CASE v.k = "null" -> <<Wd(<<"n", "u", "l", "l">>)>>
    [] v.k = "bool" -> IF v.b THEN <<Wd(<<"t", "r", "u", "e">>)>> ELSE <<Wd(<<"f", "a", "l", "s", "e">>)>>
    [] v.k = "int" -> <<Wd(IntSpell[v.n])>>
    [] v.k = "float" -> <<Wd(FloatSpell[v.n])>>
    [] v.k = "str" -> <<Qs(Escape(v.cs))>>
    [] v.k = "sym" -> IF C.sdl THEN <<Wd(Escape(v.cs))>> ELSE <<Qs(Escape(v.cs))>>
    [] v.k = "var" -> IF C.sdl THEN <<Vr(Escape(v.cs))>> ELSE <<Qs(Escape(<<"$">> \o v.cs))>>
    [] v.k = "list" -> <<P("[")>> \o WList(v.xs, TRUE, depth, pos + 1, C) \o Close("]", depth, C)
    [] v.k = "obj" -> <<P("{")>> \o WMap(v.es, TRUE, depth, pos + 1, C) \o Close("}", depth, C)

WList(es, noSep, depth, pos, C) ==
  IF es = <<>> THEN <<>>
  ELSE LET e == es[1]
           pre == (IF noSep THEN <<>> ELSE ElemSep(C, e))
                  \o (IF C.ind > 0 THEN <<NLt((depth + 1) * C.ind)>> ELSE <<>>)
           p1 == IF Guided(C) THEN pos + SLen(pre) ELSE 0
           body == WV(e, depth + 1, p1, C)
           p2 == IF Guided(C) THEN p1 + SLen(body) ELSE 0
       IN pre \o body \o WList(Tail(es), C.ind < 0 /\ C.sdl /\ IsColl(e), depth, p2, C)

\* Entries are visited in the given order (that is the key order when the value was arranged by
\* Canon, i.e. Sort = true).  With Sort = false the real writer visits them in any order: a guided
\* writer takes, among the entries not yet written, one whose text (separator, key, colon, value) is
\* what the guide text shows at the current position.  Keys written bare or raw can be prefixes of
\* each other ("a" and "a:"), hence the whole entry is compared and the longest key is preferred; if
\* nothing fits the first entry is taken (the result then differs from the guide text).
WMap(es, noSep, depth, pos, C) ==
  IF es = <<>> THEN <<>>
  ELSE IF ~Guided(C)
  THEN LET e == es[1]
       IN MapPre(e, noSep, depth, C) \o WV(e.val, depth + 1, 0, C)
          \o WMap(Tail(es), C.ind < 0 /\ C.sdl /\ IsColl(e.val), depth, 0, C)
  ELSE LET fits == {k \in DOMAIN es : IsPrefixAt(Spell(MapPre(es[k], noSep, depth, C)), C.guide, pos)}
           cands == IF fits = {} THEN {1} ELSE fits
           ent == [k \in cands |-> LET pre == MapPre(es[k], noSep, depth, C)
                                   IN pre \o WV(es[k].val, depth + 1, pos + SLen(pre), C)]
           good == {k \in cands : IsPrefixAt(Spell(ent[k]), C.guide, pos)}
           pool == IF good # {} THEN good ELSE cands
           k == CHOOSE x \in pool : \A y \in pool :
                   Len(es[x].key) > Len(es[y].key) \/ (Len(es[x].key) = Len(es[y].key) /\ x <= y)
       IN ent[k] \o WMap(RemoveAt(es, k), C.ind < 0 /\ C.sdl /\ IsColl(es[k].val), depth, pos + SLen(ent[k]), C)

Ctx(fmt, ind, dv, guide) == [sdl |-> fmt = "sdl", ind |-> ind, dv |-> dv, guide |-> guide]
WriteToks(v, fmt, ind, dv) == WV(v, 0, 0, Ctx(fmt, ind, dv, <<>>))
WriteText(v, fmt, ind, dv) == Spell(WriteToks(v, fmt, ind, dv))
\* the text the writer produces when it visits map entries in the order the guide text shows
WriteGuided(v, fmt, ind, dv, guide) ==
  Spell(WV(v, 0, 0, Ctx(fmt, ind, dv, IF guide = <<>> THEN <<"EOF">> ELSE guide)))

\* -------------------------------------------------- reader (parser.go) ----
At(cs, i) == IF i > Len(cs) THEN "EOF" ELSE IF cs[i] = "NUL" THEN "EOF" ELSE cs[i]
Fail(why) == [ok |-> FALSE, why |-> why]

RECURSIVE AfterLine(_, _)
AfterLine(cs, i) == IF i > Len(cs) THEN i ELSE IF cs[i] = "LF" THEN i + 1 ELSE AfterLine(cs, i + 1)
\* skipSpace: index of the first character that is neither white space nor inside a # comment
RECURSIVE SkipSp(_, _)
SkipSp(cs, i) == LET b == At(cs, i)
                 IN IF b \in SpaceCh THEN SkipSp(cs, i + 1)
                    ELSE IF b = "#" THEN SkipSp(cs, AfterLine(cs, i + 1))
                    ELSE i
RECURSIVE TokEnd(_, _)
TokEnd(cs, i) == IF At(cs, i) \in TokenCh THEN TokEnd(cs, i + 1) ELSE i
RECURSIVE NumEnd(_, _)
NumEnd(cs, i) == IF At(cs, i) \in NumCh THEN NumEnd(cs, i + 1) ELSE i
\* readToken (skips space first)
ReadTok(cs, i) == LET j == SkipSp(cs, i)
                      e == TokEnd(cs, j)
                  IN [tok |-> SubSeq(cs, j, e - 1), i |-> e]

\* readEscaped: cs[i] is the character after the backslash
ReadEsc(cs, i) ==
  LET b == At(cs, i)
      one(c) == [ok |-> TRUE, c |-> c, i |-> i + 1]
  IN CASE b = "QUOTE" -> one("QUOTE")
       [] b = "BSL" -> one("BSL")
       [] b = "/" -> one("/")
       [] b = "b" -> one("BS")
       [] b = "f" -> one("FF")
       [] b = "n" -> one("LF")
       [] b = "r" -> one("CR")
       [] b = "t" -> one("TAB")
       [] b = "u" -> IF \A j \in 1..4 : At(cs, i + j) \in DOMAIN HexVal
                     THEN LET n == ((HexVal[cs[i + 1]] * 16 + HexVal[cs[i + 2]]) * 16 + HexVal[cs[i + 3]]) * 16 + HexVal[cs[i + 4]]
                          IN [ok |-> TRUE, c |-> IF n \in DOMAIN CharOfCP THEN CharOfCP[n] ELSE "UNKNOWN", i |-> i + 5]
                     ELSE Fail("invalid escaped unicode character")
       [] OTHER -> Fail("invalid escaped unicode character")

RECURSIVE StrBody(_, _, _), BlockBody(_, _, _)
\* simple string: cs[i] is the first character after the opening quote
StrBody(cs, i, acc) ==
  LET b == At(cs, i)
  IN CASE b = "EOF" -> Fail("string not terminated")
       [] b = "QUOTE" -> [ok |-> TRUE, s |-> acc, i |-> i + 1]
       [] b = "BSL" -> LET e == ReadEsc(cs, i + 1) IN IF e.ok THEN StrBody(cs, e.i, Append(acc, e.c)) ELSE e
       [] OTHER -> StrBody(cs, i + 1, Append(acc, b))
\* block string: cs[i] is the first character after the opening three quotes
BlockBody(cs, i, acc) ==
  LET b == At(cs, i)
  IN CASE b = "EOF" -> Fail("string not terminated")
       [] b = "QUOTE" -> IF At(cs, i + 1) = "QUOTE"
                         THEN IF At(cs, i + 2) = "QUOTE" THEN [ok |-> TRUE, s |-> acc, i |-> i + 3]
                              ELSE BlockBody(cs, i + 3, acc \o <<"QUOTE", "QUOTE", At(cs, i + 2)>>)
                         ELSE BlockBody(cs, i + 2, acc \o <<"QUOTE", At(cs, i + 1)>>)
       [] b = "BSL" -> LET e == ReadEsc(cs, i + 1) IN IF e.ok THEN BlockBody(cs, e.i, Append(acc, e.c)) ELSE e
       [] OTHER -> BlockBody(cs, i + 1, Append(acc, b))
\* readString: cs[i] is the opening quote
ReadStr(cs, i) ==
  LET b2 == At(cs, i + 1)
  IN CASE b2 = "EOF" -> Fail("string not terminated")
       [] b2 = "QUOTE" -> IF At(cs, i + 2) = "QUOTE" THEN BlockBody(cs, i + 3, <<>>)
                          ELSE [ok |-> TRUE, s |-> <<>>, i |-> i + 2]
       [] OTHER -> StrBody(cs, i + 1, <<>>)

OkV(v, i) == [ok |-> TRUE, v |-> v, i |-> i]
\* obj[token] = v : a repeated key replaces the earlier entry
PutEnt(es, key, val) ==
  IF \E j \in DOMAIN es : es[j].key = key
  THEN [j \in DOMAIN es |-> IF es[j].key = key THEN Ent(key, val) ELSE es[j]]
  ELSE Append(es, Ent(key, val))

TrueW == <<"t", "r", "u", "e">>
FalseW == <<"f", "a", "l", "s", "e">>
NullW == <<"n", "u", "l", "l">>

RECURSIVE RV(_, _), RList(_, _, _), RObj(_, _, _)
\* readValue
RV(cs, i0) ==
  LET i == SkipSp(cs, i0)
      b == At(cs, i)
  IN CASE b = "EOF" -> OkV(NullV, i)
       [] b = "QUOTE" -> LET r == ReadStr(cs, i) IN IF r.ok THEN OkV(StrV(r.s), r.i) ELSE r
       [] b = "$" -> LET t == ReadTok(cs, i + 1) IN OkV(VarV(t.tok), t.i)
       [] b \in NumStart ->
            LET e == NumEnd(cs, i)
                tok == SubSeq(cs, i, e - 1)
            IN IF At(cs, e) \notin NumFollow THEN Fail("number followed by a non-numeric character")
               ELSE IF tok \in DOMAIN IntOfSpell THEN OkV(IntV(IntOfSpell[tok]), e)
               ELSE IF tok \in DOMAIN FloatOfSpell THEN OkV(FloatV(FloatOfSpell[tok]), e)
               ELSE Fail("number outside the tables of named points")
       [] b = "[" -> RList(cs, i + 1, <<>>)
       [] b = "{" -> RObj(cs, i + 1, <<>>)
       [] OTHER -> LET e == TokEnd(cs, i)
                       tok == SubSeq(cs, i, e - 1)
                   IN IF e = i THEN Fail("invalid value")
                      ELSE IF tok = TrueW THEN OkV(BoolV(TRUE), e)
                      ELSE IF tok = FalseW THEN OkV(BoolV(FALSE), e)
                      ELSE IF tok = NullW THEN OkV(NullV, e)
                      ELSE OkV(SymV(tok), e)
RList(cs, i0, acc) ==
  LET i == SkipSp(cs, i0)
      b == At(cs, i)
  IN CASE b = "EOF" -> Fail("list value not terminated")
       [] b = "]" -> OkV(ListV(acc), i + 1)
       [] OTHER -> LET r == RV(cs, i) IN IF r.ok THEN RList(cs, r.i, Append(acc, r.v)) ELSE r
RObj(cs, i0, acc) ==
  LET i == SkipSp(cs, i0)
      b == At(cs, i)
  IN CASE b = "EOF" -> Fail("object not terminated")
       [] b = "}" -> OkV(ObjV(acc), i + 1)
       [] OTHER ->
            LET k == IF b = "QUOTE" THEN ReadStr(cs, i)
                     ELSE LET t == ReadTok(cs, i) IN [ok |-> TRUE, s |-> t.tok, i |-> t.i]
            IN IF ~k.ok THEN k
               ELSE LET j == SkipSp(cs, k.i)
                    IN IF At(cs, j) # ":" THEN Fail("object key must be followed by a ':'")
                       ELSE LET r == RV(cs, j + 1)
                            IN IF r.ok THEN RObj(cs, r.i, PutEnt(acc, k.s, r.v)) ELSE r

\* ParseValueString
Read(cs) == LET r == RV(cs, 1) IN IF r.ok THEN r.v ELSE ErrV

\* --------------------------------------------- a strict JSON grammar ------
\* RFC 8259.  value = false / null / true / object / array / number / string ;
\* ws = SP / TAB / LF / CR ; one value, nothing but ws after it.
JWs == {"SP", "TAB", "LF", "CR"}
JAt(cs, i) == IF i > Len(cs) THEN "EOF" ELSE cs[i]
RECURSIVE JSkip(_, _)
JSkip(cs, i) == IF JAt(cs, i) \in JWs THEN JSkip(cs, i + 1) ELSE i

RECURSIVE DigitsEnd(_, _)
DigitsEnd(cs, i) == IF JAt(cs, i) \in Digits THEN DigitsEnd(cs, i + 1) ELSE i
\* number = [ - ] ( 0 / digit1-9 *digit ) [ . 1*digit ] [ (e / E) [ + / - ] 1*digit ] ; 0 when cs[i..] does not start with one
JNumEnd(cs, i) ==
  LET a == IF JAt(cs, i) = "-" THEN i + 1 ELSE i
      b == IF JAt(cs, a) = "0" THEN a + 1 ELSE IF JAt(cs, a) \in Digits THEN DigitsEnd(cs, a) ELSE 0
      c == IF b = 0 THEN 0
           ELSE IF JAt(cs, b) = "." THEN (IF DigitsEnd(cs, b + 1) > b + 1 THEN DigitsEnd(cs, b + 1) ELSE 0) ELSE b
      d == IF c = 0 THEN 0
           ELSE IF JAt(cs, c) \in {"e", "E"}
                THEN LET s == IF JAt(cs, c + 1) \in {"+", "-"} THEN c + 2 ELSE c + 1
                     IN IF DigitsEnd(cs, s) > s THEN DigitsEnd(cs, s) ELSE 0
                ELSE c
  IN d

RECURSIVE JStrBody(_, _, _)
JStrBody(cs, i, acc) ==
  LET b == JAt(cs, i)
  IN CASE b = "EOF" -> Fail("unterminated string")
       [] b = "QUOTE" -> [ok |-> TRUE, s |-> acc, i |-> i + 1]
       [] b = "BSL" -> LET e == ReadEsc(cs, i + 1)     \* the JSON escapes are exactly the ones readEscaped knows
                       IN IF JAt(cs, i + 1) = "EOF" THEN Fail("unterminated string")
                          ELSE IF e.ok THEN JStrBody(cs, e.i, Append(acc, e.c)) ELSE e
       [] b \in BadBytes -> JStrBody(cs, i + 1, Append(acc, "UFFFD"))   \* decoders replace invalid UTF-8
       [] OTHER -> IF Cp(b) < 32 THEN Fail("control character in string")
                   ELSE JStrBody(cs, i + 1, Append(acc, b))

StartsWith(cs, i, w) == i + Len(w) - 1 <= Len(cs) /\ SubSeq(cs, i, i + Len(w) - 1) = w

RECURSIVE JV(_, _), JElems(_, _, _), JMembers(_, _, _)
JV(cs, i0) ==
  LET i == JSkip(cs, i0)
      b == JAt(cs, i)
  IN CASE b = "QUOTE" -> LET r == JStrBody(cs, i + 1, <<>>) IN IF r.ok THEN OkV(StrV(r.s), r.i) ELSE r
       [] b \in NumStart ->
            LET e == JNumEnd(cs, i)
                tok == SubSeq(cs, i, e - 1)
            IN IF e = 0 THEN Fail("not a JSON number")
               ELSE IF tok \in DOMAIN IntOfSpell THEN OkV(IntV(IntOfSpell[tok]), e)
               ELSE IF tok \in DOMAIN FloatOfSpell THEN OkV(FloatV(FloatOfSpell[tok]), e)
               ELSE Fail("number outside the tables of named points")
       [] b = "[" -> LET j == JSkip(cs, i + 1)
                     IN IF JAt(cs, j) = "]" THEN OkV(ListV(<<>>), j + 1) ELSE JElems(cs, j, <<>>)
       [] b = "{" -> LET j == JSkip(cs, i + 1)
                     IN IF JAt(cs, j) = "}" THEN OkV(ObjV(<<>>), j + 1) ELSE JMembers(cs, j, <<>>)
       [] b = "t" -> IF StartsWith(cs, i, TrueW) THEN OkV(BoolV(TRUE), i + 4) ELSE Fail("bad literal")
       [] b = "f" -> IF StartsWith(cs, i, FalseW) THEN OkV(BoolV(FALSE), i + 5) ELSE Fail("bad literal")
       [] b = "n" -> IF StartsWith(cs, i, NullW) THEN OkV(NullV, i + 4) ELSE Fail("bad literal")
       [] OTHER -> Fail("not a JSON value")
\* value *( ws , ws value ) ws ]
JElems(cs, i, acc) ==
  LET r == JV(cs, i)
  IN IF ~r.ok THEN r
     ELSE LET j == JSkip(cs, r.i)
          IN CASE JAt(cs, j) = "," -> JElems(cs, j + 1, Append(acc, r.v))
               [] JAt(cs, j) = "]" -> OkV(ListV(Append(acc, r.v)), j + 1)
               [] OTHER -> Fail("expected , or ]")
\* string ws : value *( ws , ws member ) ws }
JMembers(cs, i0, acc) ==
  LET i == JSkip(cs, i0)
  IN IF JAt(cs, i) # "QUOTE" THEN Fail("object key must be a string")
     ELSE LET k == JStrBody(cs, i + 1, <<>>)
          IN IF ~k.ok THEN k
             ELSE LET c == JSkip(cs, k.i)
                  IN IF JAt(cs, c) # ":" THEN Fail("expected :")
                     ELSE LET r == JV(cs, c + 1)
                          IN IF ~r.ok THEN r
                             ELSE LET j == JSkip(cs, r.i)
                                  IN CASE JAt(cs, j) = "," -> JMembers(cs, j + 1, PutEnt(acc, k.s, r.v))
                                       [] JAt(cs, j) = "}" -> OkV(ObjV(PutEnt(acc, k.s, r.v)), j + 1)
                                       [] OTHER -> Fail("expected , or }")

\* what a standard JSON parser makes of the text: a value, or ErrV when it is not JSON
JsonDecode(cs) == LET r == JV(cs, 1)
                  IN IF r.ok /\ JSkip(cs, r.i) > Len(cs) THEN r.v ELSE ErrV
JsonAccepts(cs) == JsonDecode(cs) # ErrV

\* ------------------------------------------------------- the property -----
\* what reading the written text must give
ExpBack(v, fmt) == IF fmt = "sdl" THEN Canon(Norm(v)) ELSE Canon(Strs(Norm(v)))
ExpJson(v) == Canon(Strs(Norm(v)))

\* everything the specification prescribes for writing v (entries visited in the given order)
\* in form fmt with indent option ind under deviations dv
Outcome(v, fmt, ind, dv) ==
  LET text == WriteText(v, fmt, ind, dv)
  IN [text |-> text,
      back |-> Canon(Read(text)),
      jdec |-> IF fmt = "json" THEN Canon(JsonDecode(text)) ELSE NoneV]

RoundTripSDL(v, ind) == Canon(Read(WriteText(v, "sdl", ind, {}))) = ExpBack(v, "sdl")
RoundTripJSON(v, ind) == Canon(Read(WriteText(v, "json", ind, {}))) = ExpBack(v, "json")
JsonGrammarOK(v, ind) == Canon(JsonDecode(WriteText(v, "json", ind, {}))) = ExpJson(v)

\* all ways of ordering the entries of the maps inside v
Perms(s) == {p \in [DOMAIN s -> DOMAIN s] : \A i, j \in DOMAIN s : i # j => p[i] # p[j]}
RECURSIVE Orders(_), SeqOrders(_)
SeqOrders(vs) == IF vs = <<>> THEN {<<>>}
                 ELSE {<<h>> \o t : h \in Orders(vs[1]), t \in SeqOrders(Tail(vs))}
Orders(v) ==
  CASE v.k = "list" -> {ListV(s) : s \in SeqOrders(v.xs)}
    [] v.k = "obj" -> LET vals == SeqOrders([i \in DOMAIN v.es |-> v.es[i].val])
                      IN {ObjV([i \in DOMAIN v.es |-> Ent(v.es[p[i]].key, vs[p[i]])]) : p \in Perms(v.es), vs \in vals}
    [] OTHER -> {v}
RECURSIVE NumOrders(_)
Fact(n) == IF n <= 1 THEN 1 ELSE IF n = 2 THEN 2 ELSE IF n = 3 THEN 6 ELSE IF n = 4 THEN 24 ELSE 120
RECURSIVE ProdOrders(_)
ProdOrders(vs) == IF vs = <<>> THEN 1 ELSE NumOrders(vs[1]) * ProdOrders(Tail(vs))
NumOrders(v) ==
  CASE v.k = "list" -> ProdOrders(v.xs)
    [] v.k = "obj" -> Fact(Len(v.es)) * ProdOrders([i \in DOMAIN v.es |-> v.es[i].val])
    [] OTHER -> 1
=============================================================================
