------------------------------ MODULE MCReuse ------------------------------
(***************************************************************************)
(* C11 as a state machine: a session parses one document and then resolves *)
(* it any number of times with varying operation names and variables.  The *)
(* parsed document is a variable of the specification so that the property *)
(* "resolving does not change the parsed request" is the action property   *)
(* ParsedUnchanged, and each response is a function of the *initial*       *)
(* document and the arguments of that call only (FreshEquivalent).  The    *)
(* harness replays every session on one real Executable and compares each  *)
(* response with the one recorded here and the printed form with the       *)
(* initial one.                                                            *)
(***************************************************************************)
EXTENDS ExecGen, Json

CONSTANTS MaxCalls, KnownDev

VARIABLES doc0,    \* the document as parsed
          ast,     \* the parsed executable as it is now
          hist     \* calls made so far with the responses they must produce
rvars == <<doc0, ast, hist>>

RInit == doc0 \in ReuseDocs /\ ast = doc0 /\ hist = <<>>

\* resolving reads the parsed document; it does not write it
Resolve(c) ==
  /\ Len(hist) < MaxCalls
  /\ hist' = Append(hist, [op |-> c.op, vars |-> c.vars, exp |-> Response(UExec, ast, c.op, c.vars, {})])
  /\ UNCHANGED <<doc0, ast>>

RNext == \E c \in ReuseCalls(doc0) : Resolve(c)
RSpec == RInit /\ [][RNext]_rvars

ParsedUnchanged == [][ast' = ast]_rvars
FreshEquivalent == \A k \in DOMAIN hist : hist[k].exp = Response(UExec, doc0, hist[k].op, hist[k].vars, {})
ASSUME PrintT("@@UNI " \o ToJson(UExec))
Emit == Len(hist) = MaxCalls => PrintT("@@VEC " \o ToJson([doc |-> doc0, calls |-> hist]))
=============================================================================
