------------------------------ MODULE MCLoader ------------------------------
(***************************************************************************)
(* Histories of loads on one Root (C14).  Variables: the abstract schema   *)
(* and the history with, per load, the verdict and the canonical schema    *)
(* the specification prescribes afterwards.                                *)
(***************************************************************************)
EXTENDS LoadUniverse, Json

CONSTANTS MaxLoads, KnownDev,
          PrefixIds,    \* which prefixes of LoadUniverse!Prefixes the histories start from
          Vias,         \* how a document may be delivered: "sdl" (ParseReader / ParseFS), "types" (built in Go, Root.AddTypes)
          TypesOnly,    \* emit only the histories with at least one load delivered as types
          Buildable,    \* only documents that can be delivered as types take part (deep AddTypes histories: a smaller universe)
          WithIntro     \* also emit, after EVERY load (accepted or refused), the introspection view of the root's schema

VARIABLES st, hist, npre
lvars == <<st, hist, npre>>

RECURSIVE RunPrefix(_, _, _, _)
RunPrefix(s, docs, i, acc) ==
  IF i > Len(docs) THEN [s |-> s, hist |-> acc]
  ELSE LET r == LoadResult(s, docs[i], {}) IN
       RunPrefix(r.s, docs, i + 1, Append(acc, [doc |-> docs[i], via |-> "sdl", ok |-> r.ok, why |-> r.why, off |-> r.off, canon |-> Canon(r.s)]
                                                    @@ (IF WithIntro /\ Queryable(r.s) THEN [intro |-> Intro(r.s)] ELSE <<>>)))

LInit == \E p \in PrefixIds :
           LET r == RunPrefix(EmptySchema, Prefixes[p], 1, <<>>) IN st = r.s /\ hist = r.hist /\ npre = Len(r.hist)
Load(doc, via) ==
  LET r == LoadVia(st, doc, {}, via) IN
  /\ Len(hist) < npre + MaxLoads
  /\ via = "types" => TypesEligible(doc)
  /\ UNCHANGED npre
  /\ st' = r.s
  /\ hist' = Append(hist, [doc |-> doc, via |-> via, ok |-> r.ok, why |-> r.why, off |-> r.off, canon |-> Canon(r.s)]
                            @@ (IF WithIntro /\ Queryable(r.s) THEN [intro |-> Intro(r.s)] ELSE <<>>))
LNext == \E doc \in {d \in LoadDocs : Buildable => TypesEligible(d)}, via \in Vias : Load(doc, via)
LSpec == LInit /\ [][LNext]_lvars

\* C14: a failed load leaves the observable schema unchanged
Atomic == [][\A k \in 1..Len(hist') : (k = Len(hist') /\ ~hist'[k].ok) => Canon(st') = Canon(st)]_lvars
\* the committed schema always satisfies the rules (C13's "every accepted schema passes a re-check")
AlwaysValid == Valid(st, {})
\* a later valid load behaves as if the failed ones had never happened: the state is a function of the successful loads only
RECURSIVE Replay(_, _, _)
Replay(s, h, i) == IF i > Len(h) THEN s ELSE Replay(IF h[i].ok THEN LoadVia(s, h[i].doc, {}, h[i].via).s ELSE s, h, i + 1)
AsIfNeverHappened == Canon(st) = Canon(Replay(EmptySchema, hist, 1))

Emit == (Len(hist) = npre + MaxLoads /\ (TypesOnly => \E k \in DOMAIN hist : hist[k].via = "types")) => PrintT("@@VEC " \o ToJson([hist |-> hist]))
=============================================================================
