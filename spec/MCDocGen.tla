------------------------------ MODULE MCDocGen ------------------------------
(***************************************************************************)
(* TLC instance of DocGen.tla: enumerates the inputs of property C03 and   *)
(* emits one vector per distinct input (state), each carrying the          *)
(* prescribed outcome ("returns") and the outcomes admitted under the      *)
(* known deviations.  Two-step machine: Init picks a family, the first     *)
(* step a language, the following steps grow / derive / mutate.            *)
(*                                                                         *)
(* Families                                                                *)
(*   all    every token string over Core[lang] up to AllLen tokens, and    *)
(*          over Small[lang] up to SmallLen tokens                         *)
(*   deriv  every derivation of the grammar up to MaxTok tokens (Expand),  *)
(*          then up to MaxMut mutations of the derivations of at most      *)
(*          MutTok tokens (Mutate, CRLF)                                   *)
(*   frag   the documents of the recursion model (FragDocs.tla)            *)
(*   frag3  the three-fragment documents (FragDocs!Docs3)                   *)
(*   dupkey one response key selected twice, by every pair of fields of    *)
(*          Query and of A with a selection set that fits (lists of        *)
(*          different lengths, objects against lists and leaves, nulls)    *)
(*   deep   one unit of nesting written 300000 times (see DeepCases)        *)
(*   hist   a schema and a second load that extends its types (see HistCases)*)
(*   indef  input object fields whose default includes a value of the      *)
(*          field's own type                                               *)
(*   vars   (declared variable type) x (default) x (place of use); the     *)
(*          variable maps range over the JSON-shaped values of depth <= 2  *)
(*   refl   fields with arguments x every state of every argument          *)
(*          (omitted, null, each kind of literal, unset / set variable,    *)
(*          undeclared extra argument)                                     *)
(* TLC also checks the generator: derived strings are accepted by the      *)
(* recogniser Derives the judge uses, brackets balance, tokens are in the  *)
(* alphabet, the divergence analysis is consistent.                        *)
(***************************************************************************)
EXTENDS DocGen, FragDocs, ExecUniverse, Json

CONSTANTS Fams,       \* families to enumerate
          KnownDev,   \* deviation names listed as known findings
          AllLen, SmallLen,
          MaxTok, MaxMut, MutTok,
          Rich,       \* fragment document space (FragDocs!Docs)
          ArgStates,  \* argument states of family refl
          VdBulk      \* depth of variable values for the bulk families (all, deriv)

VARIABLES cs
mcvars == <<cs>>

ASSUME \A l \in Langs : Small[l] \subseteq Core[l] /\ Cardinality(Core[l]) = 24

ASSUME PrintT("@@UNI " \o ToJson(
  [ raw |-> Raw, seps |-> Seps, layouts |-> Layouts,
    jsonvals |-> ("0" :> JsonVals(0)) @@ ("1" :> JsonVals(1)) @@ ("2" :> JsonVals(2)),
    grammar |-> [exe |-> ExeG, sdl |-> SdlG, val |-> ValG],
    start |-> [exe |-> Start, sdl |-> Start, val |-> Start],
    alpha |-> [l \in Langs |-> Alpha(l)],
    muttoks |-> MutToks, devsites |-> DevSites,
    exec |-> UExec ]))

\* ---------------------------------------------------------------- family vars
VarTypes == { <<"String">>, <<"Int">>, <<"Boolean">>, <<"[", "String", "]">>, <<"In">>, <<"String", "!">>, <<"[", "In", "!", "]", "!">>, <<"Float">>, <<"Nope">>,
              <<"[", "]">>, <<"[", "[", "]", "]">>, <<"!">>, <<"[", "!", "]">>, <<"[", "String">> }
VarDefaults == { <<>>, <<"=", "STR">>, <<"=", "1">>, <<"=", "null">>, <<"=", "[", "1", "]">>, <<"=", "{", "a", ":", "1", "}">>, <<"=", "$", "v">> }
VarSites ==
  { <<"echo", "(", "s", ":", "$", "v", ")">>, <<"echo", "(", "i", ":", "$", "v", ")">>, <<"echo", "(", "b", ":", "$", "v", ")">>,
    <<"title", "@", "skip", "(", "if", ":", "$", "v", ")">>, <<"...", "@", "include", "(", "if", ":", "$", "v", ")", "{", "title", "}">>,
    <<"need", "(", "x", ":", "$", "v", ")">>, <<"obj", "(", "l", ":", "$", "v", ")">>, <<"obj", "(", "l", ":", "[", "$", "v", "]", ")">>,
    <<"obj", "(", "in", ":", "$", "v", ")">>, <<"obj", "(", "in", ":", "{", "a", ":", "$", "v", "}", ")">>,
    <<"obj", "(", "in", ":", "{", "n", ":", "$", "v", "l", ":", "$", "v", "}", ")">>,
    <<"a", "{", "tag", "(", "s", ":", "$", "v", ")", "}">>, <<"__type", "(", "name", ":", "$", "v", ")", "{", "name", "}">>,
    <<"items", "{", "kids", "{", "tag", "(", "s", ":", "$", "v", ")", "}", "}">> }
VarDoc(t, d, s) == <<"query", "(", "$", "v", ":">> \o t \o d \o <<")", "{">> \o s \o <<"}">>
\* several variables whose defaults name each other: a ring of two, a ring of two behind the variable that is used
VarRing(t) == { <<"$", "v", ":">> \o t \o <<"=", "$", "w", "$", "w", ":">> \o t \o <<"=", "$", "v">>,
                <<"$", "v", ":">> \o t \o <<"=", "$", "w", "$", "w", ":">> \o t \o <<"=", "$", "u", "$", "u", ":">> \o t \o <<"=", "$", "w">>,
                <<"$", "w", ":">> \o t \o <<"=", "$", "u", "$", "u", ":">> \o t \o <<"=", "$", "w", "$", "v", ":">> \o t }
VarCases == {[fam |-> "vars", ph |-> "case", lang |-> "exe", form |-> VarDoc(t, d, s), sep |-> "sp", nm |-> 0] : t \in VarTypes, d \in VarDefaults, s \in VarSites}
  \cup {[fam |-> "vars", ph |-> "case", lang |-> "exe", form |-> <<"query", "(">> \o r \o <<")", "{">> \o s \o <<"}">>, sep |-> "sp", nm |-> 0] :
          r \in UNION {VarRing(t) : t \in {<<"String">>, <<"Int">>, <<"In">>, <<"[", "String", "]">>}}, s \in VarSites}

\* a variable used by an operation that declares none (or only another one)
UndeclCases ==
  {[fam |-> "undecl", ph |-> "case", lang |-> "exe", form |-> hd \o <<"{">> \o s \o <<"}">>, sep |-> "sp", nm |-> 0] :
      s \in VarSites, hd \in { <<>>, <<"query">>, <<"query", "(", "$", "a", ":", "String", ")">>, <<"mutation">> }}

\* ---------------------------------------------------------------- family tail
\* inputs whose last byte, inside a list or an argument, can neither start a value nor close what is open: with a reader
\* that delivers its final byte TOGETHER with io.EOF (the worker tries every fault mode at every offset) the readers are
\* at the end of the input with that byte still to be looked at
TailEnds == { <<")">>, <<"(">>, <<"@">>, <<"!">>, <<":">>, <<"=">>, <<"|">>, <<"&">>, <<"tru", ")">>, <<"1", ",", "2", ")">> }
TailCases ==
  {[fam |-> "tail", ph |-> "case", lang |-> "val", form |-> pre \o e, sep |-> "sp", nm |-> 0] :
      pre \in { <<"[">>, <<"[", "[">>, <<"{", "a", ":">>, <<"{", "a", ":", "[">> }, e \in TailEnds}
  \cup {[fam |-> "tail", ph |-> "case", lang |-> "exe", form |-> pre \o e, sep |-> "sp", nm |-> 0] :
      pre \in { <<"{", "a", "(", "x", ":", "[">>, <<"{", "a", "(", "x", ":">>, <<"query", "(", "$", "v", ":", "Int", "=", "[">>, <<"{", "a", "@", "skip", "(", "if", ":", "[">> },
      e \in TailEnds}
  \cup {[fam |-> "tail", ph |-> "case", lang |-> "sdl", form |-> pre \o e, sep |-> "sp", nm |-> 0] :
      pre \in { <<"type", "Query", "{", "a", "(", "x", ":", "Int", "=", "[">>, <<"directive", "@", "d", "(", "x", ":", "In", "=", "{", "a", ":">> }, e \in TailEnds}

\* ---------------------------------------------------------------- family refl
\* how an argument is written in each state; "omit" writes nothing
ArgText(n, st) ==
  CASE st = "omit" -> <<>>
    [] st = "null" -> <<n, ":", "null">>
    [] st = "str" -> <<n, ":", "STR">>
    [] st = "int" -> <<n, ":", "1">>
    [] st = "float" -> <<n, ":", "1.5">>
    [] st = "bool" -> <<n, ":", "true">>
    [] st = "enum" -> <<n, ":", "RED">>
    [] st = "list" -> <<n, ":", "[", "1", "]">>
    [] st = "obj" -> <<n, ":", "{", "a", ":", "1", "}">>
    [] st = "unset" -> <<n, ":", "$", "u">>
    [] st = "var" -> <<n, ":", "$", "v">>
    [] st = "big" -> <<n, ":", "9223372036854775808">>
AllArgStates == {"omit", "null", "str", "int", "float", "bool", "enum", "list", "obj", "unset", "var", "big"}
ASSUME ArgStates \subseteq AllArgStates
\* the fields of U-exec that take arguments: <<path to the field, field, argument names>>
ArgFields == { <<<<>>, "echo", <<"s", "b", "i">>>>, <<<<>>, "need", <<"x">>>>, <<<<>>, "need2", <<"x", "o">>>>, <<<<>>, "obj", <<"in", "l">>>>,
               <<<<"a">>, "tag", <<"s">>>> }
ASSUME \A af \in ArgFields :
         LET tn == IF af[1] = <<>> THEN "Query" ELSE "A"
         IN HasField(UExec, tn, af[2]) /\ [i \in DOMAIN af[3] |-> FieldDef(UExec, tn, af[2]).args[i].n] = af[3]
RECURSIVE ArgList(_, _)
ArgList(names, sts) == IF names = <<>> THEN <<>> ELSE ArgText(Head(names), Head(sts)) \o ArgList(Tail(names), Tail(sts))
ReflDoc(af, sts, extra) ==
  LET args == ArgList(af[3], sts) \o (IF extra THEN <<"zz", ":", "1">> ELSE <<>>)
      call == <<af[2]>> \o (IF args = <<>> THEN <<>> ELSE <<"(">> \o args \o <<")">>)
      body == IF af[1] = <<>> THEN call ELSE <<"a", "{">> \o call \o <<"}">>
  IN <<"query", "(", "$", "v", ":", "String", "$", "u", ":", "String", ")", "{">> \o body \o <<"}">>
ReflCases ==
  {[fam |-> "refl", ph |-> "case", lang |-> "exe", form |-> ReflDoc(af, sts, ex), sep |-> "sp", nm |-> 0] :
      <<af, sts>> \in UNION {{<<a, s>> : s \in [1..Len(a[3]) -> ArgStates]} : a \in ArgFields}, ex \in BOOLEAN}

\* ---------------------------------------------------------------- family indef
\* input object fields whose default is (or pulls in) a value of the field's own input type
InDefTypes == { <<"In">>, <<"[", "In", "]">>, <<"In", "!">>, <<"[", "In", "!", "]">>, <<"T">> }
InDefVals == { <<"{", "}">>, <<"{", "a", ":", "{", "}", "}">>, <<"[", "{", "}", "]">>, <<"[", "]">>, <<"null">>, <<"{", "a", ":", "null", "}">>, <<"1">>,
               <<"{", "n", ":", "1", "}">>, <<"{", "b", ":", "{", "}", "}">> }
InDefCases ==
  {[fam |-> "indef", ph |-> "case", lang |-> "sdl", sep |-> "sp", nm |-> 0,
    form |-> <<"input", "In", "{", "a", ":">> \o ty \o <<"=">> \o dv \o <<"n", ":", "Int", "}">> \o tail] :
      ty \in InDefTypes, dv \in InDefVals,
      tail \in { <<>>, <<"input", "T", "{", "b", ":", "In", "=", "{", "}", "}">>, <<"type", "Query", "{", "a", "(", "x", ":", "In", ")", ":", "Int", "}">> }}
  \* the same through a directive argument default / a directive use, with two inputs whose defaults include each other
  \cup {[fam |-> "indef", ph |-> "case", lang |-> "sdl", sep |-> "sp", nm |-> 0,
          form |-> hd \o <<"input", "In", "{", "a", ":", "T", "=">> \o dv \o <<"}", "input", "T", "{", "b", ":", "In", "=", "{", "}", "}">>] :
        dv \in {<<"{", "}">>, <<"{", "b", ":", "{", "}", "}">>, <<"null">>},
        hd \in { <<"directive", "@", "d", "(", "x", ":", "In", "=", "{", "}", ")", "on", "OBJECT">>,
                 <<"directive", "@", "d", "(", "x", ":", "[", "In", "]", "=", "[", "{", "}", "]", ")", "on", "OBJECT">>,
                 <<"directive", "@", "d", "(", "x", ":", "In", ")", "on", "OBJECT", "type", "Query", "@", "d", "(", "x", ":", "{", "}", ")", "{", "a", ":", "Int", "}">>,
                 <<"type", "Query", "{", "a", "(", "x", ":", "In", "=", "{", "}", ")", ":", "Int", "}">> }}

\* ---------------------------------------------------------------- family hist
\* a schema, then (after the mark "#cut": a second load on the same root) one or two extensions of its types - fields
\* whose defaults pull in the type being extended, duplicates, an unknown type - with or without a definition that
\* makes validation refuse the document; the root is then used (coercers of every type, requests)
HBase == <<"input", "A", "{", "x", ":", "Int", "}", "input", "B", "{", "a", ":", "A", "=", "{", "}", "}",
           "type", "Query", "{", "f", "(", "a", ":", "A", ")", ":", "Int", "}">>
HExt == { <<"extend", "input", "A", "{", "b", ":", "B", "=", "{", "}", "}">>,
          <<"extend", "input", "A", "{", "y", ":", "Int", "}">>,
          <<"extend", "input", "B", "{", "c", ":", "B", "=", "{", "}", "}">>,
          <<"extend", "input", "B", "{", "l", ":", "[", "A", "]", "=", "[", "{", "}", "]", "}">>,
          <<"extend", "input", "A", "{", "x", ":", "Int", "}">>,
          <<"extend", "type", "Query", "{", "g", "(", "b", ":", "B", "=", "{", "}", ")", ":", "Int", "}">>,
          <<"extend", "type", "Query", "{", "f", ":", "Int", "}">>,
          <<"extend", "input", "Nope", "{", "z", ":", "Int", "}">> }
HistCases ==
  {[fam |-> "hist", ph |-> "case", lang |-> "sdl", sep |-> "sp", nm |-> 0, form |-> HBase \o <<"#cut">> \o x1 \o x2 \o tail] :
      x1 \in HExt, x2 \in HExt \cup {<<>>}, tail \in { <<>>, <<"type", "Z", "{", "__z", ":", "Int", "}">> }}

\* ---------------------------------------------------------------- family deep
\* nesting far deeper than any document has: a prefix, then one unit written `rep` times (lists in lists, objects in
\* objects, selection sets in selection sets, inline fragments, list types); never closed - every reader returns
DeepRep == 300000
DeepCases ==
  {[fam |-> "deep", ph |-> "case", lang |-> c[1], form |-> c[2], unit |-> c[3], rep |-> DeepRep, sep |-> "sp", nm |-> 0] : c \in {
      <<"val", <<>>, <<"[">>>>, <<"val", <<>>, <<"{", "a", ":">>>>, <<"val", <<"[">>, <<"[", "{", "a", ":">>>>,
      <<"exe", <<>>, <<"{", "a">>>>, <<"exe", <<"{">>, <<"...", "{">>>>,
      \* (fields with an argument / a directive at every level: values are read in between the selection sets)
      <<"exe", <<>>, <<"{", "a", "(", "x", ":", "1", ")">>>>, <<"exe", <<>>, <<"{", "a", "@", "include", "(", "if", ":", "true", ")">>>>,
      <<"exe", <<"{">>, <<"...", "@", "skip", "(", "if", ":", "[", "]", ")", "{">>>>, <<"exe", <<"{", "a", "(", "x", ":">>, <<"[">>>>,
      <<"exe", <<"{", "a", "(", "x", ":">>, <<"{", "a", ":">>>>, <<"exe", <<"query", "(", "$", "v", ":">>, <<"[">>>>,
      <<"exe", <<"query", "(", "$", "v", ":", "Int", "=">>, <<"[">>>>, <<"exe", <<"{", "...", "on">>, <<"[">>>>,
      <<"sdl", <<"type", "Query", "{", "a", ":">>, <<"[">>>>, <<"sdl", <<"type", "Query", "{", "a", "(", "x", ":", "Int", "=">>, <<"[">>>>,
      <<"sdl", <<"input", "In", "{", "a", ":", "In", "=">>, <<"{", "a", ":">>>>, <<"sdl", <<"directive", "@", "d", "(", "x", ":">>, <<"[">>>>,
      <<"sdl", <<"type", "Query", "@", "d", "(", "x", ":">>, <<"[", "[">>>> }}

\* ---------------------------------------------------------------- family dupkey
QFields == { <<"title">>, <<"bad">>, <<"grid">>, <<"a", "{", "n", "}">>, <<"nul", "{", "n", "}">>, <<"items", "{", "n", "}">>,
             <<"items", "{", "kids", "{", "n", "}", "}">>, <<"named", "{", "name", "}">>, <<"any", "{", "__typename", "}">>,
             <<"one", "{", "name", "}">>, <<"matrix", "{", "n", "}">>, <<"matrix", "{", "name", "n", "}">> }
AFields == { <<"name">>, <<"n">>, <<"flags">>, <<"wrong">>, <<"boom">>, <<"kids", "{", "n", "}">>, <<"self", "{", "n", "}">>,
             <<"self", "{", "kids", "{", "name", "}", "}">>, <<"peer", "{", "name", "}">> }
DupDoc(pre, f1, f2, post) == pre \o <<"x", ":">> \o f1 \o <<"x", ":">> \o f2 \o post
DupCases ==
  {[fam |-> "dupkey", ph |-> "case", lang |-> "exe", form |-> DupDoc(<<"{">>, f1, f2, <<"}">>), sep |-> "sp", nm |-> 0] : f1 \in QFields, f2 \in QFields}
  \cup {[fam |-> "dupkey", ph |-> "case", lang |-> "exe", form |-> DupDoc(<<"{", top, "{">>, f1, f2, <<"}", "}">>), sep |-> "sp", nm |-> 0] :
          top \in {"a", "items"}, f1 \in AFields, f2 \in AFields}
  \cup {[fam |-> "dupkey", ph |-> "case", lang |-> "exe", sep |-> "sp", nm |-> 0,
          form |-> <<"{", "...", "F">> \o <<"x", ":">> \o f1 \o <<"}", "fragment", "F", "on", "Query", "{", "x", ":">> \o f2 \o <<"}">>] : f1 \in QFields, f2 \in QFields}

\* ---------------------------------------------------------------- the machine
MCInit == cs \in {[fam |-> f, ph |-> "fam"] : f \in Fams}

PickLang == /\ cs.ph = "fam"
            /\ \/ cs.fam = "all" /\ cs' \in {[fam |-> "all", ph |-> "grow", lang |-> l, form |-> <<>>, sep |-> "", nm |-> 0] : l \in Langs}
               \/ cs.fam = "deriv" /\ cs' \in {[fam |-> "deriv", ph |-> "derive", lang |-> l, form |-> <<Start>>, sep |-> "", nm |-> 0] : l \in Langs}
               \/ cs.fam = "frag" /\ cs' \in {[fam |-> "frag", ph |-> "case", lang |-> "exe", form |-> RenderDoc(d), doc |-> d, sep |-> "sp", nm |-> 0] : d \in Docs(Rich)}
               \/ cs.fam = "frag3" /\ cs' \in {[fam |-> "frag3", ph |-> "case", lang |-> "exe", form |-> RenderDoc(d), doc |-> d, sep |-> "sp", nm |-> 0] : d \in Docs3}
               \/ cs.fam = "dupkey" /\ cs' \in DupCases
               \/ cs.fam = "indef" /\ cs' \in InDefCases
               \/ cs.fam = "hist" /\ cs' \in HistCases
               \/ cs.fam = "deep" /\ cs' \in DeepCases
               \/ cs.fam = "vars" /\ cs' \in VarCases
               \/ cs.fam = "refl" /\ cs' \in ReflCases
               \/ cs.fam = "undecl" /\ cs' \in UndeclCases
               \/ cs.fam = "tail" /\ cs' \in TailCases

Grow == /\ cs.ph = "grow"
        /\ \/ Len(cs.form) < AllLen /\ \E k \in Core[cs.lang] : cs' = [cs EXCEPT !.form = Append(@, k)]
           \/ /\ Len(cs.form) >= AllLen /\ Len(cs.form) < SmallLen
              /\ \A i \in 1..Len(cs.form) : cs.form[i] \in Small[cs.lang]
              /\ \E k \in Small[cs.lang] : cs' = [cs EXCEPT !.form = Append(@, k)]

Expand == /\ cs.ph = "derive" /\ ~Complete(cs.lang, cs.form)
          /\ cs' \in {[cs EXCEPT !.form = g] : g \in Expansions(cs.lang, cs.form, MaxTok)}

Mutate == /\ cs.ph \in {"derive", "mut"} /\ Complete(cs.lang, cs.form) /\ cs.nm < MaxMut /\ Len(cs.form) <= MutTok
          /\ cs' \in {[cs EXCEPT !.form = m, !.nm = @ + 1, !.ph = "mut"] :
                        m \in IF cs.nm = 0 THEN Mutants(cs.lang, cs.form) ELSE Mutants2(cs.lang, cs.form)}

CRLF == /\ cs.ph \in {"derive", "mut"} /\ Complete(cs.lang, cs.form) /\ cs.nm < MaxMut /\ cs.sep = ""
        /\ cs' = [cs EXCEPT !.sep = "crlf", !.nm = @ + 1, !.ph = "mut"]

MCNext == PickLang \/ Grow \/ Expand \/ Mutate \/ CRLF
MCSpec == MCInit /\ [][MCNext]_mcvars

\* ---------------------------------------------------------------- vectors
IsVector == cs.ph \in {"grow", "mut", "case"} \/ (cs.ph = "derive" /\ Complete(cs.lang, cs.form))

AllowOf(dv) ==
  IF cs.fam \in {"frag", "frag3"}
  THEN {d \in Allowed(dv, cs.lang, cs.form) : d = "FragCycleUnbounded" => Diverges(cs.doc)}
  ELSE Allowed(dv, cs.lang, cs.form)

Vector ==
  [ fam |-> cs.fam, lang |-> cs.lang, toks |-> cs.form, sep |-> cs.sep,
    vn |-> IF cs.fam \in {"vars", "refl", "undecl"} THEN {"v"} ELSE VarNames(cs.form),
    vd |-> CASE cs.fam = "vars" -> 2 [] cs.fam \in {"refl", "undecl"} -> 1 [] OTHER -> VdBulk,
    cls |-> CASE cs.ph = "grow" -> "raw" [] cs.ph = "mut" -> "mutated" [] OTHER -> "valid",
    exp |-> Expected,
    allow |-> AllowOf(KnownDev) ] @@ (IF "rep" \in DOMAIN cs THEN [unit |-> cs.unit, rep |-> cs.rep] ELSE <<>>)

Emit == IsVector => PrintT("@@VEC " \o ToJson(Vector))

\* ---------------------------------------------------------------- the generator is sound
\* dv = {} is the property: nothing but "returns" is admitted
StrictAdmitsNothing == IsVector => AllowOf({}) = {}
\* what Expand derives, the recogniser accepts (the judge of direction B uses the recogniser)
DerivedIsValid == (cs.ph = "derive" /\ Complete(cs.lang, cs.form)) => Valid(cs.lang, cs.form)
RECURSIVE Bal(_, _)
Open == [x \in {")", "]", "}"} |-> CASE x = ")" -> "(" [] x = "]" -> "[" [] x = "}" -> "{"]
Bal(t, stk) ==
  IF t = <<>> THEN stk = <<>>
  ELSE LET h == Head(t) IN
       IF h \in {"(", "[", "{"} THEN Bal(Tail(t), <<h>> \o stk)
       ELSE IF h \in DOMAIN Open THEN stk # <<>> /\ Head(stk) = Open[h] /\ Bal(Tail(t), Tail(stk))
       ELSE Bal(Tail(t), stk)
\* (the value language may carry a lone "{" inside a string)
DerivedBalanced == (cs.ph = "derive" /\ Complete(cs.lang, cs.form) /\ cs.lang # "val") => Bal(cs.form, <<>>)
TokensKnown == (IsVector /\ cs.fam \in {"all", "deriv"}) => \A i \in 1..Len(cs.form) : cs.form[i] \in Alpha(cs.lang)
FragAnalysisSound == (cs.ph = "case" /\ cs.fam \in {"frag", "frag3"}) => (Diverges(cs.doc) => HasSpreadCycle(cs.doc))
=============================================================================
