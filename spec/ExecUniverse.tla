---------------------------- MODULE ExecUniverse ----------------------------
(***************************************************************************)
(* U-exec: the fixed universe of the execution family (C01, C02, C06,      *)
(* C08-C11): a schema with objects, an interface, a union, lists, lists of *)
(* lists with null and empty members, arguments, and a cyclic data graph.  *)
(* It is defined only here; the Go harness receives it through the "@@UNI" *)
(* export and builds the SDL text and the three realisations of the data   *)
(* graph (Resolver objects, untyped data behind an AnyResolver, reflected  *)
(* structs) from it.                                                       *)
(***************************************************************************)
EXTENDS GQLCore

FD(t, args) == [type |-> t, args |-> args]
AD(n, t) == [n |-> n, type |-> t, hasDef |-> FALSE, def |-> NullV]
ADD(n, t, d) == [n |-> n, type |-> t, hasDef |-> TRUE, def |-> d]        \* with a default value
S == Named("String")
I == Named("Int")
B == Named("Boolean")

UTypes ==
  [ Query |->          \* (an operation root that implements an interface and is handed out under fields of that interface type)
      [ kind |-> "OBJECT", ifaces |-> <<"Titled">>, members |-> <<>>,
        fields |->
          [ title |-> FD(S, <<>>),
            me    |-> FD(Named("Titled"), <<>>),
            mes   |-> FD(ListOf(Named("Titled")), <<>>),
            a     |-> FD(Named("A"), <<>>),
            nul   |-> FD(Named("A"), <<>>),
            items |-> FD(ListOf(Named("A")), <<>>),
            named |-> FD(ListOf(Named("Named")), <<>>),
            any   |-> FD(ListOf(Named("Any")), <<>>),
            one   |-> FD(Named("Named"), <<>>),
            grid  |-> FD(ListOf(ListOf(I)), <<>>),
            matrix |-> FD(ListOf(ListOf(Named("A"))), <<>>),
            need2 |-> FD(S, <<AD("x", NonNull(S)), AD("o", S)>>),
            bad   |-> FD(S, <<>>),
            echo  |-> FD(S, <<AD("s", S), AD("b", B), AD("i", I)>>),
            need  |-> FD(S, <<AD("x", NonNull(S))>>),
            odd   |-> FD(Named("Any"), <<>>),              \* a value that is no member of the union the field declares,
            odds  |-> FD(ListOf(Named("Any")), <<>>),      \* alone and between members
            pv    |-> FD(Named("P"), <<>>),                \* the same node: as a Go struct VALUE here (reflection strategy),
            pp    |-> FD(Named("Named"), <<>>),            \* as a pointer to that struct here
            ps    |-> FD(ListOf(Named("Named")), <<>>),
            obj   |-> FD(S, <<AD("in", Named("In")), AD("l", ListOf(S)), AD("ins", ListOf(Named("In"))), AD("ll", ListOf(ListOf(S)))>>),
            ids   |-> FD(S, <<AD("v", ListOf(Named("ID"))), AD("w", Named("ID"))>>) ] ],    \* (a number written for an ID is that ID as a string)
    In |->
      [ kind |-> "INPUT_OBJECT", ifaces |-> <<>>, members |-> <<>>, fields |-> [x \in {} |-> 0],
        infields |-> <<AD("a", S), ADD("n", I, IntV(7)), AD("l", ListOf(S))>> ],
    Mutation |->
      [ kind |-> "OBJECT", ifaces |-> <<>>, members |-> <<>>,
        fields |-> [ set |-> FD(S, <<AD("s", S)>>), a |-> FD(Named("A"), <<>>),
                     leak |-> FD(S, <<>>) ] ],      \* (its resolver hands out a *ggql.Subscription: no String, outside a subscription operation)
    Titled |->
      [ kind |-> "INTERFACE", ifaces |-> <<>>, members |-> <<>>, fields |-> [ title |-> FD(S, <<>>) ] ],
    Named |->
      [ kind |-> "INTERFACE", ifaces |-> <<>>, members |-> <<>>,
        fields |-> [ name |-> FD(S, <<>>),
                     peer |-> FD(Named("Named"), <<>>),        \* implemented covariantly: A.peer : B, B.peer : A
                     say  |-> FD(S, <<>>) ] ],                 \* the implementors add optional arguments of their own: A.say(mood), B.say(loud)
    A |->
      [ kind |-> "OBJECT", ifaces |-> <<"Named">>, members |-> <<>>,
        fields |->
          [ name |-> FD(S, <<>>),
            n    |-> FD(I, <<>>),
            peer |-> FD(Named("B"), <<>>),
            self |-> FD(Named("A"), <<>>),
            kids |-> FD(ListOf(Named("A")), <<>>),
            boom |-> FD(S, <<>>),
            many |-> FD(S, <<>>),
            half |-> FD(S, <<>>),
            say  |-> FD(S, <<AD("mood", I)>>),
            nest |-> FD(S, <<>>),
            wrong |-> FD(I, <<>>),
            flags |-> FD(ListOf(B), <<>>),
            tag  |-> FD(S, <<AD("s", S)>>) ] ],
    B |->
      [ kind |-> "OBJECT", ifaces |-> <<"Named">>, members |-> <<>>,
        fields |->
          [ name |-> FD(S, <<>>),
            flag |-> FD(B, <<>>),
            say  |-> FD(S, <<AD("loud", B)>>),
            peer |-> FD(Named("A"), <<>>) ] ],
    C |->
      [ kind |-> "OBJECT", ifaces |-> <<>>, members |-> <<>>,
        fields |-> [ only |-> FD(S, <<>>) ] ],
    \* no object of the data graph has this type, it implements nothing and is a member of no union; the reflection worlds
    \* bind it to the Go type that backs B as well (one Go type behind two object types): what a value of that Go type is
    \* under a field of type Named or Any is decided by the types that implement / are members, not by the first bound type
    Ab |->
      [ kind |-> "OBJECT", ifaces |-> <<>>, members |-> <<>>,
        fields |-> [ name |-> FD(I, <<>>), flag |-> FD(I, <<>>), extra |-> FD(S, <<>>) ] ],
    \* realised by reflection as a Go struct with exported FIELDS (not methods), met both as a value and through a pointer
    P |->
      [ kind |-> "OBJECT", ifaces |-> <<"Named">>, members |-> <<>>,
        \* (stamp: promoted from a struct embedded by pointer, rank: from one embedded by value, code: a method with a
        \* pointer receiver)
        fields |-> [ name |-> FD(S, <<>>), peer |-> FD(Named("Named"), <<>>), say |-> FD(S, <<>>), n |-> FD(I, <<>>),
                     stamp |-> FD(S, <<>>), rank |-> FD(I, <<>>), code |-> FD(S, <<>>),
                     note |-> FD(S, <<AD("k", NonNull(S))>>) ] ],        \* (a struct field behind a field that declares a required argument)
    Any |->
      [ kind |-> "UNION", ifaces |-> <<>>, members |-> <<"A", "B">>, fields |-> [x \in {} |-> 0] ],
    Solo |->       \* a union that holds only one of the implementors of Named
      [ kind |-> "UNION", ifaces |-> <<>>, members |-> <<"A", "P">>, fields |-> [x \in {} |-> 0] ] ]

UNodeType == [ q |-> "Query", m |-> "Mutation", a1 |-> "A", a2 |-> "A", b1 |-> "B", p1 |-> "P", c1 |-> "C" ]

UData ==
  [ q  |-> [ title |-> StrV("T"), me |-> NodeV("q"), mes |-> ListV(<<NodeV("q"), NullV>>), a |-> NodeV("a1"), nul |-> NullV,
             items |-> ListV(<<NodeV("a1"), NullV, NodeV("a2")>>),
             named |-> ListV(<<NodeV("a1"), NodeV("b1")>>),
             any   |-> ListV(<<NodeV("b1"), NodeV("a2")>>),
             one   |-> NodeV("b1"),
             grid  |-> ListV(<<ListV(<<IntV(1), IntV(2)>>), ListV(<<>>), NullV, ListV(<<IntV(3), NullV>>)>>),
             matrix |-> ListV(<<ListV(<<NodeV("a1"), NullV>>), ListV(<<>>), NullV, ListV(<<NodeV("a2"), NodeV("a1")>>)>>),
             need2 |-> V("echo", 0),
             bad   |-> ErrV("bad fails"),
             echo  |-> V("echo", 0),
             need  |-> V("echo", 0), obj |-> V("echo", 0), ids |-> V("echo", 0),
             odd |-> NodeV("c1"), odds |-> ListV(<<NodeV("a1"), NodeV("c1"), NodeV("b1")>>),
             pv |-> NodeV("p1"), pp |-> NodeV("p1"), ps |-> ListV(<<NodeV("p1"), NodeV("b1"), NodeV("p1")>>) ],
    m  |-> [ set |-> V("echo", 0), a |-> NodeV("a2"), leak |-> V("subval", 0) ],
    a1 |-> [ name |-> StrV("a1"), n |-> IntV(1), peer |-> NodeV("b1"), self |-> NodeV("a1"),
             kids |-> ListV(<<NodeV("a2")>>), boom |-> ErrV("boom fails"), many |-> V("errs", 2), half |-> V("errval", "part"), nest |-> V("errsn", 2), say |-> V("echo", 0),
             wrong |-> StrV("n/a"), flags |-> ListV(<<BoolV(TRUE), StrV("maybe"), NullV, BoolV(FALSE)>>), tag |-> V("echo", 0) ],
    a2 |-> [ name |-> StrV("a2"), n |-> IntV(2), peer |-> NodeV("b1"), self |-> NodeV("a2"),
             kids |-> ListV(<<>>), boom |-> ErrV("boom fails"), many |-> V("errs", 3), half |-> V("errval", "part"), nest |-> V("errsn", 1), say |-> V("echo", 0),
             wrong |-> StrV("n/a"), flags |-> ListV(<<>>), tag |-> V("echo", 0) ],
    c1 |-> [ only |-> StrV("c1") ],
    b1 |-> [ name |-> StrV("b1"), flag |-> BoolV(TRUE), peer |-> NodeV("a1"), say |-> V("echo", 0) ],
    p1 |-> [ name |-> StrV("p1"), peer |-> NullV, say |-> StrV("hi"), n |-> IntV(5), stamp |-> StrV("st"), rank |-> IntV(3), code |-> StrV("c9"), note |-> StrV("nt") ] ]

UExec == [ types |-> UTypes, nodeType |-> UNodeType, data |-> UData,
           roots |-> [ query |-> "q", mutation |-> "m" ], nth |-> {},
           silent |-> {"P"} ]      \* types whose fields are read without a resolver call on the reflection strategy: their calls are not compared

\* ---- U-top: the query root type is NOT called Query (schema { query: Top }) and an ordinary object type IS
NoFields == [x \in {} |-> 0]
UTop ==
  [ types |->
      [ Top |-> [ kind |-> "OBJECT", ifaces |-> <<>>, members |-> <<>>,
                  fields |-> [ title |-> FD(S, <<>>), q |-> FD(Named("Query"), <<>>), qs |-> FD(ListOf(Named("Query")), <<>>) ] ],
        Query |-> [ kind |-> "OBJECT", ifaces |-> <<>>, members |-> <<>>,
                    fields |-> [ name |-> FD(S, <<>>), n |-> FD(I, <<>>), self |-> FD(Named("Query"), <<>>) ] ] ],
    nodeType |-> [ t |-> "Top", q1 |-> "Query" ],
    data |-> [ t |-> [ title |-> StrV("T"), q |-> NodeV("q1"), qs |-> ListV(<<NodeV("q1"), NullV>>) ],
               q1 |-> [ name |-> StrV("q1"), n |-> IntV(1), self |-> NodeV("q1") ] ],
    roots |-> [ query |-> "t" ], nth |-> {} ]

\* ---- U-nomut: U-exec without the type Mutation: the schema has no root for mutations
Without(f, k) == [x \in DOMAIN f \ {k} |-> f[x]]
UNoMut == [UExec EXCEPT !.types = Without(@, "Mutation"), !.nodeType = Without(@, "m"), !.data = Without(@, "m"), !.roots = Without(@, "mutation")]

\* U with the resolver calls in `faults` (<<node, field>>) made to fail and the list accessors
\* (<<node, field, index as string>>) made to fail  (C06)
WithFaults(U, faults) ==
  [U EXCEPT !.nth = {f \in faults : Len(f) \in {3, 4}} \cup {f \in faults : Len(f) = 2 /\ f[1] = "$root"},   \* (<<"$root", kind>>: that operation root is refused)
            !.data = [nd \in DOMAIN U.data |->
                        [f \in DOMAIN U.data[nd] |->
                           IF <<nd, f>> \in faults THEN ErrV("injected") ELSE U.data[nd][f]]]]
=============================================================================
