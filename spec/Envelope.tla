------------------------------- MODULE Envelope -------------------------------
(***************************************************************************)
(* C07: the shape every response must have, and where error locations may  *)
(* point.  A recorded response is reduced by the harness to a skeleton:    *)
(*   keys     : sequence of the response map's keys                        *)
(*   dataKind : "absent" | "null" | "object" | "other"                     *)
(*   errors   : sequence of [msg (length of the message), pathKinds        *)
(*              (sequence of "str" | "nat" | "neg" | "other"), key (last   *)
(*              string of the path or ""), locs (sequence of [line, col]), *)
(*              words (words of the message, language keywords left out)]   *)
(*   errorsKind : "absent" | "list" | "other"                              *)
(*   rejected : the specification (Sem) refuses the request as a whole     *)
(*   json     : [mode -> accepted by a JSON parser and equal after decoding]*)
(* and the submitted document to                                           *)
(*   lex      : sequence of lexemes [n (bytes), nl (1 for a line feed),    *)
(*              key (the text of a name lexeme, "" otherwise)]             *)
(***************************************************************************)
EXTENDS Integers, Sequences, FiniteSets, TLC

Range(f) == {f[i] : i \in DOMAIN f}

\* A lexeme is a run of name characters (n bytes, nl = 0) or a single other byte (nl = 1 for a line feed).
\* position of every lexeme's first byte: line = 1 + line feeds before it
RECURSIVE Starts(_, _, _, _)
Starts(lex, k, line, col) ==
  IF k > Len(lex) THEN <<>>
  ELSE <<[line |-> line, col |-> col]>> \o
       Starts(lex, k + 1, line + lex[k].nl, IF lex[k].nl = 0 THEN col + lex[k].n ELSE 1)
LexStarts(lex) == Starts(lex, 1, 1, 1)
\* number of bytes on each line (without the line feed)
RECURSIVE LineLens(_, _, _)
LineLens(lex, k, acc) ==
  IF k > Len(lex) THEN acc
  ELSE IF lex[k].nl = 0 THEN LineLens(lex, k + 1, [acc EXCEPT ![Len(acc)] = @ + lex[k].n])
       ELSE LineLens(lex, k + 1, Append(acc, 0))

ErrorOK(e) ==
  /\ e.msg > 0
  /\ \A k \in DOMAIN e.pathKinds : e.pathKinds[k] \in {"str", "nat"}
  /\ \A k \in DOMAIN e.locs : e.locs[k].line >= 1 /\ e.locs[k].col >= 1

\* a location lies on the line of the offending token: for an error addressed by a path, the line of
\* (one of) the field name lexemes with that response key; always inside the document
LocationOK(r, e) ==
  LET starts == LexStarts(r.lex)
      lens == LineLens(r.lex, 1, <<0>>)
      keyLines == {starts[k].line : k \in {k \in DOMAIN r.lex : r.lex[k].key # "" /\ r.lex[k].key = e.key}}
      \* an error without a path (a request refused as a whole) that names tokens of the document - a directive, an
      \* argument, a variable, a type condition - is located on a line where one of them stands
      named == {k \in DOMAIN r.lex : r.lex[k].key # "" /\ r.lex[k].key \in Range(e.words)}
      nameLines == {starts[k].line : k \in named}
  IN \A k \in DOMAIN e.locs :
       /\ e.locs[k].line \in 1..Len(lens)
       /\ e.locs[k].col <= lens[e.locs[k].line] + 2
       \* (an error addressed by a path may also stand at a token its message names - the argument, not the field)
       /\ (e.key # "" /\ keyLines # {}) => e.locs[k].line \in keyLines \cup nameLines
       /\ (e.key = "" /\ nameLines # {}) => e.locs[k].line \in nameLines
       \* the request was refused for an injected directive defect: the harness knows on which line(s) it stands
       /\ (e.key = "" /\ "offLines" \in DOMAIN r /\ r.offLines # <<>>) => e.locs[k].line \in Range(r.offLines)

WellFormed(r) ==
  [ keys     |-> Range(r.keys) \subseteq {"data", "errors"} /\ Range(r.keys) # {},
    errors   |-> r.errorsKind \in {"absent", "list"} /\ (r.errorsKind = "list" => r.errors # <<>>) /\ \A k \in DOMAIN r.errors : ErrorOK(r.errors[k]),
    data     |-> r.dataKind \in {"absent", "null", "object"} /\ (r.rejected => r.dataKind \in {"absent", "null"})
                   /\ (r.rejected => r.errorsKind = "list"),
    location |-> \A k \in DOMAIN r.errors : LocationOK(r, r.errors[k]),
    json     |-> \A m \in DOMAIN r.json : r.json[m] ]
AllOK(w) == w.keys /\ w.errors /\ w.data /\ w.location /\ w.json
=============================================================================
