------------------------------- MODULE MCPrint -------------------------------
(***************************************************************************)
(* C15: every accepted schema must survive print -> parse -> print.  The   *)
(* structural half is the identity on abstract schemas (Load(Print(s)) = s,*)
(* Print a function of the canonical schema); what can go wrong is text:   *)
(* descriptions and string defaults containing quotes, backslashes,        *)
(* newlines, triple quotes, escapes-looking text and non-ASCII, numeric    *)
(* defaults of every form, nested list / object defaults.  This module     *)
(* enumerates the strings (token sequences up to length MaxLen over the    *)
(* alphabet below) at every description site and default site of a base    *)
(* schema; the prescribed outcome is always: accepted, and the schema read *)
(* back from a root loaded with the PRINTED text is the same canonical     *)
(* schema, and printing that again gives the same text.                    *)
(*                                                                         *)
(* Strings travel with ASCII stand-ins that the harness expands:           *)
(*   {Q} "   {B} \   {N} newline   {E} e-acute   {T} """   {U} A      *)
(*   {S} space (interior only)     {4} a 4-byte rune                       *)
(***************************************************************************)
EXTENDS SchemaBases

CONSTANTS MaxLen, KnownDev

Alphabet == {"a", "{Q}", "{B}", "{N}", "{E}", "{T}", "{U}", "{S}", "{4}"}
Tokens == UNION {[1..n -> Alphabet] : n \in 1..MaxLen}
RECURSIVE Join(_)
Join(ts) == IF ts = <<>> THEN "" ELSE Head(ts) \o Join(Tail(ts))
\* descriptions are stored trimmed line by line and without blank lines: only such strings are descriptions of a loaded schema
Blank(t) == t \in {"{S}", "{N}"}
DescOK(ts) == ~Blank(ts[1]) /\ ~Blank(ts[Len(ts)]) /\ \A i \in 1..(Len(ts) - 1) : ~(Blank(ts[i]) /\ Blank(ts[i + 1]) /\ "{N}" \in {ts[i], ts[i + 1]})
DescStrings == {Join(ts) : ts \in {t \in Tokens : DescOK(t)}}
AnyStrings == {Join(ts) : ts \in Tokens}

\* description sites of a document: (definition index, site, member index)
Target ==
  << WithDesc(ObjectD("Query", <<>>, << WithDesc(FieldD("f", S, <<[ArgDD("a", S, StrV("dflt")) EXCEPT !.desc = "d"]>>), "d") >>), "d"),
     WithDesc(InterfaceD("N", <<FieldD("name", S, <<>>)>>), "d"),
     WithDesc(UnionD("U", <<"Query">>), "d"),
     WithDesc(EnumD("E", <<[EV("P") EXCEPT !.desc = "d"], EV("Q")>>), "d"),
     WithDesc(InputD("In", <<[ArgDD("s", S, StrV("dflt")) EXCEPT !.desc = "d"], ArgDD("l", ListOf(S), ListV(<<StrV("x")>>))>>), "d"),
     WithDesc(ScalarD("Date"), "d"),
     WithDesc(DirectiveD("tag", <<[ArgDD("s", S, StrV("dflt")) EXCEPT !.desc = "d"]>>, <<"OBJECT">>), "d") >>

Variants(x, kind) ==
  IF kind = "desc"
  THEN { [Target EXCEPT ![1].desc = x], [Target EXCEPT ![1].fields[1].desc = x], [Target EXCEPT ![1].fields[1].args[1].desc = x],
         [Target EXCEPT ![2].desc = x], [Target EXCEPT ![3].desc = x], [Target EXCEPT ![4].desc = x], [Target EXCEPT ![4].values[1].desc = x],
         [Target EXCEPT ![5].desc = x], [Target EXCEPT ![5].infields[1].desc = x], [Target EXCEPT ![6].desc = x], [Target EXCEPT ![7].desc = x],
         [Target EXCEPT ![7].args[1].desc = x] }
  ELSE { [Target EXCEPT ![1].fields[1].args[1].def = StrV(x)], [Target EXCEPT ![5].infields[1].def = StrV(x)],
         [Target EXCEPT ![5].infields[2].def = ListV(<<StrV(x), StrV("y")>>)], [Target EXCEPT ![7].args[1].def = StrV(x)] }

\* defaults of every numeric form and nested containers (named "num" points are rendered by the harness)
NumDefaults == { IntV(0), IntV(-1), IntV(2147483647), V("num", "i2p53"), V("num", "f1_5"), V("num", "fm0_5"), V("num", "f1e300"), V("num", "f1em50"),
                 BoolV(TRUE), NullV, V("enum", "P") }
DefaultDocs ==
  { << ObjectD("Query", <<>>, <<FieldD("f", S, <<ArgDD("n", Named("Float64"), d)>>)>>) >> : d \in NumDefaults \ {BoolV(TRUE), V("enum", "P")} }
  \cup { << ObjectD("Query", <<>>, <<FieldD("f", S, <<ArgDD("b", B, BoolV(TRUE)), ArgDD("e", Named("E"), V("enum", "P"))>>)>>), EnumD("E", <<EV("P"), EV("Q")>>) >> }
  \cup { << ObjectD("Query", <<>>, <<FieldD("f", S, <<ArgDD("in", Named("In"), d)>>)>>),
            InputD("In", <<ArgD("a", S), ArgD("l", ListOf(ListOf(I))), ArgD("sub", Named("In"))>>) >> :
         d \in { V("obj", [a |-> StrV("x")]), V("obj", [l |-> ListV(<<ListV(<<IntV(1), IntV(2)>>), ListV(<<>>)>>)]),
                 V("obj", [a |-> StrV("{Q}"), sub |-> V("obj", [a |-> StrV("in{B}ner"), l |-> ListV(<<>>)])]), V("obj", [x \in {} |-> 0]) } }

\* directive uses: an argument left out (the definition's default applies), given, or given as an explicit null - which is
\* not "left out" when the definition has a default - at type, field, enum value and member level
UseVariants == { <<>>, <<DU("lim", <<>>)>>, <<DU("lim", <<AV("max", NullV)>>)>>, <<DU("lim", <<AV("max", IntV(3))>>)>>,
                 <<DU("lim", <<AV("tag", NullV)>>)>>, <<DU("lim", <<AV("tag", StrV("x")), AV("max", NullV)>>)>>,
                 <<DU("lim", <<AV("l", NullV)>>)>>, <<DU("lim", <<AV("l", ListV(<<>>)), AV("max", IntV(0))>>)>> }
DLim == DirectiveD("lim", <<ArgDD("max", I, IntV(10)), ArgD("tag", S), ArgDD("l", ListOf(S), ListV(<<StrV("d")>>))>>,
                   <<"OBJECT", "FIELD_DEFINITION", "ENUM_VALUE", "ENUM", "SCALAR", "UNION", "INTERFACE", "INPUT_OBJECT">>)
DirUseDocs ==
  { << DLim, WithDirs(ObjectD("Query", <<>>, <<[FieldD("f", S, <<>>) EXCEPT !.dirs = u2], FieldD("e", Named("E"), <<>>)>>), u1),
       WithDirs(EnumD("E", <<[EV("P") EXCEPT !.dirs = u2], EV("Q")>>), u1) >> : u1 \in UseVariants, u2 \in UseVariants }
  \cup { << DLim, ObjectD("Query", <<>>, <<FieldD("f", S, <<>>), FieldD("d", Named("Date"), <<>>), FieldD("u", Named("U"), <<>>)>>),
            WithDirs(ScalarD("Date"), u), WithDirs(UnionD("U", <<"Query">>), u), WithDirs(InterfaceD("N", <<FieldD("name", S, <<>>)>>), u),
            WithDirs(InputD("In", <<ArgD("a", S)>>), u) >> : u \in UseVariants }

\* directive arguments of input object type: the value of a use (and a default) is completed with the input fields' defaults,
\* also with those a LATER document adds to the input type.  Each case is a history of two documents.
DRange(fs) == InputD("Range", fs)
DirInputHist ==
  { << << DirectiveD("limit", das, <<"OBJECT", "ENUM_VALUE", "SCALAR">>),
          DRange(<<ArgD("min", I)>>),
          WithDirs(ObjectD("Query", <<>>, <<FieldD("f", S, <<>>), FieldD("e", Named("E"), <<>>)>>), u),
          EnumD("E", <<[EV("P") EXCEPT !.dirs = u], EV("Q")>>) >>,
       << Ext(DRange(x)) >> >> :
      \* (with and without an argument that has a default of its own: without one only the USES stand between the extension and the root)
      das \in { <<ArgD("by", Named("Range")), ArgDD("dflt", Named("Range"), V("obj", [min |-> IntV(0)]))>>, <<ArgD("by", Named("Range"))>> },
      u \in { <<DU("limit", <<AV("by", V("obj", [min |-> IntV(1)]))>>)>>, <<DU("limit", <<>>)>>, <<DU("limit", <<AV("by", V("obj", [x \in {} |-> 0]))>>)>> },
      \* (a required field without a default makes the uses that are there invalid: the extension is refused, the root prints as before)
      x \in { <<ArgDD("max", I, IntV(10))>>, <<ArgD("max", I)>>, <<ArgDD("tags", ListOf(S), ListV(<<StrV("t")>>)), ArgDD("max", I, IntV(10))>>,
              <<ArgD("max", NonNull(I))>>, <<ArgDD("max", NonNull(I), IntV(3))>> } }

\* which types are the operation roots: by a schema block that lists some of the types with the usual names and leaves others out,
\* by a schema block with unusual names, by the names alone
RQ == ObjectD("Query", <<>>, <<FieldD("a", I, <<>>)>>)
RM == ObjectD("Mutation", <<>>, <<FieldD("set", I, <<>>)>>)
RS == ObjectD("Subscription", <<>>, <<FieldD("tick", I, <<>>)>>)
RT == ObjectD("Top", <<>>, <<FieldD("t", I, <<>>)>>)
RootDocs == { <<RQ, RM, SchemaD(<<RootD("query", "Query")>>)>>,
              <<RQ, RM, RS, SchemaD(<<RootD("query", "Query"), RootD("mutation", "Mutation")>>)>>,
              <<RQ, RS, SchemaD(<<RootD("query", "Query")>>)>>,
              <<RQ, RM, RS, SchemaD(<<RootD("query", "Query"), RootD("mutation", "Mutation"), RootD("subscription", "Subscription")>>)>>,
              <<RQ, RM, RS>>, <<RQ, RM>>,
              <<RT, RQ, RM, SchemaD(<<RootD("query", "Top")>>)>>,
              <<RT, RQ, SchemaD(<<RootD("query", "Query"), RootD("mutation", "Top")>>)>> }

VARIABLES phase, cs
pvars == <<phase, cs>>
PInit == phase = "kind" /\ cs \in {[kind |-> k] : k \in {"desc", "default", "numeric", "bases", "diruses", "dirinput", "roots"}}
PNext == /\ phase = "kind" /\ phase' = "case"
         /\ cs' \in CASE cs.kind = "desc" -> {[kind |-> "desc", doc |-> v] : v \in UNION {Variants(x, "desc") : x \in DescStrings}}
                      [] cs.kind = "default" -> {[kind |-> "default", doc |-> v] : v \in UNION {Variants(x, "default") : x \in AnyStrings}}
                      [] cs.kind = "numeric" -> {[kind |-> "numeric", doc |-> d] : d \in DefaultDocs}
                      [] cs.kind = "diruses" -> {[kind |-> "diruses", doc |-> d] : d \in DirUseDocs}
                      [] cs.kind = "dirinput" -> {[kind |-> "dirinput", doc |-> h[1], doc2 |-> h[2]] : h \in DirInputHist}
                      [] cs.kind = "roots" -> {[kind |-> "roots", doc |-> d] : d \in RootDocs}
                      [] cs.kind = "bases" -> {[kind |-> "bases", doc |-> Bases[b]] : b \in DOMAIN Bases}
PSpec == PInit /\ [][PNext]_pvars

Result == LoadResult(EmptySchema, cs.doc, {})
Result2 == IF "doc2" \in DOMAIN cs THEN LoadResult(Result.s, cs.doc2, {}) ELSE Result
\* every enumerated document is a valid schema: the round trip is only asked of accepted schemas
\* (the second document of a history may be one the specification refuses: the root then prints what it had)
AllAccepted == phase = "case" => Result.ok
Step1 == [doc |-> cs.doc, ok |-> Result.ok, why |-> Result.why, off |-> Result.off, canon |-> Canon(Result.s)]
Emit == phase = "case" =>
  PrintT("@@VEC " \o ToJson([hist |-> IF "doc2" \in DOMAIN cs
                                       THEN <<Step1, [doc |-> cs.doc2, ok |-> Result2.ok, why |-> Result2.why, off |-> Result2.off, canon |-> Canon(Result2.s)]>>
                                       ELSE <<Step1>>,
                              tag |-> cs.kind]))
=============================================================================
