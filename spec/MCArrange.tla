------------------------------ MODULE MCArrange ------------------------------
(***************************************************************************)
(* C16: the schema obtained from a set of definitions does not depend on   *)
(* the order of the definitions, on their distribution over successive     *)
(* loads, or on members being declared inline or through `extend`.         *)
(*                                                                         *)
(* An arrangement of a definition set is a history (sequence of documents) *)
(* built by permuting the definitions, cutting the permutation into up to  *)
(* three loads and optionally moving the last member of one definition     *)
(* into an `extend` block.  Arrangements whose intermediate loads are      *)
(* refused (a reference not yet resolvable) are outside the statement and  *)
(* are dropped.  OrderFree is checked by TLC on the specification itself;  *)
(* every arrangement is also emitted for replay on a real Root.            *)
(***************************************************************************)
EXTENDS LoadUniverse, Json

CONSTANTS KnownDev,
          WithIntro,   \* also emit the introspection view after every accepted load (C17: the answer must follow the history)
          SetIds       \* which definition sets to arrange

DQ1 == ObjectD("Query", <<>>, <<FieldD("n", I, <<>>), FieldD("a", Named("A"), <<>>)>>)
DA1 == ObjectD("A", <<>>, <<FieldD("x", S, <<>>), FieldD("e", Named("E"), <<>>)>>)
DATag == WithDirs(ObjectD("A", <<>>, <<FieldD("x", S, <<>>)>>), <<DU("tag", <<>>)>>)
DETag == EnumD("E", <<EV("P"), [EV("Q") EXCEPT !.dirs = <<DU("tag", <<AV("v", IntV(2))>>)>>]>>)
DBTagNull == WithDirs(ObjectD("B", <<>>, <<FieldD("k", I, <<>>)>>), <<DU("tag", <<AV("v", NullV)>>)>>)   \* an explicit null is not the default
DN2 == InterfaceD("N2", <<FieldD("id", Named("ID"), <<>>)>>)
DB2 == ObjectD("B", <<"N", "N2">>, <<FieldD("name", S, <<>>), FieldD("id", Named("ID"), <<>>)>>)

Sets ==
  [ s1 |-> <<DQuery, DA, DB, DN>>,
    s2 |-> <<DQuery, DA, DB, DN, DU1>>,
    s3 |-> <<DQ1, DA1, DE, DIn, DMut>>,
    s4 |-> <<DTag, DQ1, DATag, DETag, DBTagNull>>,
    s8 |-> <<ObjectD("Query", <<>>, <<FieldD("b", Named("B"), <<>>)>>), DN, DN2, DB2>>,   \* an object implementing two interfaces
    s5 |-> <<DSchemaQ, DQ1, DA1, DE>>,
    \* an explicit schema block naming only the query root; objects that merely carry the conventional root names
    s9 |-> <<SchemaD(<<RootD("query", "Top")>>), ObjectD("Top", <<>>, <<FieldD("n", I, <<>>), FieldD("m", Named("Mutation"), <<>>)>>), DMut2, DSub>>,
    \* a schema block extended by a later (or the same) document; the root type arrives with the extension
    s10 |-> <<SchemaD(<<RootD("query", "Query")>>), DQ1, DA1, DE, Ext(SchemaD(<<RootD("mutation", "Mutation")>>)), DMut2>>,
    \* invalid as a whole, whatever the split: the interface gains a field its implementor (loaded earlier or not) lacks
    s11 |-> <<DQuery, DA, DB, DN, FXIface>>,
    \* invalid: the roots made up from the type names are no schema block, a schema extension has nothing to extend
    s12 |-> <<DQ1, DA1, DE, DMut2, XSchemaMut>>,
    \* input object defaults that pull in other input objects' defaults (what a request resolves to depends on them)
    s13 |-> << ObjectD("Query", <<>>, <<FieldD("f", S, <<ArgD("o", Named("Outer"))>>), FieldD("g", S, <<ArgDD("o", Named("Outer"), V("obj", [x \in {} |-> 0]))>>),
                                         FieldD("h", S, <<ArgD("l", ListOf(Named("Opts")))>>)>>),
               InputD("Outer", <<ArgDD("opts", Named("Opts"), V("obj", [x \in {} |-> 0])), ArgDD("n", I, IntV(3))>>),
               InputD("Opts", <<ArgDD("a", I, IntV(1)), ArgDD("b", I, IntV(2))>>) >>,
    \* a directive whose argument is an input object with a default, a use that leaves the argument out, and the input type
    \* (its last defaulted field can move into an extend block loaded before, with or after the use)
    s14 |-> << DirectiveD("dd", <<ArgDD("o", Named("Opts"), V("obj", [x \in {} |-> 0])), ArgDD("l", ListOf(Named("Opts")), ListV(<<V("obj", [a |-> IntV(5)])>>))>>, <<"OBJECT">>),
               WithDirs(ObjectD("Query", <<>>, <<FieldD("x", I, <<>>)>>), <<DU("dd", <<>>)>>),
               WithDirs(ObjectD("W", <<>>, <<FieldD("w", I, <<>>)>>), <<DU("dd", <<AV("o", V("obj", [a |-> IntV(7)]))>>)>>),
               InputD("Opts", <<ArgDD("a", I, IntV(1)), ArgDD("b", I, IntV(2))>>) >>,
    \* two extend blocks of one type: one brings the interface, the other the field the interface asks for - in either order
    \* within one document (a load that has only the first is refused and out of scope)
    s15 |-> << ObjectD("Query", <<>>, <<FieldD("item", Named("Item"), <<>>)>>), InterfaceD("Named", <<FieldD("name", S, <<>>)>>),
               ObjectD("Item", <<>>, <<FieldD("id", I, <<>>)>>),
               Ext([BaseDef("OBJECT", "Item") EXCEPT !.ifaces = <<"Named">>]),
               Ext([BaseDef("OBJECT", "Item") EXCEPT !.fields = <<FieldD("name", S, <<>>)>>]) >>,
    \* a scalar every module declares for itself (declared twice; the second declaration is skipped), an interface with a
    \* field of that type and an implementor, spread over up to three loads in any order
    s16 |-> << ObjectD("Query", <<>>, <<FieldD("ev", Named("Ev"), <<>>)>>), ScalarD("Date"),
               InterfaceD("Stamped", <<FieldD("at", Named("Date"), <<ArgD("zone", Named("Date"))>>)>>), ScalarD("Date"),
               [ObjectD("Ev", <<>>, <<FieldD("at", Named("Date"), <<ArgD("zone", Named("Date"))>>)>>) EXCEPT !.ifaces = <<"Stamped">>] >>,
    s6 |-> <<DQ1, DA1, DE, FIface, DN>>,          \* invalid: Z does not provide N.name
    s7 |-> <<DQ1, DA1, FInOut, DE>> ]              \* invalid: input field of object type

\* move the last member of definition d into an extend block (<<>> when there is nothing to move)
Shrink(d) ==
  CASE d.kind \in {"OBJECT", "INTERFACE"} /\ Len(d.fields) > 1 ->
         << [d EXCEPT !.fields = SubSeq(@, 1, Len(@) - 1)],
            Ext([BaseDef(d.kind, d.name) EXCEPT !.fields = <<d.fields[Len(d.fields)]>>]) >>
    [] d.kind = "ENUM" /\ Len(d.values) > 1 ->
         << [d EXCEPT !.values = SubSeq(@, 1, Len(@) - 1)], Ext([BaseDef("ENUM", d.name) EXCEPT !.values = <<d.values[Len(d.values)]>>]) >>
    [] d.kind = "UNION" /\ Len(d.members) > 1 ->
         << [d EXCEPT !.members = SubSeq(@, 1, Len(@) - 1)], Ext([BaseDef("UNION", d.name) EXCEPT !.members = <<d.members[Len(d.members)]>>]) >>
    [] d.kind = "INPUT_OBJECT" /\ Len(d.infields) > 1 ->
         << [d EXCEPT !.infields = SubSeq(@, 1, Len(@) - 1)], Ext([BaseDef("INPUT_OBJECT", d.name) EXCEPT !.infields = <<d.infields[Len(d.infields)]>>]) >>
    [] d.kind = "OBJECT" /\ d.dirs # <<>> ->
         << [d EXCEPT !.dirs = <<>>], Ext([BaseDef("OBJECT", d.name) EXCEPT !.dirs = d.dirs]) >>
    [] OTHER -> <<>>

\* move the interfaces of an object into an extend block (the block adds no member, only the relation)
ShrinkI(d) ==
  IF d.kind = "OBJECT" /\ d.ifaces # <<>>
  THEN << [d EXCEPT !.ifaces = <<>>], Ext([BaseDef("OBJECT", d.name) EXCEPT !.ifaces = d.ifaces]) >>
  ELSE <<>>

VARIABLES phase, setid, base, hist
avars == <<phase, setid, base, hist>>

\* cut a sequence at positions c1 <= c2 into up to three non-empty documents
Cut(seq, c1, c2) == SelectSeq(<<SubSeq(seq, 1, c1), SubSeq(seq, c1 + 1, c2), SubSeq(seq, c2 + 1, Len(seq))>>, LAMBDA d : d # <<>>)

RECURSIVE Run(_, _, _, _)
Run(s, docs, i, acc) ==
  IF i > Len(docs) THEN acc
  ELSE LET r == LoadResult(s, docs[i], {}) IN
       Run(r.s, docs, i + 1, Append(acc, [doc |-> docs[i], ok |-> r.ok, why |-> r.why, off |-> r.off, canon |-> Canon(r.s)]
                                             @@ (IF WithIntro /\ r.ok /\ Queryable(r.s) THEN [intro |-> Intro(r.s)] ELSE <<>>)))

AInit == phase = "set" /\ setid \in SetIds /\ base = <<>> /\ hist = <<>>
\* step 1: permute (optionally after moving one member into an extend block)
Permute ==
  /\ phase = "set" /\ phase' = "perm"
  /\ \E variant \in {Sets[setid]} \cup { SubSeq(Sets[setid], 1, k - 1) \o Shrink(Sets[setid][k]) \o SubSeq(Sets[setid], k + 1, Len(Sets[setid]))
                                         : k \in {k \in DOMAIN Sets[setid] : Shrink(Sets[setid][k]) # <<>>} }
                                  \cup { SubSeq(Sets[setid], 1, k - 1) \o ShrinkI(Sets[setid][k]) \o SubSeq(Sets[setid], k + 1, Len(Sets[setid]))
                                         : k \in {k \in DOMAIN Sets[setid] : ShrinkI(Sets[setid][k]) # <<>>} } :
       \E p \in Permutations(DOMAIN variant) : base' = [i \in DOMAIN variant |-> variant[p[i]]]
  /\ UNCHANGED <<setid, hist>>
\* step 2: cut into loads and run the specification
CutAndRun ==
  /\ phase = "perm" /\ phase' = "done"
  /\ \E c1 \in 0..Len(base), c2 \in 0..Len(base) : c1 <= c2 /\ hist' = Run(EmptySchema, Cut(base, c1, c2), 1, <<>>)
  /\ UNCHANGED <<setid, base>>
ANext == Permute \/ CutAndRun
ASpec == AInit /\ [][ANext]_avars

\* the reference arrangement: the whole set as one document in the order written
Ref == LoadResult(EmptySchema, Sets[setid], {})
Resolvable == \A k \in 1..(Len(hist) - 1) : hist[k].ok      \* intermediate loads were accepted
\* an extend block must come after the definition it extends; other orders are not arrangements of the same schema
ExtendAfterDef ==
  \A i \in DOMAIN base : base[i].ext => \E j \in 1..(i - 1) : ~base[j].ext /\ base[j].name = base[i].name /\ base[j].kind = base[i].kind
\* (for a set that is invalid as a whole the arrangements in scope are those that get as far as the last load)
InScope == phase = "done" /\ hist # <<>> /\ Resolvable

OrderFree == InScope =>
  /\ hist[Len(hist)].ok = Ref.ok
  /\ Ref.ok => hist[Len(hist)].canon = Canon(Ref.s)

Emit == InScope => PrintT("@@VEC " \o ToJson([hist |-> hist, tag |-> setid]))
=============================================================================
