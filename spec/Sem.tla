-------------------------------- MODULE Sem --------------------------------
(***************************************************************************)
(* Declarative response semantics of a GraphQL request against a universe  *)
(* (schema + data graph): the oracle for C01, C06, C08, C09, C10 and the   *)
(* reference for C02, C11.  Nothing here is transcribed from ggql; it is   *)
(* the GraphQL selection semantics the property statements refer to        *)
(* (CollectFields / ExecuteSelectionSet / CompleteValue), specialised to   *)
(* what ggql documents: no non-null propagation, depth-first execution in  *)
(* document order, one resolver call per selected field.                   *)
(*                                                                         *)
(* A context C is [U, doc, vars, dv]: universe, document, coerced variable *)
(* values and the set of named deviations to apply (dv = {} is the strict  *)
(* property; dv = K reproduces the genuine defects listed in               *)
(* known_findings.json so that they can be attributed, DESIGN.md §4.1).    *)
(*                                                                         *)
(* Document shapes (also the JSON exchanged with the Go harness):          *)
(*   doc   = [ops, frags]                                                  *)
(*   op    = [name, type ("query"|"mutation"), vars, sels]                 *)
(*   var   = [n, t (type ref), hasDef, def (value)]                        *)
(*   frag  = [name, cond, sels]                                            *)
(*   sel   = [k |-> "field", alias, name, args, dirs, sels]                *)
(*         | [k |-> "inline", cond ("" = none), dirs, sels]                *)
(*         | [k |-> "spread", name, dirs]                                  *)
(*   arg   = [n, v]      dir = [n ("skip"|"include"), v (bool or var)]     *)
(* Result: [hasData, data, errs, calls]                                    *)
(*   errs  = sequence of [path, class, name]; path = sequence of "k:key" / *)
(*           "i:index" strings; compared as a multiset                     *)
(*   calls = sequence of [node, field, args] in execution order            *)
(***************************************************************************)
EXTENDS GQLCore

Key(f) == IF f.alias # "" THEN f.alias ELSE f.name
EmptyFn == [x \in {} |-> NullV]
Put(f, k, v) == [x \in DOMAIN f \cup {k} |-> IF x = k THEN v ELSE f[x]]
Res(d, e, c) == [val |-> d, errs |-> e, calls |-> c]
ErrRec(path, class, name) == [path |-> path, class |-> class, name |-> name]

-----------------------------------------------------------------------------
(* @skip / @include  (C09) *)

VarVal(C, n) == IF n \in DOMAIN C.vars THEN C.vars[n] ELSE NullV
CondVal(C, d) == IF d.v.k = "var" THEN VarVal(C, d.v.v) ELSE d.v
HasDir(C, s, name, b) == \E i \in DOMAIN s.dirs : s.dirs[i].n = name /\ CondVal(C, s.dirs[i]) = BoolV(b)
\* included iff no @skip(if: true) and no @include(if: false), whatever the order.  A condition that is no Boolean (a
\* variable that is null: set so, or left out where there is no default) decides nothing: the selection is not made (the
\* error that is due for it is not modelled: families with such conditions are judged on data and calls)
CondsOK(C, s) == \A i \in DOMAIN s.dirs : s.dirs[i].n \in {"skip", "include"} => CondVal(C, s.dirs[i]).k = "bool"
Included(C, s) == CondsOK(C, s) /\ ~HasDir(C, s, "skip", TRUE) /\ ~HasDir(C, s, "include", FALSE)

-----------------------------------------------------------------------------
(* CollectFields *)

FragNames(C) == {C.doc.frags[i].name : i \in DOMAIN C.doc.frags}
Frag(C, name) == CHOOSE f \in Range(C.doc.frags) : f.name = name

RECURSIVE Collect(_, _, _)
Collect(C, tn, sels) ==
  IF sels = <<>> THEN <<>>
  ELSE LET s == Head(sels)
           rest == Collect(C, tn, Tail(sels))
       IN IF ~Included(C, s) THEN rest
          ELSE CASE s.k = "field" -> <<s @@ [via |-> 0]>> \o rest
                 [] s.k = "inline" ->
                      (IF s.cond = "" \/ Applies(C.U, s.cond, tn) THEN Collect(C, tn, s.sels) ELSE <<>>) \o rest
                 [] s.k = "spread" ->
                      (IF s.name \in FragNames(C) /\ Applies(C.U, Frag(C, s.name).cond, tn)
                       THEN LET inner == Collect(C, tn, Frag(C, s.name).sels)
                            IN [i \in DOMAIN inner |-> [inner[i] EXCEPT !.via = @ + 1]]
                       ELSE <<>>) \o rest

\* Selections with the same response key have their sub-selections merged
\* (GraphQL field merging).  ggql evaluates every occurrence and merges the
\* results, which is observable only through the resolver call log; for pure
\* resolvers the data is that of the merged selection.  The model follows ggql
\* here (one evaluation per occurrence, deep merge of the results) because the
\* property statements do not bound the number of invocations.
\* The declarative reading, selected by "DeclarativeMerge" \in C.dv: one evaluation per
\* response key with the sub-selections of all occurrences concatenated.  TLC checks on every
\* enumerated case that both readings give the same data (MCExec!OracleMergeEquiv).
Units(C, fs) ==
  IF "DeclarativeMerge" \notin C.dv THEN fs
  ELSE LET ks == Dedup([i \in DOMAIN fs |-> Key(fs[i])])
       IN [j \in DOMAIN ks |->
             LET same == SelectSeq(fs, LAMBDA f : Key(f) = ks[j])
             IN [same[1] EXCEPT !.sels = Flatten([i \in DOMAIN same |-> same[i].sels])]]

RECURSIVE Merge(_, _)
Merge(old, new) ==
  IF old.k = "obj" /\ new.k = "obj"
  THEN V("obj", [x \in DOMAIN old.v \cup DOMAIN new.v |->
                   IF x \in DOMAIN old.v /\ x \in DOMAIN new.v THEN Merge(old.v[x], new.v[x])
                   ELSE IF x \in DOMAIN old.v THEN old.v[x] ELSE new.v[x]])
  ELSE IF old.k = "list" /\ new.k = "list" /\ Len(old.v) = Len(new.v)
  THEN ListV([i \in DOMAIN old.v |-> Merge(old.v[i], new.v[i])])
  ELSE new

-----------------------------------------------------------------------------
(* arguments *)

\* variables are substituted wherever they occur in a literal (lists, input objects)
RECURSIVE Subst(_, _)
Subst(C, v) ==
  CASE v.k = "var" -> VarVal(C, v.v)
    [] v.k = "list" -> ListV([i \in DOMAIN v.v |-> Subst(C, v.v[i])])
    [] v.k = "obj" -> V("obj", [x \in DOMAIN v.v |-> Subst(C, v.v[x])])
    [] OTHER -> v
ArgVal(C, a) == Subst(C, a.v)
ArgNames(f) == {f.args[i].n : i \in DOMAIN f.args}
\* input object values are completed with the defaults of the fields they leave out (C04), at every depth
RECURSIVE FillIn(_, _, _)
FillIn(U, t, v) ==
  CASE t.k = "nonnull" -> FillIn(U, t.of, v)
    [] t.k = "list" -> IF v.k = "list" THEN ListV([i \in DOMAIN v.v |-> FillIn(U, t.of, v.v[i])]) ELSE v
    [] OTHER ->
       IF v.k = "obj" /\ t.n \in DOMAIN U.types /\ U.types[t.n].kind = "INPUT_OBJECT"
       THEN LET fds == U.types[t.n].infields
                given == {i \in DOMAIN fds : fds[i].n \in DOMAIN v.v}
                dflt == {i \in DOMAIN fds : fds[i].n \notin DOMAIN v.v /\ fds[i].hasDef}
            IN V("obj", [x \in {fds[i].n : i \in given \cup dflt} |->
                           LET fd == CHOOSE d \in Range(fds) : d.n = x
                           IN IF x \in DOMAIN v.v THEN FillIn(U, fd.type, v.v[x]) ELSE FillIn(U, fd.type, fd.def)])
       ELSE IF t.n = "ID" /\ v.k = "int" THEN StrV(ToString(v.v))        \* a number written for an ID is that ID as a string
       ELSE v
\* (an argument the field does not declare is reported as such; it is kept as written)
ArgMapFor(C, f, fd) ==
  [n \in ArgNames(f) |->
     LET raw == ArgVal(C, CHOOSE a \in Range(f.args) : a.n = n)
     IN IF \E i \in DOMAIN fd.args : fd.args[i].n = n
        THEN FillIn(C.U, (CHOOSE d \in Range(fd.args) : d.n = n).type, raw) ELSE raw]
ArgMap(C, f) == [n \in ArgNames(f) |-> ArgVal(C, CHOOSE a \in Range(f.args) : a.n = n)]
DeclNames(fd) == {fd.args[i].n : i \in DOMAIN fd.args}
Required(fd) == {fd.args[i].n : i \in {j \in DOMAIN fd.args : fd.args[j].type.k = "nonnull"}}

\* rendering of the arguments by the universe's "echo" resolvers
RECURSIVE ValStr(_, _, _), JoinVals(_, _, _, _), JoinFields(_, _, _, _)
ValStr(U, t, v) ==
  CASE v.k = "str" -> v.v
    [] v.k = "int" -> ToString(v.v)
    [] v.k = "bool" -> IF v.v THEN "true" ELSE "false"
    [] v.k = "enum" -> v.v
    [] v.k = "list" -> "[" \o JoinVals(U, IF t.k = "nonnull" THEN t.of.of ELSE t.of, v.v, 1) \o "]"
    [] v.k = "obj" -> "{" \o JoinFields(U, U.types[BaseName(t)].infields, v.v, 1) \o "}"
    [] OTHER -> "null"
JoinVals(U, et, s, i) == IF i > Len(s) THEN "" ELSE ValStr(U, et, s[i]) \o "," \o JoinVals(U, et, s, i + 1)
JoinFields(U, fds, o, i) ==
  IF i > Len(fds) THEN ""
  ELSE (IF fds[i].n \in DOMAIN o THEN fds[i].n \o ":" \o ValStr(U, fds[i].type, o[fds[i].n]) \o "," ELSE "")
         \o JoinFields(U, fds, o, i + 1)
RECURSIVE EchoStr(_, _, _, _)
EchoStr(U, fd, am, i) ==
  IF i > Len(fd.args) THEN ""
  ELSE fd.args[i].n \o "=" \o (IF fd.args[i].n \in DOMAIN am THEN ValStr(U, fd.args[i].type, am[fd.args[i].n]) ELSE "-") \o ";"
         \o EchoStr(U, fd, am, i + 1)

-----------------------------------------------------------------------------
(* execution *)

\* What __schema and __type answer on the query root is Introspect.tla's subject (C17). Here only the SHAPE is prescribed:
\* the response keys that are there after directives and (condition-less) fragments, an object wherever a selection is
\* made, a list where the introspection schema has one. "any": some value; "opt": null or the shape; "each": null or a
\* list of (null or the shape).
IntroLists == {"types", "fields", "args", "interfaces", "possibleTypes", "enumValues", "inputFields", "directives", "locations"}
RECURSIVE IntroShape(_, _)
IntroShape(C, sels) ==
  LET fs == Collect(C, "__Introspection", sels)
      ks == Dedup([i \in DOMAIN fs |-> Key(fs[i])])
  IN V("obj", [k \in Range(ks) |->
        LET same == SelectSeq(fs, LAMBDA f : Key(f) = k)
            sub == Flatten([i \in DOMAIN same |-> same[i].sels])
        IN IF sub = <<>> THEN V("any", 0)
           ELSE IF same[1].name \in IntroLists THEN V("each", IntroShape(C, sub)) ELSE V("opt", IntroShape(C, sub))])

RECURSIVE ExecSels(_, _, _, _), EvalUnits(_, _, _, _, _), EvalField(_, _, _, _), Complete(_, _, _, _, _, _), CompleteList(_, _, _, _, _, _, _)

\* selection set `sels` applied to data node `node`, whose response position is `path`
ExecSels(C, node, sels, path) ==
  LET tn == C.U.nodeType[node]
  IN EvalUnits(C, node, Units(C, Collect(C, tn, sels)), path, Res(EmptyFn, <<>>, <<>>))

EvalUnits(C, node, units, path, acc) ==
  IF units = <<>> THEN acc
  ELSE LET f == Head(units)
           \* the n-th invocation of one resolver made to fail, <<node, field, "call", n>> (C06: "every single resolver
           \* invocation"): ggql evaluates every occurrence of a response key, so one resolver can be invoked several times for
           \* one position.  Counted over the invocations made so far for this selection set, which are all there are for
           \* the operation root (the only node such faults are generated for: it is evaluated once per request).
           n == Cardinality({j \in DOMAIN acc.calls : acc.calls[j].node = node /\ acc.calls[j].field = f.name})
           CF == IF <<node, f.name, "call", ToString(n + 1)>> \in C.U.nth
                 THEN [C EXCEPT !.U.data[node][f.name] = ErrV("injected")] ELSE C
           r == EvalField(CF, node, f, path)
           \* an earlier invocation for this response key failed at the position itself: the position is null (C06), whatever
           \* a later occurrence of the key yields.  Deviation LaterOccurrenceOverNull: ggql lets the later occurrence
           \* replace the null, next to the error entry of the failed one.
           pos == SelectSeq(path, LAMBDA x : x # "f:") \o <<PathKey(Key(f))>>
           failedBefore == /\ Key(f) \in DOMAIN acc.val /\ acc.val[Key(f)] = NullV
                           /\ \E j \in DOMAIN acc.errs : /\ SelectSeq(acc.errs[j].path, LAMBDA x : x # "f:") = pos
                                                         /\ acc.errs[j].class \notin {"undefined_field", "undefined_arg"}
           d == IF r.val.k = "absent" THEN acc.val
                ELSE IF failedBefore /\ "LaterOccurrenceOverNull" \notin C.dv THEN acc.val
                ELSE IF Key(f) \in DOMAIN acc.val THEN Put(acc.val, Key(f), Merge(acc.val[Key(f)], r.val))
                ELSE Put(acc.val, Key(f), r.val)
       IN EvalUnits(C, node, Tail(units), path, Res(d, acc.errs \o r.errs, acc.calls \o r.calls))

EvalField(C, node, f, path) ==
  LET tn == C.U.nodeType[node]
      \* deviation FragPathSegment: ggql inserts one extra path segment per named fragment the
      \* selection was reached through (canonicalised to "f:" by the harness)
      p == path \o (IF "FragPathSegment" \in C.dv THEN [i \in 1..f.via |-> "f:"] ELSE <<>>) \o <<PathKey(Key(f))>>
      \* the meta fields take no argument but the name of __type (C10)
      metaBad == IF f.name = "__type" THEN ArgNames(f) \ {"name"} ELSE ArgNames(f)
  IN IF f.name \in {"__typename", "__schema", "__type"} /\ metaBad # {}
     THEN Res(V("absent", 0), <<ErrRec(p, "undefined_arg", CHOOSE n \in metaBad : TRUE)>>, <<>>)
     ELSE IF f.name = "__typename" THEN Res(StrV(tn), <<>>, <<>>)
     \* __schema and __type are fields of the query root type only (whatever that type is called): anywhere else they
     \* are undefined fields (C10).  What they answer on the root is Introspect.tla's subject (C17); IntroShape above.
     ELSE IF f.name \in {"__schema", "__type"} /\ tn # C.U.nodeType[C.U.roots["query"]]
     THEN Res(V("absent", 0), <<ErrRec(p, "undefined_field", f.name)>>, <<>>)
     ELSE IF f.name = "__schema" THEN Res(IntroShape(C, f.sels), <<>>, <<>>)
     ELSE IF f.name = "__type" THEN Res(V("opt", IntroShape(C, f.sels)), <<>>, <<>>)
     ELSE IF ~HasField(C.U, tn, f.name)
     THEN Res(V("absent", 0), <<ErrRec(p, "undefined_field", f.name)>>, <<>>)       \* C10: rejected, not resolved
     ELSE LET fd == FieldDef(C.U, tn, f.name)
              am == ArgMapFor(C, f, fd)
              undeclared == ArgNames(f) \ DeclNames(fd)
              missing == {n \in Required(fd) : n \notin DOMAIN am \/ am[n] = NullV}
          IN IF undeclared # {}
             THEN Res(V("absent", 0),
                      <<ErrRec(p, "undefined_arg", CHOOSE n \in undeclared : TRUE)>>, <<>>)
             ELSE IF missing # {}
             THEN Res(NullV, <<ErrRec(p, "missing_arg", CHOOSE n \in missing : TRUE)>>, <<>>)
             ELSE LET call == [node |-> node, field |-> f.name, args |-> am]
                      raw == C.U.data[node][f.name]
                      v == IF raw.k = "echo" THEN StrV(EchoStr(C.U, fd, am, 1)) ELSE raw
                  IN IF v.k = "err"
                     THEN Res(NullV, <<ErrRec(p, "resolver", v.v)>>, <<call>>)      \* C06
                     ELSE IF v.k = "errs"                                           \* a group of n errors: one entry each
                     THEN Res(NullV, [i \in 1..v.v |-> ErrRec(p, "resolver", "group")], <<call>>)
                     \* a group whose members are groups again (or wrap one): one entry per failure, i.e. per leaf member.
                     \* "errsn" n: Errors{ Errors{m_1 .. m_n}, an error wrapping Errors{w} }  -> n + 1 entries
                     ELSE IF v.k = "errsn"
                     THEN Res(NullV, [i \in 1..(v.v + 1) |-> ErrRec(p, "resolver", "group")], <<call>>)
                     \* a resolver that returns a value TOGETHER WITH an error has failed: the position is null (C06).
                     \* Deviation ValueWithError: ggql keeps (and completes) the value next to the error entry.
                     ELSE IF v.k = "errval"
                     THEN Res(IF "ValueWithError" \in C.dv THEN StrV(v.v) ELSE NullV, <<ErrRec(p, "resolver", "errval")>>, <<call>>)
                     ELSE LET r == Complete(C, fd.type, v, f.sels, p, <<node, f.name>>)
                          IN Res(r.val, r.errs, <<call>> \o r.calls)

\* CompleteValue: value v returned for a position of declared type t.  `site` is <<node, field>> when
\* v is the value a resolver returned for that field (list accessor failures are injected per site).
Complete(C, t, v, sels, path, site) ==
  IF v.k = "null" THEN Res(NullV, <<>>, <<>>)
  ELSE IF t.k = "nonnull" THEN Complete(C, t.of, v, sels, path, site)
  ELSE IF t.k = "list"
  THEN IF v.k = "list" THEN CompleteList(C, t.of, v.v, sels, path, 1, site)
       ELSE Res(NullV, <<ErrRec(path, "not_a_list", "")>>, <<>>)
  ELSE IF IsComposite(C.U, t.n)
  THEN IF v.k = "node"
       THEN \* an object that is no member of the union the position declares is a failure of that position: null, one error (C06)
            IF KindOf(C.U, t.n) = "UNION" /\ C.U.nodeType[v.v] \notin Range(C.U.types[t.n].members)
            THEN Res(NullV, <<ErrRec(path, "not_a_member", C.U.nodeType[v.v])>>, <<>>)
            ELSE LET r == ExecSels(C, v.v, sels, path) IN Res(V("obj", r.val), r.errs, r.calls)
       ELSE Res(NullV, <<ErrRec(path, "not_an_object", "")>>, <<>>)
  \* leaf: output coercion can fail (C06: null at that position plus one error addressing it).  The universes of this family
  \* hold well-typed leaves except where they say otherwise: a word where a number or a boolean is declared (C05 has the full table)
  ELSE IF t.n \in {"Int", "Float", "Boolean"} /\ v.k = "str" THEN Res(NullV, <<ErrRec(path, "coercion", "")>>, <<>>)
  \* ... a *ggql.Subscription where a leaf is declared (a subscription is a value of no declared type)
  ELSE IF v.k = "subval" THEN Res(NullV, <<ErrRec(path, "coercion", "")>>, <<>>)
  ELSE Res(v, <<>>, <<>>)

\* a list accessor (AnyResolver.Nth) failing for element i of the list returned at `site`:
\* that element is null and one error addresses it (C06)
NthFails(C, site, i) == site # <<>> /\ <<site[1], site[2], ToString(i - 1)>> \in C.U.nth

CompleteList(C, et, elems, sels, path, i, site) ==
  IF i > Len(elems) THEN Res(ListV(<<>>), <<>>, <<>>)
  ELSE LET r == IF NthFails(C, site, i)
                THEN Res(NullV, <<ErrRec(Append(path, PathIdx(i - 1)), "accessor", "")>>, <<>>)
                ELSE Complete(C, et, elems[i], sels, Append(path, PathIdx(i - 1)), <<>>)
           rest == CompleteList(C, et, elems, sels, path, i + 1, site)
       IN Res(ListV(<<r.val>> \o rest.val.v), r.errs \o rest.errs, r.calls \o rest.calls)

-----------------------------------------------------------------------------
(* operation selection and variables  (C01, C04 for the variable part) *)

OpNames(doc) == [i \in DOMAIN doc.ops |-> doc.ops[i].name]
\* the operation named by the caller, or the only one when no name is given
\* (no name given: only a lone operation can be meant - an anonymous operation beside others is no more "the one"
\* than they are)
ChooseOp(doc, name) ==
  LET hits == {i \in DOMAIN doc.ops : doc.ops[i].name = name}
  IN IF name = "" THEN (IF Len(doc.ops) = 1 THEN 1 ELSE 0)
     ELSE IF Cardinality(hits) = 1 THEN CHOOSE i \in hits : TRUE
     ELSE 0          \* ambiguous or unknown: nothing is executed

\* variable values: the caller's value takes precedence over the default
VarVals(op, given) ==
  [n \in {op.vars[i].n : i \in DOMAIN op.vars} |->
     LET vd == CHOOSE x \in Range(op.vars) : x.n = n
     IN IF n \in DOMAIN given THEN given[n]            \* (null is a value: the default is for a variable left out)
        ELSE IF vd.hasDef THEN vd.def ELSE NullV]

\* C10: a document that applies an unknown or misplaced directive, gives a directive an unknown or
\* ill-typed argument, or uses an undefined type condition is refused as a whole.
RECURSIVE AnyBad(_, _)
AnyBad(U, sels) ==
  \E i \in DOMAIN sels :
     \/ sels[i].bad # ""
     \/ sels[i].k = "inline" /\ sels[i].cond # "" /\ ~HasType(U, sels[i].cond)
     \/ sels[i].k # "spread" /\ AnyBad(U, sels[i].sels)
DocRejected(U, doc, dv) ==
  \/ \E i \in DOMAIN doc.ops : AnyBad(U, doc.ops[i].sels)
  \/ \E i \in DOMAIN doc.frags : AnyBad(U, doc.frags[i].sels) \/ doc.frags[i].bad # ""
  \/ "FragDefUndefinedCond" \notin dv /\ \E i \in DOMAIN doc.frags : ~HasType(U, doc.frags[i].cond)

Response(U, doc, opName, given, dv) ==
  LET i == ChooseOp(doc, opName)
  IN IF DocRejected(U, doc, dv)
     THEN [hasData |-> FALSE, data |-> NullV, errs |-> <<ErrRec(<<>>, "rejected", "")>>, calls |-> <<>>]
     ELSE IF i = 0 THEN [hasData |-> FALSE, data |-> NullV, errs |-> <<ErrRec(<<>>, "no_operation", opName)>>, calls |-> <<>>]
     \* an operation of a kind the schema has no root type for
     ELSE IF doc.ops[i].type \notin DOMAIN U.roots THEN [hasData |-> FALSE, data |-> NullV, errs |-> <<ErrRec(<<>>, "no_root", doc.ops[i].type)>>, calls |-> <<>>]
     \* the application fails to hand out the operation root: the failure is at the root of the response (empty path), data is null (C06)
     ELSE IF <<"$root", doc.ops[i].type>> \in U.nth THEN [hasData |-> FALSE, data |-> NullV, errs |-> <<ErrRec(<<>>, "resolver", "root")>>, calls |-> <<>>]
     ELSE LET op == doc.ops[i]
              C == [U |-> U, doc |-> doc, vars |-> VarVals(op, given), dv |-> dv]
              r == ExecSels(C, U.roots[op.type], op.sels, <<>>)
          IN [hasData |-> TRUE, data |-> V("obj", r.val), errs |-> r.errs, calls |-> r.calls]

\* C02: which strategy serves a node.  An object implementing the Resolver interface is always
\* asked directly; anything else goes to the root (any) resolver when one is installed and is
\* resolved by reflection otherwise.
Via(kind, anyInstalled) ==
  IF kind = "resolver" THEN "iface" ELSE IF anyInstalled THEN "any" ELSE "refl"

\* multiset equality of two sequences
SameBag(a, b) ==
  /\ Len(a) = Len(b)
  /\ \A x \in Range(a) \cup Range(b) :
        Cardinality({i \in DOMAIN a : a[i] = x}) = Cardinality({i \in DOMAIN b : b[i] = x})
=============================================================================
