------------------------------- MODULE Scanner -------------------------------
(***************************************************************************)
(* The position bookkeeping of ggql's request reader (parser.go: readByte, *)
(* putBack, skipSpace, readToken; exeparser.go: readField) as a state      *)
(* machine over byte classes, one action per reader primitive:             *)
(*   "t" token character   "w" white space or comma   "n" line feed        *)
(*   "c" '#' (comment to the end of the line)   "p" other punctuation      *)
(* The reader has a one byte look-ahead (onDeck): line/col always describe *)
(* the last byte taken from the input, which after a token is the byte     *)
(* FOLLOWING the token.  A field node is stamped with a position; the      *)
(* property (C07) wants the stamped line to be the line of the token's     *)
(* first byte and the column to be positive.                               *)
(* dv = {} : stamp = position remembered when the token's first byte was   *)
(*           read (the code after the fix);                                *)
(* dv = {"LocAfterNewline"} : stamp = (line, col - length) after the       *)
(*           look-ahead byte has been read (the code as it was).           *)
(***************************************************************************)
EXTENDS Integers, Sequences, FiniteSets, TLC

CONSTANTS Input,   \* set of inputs (sequences of byte classes) to scan
          Dev

VARIABLES input, i, line, col, onDeck, pc, tokStart, tokLen, tokLine, tokCol, stamps
svars == <<input, i, line, col, onDeck, pc, tokStart, tokLen, tokLine, tokCol, stamps>>

\* true position of byte k (1-based): line = 1 + number of line feeds before it
TrueLine(inp, k) == 1 + Cardinality({j \in 1..(k - 1) : inp[j] = "n"})

SInit ==
  /\ input \in Input
  /\ i = 1 /\ line = 0 /\ col = 0 /\ onDeck = "" /\ pc = "skip"
  /\ tokStart = 0 /\ tokLen = 0 /\ tokLine = 0 /\ tokCol = 0 /\ stamps = <<>>

AtEnd == i > Len(input) /\ onDeck = ""

\* readByte: take onDeck if there is one, else the next input byte updating line/col
\* (result in b'); modelled as an operator giving the new reader state
Next1 ==  \* [b, i, line, col, onDeck]
  IF onDeck # "" THEN [b |-> onDeck, i |-> i, line |-> line, col |-> col]
  ELSE LET l0 == IF line = 0 THEN 1 ELSE line
           c0 == IF line = 0 THEN 1 ELSE col
           b == input[i]
       IN [b |-> b, i |-> i + 1, line |-> IF b = "n" THEN l0 + 1 ELSE l0, col |-> (IF b = "n" THEN 0 ELSE c0) + 1]

\* skipSpace: consume white space, line feeds and comments; the first other byte is put back
SkipStep ==
  /\ pc = "skip" /\ ~AtEnd
  /\ LET r == Next1 IN
       /\ i' = r.i /\ line' = r.line /\ col' = r.col
       /\ IF r.b \in {"w", "n"} THEN onDeck' = "" /\ pc' = "skip"
          ELSE IF r.b = "c" THEN onDeck' = "" /\ pc' = "comment"
          ELSE onDeck' = r.b /\ pc' = IF r.b = "t" THEN "token" ELSE "punct"
  /\ UNCHANGED <<input, tokStart, tokLen, tokLine, tokCol, stamps>>

CommentStep ==
  /\ pc = "comment" /\ ~AtEnd
  /\ LET r == Next1 IN
       /\ i' = r.i /\ line' = r.line /\ col' = r.col /\ onDeck' = ""
       /\ pc' = IF r.b = "n" THEN "skip" ELSE "comment"
  /\ UNCHANGED <<input, tokStart, tokLen, tokLine, tokCol, stamps>>

\* a punctuation byte is taken back from onDeck and consumed
PunctStep ==
  /\ pc = "punct"
  /\ onDeck' = "" /\ pc' = "skip"
  /\ UNCHANGED <<input, i, line, col, tokStart, tokLen, tokLine, tokCol, stamps>>

\* readToken, first byte: it is on deck and was the last byte read, so line/col are its position
TokenBegin ==
  /\ pc = "token" /\ onDeck = "t"
  /\ tokLine' = line /\ tokCol' = col /\ tokStart' = i - 1 /\ tokLen' = 1
  /\ onDeck' = "" /\ pc' = "intoken"
  /\ UNCHANGED <<input, i, line, col, stamps>>

\* readField: the field node is stamped once the token has been read
Stamp(len) ==
  IF "LocAfterNewline" \in Dev THEN [start |-> tokStart, line |-> line', col |-> col' - len]
  ELSE [start |-> tokStart, line |-> tokLine, col |-> tokCol]

TokenStep ==
  /\ pc = "intoken"
  /\ IF i > Len(input)
     THEN /\ stamps' = Append(stamps, IF "LocAfterNewline" \in Dev THEN [start |-> tokStart, line |-> line, col |-> col - tokLen]
                                       ELSE [start |-> tokStart, line |-> tokLine, col |-> tokCol])
          /\ pc' = "skip" /\ UNCHANGED <<i, line, col, onDeck, tokLen>>
     ELSE LET r == Next1 IN
          /\ i' = r.i /\ line' = r.line /\ col' = r.col
          /\ IF r.b = "t" THEN onDeck' = "" /\ tokLen' = tokLen + 1 /\ pc' = "intoken" /\ UNCHANGED stamps
             ELSE onDeck' = r.b /\ UNCHANGED tokLen /\ pc' = "skip" /\ stamps' = Append(stamps, Stamp(tokLen))
  /\ UNCHANGED <<input, tokStart, tokLine, tokCol>>

SNext == SkipStep \/ CommentStep \/ PunctStep \/ TokenBegin \/ TokenStep
SSpec == SInit /\ [][SNext]_svars

\* C07: every stamped position is on the line of the token's first byte, with a positive column
StampedLine == \A k \in DOMAIN stamps : stamps[k].line = TrueLine(input, stamps[k].start) /\ stamps[k].col >= 1
\* the reader always terminates: it never gets stuck before the end of the input
NoStall == AtEnd \/ pc \in {"intoken", "punct", "token"} \/ ENABLED SNext
=============================================================================
