----------------------------- MODULE CoerceJudge -----------------------------
(***************************************************************************)
(* Conformance direction B for C04 / C05: cases generated on the Go side   *)
(* (random type expressions up to wrapper depth 4, random value trees,     *)
(* random sources and Go kinds) were executed on the real code and         *)
(* recorded; this module recomputes what Coerce.tla prescribes and issues  *)
(* one verdict per record.                                                 *)
(*   "in"  record: t, lit, vds, given, rx, omit,                           *)
(*                 act = [out, val]  (val: the argument the resolver got,  *)
(*                 numbers as Num(canonical point, Go kind))               *)
(*   "out" record: t, gv, act (abstracted data), errs (error paths)        *)
(***************************************************************************)
EXTENDS Coerce, Json

CONSTANT KnownDev

JRecs == ndJsonDeserialize("cases.ndjson")

VARIABLE i
JInit == i = 1
JNext == i < Len(JRecs) /\ i' = i + 1
JSpec == JInit /\ [][JNext]_i

Rec == JRecs[i]

\* an observed argument a is the prescribed value e (numbers by Go kind and value)
RECURSIVE MatchIn(_, _)
MatchIn(e, a) ==
  CASE e.k = "num" -> a = Num(Canon(e.p, e.g), e.g)
    [] e.k = "anytime" -> a.k = "time"
    [] e.k = "list" -> a.k = "list" /\ DOMAIN a.xs = DOMAIN e.xs /\ \A j \in DOMAIN e.xs : MatchIn(e.xs[j], a.xs[j])
    [] e.k = "obj" -> /\ a.k = "obj"
                      /\ DOMAIN a.f = {x \in DOMAIN e.f : e.f[x].k # "null"}
                      /\ \A x \in DOMAIN a.f : MatchIn(e.f[x], a.f[x])
    [] OTHER -> a = e

Rejected(a) == a.out \in {"fielderr", "varerr"}
JudgeIn(s, a) ==
  CASE s.out = "call" -> a.out = "call" /\ MatchIn(s.val, a.val)
    [] s.out = "reject" -> Rejected(a)
    [] s.out = "may" -> Rejected(a) \/ (a.out = "call" /\ MatchIn(s.val, a.val))
JudgeInK(m, a) == a.out = m.out /\ (m.out = "call" => MatchIn(m.val, a.val))

\* numbers of the expected tree are named canonically, like the observed ones
RECURSIVE CanonTree(_)
CanonTree(e) ==
  CASE e.k = "num" -> Num(Canon(e.p, e.g), e.g)
    [] e.k = "list" /\ "lk" \notin DOMAIN e -> Lst([j \in DOMAIN e.xs |-> CanonTree(e.xs[j])])
    [] e.k = "may" -> MayJ(CanonTree(e.v))
    [] e.k \in {"raw", "leak"} -> [k |-> e.k, gv |-> CanonTree(e.gv)]
    [] OTHER -> e

ErrSet == {Rec.errs[j] : j \in DOMAIN Rec.errs}
\* the lres/iface marker of literal lists is irrelevant to the judge
InLit == Rec.lit
VerdictIn ==
  LET cx(dv) == [dv |-> dv, rx |-> Rec.rx]
      s == ArgOutcome(USchema, Rec.t, InLit, Rec.vds, Rec.given, Rec.rx)
      m == ImplOutcome(USchema, Rec.t, InLit, Rec.vds, Rec.given, cx(KnownDev))
      m0 == ImplOutcome(USchema, Rec.t, InLit, Rec.vds, Rec.given, cx({}))
  IN IF JudgeIn(s, Rec.act) THEN [i |-> i, ok |-> TRUE]
     ELSE [i |-> i, ok |-> FALSE, known |-> JudgeInK(m, Rec.act), exp |-> s, expK |-> m,
           kdevs |-> {d \in KnownDev : ImplOutcome(USchema, Rec.t, InLit, Rec.vds, Rec.given, cx({d})) # m0
                                     \/ ImplOutcome(USchema, Rec.t, InLit, Rec.vds, Rec.given, cx(KnownDev \ {d})) # m}]

VerdictOut ==
  LET s == CanonTree(CoerceOut(USchema, Rec.t, Rec.gv))
      m == CanonTree(CoOut(USchema, Rec.t, Rec.gv, KnownDev))
      m0 == CoOut(USchema, Rec.t, Rec.gv, {})
  IN IF JudgeOut(s, Rec.act, ErrSet) THEN [i |-> i, ok |-> TRUE]
     ELSE [i |-> i, ok |-> FALSE, known |-> JudgeOut(m, Rec.act, ErrSet), exp |-> s, expK |-> m,
           kdevs |-> {d \in KnownDev : CoOut(USchema, Rec.t, Rec.gv, {d}) # m0 \/ CanonTree(CoOut(USchema, Rec.t, Rec.gv, KnownDev \ {d})) # m}]

Judge == PrintT("@@VER " \o ToJson(IF Rec.r = "in" THEN VerdictIn ELSE VerdictOut))

Done == TLCGet("stats").diameter = Len(JRecs) \/ PrintT("@@INCOMPLETE")
=============================================================================
