------------------------------ MODULE MCCoerce ------------------------------
(***************************************************************************)
(* Enumerates the coercion cases of C04 and C05 over the universe U-coerce *)
(* and emits, per case, the outcome the property prescribes (part S of     *)
(* Coerce.tla) and, where the design with the known deviations (part M,    *)
(* dv = KnownDev) is not an outcome S allows, that outcome as well.        *)
(* TLC checks on every case that M({}) refines S and that everything S     *)
(* accepts conforms to the declared type.                                  *)
(*                                                                         *)
(* C04 case: [fam, t, lit, vds, given, rx, omit]                           *)
(*   a request  query(<vds>) { <field of t>(x: <lit>) }  resolved with the *)
(*   variables `given` (omit: the argument is not written at all)          *)
(* C05 case: [fam, t, gv]   the field of declared type t whose resolver    *)
(*   returns the Go value gv                                               *)
(***************************************************************************)
EXTENDS Coerce, Json

CONSTANTS Fams,       \* families to enumerate
          KnownDev,   \* deviation names listed for C04/C05
          MaxLen      \* longest list enumerated (2 quick, 3 thorough)

VARIABLES phase, cs
mcvars == <<phase, cs>>

-----------------------------------------------------------------------------
(* the universe U-coerce *)

InBases == {"Int", "Float", "Float64", "Int64", "String", "Boolean", "ID", "Time", "Color", "In"}
OutBases == {"Int", "Float", "Float64", "Int64", "String", "Boolean", "ID", "Time", "Color"}

\* type expressions up to wrapper depth 3 over a base
W0(b) == {Named(b)}
W1(b) == {NonNull(Named(b)), ListOf(Named(b))}
W2(b) == {NonNull(ListOf(Named(b))), ListOf(NonNull(Named(b))), ListOf(ListOf(Named(b)))}
W3(b) == {NonNull(ListOf(NonNull(Named(b)))), NonNull(ListOf(ListOf(Named(b)))),
          ListOf(NonNull(ListOf(Named(b)))), ListOf(ListOf(NonNull(Named(b))))}
Flat(b) == {Named(b), NonNull(Named(b))}
OneList(b) == {ListOf(Named(b)), NonNull(ListOf(Named(b))), ListOf(NonNull(Named(b))), NonNull(ListOf(NonNull(Named(b))))}
TwoList(b) == {ListOf(ListOf(Named(b))), NonNull(ListOf(ListOf(Named(b)))),
               ListOf(NonNull(ListOf(Named(b)))), ListOf(ListOf(NonNull(Named(b))))}
AllTypes(b) == W0(b) \cup W1(b) \cup W2(b) \cup W3(b)

ASSUME \A b \in InBases : AllTypes(b) = Flat(b) \cup OneList(b) \cup TwoList(b)

ASSUME PrintT("@@UNI " \o ToJson([ enums |-> [Color |-> <<"RED", "GREEN">>],
                                   inputs |-> USchema.inputs,
                                   objects |-> <<"Thing">>,
                                   inTypes |-> UNION {AllTypes(b) : b \in InBases},
                                   outTypes |-> UNION {AllTypes(b) : b \in OutBases} \cup {Named("Thing"), ListOf(Named("Thing"))},
                                   points |-> [p \in Points |-> Pt[p].dec],
                                   knownTimes |-> ValidTimes \cup {SecsTime[p] : p \in DOMAIN SecsTime},
                                   holds |-> Holds, canonF32 |-> CanonF32, canonF64 |-> CanonF64 ]))

-----------------------------------------------------------------------------
(* C04: value pools *)

LitPoints == {p \in Points : HasLiteral(p)}
NumLits == {NumL(p) : p \in LitPoints}
\* a numeric value in every Go kind that holds its point
NumAllKinds == UNION {{Num(p, g) : p \in Holds[g]} : g \in Kinds}
Strs == {Str("abc"), Str("42"), Str("1.5"), Str("RED"), Str("BLUE"), Str(T1)}
Bools == {Bool(TRUE), Bool(FALSE)}
Syms == {Sym("RED"), Sym("BLUE")}
ObjA1 == Obj([a |-> NumL("i1")])
Conts == {Lst(<<>>), Lst(<<NumL("i1")>>), ObjA1}
LitLeaves == NumLits \cup Strs \cup Bools \cup Syms \cup {Null} \cup Conts
VarLeaves == NumAllKinds \cup Strs \cup Bools \cup Syms \cup {Null, Tim(T1)} \cup Conts

\* how a literal number arrives when it is written in a JSON variables document instead
JsonKind(v) == IF v.k = "num" /\ v.p \in Holds["float64"] THEN Num(v.p, "float64") ELSE v
RECURSIVE AsJson(_)
AsJson(v) == CASE v.k = "list" -> Lst([i \in DOMAIN v.xs |-> AsJson(v.xs[i])])
               [] v.k = "obj" -> Obj([x \in DOMAIN v.f |-> AsJson(v.f[x])])
               [] OTHER -> JsonKind(v)

\* input objects
Objs == { ObjA1,
          Obj([a |-> NumL("i1"), b |-> Str("abc")]),
          Obj([b |-> Str("abc")]),                                    \* required a missing
          Obj([a |-> Null]),                                          \* required a null
          Obj([a |-> NumL("i1"), z |-> NumL("i1")]),                  \* undeclared field
          Obj([a |-> NumL("i1"), b |-> Null]),                        \* null where there is a default: null it is
          Obj([a |-> NumL("i1"), c |-> Null, r |-> NumL("i1")]),
          Obj([a |-> NumL("i1"), r |-> Null]),                        \* null for a required field with a default
          Obj([a |-> NumL("i2p32p1")]),                               \* out of range, nested
          Obj([a |-> NumL("f1p5")]),
          Obj([a |-> Str("abc")]),
          Obj([a |-> NumL("i1"), b |-> NumL("i1")]),
          Obj([a |-> NumL("i1"), b |-> Sym("RED")]),
          Obj([a |-> NumL("i1"), c |-> NumL("i2p31m1")]),
          Obj([a |-> NumL("i1"), c |-> NumL("i2p31")]),
          Obj([a |-> NumL("i1"), l |-> Lst(<<NumL("i1"), NumL("i42")>>)]),
          Obj([a |-> NumL("i1"), l |-> Lst(<<NumL("i1"), Null>>)]),
          Obj([a |-> NumL("i1"), l |-> Lst(<<NumL("i2p32p1")>>)]),
          Obj([a |-> NumL("i1"), l |-> NumL("i1")]),
          Obj([a |-> NumL("i1"), n |-> ObjA1]),
          Obj([a |-> NumL("i1"), n |-> Obj([b |-> Str("abc")])]),
          Obj([a |-> NumL("i1"), n |-> Obj([a |-> NumL("i1"), n |-> Obj([a |-> Str("abc")])])]),
          Obj([a |-> NumL("i1"), n |-> Lst(<<>>)]),
          \* an undeclared field beside 0..5 declared ones (the object then has as many members as the type has fields,
          \* or more), and in place of the required one
          Obj([z |-> NumL("i1")]),
          Obj([a |-> NumL("i1"), b |-> Str("abc"), z |-> NumL("i1")]),
          Obj([a |-> NumL("i1"), b |-> Str("abc"), c |-> NumL("i1"), z |-> NumL("i1")]),
          Obj([a |-> NumL("i1"), b |-> Str("abc"), c |-> NumL("i1"), l |-> Lst(<<NumL("i1")>>), z |-> NumL("i1")]),
          Obj([a |-> NumL("i1"), b |-> Str("abc"), c |-> NumL("i1"), l |-> Lst(<<NumL("i1")>>), n |-> ObjA1, z |-> NumL("i1")]),
          Obj([b |-> Str("abc"), c |-> NumL("i1"), l |-> Lst(<<NumL("i1")>>), n |-> ObjA1, z |-> NumL("i1")]),
          Obj([a |-> NumL("i1"), b |-> Str("abc"), c |-> NumL("i1"), l |-> Lst(<<NumL("i1")>>), z |-> Null]),
          Obj(EmptyFn) }

\* elements interesting for a base type: good ones, wrong kinds, boundary, null
Elems(b) ==
  CASE b = "Int" -> {NumL("i1"), NumL("i2p31m1"), NumL("i2p32p1"), NumL("f1p5"), Str("abc"), Sym("RED"), Null}
    [] b = "Float" -> {NumL("i1"), NumL("f1p5"), NumL("f1e39"), Str("abc"), Null}
    [] b = "Float64" -> {NumL("f1p5"), NumL("f1e300"), Str("abc"), Null}
    [] b = "Int64" -> {NumL("i2p63m1"), NumL("i2p63"), Str("42"), Bool(TRUE), Null}
    [] b = "String" -> {Str("abc"), NumL("i1"), Sym("RED"), Null}
    [] b = "Boolean" -> {Bool(TRUE), NumL("i1"), Str("abc"), Null}
    [] b = "ID" -> {Str("abc"), NumL("i42"), NumL("f1p5"), Null}
    [] b = "Time" -> {Str(T1), Str("abc"), NumL("i42"), Null}
    [] b = "Color" -> {Sym("RED"), Sym("BLUE"), Str("RED"), NumL("i1"), Null}
    [] b = "In" -> {ObjA1, Obj([b |-> Str("abc")]), NumL("i1"), Null}

SeqsUpTo(Sx, n) == UNION {[1..k -> Sx] : k \in 0..n}
Lists1(b) == {Lst(s) : s \in SeqsUpTo(Elems(b), MaxLen)}
Good(b) == CHOOSE e \in Elems(b) : CoerceIn(USchema, Named(b), e, FALSE).out = "ok" /\ e.k # "null"
Bad(b) == CHOOSE e \in Elems(b) : CoerceIn(USchema, Named(b), e, FALSE).out = "err"
Inner(b) == {Null, Lst(<<>>), Lst(<<Good(b)>>), Lst(<<Bad(b)>>), Lst(<<Null>>), Lst(<<Good(b), Bad(b)>>), Good(b)}
Lists2(b) == {Lst(s) : s \in SeqsUpTo(Inner(b), 2)}

NoVars == <<>>
VD(t, hasDef, def) == <<[n |-> "v", t |-> t, hasDef |-> hasDef, def |-> def]>>
C4(fam, t, lit, vds, given, rx) == [fam |-> fam, t |-> t, lit |-> lit, vds |-> vds, given |-> given, rx |-> rx, omit |-> FALSE]
AsLit(fam, t, v) == C4(fam, t, v, NoVars, EmptyFn, FALSE)
AsVar(fam, t, v) == C4(fam, t, Var("v"), VD(t, FALSE, Null), [v |-> v], FALSE)
AsDef(fam, t, v) == C4(fam, t, Var("v"), VD(t, TRUE, v), EmptyFn, FALSE)

\* literal-only values cannot be variable defaults?  they can: a default is a literal.  Values that
\* only exist as Go values (Tim, exotic kinds) cannot be written as literals.
Writable(v) == v.k # "time" /\ (v.k = "num" => HasLiteral(v.p) /\ v.g = LitKind(v.p))

ObjLeaves(b) == IF b = "In" THEN Objs ELSE {}

FamLit0(z) == UNION {{AsLit("lit0", t, v) : v \in LitLeaves \cup ObjLeaves(b), t \in Flat(b)} : b \in InBases}
           \cup UNION {{[AsLit("lit0", t, Null) EXCEPT !.omit = TRUE] : t \in Flat(b)} : b \in InBases}
FamVar0(z) == UNION {{AsVar("var0", t, v) : v \in VarLeaves \cup {AsJson(o) : o \in ObjLeaves(b)}, t \in Flat(b)} : b \in InBases}
FamDef0(z) == UNION {{AsDef("def0", t, v) : v \in LitLeaves \cup ObjLeaves(b), t \in Flat(b)} : b \in InBases}

\* precedence: the caller's value wins over the default; an unset (or null) variable takes the default
OverPairs(b) == {<<x, y>> \in Elems(b) \X Elems(b) : x # y /\ Writable(y)}
FamOver(z) == UNION {{C4("over", t, Var("v"), VD(t, TRUE, pr[2]), [v |-> AsJson(pr[1])], FALSE)
                     : pr \in OverPairs(b), t \in {Named(b)}} : b \in InBases}
           \cup UNION {{C4("over", Named(b), Var("v"), VD(Named(b), TRUE, y), [w |-> NumL("i1")], FALSE) : y \in Elems(b)} : b \in InBases}

FamList1(z) == UNION {{AsLit("list1", t, v) : v \in Lists1(b) \cup {Good(b), Null}, t \in OneList(b)} : b \in InBases}
FamList1Var(z) == UNION {{AsVar("list1var", t, AsJson(v)) : v \in Lists1(b) \cup {Good(b), Null}, t \in OneList(b)} : b \in InBases}
FamList1Def(z) == UNION {{AsDef("list1def", t, v) : v \in Lists1(b) \cup {Good(b), Null}, t \in OneList(b)} : b \in InBases}
FamList2(z) == UNION {{AsLit("list2", t, v) : v \in Lists2(b), t \in TwoList(b)} : b \in InBases}
FamList2Var(z) == UNION {{AsVar("list2var", t, AsJson(v)) : v \in Lists2(b), t \in TwoList(b)} : b \in InBases}

\* variables nested in literal lists and input objects: the variable has the element's / field's type
ElemType(t) == Unwrap(t).of
FamVarIn(z) == UNION {{C4("varin", t, Lst(<<Good(b), Var("v")>>), VD(ElemType(t), FALSE, Null), [v |-> AsJson(e)], FALSE)
                      : e \in Elems(b), t \in OneList(b)} : b \in InBases}
            \cup UNION {{C4("varin", t, Lst(<<Var("v")>>), VD(ElemType(t), TRUE, e), EmptyFn, FALSE)
                      : e \in {x \in Elems(b) : Writable(x)}, t \in OneList(b)} : b \in InBases}
            \cup {C4("varin", t, Obj([a |-> Var("v"), b |-> Str("abc")]), VD(NonNull(TInt), FALSE, Null), [v |-> AsJson(e)], FALSE)
                      : e \in Elems("Int"), t \in {Named("In"), NonNull(Named("In"))}}
            \cup {C4("varin", t, Obj([a |-> NumL("i1"), l |-> Lst(<<Var("v")>>)]), VD(TInt, TRUE, e), EmptyFn, FALSE)
                      : e \in Elems("Int"), t \in {Named("In")}}
            \cup {C4("varin", t, Lst(<<Obj([a |-> Var("v")])>>), VD(TInt, FALSE, Null), [v |-> AsJson(e)], FALSE)
                      : e \in Elems("Int"), t \in OneList("In")}

\* input objects under list wrappers
FamObjList(z) == {AsLit("objlist", t, Lst(<<o>>)) : o \in Objs, t \in OneList("In")}
              \cup {AsVar("objlist", t, AsJson(Lst(<<o>>))) : o \in Objs, t \in OneList("In")}
              \cup {AsLit("objlist", t, o) : o \in Objs, t \in OneList("In") \cup TwoList("In")}

\* ggql.Relaxed: strings may stand for enum values
FamRelaxed(z) == {C4("relaxed", t, Var("v"), VD(t, FALSE, Null), [v |-> v], TRUE)
                 : v \in {Str("RED"), Str("BLUE"), Sym("RED"), Sym("BLUE"), Str(""), NumL("i1"), Null}, t \in Flat("Color")}
              \cup {C4("relaxed", t, Var("v"), VD(t, FALSE, Null), [v |-> Lst(<<Str("GREEN"), x>>)], TRUE)
                 : x \in {Str("RED"), Str("BLUE"), Null}, t \in OneList("Color")}
              \cup {C4("relaxed", t, v, NoVars, EmptyFn, TRUE) : v \in {Str("RED"), Str("BLUE"), Sym("RED")}, t \in Flat("Color")}

-----------------------------------------------------------------------------
(* C05: value pools *)

OutStrs == {Str("abc"), Str("42"), Str("1.5"), Str("4294967297"), Str("true"), Str("RED"), Str("BLUE"), Str(T1), Str("")}
           \cup {Str(s) : s \in LenientTimes \cup EdgeTimes}
Others == {[k |-> "other", s |-> "map"], [k |-> "other", s |-> "struct"], [k |-> "other", s |-> "chan"]}
\* values of NAMED Go types (type Age int8, type Word string ...) whose underlying basic type a scalar knows
Nameds == {Named_(u) : u \in {Num("i1", "int8"), Num("i1", "int16"), Num("i1", "int32"), Num("i2p31m1", "int32"), Num("i1", "int64"), Num("i2p32p1", "int64"),
                              Num("i1", "int"), Num("i1", "uint8"), Num("f1p5", "float64"), Num("f1p5", "float32"), Num("i1", "float64"),
                              Str("RED"), Str("42"), Bool(TRUE)}}
NilPtr == [k |-> "nilptr"]
GLeaves == NumAllKinds \cup OutStrs \cup Bools \cup Syms \cup {Tim(T1), Null, NilPtr} \cup {Tim(x) : x \in FarTimes} \cup Others \cup Nameds
           \cup {GList("iface", "", <<Num("i1", "int")>>), GList("typed", "int", <<Num("i1", "int")>>)}
C5(fam, t, gv) == [fam |-> fam, t |-> t, gv |-> gv]

FamOLeaf(z) == UNION {{C5("oleaf", t, gv) : gv \in GLeaves, t \in Flat(b)} : b \in OutBases}

GElems(b) ==
  CASE b = "Int" -> {Num("i1", "int"), Num("i2p32p1", "int64"), Num("f1p5", "float64"), Str("42"), Str("abc"), Bool(TRUE), Null, NilPtr}
    [] b = "Float" -> {Num("f1p5", "float64"), Num("f1e300", "float64"), Num("nan", "float32"), Num("i1", "int"), Str("abc"), Null}
    [] b = "Float64" -> {Num("f1p5", "float32"), Num("pinf", "float64"), Num("i2p53p1", "int64"), Str("abc"), Null}
    [] b = "Int64" -> {Num("i2p63m1", "int64"), Num("i2p63", "uint64"), Num("f1p5", "float64"), Str("abc"), Null}
    [] b = "String" -> {Str("abc"), Num("i1", "int"), Bool(TRUE), Sym("RED"), [k |-> "other", s |-> "map"], Null, NilPtr}
    [] b = "Boolean" -> {Bool(TRUE), Num("i1", "int32"), Num("i1", "int"), Str("true"), Str("abc"), Null}
    [] b = "ID" -> {Str("abc"), Num("i42", "int"), Num("f1p5", "float64"), Null}
    [] b = "Time" -> {Tim(T1), Str(T1), Str("abc"), Num("i42", "int64"), Null, Str("2021-03-04T5:06:07Z")}
    [] b = "Color" -> {Sym("RED"), Str("GREEN"), Sym("BLUE"), Str("BLUE"), Num("i1", "int"), Null}

\* homogeneous element pools: Go element type -> values
TypedPools == [ string |-> {Str("abc"), Str("42"), Str("RED"), Str("BLUE"), Str(T1)},
                int |-> {Num("i1", "int"), Num("i2p32p1", "int")},
                int64 |-> {Num("i42", "int64"), Num("i2p63m1", "int64")},
                bool |-> Bools,
                float32 |-> {Num("f1p5", "float32"), Num("nan", "float32")},
                float64 |-> {Num("f1p5", "float64"), Num("f1e300", "float64"), Num("pinf", "float64")},
                time |-> {Tim(T1)} ]
ReflPools == [ int8 |-> {Num("i1", "int8"), Num("im1", "int8")},
               int32 |-> {Num("i1", "int32"), Num("i2p31m1", "int32")},
               uint64 |-> {Num("i1", "uint64"), Num("i2p63", "uint64")},
               sym |-> Syms ]
ArrayPools == [ int |-> {Num("i1", "int"), Num("i2p32p1", "int")}, string |-> {Str("abc"), Str("RED")} ]
HomLists(lk, pools) == UNION {{GList(lk, et, s) : s \in SeqsUpTo(pools[et], 2) \ {<<>>}} : et \in DOMAIN pools}
                       \cup {GList(lk, et, <<>>) : et \in DOMAIN pools}
ArrLists == UNION {{GList("array", et, s) : s \in [1..2 -> ArrayPools[et]]} : et \in DOMAIN ArrayPools}
HetLists(b, lk) == {GList(lk, "", s) : s \in SeqsUpTo(GElems(b), MaxLen)}

FamOList(z) == UNION {{C5("olist", t, gv) : gv \in HetLists(b, "iface") \cup HetLists(b, "lres") \cup {Null, NilPtr, Num("i1", "int"), Str("abc")},
                                         t \in OneList(b)} : b \in OutBases}
FamOTyped(z) == UNION {{C5("otyped", t, gv) : gv \in HomLists("typed", TypedPools) \cup HomLists("refl", ReflPools) \cup ArrLists,
                                          t \in {ListOf(Named(b)), NonNull(ListOf(NonNull(Named(b))))}} : b \in OutBases}
\* a flat typed slice / reflected slice / array where a list of LISTS is declared: every element is misplaced
FamOTyped2(z) == UNION {{C5("otyped2", t, gv) : gv \in HomLists("typed", TypedPools) \cup HomLists("refl", ReflPools) \cup ArrLists,
                                           t \in TwoList(b)} : b \in OutBases}
GInner(b, lk) == {Null, GList(lk, "", <<>>), GList(lk, "", <<CHOOSE e \in GElems(b) : LeafOut(USchema, b, e).k \notin {"errnull", "may", "null"}>>),
                  GList(lk, "", <<CHOOSE e \in GElems(b) : LeafOut(USchema, b, e) = ErrJ>>), Str("abc")}
OL2(b, lk) == {GList(lk, "", s) : s \in SeqsUpTo(GInner(b, lk) \cup {GList("typed", "int", <<Num("i1", "int"), Num("i2p32p1", "int")>>)}, 2)}
FamOList2(z) == UNION {{C5("olist2", t, gv) : gv \in OL2(b, "iface") \cup OL2(b, "lres"), t \in TwoList(b)} : b \in OutBases}
FamOObj(z) == {C5("oobj", Named("Thing"), [k |-> "node"]), C5("oobj", Named("Thing"), Null), C5("oobj", Named("Thing"), NilPtr),
            C5("oobj", ListOf(Named("Thing")), GList("iface", "", <<[k |-> "node"], Null>>)),
            C5("oobj", ListOf(Named("Thing")), GList("lres", "", <<[k |-> "node"], [k |-> "node"]>>)),
            C5("oobj", ListOf(Named("Thing")), Null)}

\* two required arguments, each given as a literal, as a literal null, left out or through a variable without value: the
\* resolver is invoked exactly when both are given (C04: required fields present, non-null positions never null).  The
\* cases are also run one after the other on ONE root: what a request supplied says nothing about the next one.
ReqStates == {"lit", "null", "omit", "unset"}
FamReq2(z) == {[fam |-> "req2", st |-> [p |-> a, q |-> b]] : a \in ReqStates, b \in ReqStates}
ReqOut(st) == IF \A n \in DOMAIN st : st[n] = "lit" THEN "call" ELSE "reject"

FamilyOf(f) ==
  CASE f = "lit0" -> FamLit0(0)
    [] f = "var0" -> FamVar0(0)
    [] f = "def0" -> FamDef0(0)
    [] f = "over" -> FamOver(0)
    [] f = "list1" -> FamList1(0)
    [] f = "list1var" -> FamList1Var(0)
    [] f = "list1def" -> FamList1Def(0)
    [] f = "list2" -> FamList2(0)
    [] f = "list2var" -> FamList2Var(0)
    [] f = "varin" -> FamVarIn(0)
    [] f = "objlist" -> FamObjList(0)
    [] f = "relaxed" -> FamRelaxed(0)
    [] f = "req2" -> FamReq2(0)
    [] f = "oleaf" -> FamOLeaf(0)
    [] f = "olist" -> FamOList(0)
    [] f = "otyped" -> FamOTyped(0)
    [] f = "otyped2" -> FamOTyped2(0)
    [] f = "olist2" -> FamOList2(0)
    [] f = "oobj" -> FamOObj(0)

IsOut(c) == "gv" \in DOMAIN c
IsIn(c) == "lit" \in DOMAIN c

MCInit == phase = "fam" /\ cs \in {[fam |-> f] : f \in Fams}
MCNext == phase = "fam" /\ phase' = "case" /\ cs' \in FamilyOf(cs.fam)
MCSpec == MCInit /\ [][MCNext]_mcvars

-----------------------------------------------------------------------------
(* vectors *)

Cx(dv) == [dv |-> dv, rx |-> cs.rx]
SIn == ArgOutcome(USchema, cs.t, cs.lit, cs.vds, cs.given, cs.rx)
MIn(dv) == ImplOutcome(USchema, cs.t, cs.lit, cs.vds, cs.given, Cx(dv))
SOut == CoerceOut(USchema, cs.t, cs.gv)
MOut(dv) == CoOut(USchema, cs.t, cs.gv, dv)

Vector ==
  IF cs.fam = "req2" THEN cs @@ [exp |-> [out |-> ReqOut(cs.st)]]
  ELSE IF IsOut(cs)
  THEN LET s == SOut
           m == MOut(KnownDev)
       IN IF CompatOut(s, m) THEN cs @@ [exp |-> s]
          ELSE cs @@ [exp |-> s, expK |-> m, kdevs |-> {d \in KnownDev : MOut({d}) # MOut({}) \/ MOut(KnownDev \ {d}) # m}]
  ELSE LET s == SIn
           m == MIn(KnownDev)
       IN IF CompatIn(s, m) THEN cs @@ [exp |-> s]
          ELSE cs @@ [exp |-> s, expK |-> m, kdevs |-> {d \in KnownDev : MIn({d}) # MIn({}) \/ MIn(KnownDev \ {d}) # m}]

Emit == phase = "case" => PrintT("@@VEC " \o ToJson(Vector))

\* ---- properties of the specification itself, checked on every enumerated case ----
\* the design without deviations yields only outcomes the property allows
RefinesIn == (phase = "case" /\ IsIn(cs)) => CompatIn(SIn, MIn({}))
RefinesOut == (phase = "case" /\ IsOut(cs)) => CompatOut(SOut, MOut({}))
\* C04: whatever the property lets through conforms to the declared type
OracleConforms == (phase = "case" /\ IsIn(cs)) => (SIn.out \in {"call", "may"} => Conforms(USchema, cs.t, SIn.val))
\* C04: a value that does not conform as written and is not coercible is rejected: accepting is never
\* prescribed for a null at a non-null position
OracleNonNull == (phase = "case" /\ IsIn(cs)) =>
                   ((cs.t.k = "nonnull" /\ cs.lit.k = "null") => SIn.out = "reject")
\* C05: whatever the property prescribes has the JSON shape of the declared type; raw values never occur
OracleWellTyped == (phase = "case" /\ IsOut(cs)) => WellTyped(USchema, cs.t, SOut)
=============================================================================
