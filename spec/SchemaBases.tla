----------------------------- MODULE SchemaBases -----------------------------
(* Hand-built well-formed base schemas shared by MCRules (C13), MCPrint (C15) and C17. *)
EXTENDS Loader, Json

ID == Named("ID")
TagLocs == <<"OBJECT", "FIELD_DEFINITION", "ARGUMENT_DEFINITION", "ENUM_VALUE", "INPUT_FIELD_DEFINITION", "INTERFACE", "UNION",
             "ENUM", "INPUT_OBJECT", "SCALAR">>
Tag == DU("tag", <<>>)
Tag2 == DU("tag", <<AV("v", IntV(2))>>)
WD(x, ds) == [x EXCEPT !.dirs = ds]

B1 ==
  << DirectiveD("tag", <<ArgDD("v", I, IntV(1)), ArgD("s", S)>>, TagLocs),
     DirectiveD("meta", <<WD(ArgD("a", I), <<Tag>>)>>, <<"OBJECT">>),
     WD(ScalarD("Date"), <<Tag>>),
     WD(InterfaceD("N", <<FieldD("name", S, <<ArgD("pre", S)>>), FieldD("peer", Named("N"), <<>>)>>), <<Tag>>),
     ObjectD("Query", <<>>, << FieldD("a", Named("A"), <<>>),
                               FieldD("items", NonNull(ListOf(NonNull(Named("A")))), <<ArgDD("first", I, IntV(10)), ArgD("f", Named("In"))>>),
                               FieldD("u", Named("U"), <<>>), FieldD("e", Named("E"), <<>>), FieldD("d", Named("Date"), <<>>) >>),
     WD(ObjectD("A", <<"N">>, << WD(FieldD("name", S, <<ArgD("pre", S), WD(ArgD("opt", I), <<Tag>>)>>), <<Tag>>),
                                 FieldD("n", I, <<>>), FieldD("peer", Named("B"), <<>>) >>), <<Tag2, DU("meta", <<AV("a", IntV(5))>>)>>),
     ObjectD("B", <<"N">>, << FieldD("name", NonNull(S), <<ArgD("pre", S)>>), FieldD("k", ListOf(ListOf(I)), <<>>), FieldD("peer", NonNull(Named("N")), <<>>) >>),
     WD(UnionD("U", <<"A", "B">>), <<Tag>>),
     WD(EnumD("E", <<WD(EV("P"), <<Tag>>), EV("Q")>>), <<Tag>>),
     WD(InputD("In", << WD(ArgDD("f", I, IntV(3)), <<Tag>>), ArgDD("e", Named("E"), V("enum", "P")),
                        ArgD("l", ListOf(NonNull(S))), ArgD("sub", Named("In2")) >>), <<Tag>>),
     InputD("In2", <<ArgD("x", ID)>>),
     \* an input type with a defaulted field, reached twice side by side from the defaults of another one
     InputD("Leaf", <<ArgDD("z", I, IntV(1)), ArgD("w", S)>>),
     InputD("Pair", <<ArgDD("x", Named("Leaf"), V("obj", [w |-> StrV("a")])), ArgDD("y", Named("Leaf"), V("obj", [w |-> StrV("b")])),
                      ArgDD("l", ListOf(Named("Leaf")), ListV(<<V("obj", [w |-> StrV("c")]), V("obj", [w |-> StrV("d")])>>)),
                      ArgDD("both", Named("Pair2"), V("obj", [x |-> V("obj", [w |-> StrV("e")]), y |-> V("obj", [w |-> StrV("f")])]))>>),
     InputD("Pair2", <<ArgD("x", Named("Leaf")), ArgD("y", Named("Leaf"))>>) >>

\* a second base: descriptions, deprecated, extends and an explicit schema
B2 ==
  << WithDesc(ObjectD("Qry", <<>>, << WD(WithDesc(FieldD("old", S, <<>>), "gone"), <<DU("deprecated", <<AV("reason", StrV("use new"))>>)>>),
                                      FieldD("thing", Named("T"), <<ArgD("id", NonNull(ID))>>) >>), "the query root"),
     ObjectD("T", <<>>, <<FieldD("v", Named("Float"), <<>>), FieldD("when", Named("Time"), <<>>)>>),
     ObjectD("Mut", <<>>, <<FieldD("set", Named("T"), <<ArgD("in", NonNull(Named("TIn")))>>)>>),
     InputD("TIn", <<ArgDD("v", Named("Float"), IntV(1)), ArgDD("tags", ListOf(S), ListV(<<StrV("a"), StrV("b")>>))>>),
     EnumD("Color", <<EV("RED"), WD(EV("GREEN"), <<DU("deprecated", <<>>)>>)>>),
     \* directives for the executable locations, among them the one for variable definitions
     DirectiveD("onvar", <<ArgD("note", S)>>, <<"VARIABLE_DEFINITION", "QUERY", "FRAGMENT_DEFINITION">>),
     Ext(ObjectD("T", <<>>, <<FieldD("c", Named("Color"), <<>>)>>)),
     Ext(EnumD("Color", <<EV("BLUE")>>)),
     SchemaD(<<RootD("query", "Qry"), RootD("mutation", "Mut")>>) >>

Bases == [b1 |-> B1, b2 |-> B2]

=============================================================================
