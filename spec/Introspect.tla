------------------------------ MODULE Introspect ------------------------------
(***************************************************************************)
(* C17: what the __schema / __type meta-fields must report for an abstract *)
(* schema, as a name-keyed view (the harness turns the real introspection  *)
(* response into the same shape).  Written from the GraphQL introspection  *)
(* schema the property statement refers to.  Type references are rendered  *)
(* with their wrappers and the kind of the named type ("[A!]!:OBJECT"),    *)
(* which is what unrolling ofType yields.                                  *)
(***************************************************************************)
EXTENDS SchemaRules

RECURSIVE TypeStr(_)
TypeStr(t) == CASE t.k = "named" -> t.n
                [] t.k = "list" -> "[" \o TypeStr(t.of) \o "]"
                [] t.k = "nonnull" -> TypeStr(t.of) \o "!"
TypeView(s, t) == TypeStr(t) \o ":" \o KindOfT(s, BaseName(t))

Deprecated(uses) == \E i \in DOMAIN uses : uses[i].n = "deprecated"
Reason(s, uses) ==
  LET du == CanonUse(s, uses[CHOOSE i \in DOMAIN uses : uses[i].n = "deprecated"])
  IN IF "reason" \in DOMAIN du.args THEN du.args["reason"] ELSE NullV

\* defaultValue is a String in the introspection schema: the default as a schema would write it (a string default as it is).
\* The view holds the VALUE that text denotes (the harness reads the text back), null where there is no default.
ArgsView(s, args) == [n \in NameSet(args) |-> LET a == ByName(args, n) IN
                        [desc |-> a.desc, type |-> TypeView(s, a.type), def |-> IF a.hasDef THEN a.def ELSE NullV]]

Visible(incDep, uses) == incDep \/ ~Deprecated(uses)

DefView(s, d, incDep) ==
  [ kind |-> d.kind, desc |-> d.desc,
    fields |-> LET shown == {i \in DOMAIN d.fields : Visible(incDep, d.fields[i].dirs)} IN
               [n \in {d.fields[i].n : i \in shown} |-> LET f == ByName(d.fields, n) IN
                  [desc |-> f.desc, type |-> TypeView(s, f.type), args |-> ArgsView(s, f.args),
                   dep |-> Deprecated(f.dirs), reason |-> IF Deprecated(f.dirs) THEN Reason(s, f.dirs) ELSE NullV]],
    ifaces |-> Range(d.ifaces),
    possible |-> CASE d.kind = "UNION" -> Range(d.members)
                   [] d.kind = "INTERFACE" -> {n \in DOMAIN s.types : s.types[n].kind = "OBJECT" /\ d.name \in Range(s.types[n].ifaces)}
                   [] OTHER -> {},
    values |-> LET shown == {i \in DOMAIN d.values : Visible(incDep, d.values[i].dirs)} IN
               [n \in {d.values[i].n : i \in shown} |-> LET v == ByName(d.values, n) IN
                  [desc |-> v.desc, dep |-> Deprecated(v.dirs), reason |-> IF Deprecated(v.dirs) THEN Reason(s, v.dirs) ELSE NullV]],
    infields |-> ArgsView(s, d.infields) ]

IntroView(s, incDep) ==
  [ roots |-> s.roots,
    types |-> [n \in DOMAIN s.types |-> DefView(s, s.types[n], incDep)],
    dirs |-> [n \in DOMAIN s.dirs |-> [desc |-> s.dirs[n].desc, locs |-> Range(s.dirs[n].locs), args |-> ArgsView(s, s.dirs[n].args)]] ]

\* the meta-fields live on the query root type: a schema can be asked only when it has one
Queryable(s) == s.roots["query"] # "" /\ s.roots["query"] \in DOMAIN s.types
\* both settings of includeDeprecated
Intro(s) == [all |-> IntroView(s, TRUE), current |-> IntroView(s, FALSE)]
=============================================================================
