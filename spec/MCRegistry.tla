---------------------------- MODULE MCRegistry ----------------------------
(* Model-checking instance of Registry: universe shared with the Go harness *)
(* (exported through the @@UNI line; the harness reads it, nothing is duplicated *)
(* in Go).                                                                    *)
EXTENDS Registry, RegistryUniverses, Json


Universe == [pool |-> Pool, selKeys |-> SelKeys, evVals |-> EvVals, ids |-> Ids]
ASSUME PrintT("@@UNI " \o ToJson(Universe))

\* Conformance direction A: one vector per complete history.
Terminal == \A p \in Procs : pc[p] = "idle" /\ nops[p] = MaxOps
Emit == Terminal => PrintT("@@VEC " \o ToJson([hist |-> hist]))

\* hist does not influence behaviour; the exhaustive C20 configuration hides it
NoHistView == <<impl, hvars>>
=============================================================================
