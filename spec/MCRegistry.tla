---------------------------- MODULE MCRegistry ----------------------------
(* Model-checking instance of Registry: universe shared with the Go harness *)
(* (harness/registry/universe.go must agree; the harness checks this at     *)
(* start-up against the "universe" vector).                                  *)
EXTENDS Registry, Json


V(k, v) == [k |-> k, v |-> v]

MCPoolA == << [pat |-> "a", sel |-> "s1", failAt |-> 1],
              [pat |-> "a", sel |-> "s2", failAt |-> 0],
              [pat |-> "*", sel |-> "s1", failAt |-> 2],
              [pat |-> "b", sel |-> "s2", failAt |-> 0] >>
\* second pool: adjacent matching subscribers, both failing, wildcard first
MCPoolB == << [pat |-> "*", sel |-> "s2", failAt |-> 1],
              [pat |-> "a", sel |-> "s1", failAt |-> 1],
              [pat |-> "a", sel |-> "s1", failAt |-> 2],
              [pat |-> "b", sel |-> "s2", failAt |-> 1] >>
\* selection id -> <<responseKey, fieldName>>; s2 uses an alias and two fields
MCSelKeys == [ s1 |-> << <<"name", "name">> >>,
               s2 |-> << <<"n", "n">>, <<"t", "name">> >> ]
MCEvVals == [ e1 |-> [name |-> V("str", "one"), n |-> V("int", 1)],
              e2 |-> [name |-> V("str", "two"), n |-> V("int", 2)] ]

MCInitEmpty == { <<>> }
MCInitSome == { <<>>, <<1>>, <<1, 2>>, <<1, 2, 3>>, <<3, 1>>, <<2, 1, 3, 4>> }

Universe == [pool |-> Pool, selKeys |-> SelKeys, evVals |-> EvVals, ids |-> Ids]
ASSUME PrintT("@@UNI " \o ToJson(Universe))

\* Conformance direction A: one vector per complete history.
Terminal == \A p \in Procs : pc[p] = "idle" /\ nops[p] = MaxOps
Emit == Terminal => PrintT("@@VEC " \o ToJson([hist |-> hist]))

\* hist does not influence behaviour; the exhaustive C20 configuration hides it
NoHistView == <<impl, hvars>>
=============================================================================
