---------------------------- MODULE MCValueText ----------------------------
(***************************************************************************)
(* Model-checking instance of ValueText (C18).  TLC enumerates value trees *)
(* family by family, times the writer modes (SDL/JSON form x indent < 0,   *)
(* = 0, > 0 x Sort on/off), checks on every case that the written text     *)
(* reads back as the value (ReadWriteSDL, ReadWriteJSON) and that the JSON *)
(* form is accepted by the JSON grammar and decodes to the same structure  *)
(* (JsonGrammar), and prints one vector per case with the text, the        *)
(* read-back value and the decoded JSON the specification prescribes - for *)
(* dv = {} and, where it differs, for dv = KnownDev.  The Go harness       *)
(* (harness/cmd/valuetext replay) executes every vector on the real code.  *)
(*                                                                         *)
(* Three-step machine (fam -> val -> case) so that the expensive step is   *)
(* spread over the workers.                                                *)
(***************************************************************************)
EXTENDS ValueText, Json

CONSTANTS Fams,        \* family names to enumerate
          KnownDev,    \* deviation names listed for C18
          MaxOrders,   \* Sort = false is enumerated for values with at most this many entry orders
          ForceDev     \* {} ; a self-check sets it to one deviation and expects TLC to report the property violated

\* ---------------------------------------------------------------- pools ----
one == IntV("one")
sa == StrV(<<"a">>)
kA == <<"a">>
kB == <<"b">>
kC == <<"c">>
KeysABC == <<kA, kB, kC>>

\* the character classes of the design (letter, quote, backslash, LF, TAB, other control,
\* 2-byte, 4-byte rune, invalid byte) ...
Cls9 == {"a", "QUOTE", "BSL", "LF", "TAB", "C01", "EACU", "EMOJI", "BADFF"}
\* ... and the boundaries of writeString / readEscaped / the JSON string grammar
Cls16 == Cls9 \cup {"C1F", "SP", "DEL", "U80", "UFFFD", "/", "u"}
\* invisible characters (C1 control, format characters in and above the BMP, line / paragraph separator, BOM)
Invisible == {"U85", "UAD", "U200B", "U2028", "U2029", "U202E", "UFEFF", "U1D173", "UE0067"}

Seqs(S, n) == [1..n -> S]
StrsUpTo(S, n) == UNION {Seqs(S, m) : m \in 0..n}

\* (only the lower case words true, false and null are literals: their case variants are ordinary enum symbols)
Syms == {<<"A">>, <<"R", "E", "D">>, <<"a", "_", "1">>, <<"_", "x">>, <<"N", "U", "L", "L">>, <<"T", "r", "u", "e">>, <<"F", "A", "L", "S", "E">>,
         <<"N", "u", "l", "l">>, <<"t", "r", "u", "e", "r">>, <<"n", "u", "l", "l", "_">>}
Vars == {<<"v">>, <<"x", "1">>, <<"_", "a">>}

LeafAll == {NullV, BoolV(TRUE), BoolV(FALSE)}
           \cup {IntV(n) : n \in IntNames} \cup {FloatV(n) : n \in FloatNames}
           \cup {SymV(s) : s \in Syms} \cup {VarV(s) : s \in Vars}
           \cup {StrV(s) : s \in StrsUpTo(Chars, 1)}

\* keys: made of token characters / not, but clean in JSON / needing an escape in JSON
GoodKeys == {<<"a">>, <<"b">>, <<"A">>, <<"_", "x">>, <<"a", "1">>, <<"a", "b">>, <<"1", "a">>, <<"t", "r", "u", "e">>}
OddKeys == {<<>>, <<"a", "SP", "b">>, <<"EACU">>, <<"a", "-", "b">>, <<"EMOJI">>, <<"$", "a">>, <<"#">>, <<":">>,
            <<"a", ":">>, <<",">>, <<"U10FFFF">>, <<"DEL">>, <<"a", "U80">>, <<"[">>, <<"}">>}
EscKeys == {<<"a", "QUOTE", "b">>, <<"QUOTE">>, <<"a", "BSL">>, <<"BSL", "b">>, <<"BSL", "BSL">>, <<"a", "BSL", "n">>,
            <<"LF">>, <<"a", "TAB">>, <<"C01">>, <<"C1F">>, <<"CR">>, <<"BS">>, <<"FF", "a">>,
            <<"BSL", "u", "0", "0", "4", "1">>, <<"QUOTE", ":", "QUOTE">>}
AllKeys == GoodKeys \cup OddKeys \cup EscKeys
SortKeysQ == {<<"a">>, <<"a", "b">>, <<"a", "1">>, <<"B">>, <<"_", "x">>, <<"b">>}
SortKeys == SortKeysQ \cup {<<"Z">>, <<"a", "_">>, <<"a", "a">>}

\* ---------------------------------------------------------------- trees ----
ListsOver(X, w) == {ListV(s) : s \in UNION {Seqs(X, n) : n \in 0..w}}
MapsOf(X, w) == UNION {{ObjV([i \in 1..n |-> Ent(KeysABC[i], s[i])]) : s \in Seqs(X, n)} : n \in 0..w}
Cont(X, w) == ListsOver(X, w) \cup MapsOf(X, w)

S2 == {one, sa}
T1 == S2 \cup Cont(S2, 3)
T2 == S2 \cup Cont(T1, 2)
T1w1 == S2 \cup Cont(S2, 1)
T2wide == Cont(T1w1, 3)
T2sub == {one, ListV(<<>>), ObjV(<<>>), ListV(<<one>>), ObjV(<<Ent(kA, one)>>), ListV(<<ListV(<<>>)>>),
          ListV(<<ObjV(<<>>)>>), ObjV(<<Ent(kA, ListV(<<>>))>>), ObjV(<<Ent(kA, ObjV(<<>>))>>),
          ListV(<<one, ListV(<<>>)>>), ListV(<<ListV(<<>>), one>>),
          ObjV(<<Ent(kA, ListV(<<>>)), Ent(kB, one)>>), ObjV(<<Ent(kA, one), Ent(kB, ListV(<<>>))>>),
          ListV(<<ListV(<<one>>)>>), ListV(<<ObjV(<<Ent(kA, one)>>)>>), ObjV(<<Ent(kA, ListV(<<one>>))>>),
          ObjV(<<Ent(kA, ObjV(<<Ent(kA, one)>>))>>)}
T3 == Cont(T2sub, 2)

Adj == {one, FloatV("f1_5"), IntV("m1"), sa, StrV(<<>>), SymV(<<"A">>), VarV(<<"v">>), NullV, BoolV(TRUE),
        ListV(<<>>), ObjV(<<>>), ListV(<<one>>), ObjV(<<Ent(kA, one)>>)}
Adj4 == {one, sa, ListV(<<>>), ObjV(<<Ent(kA, one)>>)}

Wrap(x) == {x, ListV(<<x>>), ObjV(<<Ent(kA, x)>>)}

\* maps whose key order matters: three keys out of K with scalars and containers as values, and a nested map
SortFam(K) == {Canon(ObjV(<<Ent(ks[1], x), Ent(ks[2], one), Ent(ks[3], y)>>)) :
                 ks \in {s \in Seqs(K, 3) : s[1] # s[2] /\ s[1] # s[3] /\ s[2] # s[3]}, x \in {one, ListV(<<>>)}, y \in {one, ListV(<<>>)}}
              \cup {Canon(ObjV(<<Ent(ks[1], one), Ent(ks[2], ObjV(<<Ent(ks[2], one), Ent(ks[1], sa)>>))>>)) :
                     ks \in {s \in Seqs(K \cup {<<>>, <<"EACU">>}, 2) : s[1] # s[2]}}

\* family name -> set of values
FamVals(f) ==
  CASE f = "leaf" -> UNION {Wrap(x) : x \in LeafAll}
    [] f = "pair" -> {ListV(<<x, y>>) : x, y \in Adj} \cup {ObjV(<<Ent(kA, x), Ent(kB, y)>>) : x, y \in Adj}
    [] f = "triple" -> {ListV(<<x, y, z>>) : x, y, z \in Adj4} \cup {ObjV(<<Ent(kA, x), Ent(kB, y), Ent(kC, z)>>) : x, y, z \in Adj4}
    [] f = "str2" -> UNION {Wrap(StrV(s)) : s \in Seqs(Cls16, 2)}
    [] f = "str3" -> {StrV(s) : s \in Seqs(Cls9, 3)}
    [] f = "strinv" -> UNION {Wrap(StrV(s)) : s \in {<<c>> : c \in Invisible} \cup {<<"a", c>> : c \in Invisible} \cup {<<c, "QUOTE">> : c \in Invisible}
                                                    \cup {<<c, d>> : c \in Invisible, d \in {"U2028", "UE0067", "BSL"}}}
                         \cup {ObjV(<<Ent(<<c>>, one)>>) : c \in Invisible}
    [] f = "str3wide" -> {StrV(s) : s \in Seqs(Cls16, 3)} \cup {ObjV(<<Ent(kA, StrV(s))>>) : s \in Seqs(Cls9, 3)}
    [] f = "key" -> {ObjV(<<Ent(k, one)>>) : k \in AllKeys}
                    \cup {Canon(ObjV(<<Ent(k, ListV(<<>>)), Ent(kB, one)>>)) : k \in AllKeys \ {kB}}
                    \cup {ListV(<<ObjV(<<Ent(k, sa)>>), one>>) : k \in AllKeys}
    [] f = "key2" -> {Canon(ObjV(<<Ent(k1, one), Ent(k2, sa)>>)) : k1 \in OddKeys \cup EscKeys, k2 \in AllKeys}
    [] f = "sort" -> SortFam(SortKeysQ)
    [] f = "sortwide" -> SortFam(SortKeys)
    [] f = "tree1" -> T1
    [] f = "tree2" -> T2
    [] f = "tree2wide" -> T2wide
    [] f = "tree3" -> T3

KeysDistinct(v) == v.k # "obj" \/ \A i, j \in DOMAIN v.es : i # j => v.es[i].key # v.es[j].key

\* writer modes: all six (form, indent) combinations; string-only families need one indent
Inds(f) == IF f \in {"str3", "str3wide"} THEN {0} ELSE {-1, 0, 2}
RECURSIVE HasWideMap(_)
HasWideMap(v) == CASE v.k = "obj" -> Len(v.es) >= 2 \/ \E i \in DOMAIN v.es : HasWideMap(v.es[i].val)
                   [] v.k = "list" -> \E i \in DOMAIN v.xs : HasWideMap(v.xs[i])
                   [] OTHER -> FALSE
SortModes(v) == IF HasWideMap(v) /\ NumOrders(v) <= MaxOrders THEN {TRUE, FALSE} ELSE {TRUE}

\* -------------------------------------------------------------- machine ----
VARIABLES phase, cs
mcvars == <<phase, cs>>

\* the outcomes the specification allows: one per order in which the map entries may be visited
Outs(v, fmt, ind, sorted, dv) ==
  IF sorted THEN {Outcome(Canon(v), fmt, ind, dv)} ELSE {Outcome(o, fmt, ind, dv) : o \in Orders(Canon(v))}

MCInit == phase = "fam" /\ cs \in {[fam |-> f] : f \in Fams}
MCNext ==
  \/ /\ phase = "fam" /\ phase' = "val"
     /\ cs' \in {[fam |-> cs.fam, v |-> v] : v \in {x \in FamVals(cs.fam) : KeysDistinct(x)}}
  \/ /\ phase = "val" /\ phase' = "case"
     /\ \E fmt \in {"sdl", "json"}, ind \in Inds(cs.fam), sorted \in SortModes(cs.v) :
          cs' = [fam |-> cs.fam, v |-> cs.v, fmt |-> fmt, ind |-> ind, sorted |-> sorted,
                 outs |-> Outs(cs.v, fmt, ind, sorted, ForceDev),
                 outsK |-> IF KnownDev = {} THEN {} ELSE Outs(cs.v, fmt, ind, sorted, KnownDev)]
MCSpec == MCInit /\ [][MCNext]_mcvars

IsCase == phase = "case"

\* ----------------------------------------------------------- invariants ----
ReadWriteSDL == (IsCase /\ cs.fmt = "sdl") => \A o \in cs.outs : o.back = ExpBack(cs.v, "sdl")
ReadWriteJSON == (IsCase /\ cs.fmt = "json") => \A o \in cs.outs : o.back = ExpBack(cs.v, "json")
JsonGrammar == (IsCase /\ cs.fmt = "json") => \A o \in cs.outs : JsonAccepts(o.text) /\ o.jdec = ExpJson(cs.v)
\* the JSON form does not depend on whether a name is a symbol, a variable or a string
JsonFormOfStrs == (IsCase /\ cs.fmt = "json" /\ cs.sorted) =>
                    WriteText(Canon(Strs(cs.v)), "json", cs.ind, {}) = WriteText(Canon(cs.v), "json", cs.ind, {})
\* a guided writer finds the order back from any text the writer can produce
GuideFindsOrder == IsCase => \A o \in cs.outs : WriteGuided(Canon(cs.v), cs.fmt, cs.ind, {}, o.text) = o.text
\* ... also from the texts of the deviating writer (raw keys), so that the judge can attribute them
GuideFindsOrderK == IsCase => \A o \in cs.outsK : WriteGuided(Canon(cs.v), cs.fmt, cs.ind, KnownDev, o.text) = o.text
\* tight and one-line modes never contain a newline; only indent > 0 does
LayoutShape == (IsCase /\ cs.ind <= 0) => \A o \in cs.outs : \A i \in DOMAIN o.text : o.text[i] # "LF"

\* -------------------------------------------------------------- vectors ----
Texts(os) == {o.text : o \in os}
Vector ==
  LET base == [fam |-> cs.fam, v |-> cs.v, fmt |-> cs.fmt, ind |-> cs.ind, sorted |-> cs.sorted,
               back |-> ExpBack(cs.v, cs.fmt),
               jdec |-> IF cs.fmt = "json" THEN ExpJson(cs.v) ELSE NoneV,
               texts |-> Texts(cs.outs)]
  IN IF cs.outsK = {} \/ cs.outsK = cs.outs THEN base
     ELSE base @@ [outsK |-> cs.outsK,
                   kdevs |-> {d \in KnownDev : Outs(cs.v, cs.fmt, cs.ind, cs.sorted, {d}) # cs.outs}]
Emit == IsCase => PrintT("@@VEC " \o ToJson(Vector))

Universe == [cp |-> CP, bad |-> BadBytes, ints |-> IntSpell, floats |-> FloatSpell,
             syms |-> Syms, vars |-> Vars, goodKeys |-> GoodKeys, oddKeys |-> OddKeys, escKeys |-> EscKeys,
             sortKeys |-> SortKeys, tokenCh |-> TokenCh]
ASSUME PrintT("@@UNI " \o ToJson(Universe))
=============================================================================
