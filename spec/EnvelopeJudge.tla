---------------------------- MODULE EnvelopeJudge ----------------------------
(* Judges recorded response skeletons (harness: exec envelope) with Envelope!WellFormed. *)
EXTENDS Envelope, Json

JRecs == ndJsonDeserialize("envelopes.ndjson")
VARIABLE i
JInit == i = 1
JNext == i < Len(JRecs) /\ i' = i + 1
JSpec == JInit /\ [][JNext]_i
Verdict == LET w == WellFormed(JRecs[i]) IN IF AllOK(w) THEN [i |-> i, ok |-> TRUE] ELSE [i |-> i, ok |-> FALSE, w |-> w]
Judge == PrintT("@@VER " \o ToJson(Verdict))
Done == TLCGet("stats").diameter = Len(JRecs) \/ PrintT("@@INCOMPLETE")
=============================================================================
