------------------------------ MODULE GQLCore ------------------------------
(***************************************************************************)
(* Shared vocabulary of the ggql specifications: tagged values, type       *)
(* references, abstract schemas and the fragment applicability relation.   *)
(*                                                                         *)
(* Values are records [k |-> tag, v |-> payload]; two values with the same *)
(* tag have payloads of the same TLA+ type, so TLC never compares a string *)
(* with a number (the tag is compared first).  Tags:                       *)
(*   "null" 0 | "str" s | "int" i | "bool" b | "enum" name | "num" name    *)
(*   "node" id | "list" <<values>> | "obj" [key -> value] | "err" class    *)
(*   "var" name (only inside documents)                                    *)
(*                                                                         *)
(* A universe U is a record                                                *)
(*   types    : type name -> [kind, fields, ifaces, members]               *)
(*              fields : field name -> [type, args]                        *)
(*              args   : sequence of [n, type]                             *)
(*   nodeType : node id -> object type name                                *)
(*   data     : node id -> [field name -> value]                           *)
(*   roots    : [query, mutation] -> node id                               *)
(* It is exported to the Go harness as JSON and can also be imported from  *)
(* it (direction B uses universes generated on the Go side).               *)
(***************************************************************************)
EXTENDS Integers, Sequences, FiniteSets, TLC

V(k, v) == [k |-> k, v |-> v]
NullV == V("null", 0)
StrV(s) == V("str", s)
IntV(i) == V("int", i)
BoolV(b) == V("bool", b)
NodeV(n) == V("node", n)
ListV(s) == V("list", s)
ErrV(c) == V("err", c)

Named(n) == [k |-> "named", n |-> n]
ListOf(t) == [k |-> "list", of |-> t]
NonNull(t) == [k |-> "nonnull", of |-> t]

RECURSIVE BaseName(_)
BaseName(t) == IF t.k = "named" THEN t.n ELSE BaseName(t.of)

Range(f) == {f[i] : i \in DOMAIN f}

HasType(U, n) == n \in DOMAIN U.types
KindOf(U, n) == U.types[n].kind
IsComposite(U, n) == HasType(U, n) /\ KindOf(U, n) \in {"OBJECT", "INTERFACE", "UNION"}
HasField(U, tn, f) == HasType(U, tn) /\ KindOf(U, tn) \in {"OBJECT", "INTERFACE"} /\ f \in DOMAIN U.types[tn].fields
FieldDef(U, tn, f) == U.types[tn].fields[f]

\* a fragment with type condition cond applies to an object of concrete type tn
\* iff tn is cond, implements cond, or is a member of cond
Applies(U, cond, tn) ==
  \/ cond = tn
  \/ /\ HasType(U, cond) /\ HasType(U, tn)
     /\ \/ KindOf(U, cond) = "INTERFACE" /\ cond \in Range(U.types[tn].ifaces)
        \/ KindOf(U, cond) = "UNION" /\ tn \in Range(U.types[cond].members)

\* sequence helpers
RECURSIVE Dedup(_)
Dedup(s) == IF s = <<>> THEN <<>>
            ELSE LET r == Dedup(SubSeq(s, 1, Len(s) - 1))
                 IN IF s[Len(s)] \in Range(r) THEN r ELSE Append(r, s[Len(s)])

RECURSIVE Flatten(_)
Flatten(ss) == IF ss = <<>> THEN <<>> ELSE Head(ss) \o Flatten(Tail(ss))

PathKey(k) == "k:" \o k
PathIdx(i) == "i:" \o ToString(i)
=============================================================================
