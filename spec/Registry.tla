------------------------------ MODULE Registry ------------------------------
(***************************************************************************)
(* Subscription registry of ggql (Root.subscribe / Unsubscribe / AddEvent) *)
(* at the granularity of its critical sections ("blocks"): everything a    *)
(* goroutine does between acquiring and releasing the registry lock is one *)
(* atomic action.  AddEvent is two blocks (deliver, then clean up the      *)
(* failed subscribers) with a gap in between in which other goroutines may *)
(* run.  This module states WHAT each block must do (properties C19, C20); *)
(* RegistryLock.tla models HOW root.go does it (mutex, reverse index scan  *)
(* with in-place deletion, identity comparison) and is checked to refine   *)
(* this module.  The Go harness replays behaviours of this module into the *)
(* real code and RegistryTrace.tla judges behaviours recorded from it.     *)
(***************************************************************************)
EXTENDS Integers, Sequences, FiniteSets, TLC

CONSTANTS
  Procs,     \* set of process (goroutine) ids
  MaxOps,    \* operations each process may start
  Pool,      \* sequence of subscriber descriptions [pat, sel, failAt, hide, tag]
  Ids,       \* event ids used by publish / unsubscribe
  EvIds,     \* events that may be published
  InitRegs,  \* set of possible initial registries (sequences over 1..Len(Pool))
  SelKeys,   \* function: selection id -> sequence of <<responseKey, fieldName, condition, form>>
  EvVals     \* function: event id -> [fieldName -> value]

Subs == 1..Len(Pool)
Range(f) == {f[i] : i \in DOMAIN f}

\* The harness subscriber's Match: exact id or wildcard pattern "*".
Match(s, id) == Pool[s].pat = "*" \/ Pool[s].pat = id

\* "the subscriber's own selection set applied to the event"
\* A selection is <<responseKey, fieldName, condition, form>> (form: where the directive is written - on the field, on an
\* inline fragment or on the spread of a named fragment around it; it makes no difference): "" always there, "skip" carries @skip(if: $hide), "incl"
\* @include(if: $hide), where $hide is a variable of the SUBSCRIBER'S request (given with it or defaulted there).
\* A key with the condition "arg" selects a field of the event that takes an argument and answers with what it was given:
\* the argument is written as a literal that HOLDS the variable $tag of the subscriber's request (in an input object, form
\* "", or as the last member of a list, form "list"); the value under that key is the subscriber's tag.
Shown(s, k) == k[3] \in {"", "arg"} \/ (k[3] = "skip" /\ ~Pool[s].hide) \/ (k[3] = "incl" /\ Pool[s].hide)
MsgOf(s, ev) ==
  LET ks == SelectSeq(SelKeys[Pool[s].sel], LAMBDA k : Shown(s, k))
  IN  [i \in 1..Len(ks) |-> <<ks[i][1], IF ks[i][3] = "arg" THEN [k |-> "str", v |-> Pool[s].tag] ELSE EvVals[ev][ks[i][2]]>>]

VARIABLES
  reg,        \* the registry: sequence of subscribers in registration order
  used,       \* subscribers that have been handed to subscribe (each Go object is subscribed once)
  sends,      \* number of Send calls each subscriber has received
  pc,         \* per process: "idle" | "gap" (between the two blocks of a publish)
  nops,       \* operations started per process
  failed,     \* per process: subscribers whose Send failed in the publish in progress
  \* ---- history (not part of the implementation state) ----
  delivered,  \* sequence of [pub, s, msg]: every Send call ever made, in order
  cleanups,   \* number of clean-up (Subscriber.Unsubscribe) calls per subscriber
  removed,    \* subscribers that have been taken out of the registry
  pubSeq,     \* number of publishes started
  curPub,     \* per process: sequence number of the publish in progress
  hist        \* sequence of block records with their outputs (for conformance)

impl == <<reg, used, sends, pc, nops, failed>>
hvars == <<delivered, cleanups, removed, pubSeq, curPub>>
vars == <<impl, hvars, hist>>

Sel(seq, P(_)) == SelectSeq(seq, P)

Init ==
  /\ reg \in InitRegs
  /\ used = Range(reg)
  /\ sends = [s \in Subs |-> 0]
  /\ pc = [p \in Procs |-> "idle"]
  /\ nops = [p \in Procs |-> 0]
  /\ failed = [p \in Procs |-> <<>>]
  /\ delivered = <<>>
  /\ cleanups = [s \in Subs |-> 0]
  /\ removed = {}
  /\ pubSeq = 0
  /\ curPub = [p \in Procs |-> 0]
  /\ hist = << [p |-> 0, b |-> "init", reg |-> reg] >>

CanStart(p) == pc[p] = "idle" /\ nops[p] < MaxOps

\* subscription request: the resolver returned subscriber s; Root.subscribe appends it.
Subscribe(p, s) ==
  /\ CanStart(p) /\ s \notin used
  /\ reg' = Append(reg, s)
  /\ used' = used \cup {s}
  /\ nops' = [nops EXCEPT ![p] = @ + 1]
  /\ hist' = Append(hist, [p |-> p, b |-> "sub", s |-> s, reg |-> reg'])
  /\ UNCHANGED <<sends, pc, failed, hvars>>

\* A subscription request that is refused - one of its root fields fails - registers nothing, whatever its other root
\* fields resolved to: a stuttering step (allowed by [][Next]_vars; the harness sends such requests before subscribing).
SubscribeRefused(p, s) == UNCHANGED vars

\* Root.Unsubscribe(id): remove exactly the matching subscribers, clean each up once.
Unsubscribe(p, id) ==
  /\ CanStart(p)
  /\ LET gone == {s \in Range(reg) : Match(s, id)} IN
       /\ reg' = Sel(reg, LAMBDA s : s \notin gone)
       /\ cleanups' = [s \in Subs |-> IF s \in gone THEN cleanups[s] + 1 ELSE cleanups[s]]
       /\ removed' = removed \cup gone
       /\ hist' = Append(hist, [p |-> p, b |-> "unsub", id |-> id, cnt |-> Cardinality(gone),
                                cleaned |-> gone, reg |-> reg'])
  /\ nops' = [nops EXCEPT ![p] = @ + 1]
  /\ UNCHANGED <<used, sends, pc, failed, delivered, pubSeq, curPub>>

\* Root.AddEvent(id, ev), first block: one message to every registered matching
\* subscriber, in registration order; remember those whose Send failed.
Publish1(p, id, ev) ==
  /\ CanStart(p)
  /\ LET m == Sel(reg, LAMBDA s : Match(s, id))
         fails(s) == Pool[s].failAt # 0 /\ sends[s] + 1 = Pool[s].failAt
         out == [i \in 1..Len(m) |-> [pub |-> pubSeq + 1, s |-> m[i], msg |-> MsgOf(m[i], ev)]]
     IN /\ delivered' = delivered \o out
        /\ sends' = [s \in Subs |-> IF s \in Range(m) THEN sends[s] + 1 ELSE sends[s]]
        /\ failed' = [failed EXCEPT ![p] = Sel(m, fails)]
        /\ hist' = Append(hist, [p |-> p, b |-> "pub1", id |-> id, ev |-> ev, cnt |-> Len(m),
                                 sent |-> [i \in 1..Len(m) |-> <<m[i], MsgOf(m[i], ev)>>],
                                 err |-> (Sel(m, fails) # <<>>), reg |-> reg])
  /\ pubSeq' = pubSeq + 1
  /\ curPub' = [curPub EXCEPT ![p] = pubSeq + 1]
  /\ pc' = [pc EXCEPT ![p] = "gap"]
  /\ nops' = [nops EXCEPT ![p] = @ + 1]
  /\ UNCHANGED <<reg, used, cleanups, removed>>

\* AddEvent, second block: the subscribers that failed and are still registered
\* are removed and cleaned up (those already removed by someone else are not touched).
Publish2(p) ==
  /\ pc[p] = "gap"
  /\ LET gone == Range(failed[p]) \cap Range(reg) IN
       /\ reg' = Sel(reg, LAMBDA s : s \notin gone)
       /\ cleanups' = [s \in Subs |-> IF s \in gone THEN cleanups[s] + 1 ELSE cleanups[s]]
       /\ removed' = removed \cup gone
       /\ hist' = Append(hist, [p |-> p, b |-> "pub2", cleaned |-> gone, reg |-> reg'])
  /\ failed' = [failed EXCEPT ![p] = <<>>]
  /\ pc' = [pc EXCEPT ![p] = "idle"]
  /\ UNCHANGED <<used, sends, nops, delivered, pubSeq, curPub>>

Next ==
  \E p \in Procs :
     \/ \E s \in Subs : Subscribe(p, s)
     \/ \E id \in Ids \cup {"*"} : Unsubscribe(p, id)
     \/ \E id \in Ids, ev \in EvIds : Publish1(p, id, ev)
     \/ Publish2(p)

Spec == Init /\ [][Next]_vars
FairSpec == Spec /\ \A p \in Procs : WF_vars(Publish2(p))

-----------------------------------------------------------------------------
(* State invariants *)

TypeOK ==
  /\ reg \in Seq(Subs) /\ used \subseteq Subs
  /\ \A p \in Procs : pc[p] \in {"idle", "gap"}

\* the registry holds exactly the subscribers subscribed and not yet removed
RegistryExact == Range(reg) = used \ removed
NoDup == \A i, j \in 1..Len(reg) : reg[i] = reg[j] => i = j
\* C20: each publish is delivered at most once to each subscriber
AtMostOncePerPublish ==
  \A i, j \in 1..Len(delivered) :
     (delivered[i].pub = delivered[j].pub /\ delivered[i].s = delivered[j].s) => i = j
\* C19/C20: clean-up at most once, and exactly once for a removed subscriber
CleanupAtMostOnce == \A s \in Subs : cleanups[s] <= 1
CleanupIffRemoved == \A s \in Subs : (cleanups[s] = 1) <=> (s \in removed)
\* a subscriber is removed by a publish only after one of its deliveries failed
FailedOnlyAfterFailure ==
  \A p \in Procs : \A i \in 1..Len(failed[p]) :
     Pool[failed[p][i]].failAt # 0 /\ sends[failed[p][i]] >= Pool[failed[p][i]].failAt
IdleHasNoFailed == \A p \in Procs : pc[p] = "idle" => failed[p] = <<>>

-----------------------------------------------------------------------------
(* Action properties *)

NewDeliveries == SubSeq(delivered', Len(delivered) + 1, Len(delivered'))

\* C19: nothing is delivered to a subscriber after it has been removed
NoDeliveryAfterRemovalStep == \A i \in 1..Len(NewDeliveries) : NewDeliveries[i].s \notin removed
NoDeliveryAfterRemoval == [][NoDeliveryAfterRemovalStep]_vars
\* C19: a publish reaches every registered matching subscriber exactly once, in registration order
PublishDelivers ==
  [][pubSeq' # pubSeq =>
       LET nd == NewDeliveries
       IN  /\ \A i \in 1..Len(nd) : nd[i].pub = pubSeq'
           /\ [i \in 1..Len(nd) |-> nd[i].s]
                = Sel(reg, LAMBDA s : \E i \in 1..Len(nd) : nd[i].s = s)
           /\ \A s \in Range(reg) : (\E i \in 1..Len(nd) : nd[i].s = s) <=> (\E id \in Ids : Match(s, id) /\ hist'[Len(hist')].id = id)
    ]_vars
\* removal is permanent: a removed subscriber never reappears
RemovalPermanentStep == removed \subseteq removed' /\ Range(reg') \cap removed' = {}
RemovalPermanent == [][RemovalPermanentStep]_vars
\* delivered is append-only
DeliveredAppendOnlyStep == Len(delivered') >= Len(delivered) /\ SubSeq(delivered', 1, Len(delivered)) = delivered
DeliveredAppendOnly == [][DeliveredAppendOnlyStep]_vars

\* Liveness (FairSpec): every started publish finishes its clean-up block
PublishCompletes == \A p \in Procs : (pc[p] = "gap") ~> (pc[p] = "idle")
=============================================================================
