----------------------------- MODULE LoaderTrace -----------------------------
(***************************************************************************)
(* Trace validation for the loader (C14, C16, C13 direction B): histories  *)
(* of loads generated and executed on the Go side (random well-formed      *)
(* definition sets, random arrangements, injected failing definitions and  *)
(* reader faults) are recorded as                                          *)
(*   [r |-> "reset"]                        a fresh Root                   *)
(*   [r |-> "load", doc, ok, canon]         one ParseReader call: the      *)
(*        document (abstract definitions), whether it returned nil, and    *)
(*        the schema read back from the root afterwards                    *)
(* A load record is accepted only if Loader!LoadResult from the current    *)
(* specification state gives the same verdict and the same canonical       *)
(* schema; the specification state then advances.  KnownDev: second oracle *)
(* for the verdict (validation rules ggql is known not to enforce).        *)
(***************************************************************************)
EXTENDS Loader, Json

CONSTANT KnownDev

JRecs == ndJsonDeserialize("loads.ndjson")

VARIABLES i, st
tvars == <<i, st>>

\* the read-back as the harness writes it (JSON arrays for sets) in the shape of SchemaCore!Canon
UsesJ(us) == {[n |-> us[k].n, args |-> us[k].args] : k \in DOMAIN us}
ArgsJ(as) == [n \in DOMAIN as |-> [type |-> as[n].type, hasDef |-> as[n].hasDef, def |-> as[n].def, desc |-> as[n].desc, dirs |-> UsesJ(as[n].dirs)]]
DefJ(d) ==
  [ kind |-> d.kind, desc |-> d.desc, ifaces |-> Range(d.ifaces), members |-> Range(d.members), locs |-> Range(d.locs),
    fields |-> [n \in DOMAIN d.fields |-> [type |-> d.fields[n].type, desc |-> d.fields[n].desc, args |-> ArgsJ(d.fields[n].args), dirs |-> UsesJ(d.fields[n].dirs)]],
    values |-> [n \in DOMAIN d.values |-> [desc |-> d.values[n].desc, dirs |-> UsesJ(d.values[n].dirs)]],
    infields |-> ArgsJ(d.infields), args |-> ArgsJ(d.args), dirs |-> UsesJ(d.dirs) ]
CanonJ(c) == [types |-> [n \in DOMAIN c.types |-> DefJ(c.types[n])], dirs |-> [n \in DOMAIN c.dirs |-> DefJ(c.dirs[n])], roots |-> c.roots]

TInit == i = 1 /\ st = EmptySchema

Rec == JRecs[i]
Strict == LoadResult(st, Rec.doc, {})
WithK == LoadResult(st, Rec.doc, KnownDev)
Matches(r) == r.ok = Rec.ok /\ Canon(r.s) = CanonJ(Rec.canon)

Step ==
  /\ i <= Len(JRecs)
  /\ i' = i + 1
  /\ st' = IF Rec.r = "reset" THEN EmptySchema
           ELSE IF Matches(Strict) THEN Strict.s
           ELSE IF Matches(WithK) THEN WithK.s
           ELSE st                                  \* not explained: reported by Verdict; resynchronise at the next reset
TSpec == TInit /\ [][Step]_tvars

Verdict ==
  IF i > Len(JRecs) \/ Rec.r = "reset" THEN [i |-> i, ok |-> TRUE]
  ELSE IF Matches(Strict) THEN [i |-> i, ok |-> TRUE]
  ELSE IF Matches(WithK) THEN [i |-> i, ok |-> FALSE, known |-> TRUE,
                               kdevs |-> {d \in KnownDev : LoadResult(st, Rec.doc, {d}).ok # Strict.ok}]
  ELSE [i |-> i, ok |-> FALSE, known |-> FALSE, modelOk |-> Strict.ok, why |-> Strict.why, off |-> Strict.off,
        sameSchema |-> Canon(Strict.s) = CanonJ(Rec.canon)]
Judge == i <= Len(JRecs) => PrintT("@@VER " \o ToJson(Verdict))
\* C14 along recorded behaviours: a load that returned an error left the read-back schema as it was
AtomicObserved == (i > 1 /\ i <= Len(JRecs) + 1 /\ JRecs[i - 1].r = "load" /\ ~JRecs[i - 1].ok /\ i - 2 >= 1 /\ JRecs[i - 2].r = "load")
                     => CanonJ(JRecs[i - 1].canon) = CanonJ(JRecs[i - 2].canon)
Done == TLCGet("stats").diameter = Len(JRecs) + 1 \/ PrintT("@@INCOMPLETE")
=============================================================================
