---------------------------- MODULE LazyUniverse ----------------------------
(***************************************************************************)
(* U-lazy: the universe of the C12 check (spec/LazyBind.tla).              *)
(*                                                                         *)
(* A schema with object types, an interface and a union, realised by Go    *)
(* structs and methods (harness/lazybind/lazyuni - only their shape is     *)
(* written in Go, because reflection cannot create methods).  One object   *)
(* type, Canine, is realised by a Go type with a DIFFERENT name (Dog), so  *)
(* that its binding must be discovered; three worlds differ in how that    *)
(* binding is made known:                                                  *)
(*    plain       not at all (only learned when a Dog is met in a          *)
(*                Canine-typed position)                                   *)
(*    godir       by an @go directive in the schema                        *)
(*    registered  by Root.RegisterType before the first request            *)
(*                                                                         *)
(* A request is its text plus the visits its resolution makes (checked     *)
(* against the real code by the access-log judge LazyBindTrace) plus the   *)
(* response prescribed for each outcome of its last visit.                 *)
(* Exported to the Go harness through the "@@UNI" line; nothing here is    *)
(* duplicated on the Go side except the Go types themselves.               *)
(***************************************************************************)
EXTENDS GQLCore

TSchema == "*lazyuni.Schema"
TQuery  == "*lazyuni.Query"
TDog    == "*lazyuni.Dog"
TCat    == "*lazyuni.Cat"
TOther  == "*lazyuni.Other"

SdlHead == "type Query { title: String  echo(s: String, i: Int): String  dog: Canine  cat: Cat  pet: Animal  stray: Animal  any: Thing  any2: Thing  odd: Thing } "
           \o "interface Animal { name: String } "
SdlTail == "{ name: String  bark(times: Int): String } "
           \o "type Cat implements Animal { name: String  lives: Int } "
           \o "type Other { x: Int } "
           \o "union Thing = Cat | Canine "          \* (members not in the order the root keeps its types in)

BaseFields ==
  [schema |-> {"query"},
   Query  |-> {"title", "echo", "dog", "cat", "pet", "stray", "any", "any2", "odd"},
   Canine |-> {"name", "bark"}, Cat |-> {"name", "lives"}, Other |-> {"x"}]

BaseWorld ==
  [ sdl     |-> SdlHead \o "type Canine implements Animal " \o SdlTail,
    register |-> <<>>,                       \* <<Go type, GraphQL type>> pairs for Root.RegisterType
    scan    |-> <<"Query", "Canine", "Cat", "Other">>,     \* object types in Root.types order (Query first, then by name)
    objs    |-> {"schema", "Query", "Canine", "Cat", "Other"},
    ifaces  |-> [schema |-> {}, Query |-> {}, Canine |-> {"Animal"}, Cat |-> {"Animal"}, Other |-> {}],
    members |-> [Thing |-> <<"Cat", "Canine">>],
    static  |-> [schema |-> "", Query |-> "", Canine |-> "", Cat |-> "", Other |-> ""],
    match   |-> [schema |-> {}, Query |-> {TQuery}, Canine |-> {}, Cat |-> {TCat}, Other |-> {TOther}],
    fields  |-> BaseFields,
    fds     |-> UNION {{<<o, f>> : f \in BaseFields[o]} : o \in DOMAIN BaseFields},   \* all field definitions
    gobind  |-> [x \in {TSchema, TQuery, TDog, TCat, TOther} |->
                   CASE x = TSchema -> [query |-> "method"]
                     [] x = TQuery  -> [title |-> "method", echo |-> "method", dog |-> "method", cat |-> "method",
                                        pet |-> "method", stray |-> "method", any |-> "method", any2 |-> "method", odd |-> "method"]
                     [] x = TDog    -> [name |-> "field", bark |-> "method"]
                     [] x = TCat    -> [name |-> "field", lives |-> "field"]
                     [] x = TOther  -> [x |-> "field"]] ]

LazyWorlds ==
  [ plain      |-> BaseWorld,
    godir      |-> [BaseWorld EXCEPT !.sdl = SdlHead \o "type Canine implements Animal @go(type: \"lazyuni.Dog\") " \o SdlTail,
                                     !.match = [@ EXCEPT !.Canine = {TDog}]],
    registered |-> [BaseWorld EXCEPT !.register = << <<"Dog", "Canine">> >>,
                                     !.static = [@ EXCEPT !.Canine = TDog]] ]

-----------------------------------------------------------------------------
LVisit(k, o, a, T, f) == [k |-> k, o |-> o, a |-> a, T |-> T, f |-> f]
VSchema == LVisit("obj", "schema", "", TSchema, "query")
VQ(f) == LVisit("obj", "Query", "", TQuery, f)

ObjV(f) == V("obj", f)
Resp(data) == [hasData |-> TRUE, data |-> ObjV(data), errs |-> <<>>, calls |-> <<>>]
RespErr(data, paths) == [hasData |-> TRUE, data |-> ObjV(data),
                         errs |-> [i \in DOMAIN paths |-> [path |-> paths[i], class |-> "resolver", name |-> ""]], calls |-> <<>>]
NoVars == [x \in {} |-> NullV]
Req(text, vars, visits, resp) == [text |-> text, op |-> "", vars |-> vars, visits |-> visits, resp |-> resp]

LazyReqs ==
  [ title  |-> Req("{ title }", NoVars, <<VSchema, VQ("title")>>,
                   [val |-> Resp([title |-> StrV("T")])]),
    echo   |-> Req("{ echo(s: \"x\", i: 3) }", NoVars, <<VSchema, VQ("echo")>>,
                   [val |-> Resp([echo |-> StrV("x/3")])]),
    echov  |-> Req("query($s: String, $i: Int) { echo(s: $s, i: $i) }", [s |-> StrV("y"), i |-> IntV(4)], <<VSchema, VQ("echo")>>,
                   [val |-> Resp([echo |-> StrV("y/4")])]),
    dog    |-> Req("{ dog { name bark(times: 2) } }", NoVars,
                   <<VSchema, VQ("dog"), LVisit("obj", "Canine", "", TDog, "name"), LVisit("obj", "Canine", "", TDog, "bark")>>,
                   [val |-> Resp([dog |-> ObjV([name |-> StrV("rex"), bark |-> StrV("woof woof")])])]),
    cat    |-> Req("{ cat { name lives } }", NoVars,
                   <<VSchema, VQ("cat"), LVisit("obj", "Cat", "", TCat, "name"), LVisit("obj", "Cat", "", TCat, "lives")>>,
                   [val |-> Resp([cat |-> ObjV([name |-> StrV("tom"), lives |-> IntV(9)])])]),
    pet    |-> Req("{ pet { __typename name } }", NoVars,
                   <<VSchema, VQ("pet"), LVisit("iface", "", "Animal", TCat, "name")>>,
                   [val |-> Resp([pet |-> ObjV([__typename |-> StrV("Cat"), name |-> StrV("tom")])])]),
    stray  |-> Req("{ stray { __typename name } }", NoVars,
                   <<VSchema, VQ("stray"), LVisit("iface", "", "Animal", TDog, "name")>>,
                   [val  |-> Resp([stray |-> ObjV([__typename |-> StrV("Canine"), name |-> StrV("rex")])]),
                    late |-> Resp([stray |-> ObjV([__typename |-> StrV("Animal"), name |-> StrV("rex")])]),
                    null |-> Resp([stray |-> ObjV([__typename |-> StrV("Animal"), name |-> NullV])])]),
    anycat |-> Req("{ any { ... on Cat { name } } }", NoVars,
                   <<VSchema, VQ("any"), LVisit("union", "", "Thing", TCat, "name")>>,
                   [val |-> Resp([any |-> ObjV([name |-> StrV("tom")])])]),
    anydog |-> Req("{ any2 { ... on Canine { name } } }", NoVars,
                   <<VSchema, VQ("any2"), LVisit("union", "", "Thing", TDog, "name")>>,
                   [val |-> Resp([any2 |-> ObjV([name |-> StrV("rex")])]),
                    err |-> RespErr([any2 |-> NullV], << <<"k:any2">> >>)]),
    \* a value that is no member of the union: an error, whichever members have been bound to Go types by then
    odd    |-> Req("{ odd { __typename } }", NoVars,
                   <<VSchema, VQ("odd"), LVisit("union", "", "Thing", TOther, "x")>>,
                   [err |-> RespErr([odd |-> NullV], << <<"k:odd">> >>)]),
    intro  |-> Req("{ __type(name: \"Cat\") { name kind interfaces { name } } }", NoVars,
                   <<VSchema, LVisit("intro", "", "", "", "")>>,
                   [val |-> Resp([__type |-> ObjV([name |-> StrV("Cat"), kind |-> StrV("OBJECT"),
                                                   interfaces |-> ListV(<<ObjV([name |-> StrV("Animal")])>>)])])]),
    \* what a union can be is asked while values of the union are being resolved: the members are read, never rearranged
    introu |-> Req("{ __type(name: \"Thing\") { possibleTypes { name } } u: __type(name: \"Animal\") { possibleTypes { name } } }", NoVars,
                   <<VSchema, LVisit("intro", "", "", "", "")>>,
                   [val |-> Resp([__type |-> ObjV([possibleTypes |-> ListV(<<ObjV([name |-> StrV("Canine")]), ObjV([name |-> StrV("Cat")])>>)]),
                                  u |-> ObjV([possibleTypes |-> ListV(<<ObjV([name |-> StrV("Canine")]), ObjV([name |-> StrV("Cat")])>>)])])]) ]

\* the order in which request names are enumerated (pairs i <= j)
LazyReqSeq == <<"title", "echo", "echov", "dog", "cat", "pet", "stray", "anycat", "anydog", "odd", "intro", "introu">>

LazyUni == [worlds |-> LazyWorlds, reqs |-> LazyReqs, reqSeq |-> LazyReqSeq]
=============================================================================
