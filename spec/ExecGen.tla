------------------------------ MODULE ExecGen ------------------------------
(***************************************************************************)
(* Document spaces over U-exec, built level by level so that every member  *)
(* is a valid document by construction (DESIGN.md §3.1: constructing beats *)
(* generate-and-filter).  Each family targets a feature combination of the *)
(* property statements; a configuration enumerates some families           *)
(* completely.  A case is [fam, doc, op, vars, faults].                    *)
(***************************************************************************)
EXTENDS Sem, ExecUniverse

F(alias, name) == [k |-> "field", alias |-> alias, name |-> name, args |-> <<>>, dirs |-> <<>>, sels |-> <<>>, bad |-> ""]
FS(alias, name, sels) == [F(alias, name) EXCEPT !.sels = sels]
FA(alias, name, args) == [F(alias, name) EXCEPT !.args = args]
Arg(n, v) == [n |-> n, v |-> v]
Var(n) == V("var", n)
Inl(cond, sels) == [k |-> "inline", cond |-> cond, dirs |-> <<>>, sels |-> sels, bad |-> ""]
Spr(name) == [k |-> "spread", name |-> name, dirs |-> <<>>, bad |-> ""]
Bad(s, b) == [s EXCEPT !.bad = b]
Frg(name, cond, sels) == [name |-> name, cond |-> cond, sels |-> sels, bad |-> ""]
BadFrg(name, cond, sels, b) == [name |-> name, cond |-> cond, sels |-> sels, bad |-> b]     \* a defective directive on the definition
Dir(n, v) == [n |-> n, v |-> v]
WithDirs(s, ds) == [s EXCEPT !.dirs = ds]
SeqsUpTo(X, n) == UNION {[1..m -> X] : m \in 1..n}
One(X) == {<<x>> : x \in X}

Op(name, type, vars, sels) == [name |-> name, type |-> type, vars |-> vars, sels |-> sels]
VarDef(n, t) == [n |-> n, t |-> t, hasDef |-> FALSE, def |-> NullV]
VarDefD(n, t, d) == [n |-> n, t |-> t, hasDef |-> TRUE, def |-> d]
Doc1(sels) == [ops |-> <<Op("", "query", <<>>, sels)>>, frags |-> <<>>]
DocF(sels, frags) == [ops |-> <<Op("", "query", <<>>, sels)>>, frags |-> frags]
Doc1V(vds, sels) == [ops |-> <<Op("Q", "query", vds, sels)>>, frags |-> <<>>]
NoVars == [x \in {} |-> NullV]
Case(fam, doc, op, vars, faults) == [fam |-> fam, doc |-> doc, op |-> op, vars |-> vars, faults |-> faults]
Plain(fam, sels) == Case(fam, Doc1(sels), "", NoVars, {})

LeafA == {F("", "name"), F("x", "name"), F("", "n"), F("", "__typename")}
LeafB == {F("", "name"), F("", "flag"), F("y", "__typename")}
LeafQ == {F("", "title"), F("x", "title"), F("", "__typename"), F("", "grid"), F("g", "grid")}
A0 == SeqsUpTo(LeafA, 2)
A0one == One(LeafA)
B0one == One(LeafB)

\* ---- flat selections, aliases, lists of lists ----------------------------
FamFlat == {Plain("flat", s) : s \in SeqsUpTo(LeafQ, 3)}

\* ---- one level of nesting: object, null object, list with a null member --
TopA == {"a", "nul", "items", "matrix"}
FamNest1 ==
  {Plain("nest1", <<FS(al, top, sub)>>) : al \in {"", "z"}, top \in TopA, sub \in A0}
    \cup {Plain("nest1", <<FS("", top, sub), l>>) : top \in TopA, sub \in A0one, l \in LeafQ}
    \cup {Plain("nest1", <<l, FS("", top, sub)>>) : top \in TopA, sub \in A0one, l \in LeafQ}

\* ---- two levels: cycle (peer, self), list in list of objects, empty list --
A1 == {FS("", "self", s) : s \in A0one} \cup {FS("", "kids", s) : s \in A0one}
        \cup {FS("p", "peer", s) : s \in B0one} \cup {F("", "name")}
FamNest2 == {Plain("nest2", <<FS("", top, sub)>>) : top \in {"a", "items"}, sub \in SeqsUpTo(A1, 2)}
FamNest3 == {Plain("nest3", <<FS("", "a", <<FS("", "peer", <<FS("", "peer", <<FS("", "self", s)>>)>>)>>)>>) : s \in A0}
              \cup {Plain("nest3", <<FS("", "items", <<FS("", "kids", <<FS("k", "kids", s), F("", "n")>>)>>)>>) : s \in A0one}

\* ---- inline fragments: no condition, own type, unrelated type ------------
CondSels == [c \in {"", "A"} |-> A0one] @@ [c \in {"B"} |-> B0one] @@ [c \in {"C"} |-> {<<F("", "only")>>}]
InlineOK(c, s) == s \in CondSels[c]
FamInline1 ==
  {Plain("inline", <<FS("", top, <<Inl(c, s)>>)>>) :
       top \in {"a", "items"}, <<c, s>> \in {cs \in {"", "A", "B", "C"} \X (A0one \cup B0one \cup {<<F("", "only")>>}) : InlineOK(cs[1], cs[2])}}
FamInline2 ==
  {Plain("inline", <<FS("", "a", <<Inl(c, s), l>>)>>) :
       l \in LeafA, <<c, s>> \in {cs \in {"", "A", "B"} \X (A0one \cup B0one) : InlineOK(cs[1], cs[2])}}
  \cup {Plain("inline", <<FS("", "a", <<l, Inl(c, s)>>)>>) :
       l \in LeafA, <<c, s>> \in {cs \in {"", "A", "B"} \X (A0one \cup B0one) : InlineOK(cs[1], cs[2])}}
  \cup {Plain("inline", <<FS("", "a", <<Inl("", <<Inl(c, s)>>)>>)>>) : c \in {"", "A"}, s \in A0one}
  \cup {Plain("inline", <<Inl(c, <<l>>)>>) : c \in {"", "Query"}, l \in LeafQ}
  \cup {Plain("inline", <<Inl(c, <<FS("", "a", s)>>), F("", "title")>>) : c \in {"", "Query"}, s \in A0one}

\* ---- named fragments ------------------------------------------------------
FamSpread ==
  {Case("spread", DocF(<<FS("", top, <<Spr("F")>>)>>, <<Frg("F", c, s)>>), "", NoVars, {}) :
       top \in {"a", "items"}, <<c, s>> \in {cs \in {"A", "B"} \X (A0one \cup B0one) : InlineOK(cs[1], cs[2])}}
  \cup {Case("spread", DocF(<<FS("", "a", <<Spr("F"), l>>)>>, <<Frg("F", "A", s)>>), "", NoVars, {}) : l \in LeafA, s \in A0one}
  \cup {Case("spread", DocF(<<FS("", "a", <<l, Spr("F")>>)>>, <<Frg("F", "A", s)>>), "", NoVars, {}) : l \in LeafA, s \in A0one}
  \cup {Case("spread", DocF(<<FS("", "a", <<Spr("F")>>)>>, <<Frg("F", "A", <<F("", "name"), Spr("G")>>), Frg("G", "A", s)>>), "", NoVars, {}) : s \in A0one}
  \cup {Case("spread", DocF(<<Spr("Q")>>, <<Frg("Q", "Query", <<l, FS("", "a", s)>>)>>), "", NoVars, {}) : l \in LeafQ, s \in A0one}
  \cup {Case("spread", DocF(<<FS("", "a", <<FS("", "self", <<Spr("F")>>), Spr("F")>>)>>, <<Frg("F", "A", s)>>), "", NoVars, {}) : s \in A0one}

\* ---- equal response keys must merge their sub-selections ----------------
FamDups ==
  {Plain("dups", <<FS(al, top, s1), FS(al, top, s2)>>) : al \in {"", "z"}, top \in {"a", "items", "matrix"}, s1 \in A0one, s2 \in A0one}
  \cup {Plain("dups", <<FS("", top, s1), Inl(c, <<FS("", top, s2)>>)>>) : c \in {"", "Query"}, top \in {"items", "matrix"}, s1 \in A0one, s2 \in A0one}
  \cup {Plain("dups", <<FS("", "matrix", <<FS("", "kids", s1)>>), FS("", "matrix", <<FS("", "kids", s2), F("", "n")>>)>>) : s1 \in A0one, s2 \in A0one}
  \cup {Plain("dups", <<FS("", "a", <<FS("", "self", s1)>>), FS("", "a", <<FS("", "self", s2)>>)>>) : s1 \in A0one, s2 \in A0one}
  \cup {Plain("dups", <<l, l>>) : l \in LeafQ}
  \cup {Plain("dups", <<FS("", "a", <<l, l, F("", "n")>>)>>) : l \in LeafA}
  \cup {Plain("dups", <<FS("", "a", s1), Inl("Query", <<FS("", "a", s2)>>)>>) : s1 \in A0one, s2 \in A0one}

\* ---- arguments: literals, variables, defaults, order ---------------------
SArg == {Arg("s", StrV("v")), Arg("s", Var("sv"))}
BArg == {Arg("b", BoolV(TRUE)), Arg("b", Var("bv"))}
IArg == {Arg("i", IntV(3))}
ArgSeqs == {<<>>} \cup One(SArg) \cup One(BArg) \cup One(IArg)
             \cup {<<x, y>> : x \in SArg, y \in BArg} \cup {<<y, x>> : x \in SArg, y \in BArg}
             \cup {<<x, y, z>> : x \in SArg, y \in BArg, z \in IArg} \cup {<<z, y, x>> : x \in SArg, y \in BArg, z \in IArg}
ArgVarDefs == {<<VarDef("sv", S), VarDef("bv", B)>>, <<VarDefD("sv", S, StrV("dflt")), VarDefD("bv", B, BoolV(FALSE))>>}
ArgGiven == {NoVars, [sv |-> StrV("given"), bv |-> BoolV(TRUE)], [sv |-> StrV("only-s")]}
DocV(vds, sels) == [ops |-> <<Op("", "query", vds, sels)>>, frags |-> <<>>]
FamArgs ==
  {Case("args", DocV(vds, <<FA(al, "echo", as)>>), "", g, {}) : al \in {"", "e"}, as \in ArgSeqs, vds \in ArgVarDefs, g \in ArgGiven}
  \cup {Case("args", DocV(vds, <<FA("", "need", <<Arg("x", v)>>), F("", "title")>>), "", g, {}) :
          v \in {StrV("lit"), Var("sv")}, vds \in {<<VarDefD("sv", S, StrV("dflt")), VarDef("bv", B)>>}, g \in ArgGiven}
  \cup {Case("args", DocV(vds, <<FS("", "a", <<FA("t", "tag", as), F("", "name")>>)>>), "", g, {}) :
          as \in One(SArg), vds \in ArgVarDefs, g \in ArgGiven}

\* ---- several operations, operation names, mutation ------------------------
OpsAB == <<Op("A", "query", <<>>, <<F("", "title")>>), Op("B", "query", <<>>, <<FS("", "a", <<F("", "name")>>)>>)>>
OpsAM == <<Op("A", "query", <<>>, <<F("", "title")>>),
           Op("M", "mutation", <<>>, <<FA("", "set", <<Arg("s", StrV("v"))>>), FS("", "a", <<F("", "n")>>)>>)>>
FamOps ==
  {Case("ops", [ops |-> o, frags |-> <<>>], n, NoVars, {}) : o \in {OpsAB, OpsAM}, n \in {"", "A", "B", "M", "Nope"}}
  \cup {Case("ops", [ops |-> <<Op("A", "query", <<>>, <<F("", "title")>>)>>, frags |-> <<>>], n, NoVars, {}) : n \in {"", "A", "Nope"}}
  \cup {Case("ops", [ops |-> <<Op("", "query", <<>>, <<F("", "title")>>)>>, frags |-> <<>>], n, NoVars, {}) : n \in {"", "Nope"}}
  \* an operation of a kind the schema has no root type for (alone, beside a query)
  \cup {Case("ops", [ops |-> o, frags |-> <<>>], n, NoVars, {}) :
          o \in { <<Op("S", "subscription", <<>>, <<F("", "tick")>>)>>, <<Op("A", "query", <<>>, <<F("", "title")>>), Op("S", "subscription", <<>>, <<F("", "tick")>>)>> },
          n \in {"", "S", "A"}}
  \* an anonymous operation beside a named one: without a name neither is "the only one"
  \cup {Case("ops", [ops |-> <<Op("", "query", <<>>, <<F("", "title")>>), Op("B", "query", <<>>, <<F("", "nul")>>)>>, frags |-> <<>>], n, NoVars, {}) : n \in {"", "B", "Nope"}}
  \cup {Case("ops", [ops |-> <<Op("M", "mutation", <<>>, <<FA("", "set", <<Arg("s", StrV("v"))>>)>>), Op("", "query", <<>>, <<F("", "title")>>)>>, frags |-> <<>>], n, NoVars, {}) : n \in {"", "M"}}
  \cup {Case("ops", [ops |-> <<Op("M", "mutation", <<>>, <<FA("", "set", <<Arg("s", StrV("v"))>>)>>)>>, frags |-> <<>>], n, NoVars, {}) : n \in {"", "M"}}

\* ---- @skip / @include: every combination, both orders, three selection kinds, two depths (C09)
\* states of one directive: absent, literal, variable given, variable defaulted
DirStates(name, pfx) ==
  { <<>> } \cup { <<Dir(name, BoolV(b))>> : b \in BOOLEAN }
           \cup { <<Dir(name, Var(pfx \o v))>> : v \in {"T", "F", "DT", "DF"} }
DirCombos == { sk \o inc : sk \in DirStates("skip", "s"), inc \in DirStates("include", "i") }
               \cup { inc \o sk : sk \in DirStates("skip", "s"), inc \in DirStates("include", "i") }
DirVarDefs == << VarDef("sT", NonNull(B)), VarDef("sF", NonNull(B)), VarDefD("sDT", B, BoolV(TRUE)), VarDefD("sDF", B, BoolV(FALSE)),
                 VarDef("iT", NonNull(B)), VarDef("iF", NonNull(B)), VarDefD("iDT", B, BoolV(TRUE)), VarDefD("iDF", B, BoolV(FALSE)) >>
DirGiven == [sT |-> BoolV(TRUE), sF |-> BoolV(FALSE), iT |-> BoolV(TRUE), iF |-> BoolV(FALSE)]
IntroType(sels) == [FS("", "__type", sels) EXCEPT !.args = <<Arg("name", StrV("A"))>>]
DirTargets(ds) ==
  { <<WithDirs(F("", "title"), ds), F("x", "title")>>,
    <<F("x", "title"), WithDirs(FS("", "a", <<F("", "name")>>), ds)>>,
    <<WithDirs(Inl("", <<F("", "title"), FS("", "a", <<F("", "n")>>)>>), ds), F("x", "title")>>,
    <<WithDirs(Inl("Query", <<F("", "title")>>), ds)>>,
    <<WithDirs(Spr("Q"), ds), F("x", "title")>>,
    <<FS("", "a", <<WithDirs(F("", "name"), ds), F("", "n")>>)>>,
    <<FS("", "items", <<WithDirs(FS("", "self", <<F("", "name")>>), ds), F("", "n")>>)>>,
    <<FS("", "a", <<WithDirs(Inl("A", <<F("", "n")>>), ds), F("", "name")>>)>>,
    <<FS("", "a", <<WithDirs(Spr("G"), ds), F("", "name")>>)>>,
    \* the meta field takes directives like any other selection
    <<WithDirs(F("", "__typename"), ds), F("x", "title")>>,
    <<FS("", "a", <<WithDirs(F("t", "__typename"), ds), F("", "name")>>)>>,
    \* and so do the selections below the introspection fields
    <<FS("", "__schema", <<FS("", "queryType", <<WithDirs(F("", "name"), ds), F("", "kind")>>), WithDirs(FS("", "types", <<F("", "name")>>), ds)>>), F("", "title")>>,
    <<IntroType(<<F("", "name"), WithDirs(FS("", "fields", <<F("", "name"), WithDirs(FS("", "type", <<F("", "name")>>), ds)>>), ds)>>)>>,
    <<FS("", "__schema", <<WithDirs(Inl("", <<FS("", "mutationType", <<F("", "name")>>)>>), ds), FS("", "directives", <<F("", "name"), WithDirs(F("", "locations"), ds)>>)>>)>> }
DirFrags == <<Frg("Q", "Query", <<F("", "title"), FS("", "a", <<F("", "name")>>)>>), Frg("G", "A", <<F("", "n"), FS("", "self", <<F("x", "name")>>)>>)>>
\* the same named fragment spread twice with independent directives (a decision must not be shared)
DirSmall == { <<>>, <<Dir("skip", BoolV(TRUE))>>, <<Dir("skip", BoolV(FALSE))>>, <<Dir("include", BoolV(TRUE))>>,
              <<Dir("include", BoolV(FALSE))>>, <<Dir("skip", Var("sT"))>>, <<Dir("include", Var("iF"))>>, <<Dir("include", Var("iDT"))>> }
DirTwice(d1, d2) ==
  { <<WithDirs(Spr("Q"), d1), WithDirs(Spr("Q"), d2)>>,
    <<FS("", "a", <<WithDirs(Spr("G"), d1), F("", "name"), WithDirs(Spr("G"), d2)>>)>>,
    <<FS("", "items", <<WithDirs(Inl("A", <<Spr("G")>>), d1), WithDirs(Spr("G"), d2)>>)>> }
FamDirs ==
  { Case("dirs", [ops |-> <<Op("D", "query", DirVarDefs, t)>>, frags |-> DirFrags], "D", DirGiven, {}) :
       t \in UNION { DirTargets(ds) : ds \in DirCombos } \cup UNION { DirTwice(d1, d2) : d1 \in DirSmall, d2 \in DirSmall } }

\* one document, every assignment of its two condition variables (given, omitted with defaults, partly given): the cases of
\* a document are also resolved one after the other on ONE parsed executable (a decision must not stick to the request)
DirVarsDefs == <<VarDefD("s", B, BoolV(FALSE)), VarDefD("i", B, BoolV(TRUE))>>
DirVarsGiven == {NoVars, [s |-> BoolV(TRUE)], [i |-> BoolV(FALSE)]} \cup {[s |-> BoolV(a), i |-> BoolV(b)] : a \in BOOLEAN, b \in BOOLEAN}
DirBoth == <<Dir("skip", Var("s")), Dir("include", Var("i"))>>
FamDirVars ==
  { Case("dirvars", [ops |-> <<Op("D", "query", DirVarsDefs, t)>>, frags |-> DirFrags], "D", g, {}) :
       t \in DirTargets(DirBoth) \cup DirTwice(<<Dir("skip", Var("s"))>>, <<Dir("include", Var("i"))>>), g \in DirVarsGiven }

\* a condition variable set to null where the operation gives it a default: null is what counts (C04), and null decides
\* nothing: the selection is not made, whatever the default says
DirNullGiven == { [s |-> NullV], [i |-> NullV], [s |-> NullV, i |-> BoolV(TRUE)], [s |-> BoolV(FALSE), i |-> NullV] }
FamDirNull ==
  { Case("dirnull", [ops |-> <<Op("D", "query", DirVarsDefs, t)>>, frags |-> DirFrags], "D", g, {}) :
       t \in DirTargets(<<Dir("include", Var("i"))>>) \cup DirTargets(<<Dir("skip", Var("s"))>>) \cup DirTargets(DirBoth), g \in DirNullGiven }

\* ---- one defect injected into a valid request (C10) ---------------------------------------
BogusArg == Arg("bogus", IntV(1))
FamDefects ==
  \* undefined field under: root, object, list element, interface container, nested, mutation root, inside fragments
  { Plain("defect", s) : s \in {
      <<F("", "zz9"), F("", "title")>>, <<FS("", "a", <<F("", "name"), F("", "zz8")>>)>>,      \* (fields only a refused load had)
      <<F("", "nope"), F("", "title")>>, <<F("", "title"), F("", "nope")>>,
      <<FS("", "a", <<F("", "nope"), F("", "name")>>), F("", "title")>>,
      <<FS("", "items", <<F("", "name"), F("", "nope")>>)>>,
      <<FS("", "one", <<F("", "nope"), F("", "name")>>), F("", "title")>>,
      <<FS("", "a", <<FS("", "self", <<F("z", "nope")>>), F("", "n")>>)>>,
      <<FS("", "a", <<Inl("A", <<F("", "nope")>>), F("", "n")>>)>>,
      <<FS("", "a", <<FS("", "nope", <<F("", "name")>>), F("", "n")>>)>> } }
  \cup { Case("defect", DocF(<<FS("", "a", <<Spr("F"), F("", "n")>>)>>, <<Frg("F", "A", <<F("", "nope")>>)>>), "", NoVars, {}) }
  \cup { Case("defect", [ops |-> <<Op("M", "mutation", <<>>, <<F("", "nope"), FA("", "set", <<Arg("s", StrV("v"))>>)>>)>>, frags |-> <<>>], "M", NoVars, {}) }
  \* undeclared argument: no declared arguments / fewer supplied than declared / as many as declared / interface container
  \cup { Plain("defect", s) : s \in {
      <<FA("", "title", <<BogusArg>>), F("x", "title")>>,
      <<FS("", "a", <<FA("", "name", <<BogusArg>>), F("", "n")>>)>>,
      <<FA("", "echo", <<Arg("s", StrV("v")), BogusArg>>), F("", "title")>>,
      <<FA("", "echo", <<Arg("s", StrV("v")), Arg("b", BoolV(TRUE)), BogusArg>>), F("", "title")>>,
      <<FS("", "a", <<FA("", "tag", <<BogusArg>>), F("", "n")>>)>>,
      <<FS("", "one", <<FA("", "name", <<BogusArg>>)>>), F("", "title")>>,
      <<FS("", "items", <<FA("", "tag", <<Arg("s", StrV("v")), BogusArg>>)>>)>> } }
  \* ... whatever is written for it: null, a variable (set, unset), a list, an input object, an enum symbol
  \cup { Case("defect", Doc1V(<<VarDef("sv", S)>>, s), "", g, {}) :
           s \in UNION { { <<FA("", "title", <<Arg("bogus", v)>>), F("x", "title")>>,
                           <<FA("", "echo", <<Arg("s", StrV("v")), Arg("bogus", v)>>), F("", "title")>>,
                           <<FS("", "one", <<FA("", "name", <<Arg("bogus", v)>>)>>), F("", "title")>>,
                           <<FS("", "a", <<FA("", "tag", <<Arg("bogus", v), Arg("s", StrV("v"))>>), F("", "n")>>)>> }
                         : v \in {NullV, Var("sv"), ListV(<<>>), ListV(<<IntV(1)>>), V("obj", [a |-> StrV("x")]), V("enum", "RED"), BoolV(FALSE), StrV("")} },
           g \in {NoVars, [sv |-> StrV("one")]} }
  \* required argument omitted or null
  \cup { Plain("defect", s) : s \in {
      <<F("", "need"), F("", "title")>>,
      <<FA("", "need", <<Arg("x", NullV)>>), F("", "title")>>,
      <<FA("", "need2", <<Arg("o", StrV("v"))>>), F("", "title")>>,
      <<FA("", "need2", <<Arg("o", StrV("v")), Arg("x", StrV("w"))>>), FA("z", "need2", <<Arg("x", NullV), Arg("o", StrV("v"))>>)>>,
      <<F("", "title"), FA("k", "need", <<Arg("x", StrV("ok"))>>), F("", "need")>> } }
  \* ... or given through a variable that has no value (not supplied, supplied as null), directly and under an object / list member
  \cup { Case("defect", Doc1V(<<VarDef("sv", S)>>, s), "", g, {}) :
           s \in { <<FA("", "need", <<Arg("x", Var("sv"))>>), F("", "title")>>,
                   <<FA("", "need2", <<Arg("o", StrV("v")), Arg("x", Var("sv"))>>), F("", "title")>>,
                   <<F("", "title"), FA("k", "need", <<Arg("x", StrV("ok"))>>), FA("", "need", <<Arg("x", Var("sv"))>>)>> },
           g \in {NoVars, [sv |-> NullV], [sv |-> StrV("given")]} }
  \* unknown / misplaced directive, directive with unknown or ill-typed argument: the document is refused
  \cup { Plain("defect", <<Bad(F("", "title"), b), FS("", "a", <<F("", "name")>>)>>) : b \in {"unknown_dir", "misplaced_dir", "dir_unknown_arg", "dir_bad_arg", "dir_missing_arg"} }
  \cup { Plain("defect", <<FS("", "a", <<Bad(F("", "name"), b)>>), F("", "title")>>) : b \in {"unknown_dir", "misplaced_dir", "dir_unknown_arg", "dir_bad_arg", "dir_missing_arg"} }
  \cup { Plain("defect", <<Bad(Inl("", <<F("", "title")>>), b)>>) : b \in {"unknown_dir", "dir_unknown_arg"} }
  \* ... on the meta field __typename (a leaf without arguments is a selection like any other)
  \cup { Plain("defect", <<FS("", "a", <<Bad(F("", "__typename"), b), F("", "name")>>)>>) : b \in {"unknown_dir", "misplaced_dir", "dir_unknown_arg"} }
  \cup { Plain("defect", <<Bad(F("t", "__typename"), b), F("", "title")>>) : b \in {"unknown_dir", "dir_unknown_arg"} }
  \* ... on a fragment definition (spread before it is defined, spread from another fragment, not spread at all)
  \cup { Case("defect", DocF(<<FS("", "a", <<Spr("F"), F("", "n")>>)>>, <<BadFrg("F", "A", <<F("", "name")>>, b)>>), "", NoVars, {}) :
           b \in {"unknown_dir", "misplaced_dir", "dir_unknown_arg", "dir_bad_arg", "dir_missing_arg"} }
  \cup { Case("defect", DocF(<<FS("", "a", <<Spr("F")>>), F("", "title")>>, <<Frg("F", "A", <<F("", "n"), Spr("G")>>), BadFrg("G", "A", <<F("", "name")>>, b)>>), "", NoVars, {}) :
           b \in {"unknown_dir", "misplaced_dir"} }
  \cup { Case("defect", DocF(<<F("", "title")>>, <<BadFrg("F", "A", <<F("", "name")>>, b)>>), "", NoVars, {}) : b \in {"unknown_dir", "dir_unknown_arg"} }
  \* an argument on a meta field (none of them declares any but the name of __type)
  \cup { Plain("defect", s) : s \in {
      <<FA("", "__typename", <<BogusArg>>), F("", "title")>>, <<FS("", "a", <<FA("t", "__typename", <<Arg("name", StrV("A"))>>), F("", "name")>>)>>,
      <<[FS("", "__type", <<F("", "name")>>) EXCEPT !.args = <<Arg("name", StrV("A")), BogusArg>>], F("", "title")>>,
      <<[FS("", "__type", <<F("", "name")>>) EXCEPT !.args = <<Arg("nom", StrV("A"))>>]>>,
      <<[FS("", "__schema", <<FS("", "queryType", <<F("", "name")>>)>>) EXCEPT !.args = <<BogusArg>>], F("", "title")>> } }
  \* a type condition that is no type: a list of one, a non-null one, the name of a directive
  \cup { Plain("defect", <<Inl(c, <<F("", "title")>>), F("x", "title")>>) : c \in {"[Nope]", "Nope!", "skip", "[Query]", "Query!", "deprecated"} }
  \cup { Plain("defect", <<FS("", "a", <<Inl(c, <<F("", "name")>>), F("", "n")>>)>>) : c \in {"[A]", "A!", "include"} }
  \* undefined type condition: inline fragment and fragment definition
  \cup { Plain("defect", <<Inl("Nope", <<F("", "title")>>), F("x", "title")>>),
         Plain("defect", <<FS("", "a", <<Inl("Nope", <<F("", "name")>>), F("", "n")>>)>>),
         Case("defect", DocF(<<FS("", "a", <<Spr("F"), F("", "n")>>)>>, <<Frg("F", "Nope", <<F("", "name")>>)>>), "", NoVars, {}),
         Case("defect", DocF(<<Spr("F"), F("", "title")>>, <<Frg("F", "Nope", <<F("", "title")>>)>>), "", NoVars, {}) }

\* ---- every single resolver call of a request made to fail in turn (C06) ------------------
FaultDocs ==
  { Doc1(<<FS("", "matrix", <<F("", "name"), FS("", "kids", <<F("x", "n")>>)>>), F("", "title")>>) } \cup
  { Doc1(<<FS(al, top, sub), F("", "title")>>) : al \in {"", "z"}, top \in {"a", "items"}, sub \in {<<F("", "name"), F("x", "n")>>, <<F("", "many")>>} }
  \cup { Doc1(<<FS("", top, sub)>>) : top \in {"a", "items"}, sub \in One(A1) \cup {<<FS("", "kids", <<F("", "name"), FS("", "self", <<F("", "n")>>)>>), F("", "name")>>} }
  \cup { Doc1(<<FS("", "a", <<Inl(c, <<F("", "name"), FS("", "self", <<F("", "n")>>)>>), F("", "n")>>)>>) : c \in {"", "A"} }
  \cup { DocF(<<FS("", top, <<Spr("F"), F("q", "n")>>)>>, <<Frg("F", "A", <<F("", "name"), FS("", "kids", <<Spr("G")>>)>>), Frg("G", "A", <<F("", "n")>>)>>) : top \in {"a", "items"} }
  \cup { Doc1(<<F("", "grid"), F("", "bad"), FS("", "a", <<F("", "boom"), F("", "name")>>)>>) }
  \cup { Doc1(<<FS("", top, <<F("", "name"), F("h", "half")>>), F("", "title")>>) : top \in {"a", "items"} }
  \* "data" is an alias like any other (it is also the key of the envelope)
  \cup { Doc1(<<FS("data", "a", <<F("", "boom"), F("", "name")>>), F("", "title")>>), Doc1(<<F("data", "bad"), F("", "title")>>),
         Doc1(<<FS("", "items", <<FS("data", "self", <<F("data", "boom"), F("", "n")>>)>>)>>) }
  \* output coercion failures (a leaf and list elements) and a group of groups of errors
  \cup { Doc1(<<FS("", top, <<F("", "name"), F("w", "wrong"), F("", "flags")>>), F("", "title")>>) : top \in {"a", "items", "matrix"} }
  \cup { Doc1(<<FS("", top, <<F("g", "nest"), F("", "n")>>), F("", "title")>>) : top \in {"a", "items"} }
  \cup { Doc1(<<FS("", "a", <<FS("", "peer", <<FS("", "peer", <<F("", "boom"), FS("s", "self", <<F("", "name")>>)>>)>>)>>)>>) }
  \* a mutation whose resolver hands out a *ggql.Subscription for a String field
  \cup { [ops |-> <<Op("M", "mutation", <<>>, <<F("", "leak"), FA("", "set", <<Arg("s", StrV("v"))>>)>>)>>, frags |-> <<>>],
         [ops |-> <<Op("M", "mutation", <<>>, <<FS("", "a", <<F("", "name")>>), F("l", "leak")>>)>>, frags |-> <<>>] }
  \* one response key selected twice (written twice, through an inline fragment, through a spread): what fails below the
  \* later occurrence is reported like what fails below the first
  \cup { Doc1(<<FS("", top, <<F("", "name")>>), FS("", top, <<F("", "boom"), F("w", "wrong")>>)>>) : top \in {"a", "items"} }
  \cup { Doc1(<<FS("", "a", <<F("", "n")>>), Inl("Query", <<FS("", "a", <<F("", "many"), FS("", "self", <<F("", "boom")>>)>>)>>)>>) }
  \cup { DocF(<<FS("", "items", <<F("", "name")>>), Spr("F")>>, <<Frg("F", "Query", <<FS("", "items", <<F("h", "half"), F("", "flags")>>)>>)>>) }
CallSites(doc) == LET r == Response(UExec, doc, "", NoVars, {}) IN { <<r.calls[i].node, r.calls[i].field>> : i \in DOMAIN r.calls }
FamFaults1 == { Case("fault1", d, "", NoVars, {site}) : <<d, site>> \in UNION { {d} \X CallSites(d) : d \in FaultDocs } }
              \* the operation root itself is refused by the application
              \cup { Case("fault1", Doc1(<<FS("", "a", <<F("", "name")>>), F("", "title")>>), "", NoVars, {<<"$root", "query">>}),
                     Case("fault1", [ops |-> <<Op("M", "mutation", <<>>, <<FA("", "set", <<Arg("s", StrV("v"))>>)>>), Op("Q", "query", <<>>, <<F("", "title")>>)>>, frags |-> <<>>],
                          "M", NoVars, {<<"$root", "mutation">>}),
                     Case("fault1", [ops |-> <<Op("M", "mutation", <<>>, <<FA("", "set", <<Arg("s", StrV("v"))>>)>>), Op("Q", "query", <<>>, <<F("", "title")>>)>>, frags |-> <<>>],
                          "Q", NoVars, {<<"$root", "mutation">>}) }
\* list accessor failures: every index of every list a request walks, alone and together with each resolver failure
NthDocs == { Doc1(<<FS("", top, <<F("", "name"), FS("k", "kids", <<F("", "n")>>)>>), F("", "title")>>) : top \in {"items", "matrix"} }
NthSites == { <<"q", "items", "0">>, <<"q", "items", "1">>, <<"q", "items", "2">>, <<"q", "matrix", "0">>, <<"q", "matrix", "2">>, <<"q", "matrix", "3">>,
              <<"a1", "kids", "0">> }
FamFaultsNth == { Case("faultnth", d, "", NoVars, {s}) : d \in NthDocs, s \in NthSites }
                   \cup { Case("faultnth", ds[1], "", NoVars, {ds[2], ds[3]}) : ds \in UNION { {d} \X NthSites \X CallSites(d) : d \in NthDocs } }
\* one invocation of a resolver made to fail where the same resolver is invoked more than once for one position (the response
\* key written twice, again through an inline fragment, again through a spread): the position is null whichever invocation
\* fails, with one error; the other positions keep their values
CallDocs == { Doc1(<<FS("", top, <<F("", "name")>>), FS("", top, <<F("", "n")>>), F("", "title")>>) : top \in {"a", "items"} }
  \cup { Doc1(<<F("", "title"), FS("", "a", <<F("", "n")>>), Inl("Query", <<F("", "title"), FS("", "a", <<F("", "name")>>)>>)>>) }
  \cup { DocF(<<FS("", "items", <<F("", "name")>>), Spr("F"), F("t", "title")>>, <<Frg("F", "Query", <<FS("", "items", <<F("", "n")>>), F("t", "title")>>)>>) }
FamFaultsCall == { Case("faultcall", d, "", NoVars, {<<"q", fld, "call", k>>}) : d \in CallDocs, fld \in {"a", "items", "title"}, k \in {"1", "2"} }
FamFaults0 == { Case("fault0", d, "", NoVars, {}) : d \in FaultDocs }
FamFaults2 == { Case("fault2", ds[1], "", NoVars, {ds[2], ds[3]}) :
                  ds \in UNION { {d} \X CallSites(d) \X CallSites(d) : d \in FaultDocs } }

\* ---- literal containers holding variables (input objects, lists) -------------------------
ObjV(f) == V("obj", f)
ObjArgSeqs ==
  { <<Arg("in", ObjV([a |-> StrV("lit"), n |-> IntV(2)]))>>,
    <<Arg("in", ObjV([a |-> Var("sv")]))>>,
    <<Arg("in", ObjV([a |-> Var("sv"), l |-> ListV(<<Var("sv"), StrV("k")>>)])), Arg("l", ListV(<<Var("sv")>>))>>,
    <<Arg("l", ListV(<<StrV("x"), Var("sv")>>))>>,
    <<Arg("l", ListV(<<>>)), Arg("in", ObjV([n |-> IntV(7)]))>>,
    \* null written where the field has a default: null it is, here and in the members of a list
    <<Arg("in", ObjV([a |-> StrV("lit"), n |-> NullV]))>>,
    <<Arg("ins", ListV(<<ObjV([n |-> NullV]), ObjV([a |-> Var("sv"), n |-> NullV]), ObjV([a |-> StrV("k")])>>))>>,
    \* a nested literal holding a variable BEFORE members that are plain or variables themselves
    <<Arg("ins", ListV(<<ObjV([a |-> Var("sv")]), ObjV([a |-> StrV("k")])>>))>>,
    <<Arg("ins", ListV(<<ObjV([a |-> Var("sv"), l |-> ListV(<<Var("sv")>>)])>>)), Arg("ll", ListV(<<ListV(<<StrV("x"), Var("sv")>>), ListV(<<StrV("y")>>)>>))>>,
    <<Arg("ll", ListV(<<ListV(<<Var("sv")>>), ListV(<<>>)>>)), Arg("l", ListV(<<Var("sv"), StrV("z")>>))>> }
SvDefs == { <<VarDef("sv", S)>>, <<VarDefD("sv", S, StrV("dflt"))>> }
SvGiven == { NoVars, [sv |-> StrV("one")], [sv |-> StrV("two")] }
FamInputs ==
  { Case("inputs", DocV(vds, <<FA(al, "obj", as), F("", "title")>>), "", g, {}) :
       al \in {"", "o"}, as \in ObjArgSeqs, vds \in SvDefs, g \in SvGiven }

\* ---- sessions: one parsed document resolved several times (C11) ------------------------------
ReuseDocs ==
  { [ops |-> <<Op("Q", "query", vds, <<FA("", "obj", as), FS("", "a", <<FA("", "tag", <<Arg("s", Var("sv"))>>)>>)>>)>>, frags |-> <<>>] :
       vds \in SvDefs, as \in ObjArgSeqs }
  \cup { [ops |-> <<Op("Q", "query", <<VarDef("sv", S), VarDefD("bv", B, BoolV(FALSE))>>,
                       <<FA("", "echo", <<Arg("i", IntV(3)), Arg("b", Var("bv")), Arg("s", Var("sv"))>>),
                         WithDirs(F("", "title"), <<Dir("skip", Var("bv"))>>),
                         WithDirs(FS("", "a", <<F("", "name")>>), <<Dir("include", Var("bv"))>>), Spr("F")>>)>>,
         frags |-> <<Frg("F", "Query", <<FA("e2", "echo", <<Arg("s", Var("sv"))>>)>>)>>] }
  \cup { [ops |-> <<Op("A", "query", <<>>, <<FA("", "echo", <<Arg("b", BoolV(TRUE)), Arg("s", StrV("x"))>>)>>),
                    Op("B", "query", <<VarDef("sv", S)>>, <<FS("", "a", <<FA("", "tag", <<Arg("s", Var("sv"))>>)>>),
                                                             FS("", "items", <<FA("", "tag", <<Arg("s", Var("sv"))>>), F("", "n")>>)>>)>>,
         frags |-> <<>>] }
  \* variable defaults that are input objects / lists of them: completing them with input field defaults must not touch the parsed request
  \cup { [ops |-> <<Op("Q", "query", <<VarDefD("iv", Named("In"), ObjV([a |-> StrV("x")])), VarDef("sv", S)>>,
                       <<FA("", "obj", <<Arg("in", Var("iv"))>>), FA("o2", "obj", <<Arg("in", ObjV([a |-> Var("sv")]))>>)>>)>>, frags |-> <<>>] }
  \* a variable default that is a list whose members are converted when they are coerced (numbers written for IDs)
  \cup { [ops |-> <<Op("Q", "query", <<VarDefD("idv", ListOf(NonNull(Named("ID"))), ListV(<<IntV(1), IntV(2)>>)), VarDef("sv", S)>>,
                       <<FA("", "ids", <<Arg("v", Var("idv"))>>), FA("x", "ids", <<Arg("v", ListV(<<IntV(3), Var("sv")>>)), Arg("w", IntV(7))>>)>>)>>, frags |-> <<>>] }
  \cup { Doc1(<<FS("", "a", <<FA("", "tag", <<BogusArg>>), F("", "n")>>)>>),
         Doc1(<<FS("", "items", <<FA("", "tag", <<Arg("s", StrV("v")), BogusArg>>)>>)>>),
         Doc1(<<FS("", "a", <<F("", "nope"), F("", "name")>>), F("", "need")>>) }
ReuseCalls(doc) ==
  { [op |-> o, vars |-> g] :
      o \in {doc.ops[i].name : i \in DOMAIN doc.ops} \cup (IF Len(doc.ops) = 1 THEN {""} ELSE {}),
      g \in { NoVars, [sv |-> StrV("one")], [sv |-> StrV("two"), bv |-> BoolV(TRUE)] }
              \cup (IF \E i \in DOMAIN doc.ops : \E j \in DOMAIN doc.ops[i].vars : doc.ops[i].vars[j].n = "iv"
                    THEN {[iv |-> ObjV([a |-> StrV("given"), n |-> IntV(2)])]} ELSE {}) }

\* ---- abstract types: interface and union typed fields, fragments with object / interface / union
\* ---- conditions under every container kind (C08; realised by the reflection strategy only)
TN == F("", "__typename")
CondSelsAbs == [ A |-> {<<F("", "n")>>, <<F("x", "name"), TN>>}, B |-> {<<F("", "flag")>>, <<TN>>},
                 Named |-> {<<F("", "name")>>, <<F("y", "name"), TN>>}, Any |-> {<<TN>>}, C |-> {<<F("", "only")>>},
                 Solo |-> {<<TN>>, <<F("s", "__typename"), Inl("A", <<F("", "n")>>)>>} ]
AbsConds == {"A", "B", "Named", "Any", "C", "Solo"}
AbsFrag(c, s) == Inl(c, s)
AbsTops == {"one", "named", "any", "a", "items"}
FamAbstract ==
  \* one fragment per condition under each container
  { Plain("abstract", <<FS("", top, <<TN, Inl(c, s)>>)>>) : top \in AbsTops, <<c, s>> \in UNION { {c} \X CondSelsAbs[c] : c \in AbsConds } }
  \* two fragments with different conditions, and the interface's own field selected directly
  \cup { Plain("abstract", <<FS("", top, <<Inl(c1, s1), Inl(c2, s2)>>)>>) :
           top \in {"named", "any", "one"}, <<c1, s1>> \in {<<"A", <<F("", "n")>>>>, <<"Named", <<F("", "name")>>>>},
           <<c2, s2>> \in {<<"B", <<F("", "flag")>>>>, <<"Any", <<TN>>>>, <<"A", <<F("x", "name")>>>>} }
  \cup { Plain("abstract", <<FS("", top, <<F("", "name"), Inl(c, s)>>)>>) : top \in {"one", "named"}, <<c, s>> \in {<<"A", <<F("", "n")>>>>, <<"B", <<F("", "flag")>>>>} }
  \* named fragments with abstract and concrete conditions
  \cup { Case("abstract", DocF(<<FS("", top, <<Spr("F"), TN>>)>>, <<Frg("F", c, s)>>), "", NoVars, {}) :
           top \in AbsTops, <<c, s>> \in UNION { {c} \X CondSelsAbs[c] : c \in {"A", "B", "Named", "Any", "Solo"} } }
  \* a value that is no member of the union the field declares
  \cup { Plain("abstract", s) : s \in { <<FS("", "odd", <<TN>>), F("", "title")>>,
                                       <<FS("", "odds", <<TN, Inl("A", <<F("", "n")>>), Inl("C", <<F("", "only")>>)>>)>>,
                                       <<F("", "title"), FS("x", "odd", <<Inl("C", <<F("", "only")>>)>>), FS("", "a", <<F("", "name")>>)>> } }
  \* nested: a fragment on a concrete type reaching another abstract position
  \cup { Plain("abstract", <<FS("", top, <<Inl("A", <<FS("", "peer", <<Inl(c, s), TN>>)>>), Inl("B", <<FS("", "peer", <<Inl("Named", <<F("", "name")>>)>>)>>)>>)>>) :
           top \in {"named", "any"}, <<c, s>> \in {<<"Named", <<F("", "name")>>>>, <<"B", <<F("", "flag")>>>>, <<"A", <<F("", "n")>>>>} }

\* one fragment on the interface, spread under different concrete types by different operations of ONE document: the
\* interface's field is implemented covariantly (A.peer : B, B.peer : A), so what the shared selection means depends on the
\* object it is applied to - in one request (a mixed list) and from one call to the next on one parsed executable (C08, C11)
AbsOpsFrag == Frg("P", "Named", <<FS("", "peer", <<TN, Inl("A", <<F("", "n")>>), Inl("B", <<F("", "flag")>>)>>), F("", "name")>>)
FamAbsOps ==
  { Case("absops", [ops |-> <<Op("A", "query", <<>>, <<FS("", "a", <<Spr("P")>>)>>),
                              Op("B", "query", <<>>, <<FS("", "one", <<Spr("P")>>)>>),
                              Op("C", "query", <<>>, <<FS("", "named", <<Spr("P")>>), FS("", "any", <<Inl("Named", <<Spr("P")>>)>>)>>)>>,
                     frags |-> <<AbsOpsFrag>>], n, NoVars, {}) : n \in {"A", "B", "C"} }

\* one Go struct type met as a value under an object typed field and through a pointer under interface / union typed fields,
\* in both orders (the binding of the GraphQL type must recognise either form whichever was seen first)
FamForms ==
  { Plain("forms", s) : s \in UNION { {
      <<FS("", "pv", <<F("", "name"), TN>>), FS("", top, <<TN, Inl("P", <<F("", "n")>>), F("", "name")>>)>>,
      <<FS("", top, <<TN, Inl("P", <<F("", "n")>>), F("", "name")>>), FS("", "pv", <<F("", "name"), TN>>)>>,
      <<FS("", top, <<Inl("Solo", <<TN>>), F("x", "say")>>), FS("", "pv", <<F("", "n")>>)>>,
      \* fields promoted from embedded structs and a method with a pointer receiver, value first and pointer first
      <<FS("", "pv", <<F("", "stamp"), F("", "rank")>>), FS("", top, <<Inl("P", <<F("", "stamp"), F("", "code")>>), F("", "name")>>)>>,
      <<FS("", top, <<Inl("P", <<F("", "code"), F("", "rank")>>)>>), FS("", "pv", <<F("", "code"), F("", "stamp")>>)>>,
      \* a union the object is no member of (and one it is a member of) as conditions
      <<FS("", top, <<Inl("Any", <<F("", "name")>>), TN, Inl("Solo", <<F("s", "name")>>)>>)>>,
      \* a struct field behind a field with a required argument: given and left out
      <<FS("", "pv", <<FA("", "note", <<Arg("k", StrV("x"))>>)>>), FS("", top, <<Inl("P", <<F("", "note"), F("", "rank")>>), F("", "name")>>)>>,
      <<FS("", "pv", <<F("", "note"), F("", "name")>>), FS("", top, <<Inl("P", <<FA("", "note", <<Arg("k", StrV("y"))>>)>>), TN>>)>> } : top \in {"pp", "ps"} } }
  \* the query root behind a field of the interface it implements
  \cup { Plain("forms", s) : s \in {
      <<FS("", "me", <<TN, Inl("Query", <<F("", "title")>>), F("t2", "title")>>)>>,
      <<FS("", "mes", <<Inl("Titled", <<TN>>), Inl("Query", <<FS("", "a", <<F("", "name")>>)>>)>>), F("", "title")>>,
      <<FS("", "me", <<Inl("", <<FS("", "me", <<TN, F("", "title")>>)>>)>>)>> } }

\* undefined field under a union member / interface member reached through a condition-less fragment (C10, reflection only)
FamDefectsAbs ==
  \* one selection resolved in containers of different types (members of a list of an interface / union type): an argument
  \* only one of the implementors declares is an undeclared argument for the members of the other type
  { Plain("defectabs", <<FS("", top, <<FA("", "say", <<a>>), F("", "name")>>)>>) :
      top \in {"named", "any"}, a \in {Arg("mood", IntV(1)), Arg("loud", BoolV(TRUE)), Arg("zz", IntV(1))} }
  \cup { Case("defectabs", DocF(<<FS("", top, <<Spr("F")>>)>>, <<Frg("F", "Named", <<FA("s", "say", <<a>>)>>)>>), "", NoVars, {}) :
           top \in {"named", "any", "one", "a"}, a \in {Arg("mood", IntV(1)), Arg("loud", BoolV(TRUE))} }
  \* a named fragment whose type condition no type of the schema has, spread where objects of every kind pass by
  \cup { Case("defectabs", DocF(<<FS("", top, <<Spr("F"), TN>>)>>, <<Frg("F", "Nope", <<F("", "name")>>)>>), "", NoVars, {}) :
           top \in {"named", "any", "one", "a", "items"} }
  \cup { Case("defectabs", DocF(<<FS("", top, <<Inl("", <<Spr("F")>>), F("", "name")>>)>>, <<Frg("F", "Nope", <<F("x", "name"), TN>>)>>), "", NoVars, {}) :
           top \in {"named", "one"} }
  \cup { Plain("defectabs", s) : s \in {
      <<FS("", "any", <<Inl("", <<F("", "flag")>>), TN>>)>>,
      <<FS("", "any", <<Inl("B", <<F("", "flag")>>), Inl("", <<F("", "n")>>)>>)>>,
      <<FS("", "named", <<F("", "name"), Inl("A", <<F("", "nope")>>)>>)>>,
      <<FS("", "any", <<Inl("A", <<FA("", "name", <<BogusArg>>), F("", "n")>>)>>)>>,
      <<FS("", "named", <<Inl("B", <<FA("", "name", <<BogusArg>>), F("", "flag")>>)>>)>> } }

\* ---- mixed graphs: every assignment of a strategy to each node (C02) -------------------------
\* A node is either an object implementing the Resolver interface ("resolver") or plain data
\* ("plain"), which is served by the root resolver when one is installed and by reflection otherwise.
MixDocs ==
  { Doc1(<<F("", "title"), FS("", "a", <<F("", "name"), FS("", "peer", <<F("", "flag"), FS("", "peer", <<F("", "n")>>)>>)>>),
           FS("", "items", <<F("x", "name"), FS("", "kids", <<F("", "n"), TN>>)>>)>>),
    Doc1(<<FS("", "matrix", <<F("", "n"), FS("", "self", <<F("", "name")>>)>>), F("", "grid"), F("", "bad")>>),
    Doc1(<<FS("", "a", <<F("", "boom"), Inl("A", <<F("", "name")>>), FS("", "kids", <<Inl("", <<F("", "n")>>)>>)>>), FS("", "nul", <<F("", "n")>>)>>),
    DocF(<<FS("", "a", <<Spr("F")>>), FS("z", "items", <<Spr("F"), F("", "n")>>)>>, <<Frg("F", "A", <<F("", "name"), FS("", "peer", <<F("", "name")>>)>>)>>) }
MixAssigns == [ {"q", "a1", "a2", "b1"} -> {"resolver", "plain"} ]
FamMixed ==
  { Case("mixed", d, "", NoVars, {}) @@ [mix |-> [assign |-> as @@ [m |-> "plain"], any |-> an]] :
       d \in MixDocs, as \in MixAssigns, an \in BOOLEAN }

Families ==
  [ flat |-> FamFlat, nest1 |-> FamNest1, nest2 |-> FamNest2, nest3 |-> FamNest3,
    inline1 |-> FamInline1, inline2 |-> FamInline2, spread |-> FamSpread, dups |-> FamDups,
    args |-> FamArgs, ops |-> FamOps, dirs |-> FamDirs, dirvars |-> FamDirVars, dirnull |-> FamDirNull, defect |-> FamDefects,
    inputs |-> FamInputs, mixed |-> FamMixed, abstract |-> FamAbstract, absops |-> FamAbsOps, forms |-> FamForms, defectabs |-> FamDefectsAbs, faultnth |-> FamFaultsNth, faultcall |-> FamFaultsCall, fault0 |-> FamFaults0, fault1 |-> FamFaults1, fault2 |-> FamFaults2 ]
=============================================================================
