------------------------------- MODULE Coerce -------------------------------
(***************************************************************************)
(* Input and result coercion of ggql (properties C04 and C05).             *)
(*                                                                         *)
(* PART S - the properties, written from their statements:                 *)
(*   CoerceIn(S, t, v, relaxed)  what an argument/variable value v written *)
(*       by a client denotes at a position of declared input type t:       *)
(*       ok(value handed to the resolver) | err(path) | may(value).        *)
(*   CoerceOut(S, t, gv)  the JSON value a Go value gv returned by a       *)
(*       resolver becomes at a position of declared type t, with the       *)
(*       positions that must carry an error.                               *)
(* PART M - the design of ggql's coercion (resolve.go formArgs /           *)
(*   replaceArgVars / resolve / resolveList and the CoerceIn / CoerceOut   *)
(*   methods of the types), one operator per function, parameterised by a  *)
(*   set dv of NAMED DEVIATIONS.  With dv = {} M refines S (checked by TLC *)
(*   on every enumerated case, MCCoerce!RefinesIn / RefinesOut); with dv = *)
(*   K it reproduces the genuine defects listed in known_findings.json so  *)
(*   that they can be attributed (DESIGN.md 4.1).                          *)
(*                                                                         *)
(* Numbers never cross the TLC/Go boundary as numbers: a number is a NAMED *)
(* POINT (table Pt) held in a Go kind g.  [k |-> "num", p |-> point,       *)
(* g |-> kind] denotes "the value of kind g nearest to the point", so      *)
(* Num("f1e39","float32") is +Inf and Num("i2p24p1","float32") is 2^24.    *)
(* The harness owns the concrete Go values (harness/cmd/coerce/points.go). *)
(*                                                                         *)
(* "may": the statement obliges ggql to accept literals (int64 / float64   *)
(* after parsing), JSON-decoded numbers (float64), strings, booleans and   *)
(* the declared type's own Go kind; for any other Go kind a caller may put *)
(* into the variables map it only demands that the value is either         *)
(* rejected with an error or handed over correctly.                        *)
(***************************************************************************)
EXTENDS Integers, Sequences, FiniteSets, TLC

-----------------------------------------------------------------------------
(* the number lattice *)

\* int: integral   i32: within 32 bits   i64: fits int64   fin: finite
\* f32: finite after rounding to float32   nz: not zero
\* dec: decimal text (literal text for the non-integral points, "" if none)
\* w32: the point int32(x) wraps to (integral points held by a 64 bit kind)
\* tr:  the point Go's float-to-int conversion truncates to ("" = out of range: undefined)
P(int, i32, i64, fin, f32, nz, dec, w32, tr) ==
  [int |-> int, i32 |-> i32, i64 |-> i64, fin |-> fin, f32 |-> f32, nz |-> nz, dec |-> dec, w32 |-> w32, tr |-> tr]

Pt == [
  i0       |-> P(TRUE, TRUE, TRUE, TRUE, TRUE, FALSE, "0", "i0", "i0"),
  i1       |-> P(TRUE, TRUE, TRUE, TRUE, TRUE, TRUE, "1", "i1", "i1"),
  im1      |-> P(TRUE, TRUE, TRUE, TRUE, TRUE, TRUE, "-1", "im1", "im1"),
  i42      |-> P(TRUE, TRUE, TRUE, TRUE, TRUE, TRUE, "42", "i42", "i42"),
  i2p24p1  |-> P(TRUE, TRUE, TRUE, TRUE, TRUE, TRUE, "16777217", "i2p24p1", "i2p24p1"),
  i2p31m1  |-> P(TRUE, TRUE, TRUE, TRUE, TRUE, TRUE, "2147483647", "i2p31m1", "i2p31m1"),
  im2p31   |-> P(TRUE, TRUE, TRUE, TRUE, TRUE, TRUE, "-2147483648", "im2p31", "im2p31"),
  i2p31    |-> P(TRUE, FALSE, TRUE, TRUE, TRUE, TRUE, "2147483648", "im2p31", ""),
  im2p31m1 |-> P(TRUE, FALSE, TRUE, TRUE, TRUE, TRUE, "-2147483649", "i2p31m1", ""),
  i2p32p1  |-> P(TRUE, FALSE, TRUE, TRUE, TRUE, TRUE, "4294967297", "i1", ""),
  i2p53    |-> P(TRUE, FALSE, TRUE, TRUE, TRUE, TRUE, "9007199254740992", "i0", ""),
  i2p53p1  |-> P(TRUE, FALSE, TRUE, TRUE, TRUE, TRUE, "9007199254740993", "i1", ""),
  i2p63m1  |-> P(TRUE, FALSE, TRUE, TRUE, TRUE, TRUE, "9223372036854775807", "im1", ""),
  im2p63   |-> P(TRUE, FALSE, TRUE, TRUE, TRUE, TRUE, "-9223372036854775808", "i0", ""),
  i2p63    |-> P(TRUE, FALSE, FALSE, TRUE, TRUE, TRUE, "9223372036854775808", "i0", ""),
  f1p5     |-> P(FALSE, FALSE, FALSE, TRUE, TRUE, TRUE, "1.5", "", "i1"),
  fm0p5    |-> P(FALSE, FALSE, FALSE, TRUE, TRUE, TRUE, "-0.5", "", "i0"),
  f1em50   |-> P(FALSE, FALSE, FALSE, TRUE, TRUE, TRUE, "1e-50", "", "i0"),
  ff32max  |-> P(FALSE, FALSE, FALSE, TRUE, TRUE, TRUE, "3.4028234663852886e38", "", ""),
  f1e39    |-> P(FALSE, FALSE, FALSE, TRUE, FALSE, TRUE, "1e39", "", ""),
  f1e300   |-> P(FALSE, FALSE, FALSE, TRUE, FALSE, TRUE, "1e300", "", ""),
  nan      |-> P(FALSE, FALSE, FALSE, FALSE, FALSE, TRUE, "", "", ""),
  pinf     |-> P(FALSE, FALSE, FALSE, FALSE, FALSE, TRUE, "", "", ""),
  ninf     |-> P(FALSE, FALSE, FALSE, FALSE, FALSE, TRUE, "", "", "") ]

Points == DOMAIN Pt

Small == {"i0", "i1", "im1", "i42"}
Pos8 == {"i0", "i1", "i42"}
S32 == Small \cup {"i2p24p1", "i2p31m1", "im2p31"}
S64 == S32 \cup {"i2p31", "im2p31m1", "i2p32p1", "i2p53", "i2p53p1", "i2p63m1", "im2p63"}
U32 == Pos8 \cup {"i2p24p1", "i2p31m1", "i2p31"}
U64 == U32 \cup {"i2p32p1", "i2p53", "i2p53p1", "i2p63m1", "i2p63"}

\* the points each Go kind can hold exactly
Holds == [
  int |-> S64, int8 |-> Small, int16 |-> Small, int32 |-> S32, int64 |-> S64,
  uint |-> U64, uint8 |-> Pos8, uint16 |-> Pos8, uint32 |-> U32, uint64 |-> U64,
  float32 |-> Small \cup {"i2p31", "im2p31", "i2p53", "i2p63", "im2p63", "f1p5", "fm0p5", "ff32max", "nan", "pinf", "ninf"},
  float64 |-> Points \ {"i2p53p1", "i2p63m1"} ]

Kinds == DOMAIN Holds
IntKinds == {"int", "int8", "int16", "int32", "int64", "uint", "uint8", "uint16", "uint32", "uint64"}
FloatKinds == {"float32", "float64"}

\* a number literal is parsed to int64 when it fits and to float64 otherwise
HasLiteral(p) == Pt[p].dec # ""
LitKind(p) == IF Pt[p].int /\ Pt[p].i64 THEN "int64" ELSE "float64"

\* Rounding: the value of kind g nearest to a point may coincide with that of another point.
\* Canon(p, g) names that value by the point the kind holds exactly (checked by the harness against Go).
CanonF32 == [ i2p31m1 |-> "i2p31", im2p31m1 |-> "im2p31", i2p53p1 |-> "i2p53", i2p63m1 |-> "i2p63",
              f1em50 |-> "i0", f1e39 |-> "pinf", f1e300 |-> "pinf" ]
CanonF64 == [ i2p53p1 |-> "i2p53", i2p63m1 |-> "i2p63" ]
Canon(p, g) == IF g = "float32" /\ p \in DOMAIN CanonF32 THEN CanonF32[p]
               ELSE IF g = "float64" /\ p \in DOMAIN CanonF64 THEN CanonF64[p]
               ELSE p

\* strings are given by their text; these tables classify them
StrNum == ("42" :> "i42") @@ ("1.5" :> "f1p5") @@ ("4294967297" :> "i2p32p1")
BoolStr == ("true" :> TRUE)
T1 == "2020-01-02T03:04:05Z"
ValidTimes == {T1}
\* strings Go's time.Parse accepts although they are no RFC 3339 date-times (hour not padded, decimal comma): a resolver
\* value that is not representable as it is; it may be refused or normalised, it must not appear in the response as written
LenientTimes == {"2021-03-04T5:06:07Z", "2021-03-04T05:06:07,25Z"}
\* RFC 3339 texts with an offset whose instant, in UTC, lies outside the years 0000-9999: fine as they stand, not writable in UTC
EdgeTimes == {"9999-12-31T23:30:00-01:00", "0000-01-01T00:00:00+01:00"}
\* seconds since the epoch -> the time (times are named by their RFC 3339 UTC text)
SecsTime == [ i0 |-> "1970-01-01T00:00:00Z", i42 |-> "1970-01-01T00:00:42Z", i1 |-> "1970-01-01T00:00:01Z", im1 |-> "1969-12-31T23:59:59Z",
              i2p24p1 |-> "1970-07-14T04:20:17Z", i2p31m1 |-> "2038-01-19T03:14:07Z", im2p31 |-> "1901-12-13T20:45:52Z",
              i2p31 |-> "2038-01-19T03:14:08Z", im2p31m1 |-> "1901-12-13T20:45:51Z", i2p32p1 |-> "2106-02-07T06:28:17Z",
              f1p5 |-> "1970-01-01T00:00:01.5Z", fm0p5 |-> "1969-12-31T23:59:59.5Z" ]
\* numbers that are no time an RFC 3339 text can name (year 0000 to 9999), as seconds since the epoch
TimeOut == {"i2p53", "i2p53p1", "i2p63m1", "im2p63", "i2p63", "ff32max", "f1e39", "f1e300", "nan", "pinf", "ninf"}
\* time.Time values outside those years (named, not written)
FarTimes == {"year12345", "yearMinus5"}

-----------------------------------------------------------------------------
(* values and types *)

Null == [k |-> "null"]
Num(p, g) == [k |-> "num", p |-> p, g |-> g]
Str(s) == [k |-> "str", s |-> s]
Bool(b) == [k |-> "bool", b |-> b]
Sym(s) == [k |-> "sym", s |-> s]
Tim(s) == [k |-> "time", s |-> s]
Lst(xs) == [k |-> "list", xs |-> xs]
Obj(f) == [k |-> "obj", f |-> f]
Var(n) == [k |-> "var", n |-> n]
AnyTime == [k |-> "anytime"]
EmptyFn == [x \in {} |-> Null]
Put(f, key, v) == [x \in DOMAIN f \cup {key} |-> IF x = key THEN v ELSE f[x]]

Named(n) == [k |-> "named", n |-> n]
ListOf(t) == [k |-> "list", of |-> t]
NonNull(t) == [k |-> "nonnull", of |-> t]
NoType == [k |-> "none"]

RECURSIVE BaseName(_)
BaseName(t) == IF t.k = "named" THEN t.n ELSE IF t.k = "none" THEN "" ELSE BaseName(t.of)
Unwrap(t) == IF t.k = "nonnull" THEN t.of ELSE t

Range(f) == {f[i] : i \in DOMAIN f}
PIdx(i) == "i:" \o ToString(i)
PKey(s) == "k:" \o s

\* a coercion schema: enums : name -> set of values;  inputs : name -> sequence of [n, t, hasDef, def];
\* objects : set of object type names
IsEnum(S, n) == n \in DOMAIN S.enums
IsInput(S, n) == n \in DOMAIN S.inputs
IsObject(S, n) == n \in S.objects
InFields(S, n) == S.inputs[n]
InNames(S, n) == {InFields(S, n)[i].n : i \in DOMAIN InFields(S, n)}
InField(S, n, f) == CHOOSE fd \in Range(InFields(S, n)) : fd.n = f

Ok(v) == [out |-> "ok", val |-> v, path |-> <<>>]
May(v) == [out |-> "may", val |-> v, path |-> <<>>]
Err(p) == [out |-> "err", val |-> Null, path |-> p]
Both(a, b) == IF a = "may" \/ b = "may" THEN "may" ELSE "ok"

\* kinds the statement obliges a scalar to accept (see the header); other kinds: "may"
MustKinds == ("Int" :> {"int64", "float64", "int32"}) @@ ("Float" :> {"int64", "float64", "float32"}) @@
             ("Float64" :> {"int64", "float64"}) @@ ("Int64" :> {"int64"}) @@ ("ID" :> {"int64"})
Acc(n, g, v) == IF g \in MustKinds[n] THEN Ok(v) ELSE May(v)

\* the coercion schema of the universe U-coerce
TInt == Named("Int")
NumL(p) == Num(p, LitKind(p))
USchema == [
  enums |-> [Color |-> {"RED", "GREEN"}],
  inputs |-> [In |-> << [n |-> "a", t |-> NonNull(TInt), hasDef |-> FALSE, def |-> Null],
                        [n |-> "b", t |-> Named("String"), hasDef |-> TRUE, def |-> Str("dflt")],
                        [n |-> "c", t |-> TInt, hasDef |-> TRUE, def |-> NumL("i42")],
                        [n |-> "r", t |-> NonNull(TInt), hasDef |-> TRUE, def |-> NumL("i42")],
                        [n |-> "l", t |-> ListOf(NonNull(TInt)), hasDef |-> FALSE, def |-> Null],
                        [n |-> "n", t |-> Named("In"), hasDef |-> FALSE, def |-> Null] >>],
  objects |-> {"Thing"} ]

-----------------------------------------------------------------------------
(* PART S, C04: what a written value denotes at an input position *)

ScalarIn(n, v) ==
  CASE n = "Int" ->
         IF v.k = "num" /\ Pt[v.p].int /\ Pt[v.p].i32 THEN Acc("Int", v.g, Num(v.p, "int32")) ELSE Err(<<>>)
    [] n = "Float" ->
         IF v.k = "num" /\ Pt[v.p].f32 THEN Acc("Float", v.g, Num(v.p, "float32")) ELSE Err(<<>>)
    [] n = "Float64" ->
         IF v.k = "num" THEN (IF Pt[v.p].fin THEN Acc("Float64", v.g, Num(v.p, "float64")) ELSE Err(<<>>))
         ELSE IF v.k = "str" /\ v.s \in DOMAIN StrNum THEN May(Num(StrNum[v.s], "float64"))
         ELSE Err(<<>>)
    [] n = "Int64" ->
         IF v.k = "num" THEN (IF Pt[v.p].int /\ Pt[v.p].i64 THEN Acc("Int64", v.g, Num(v.p, "int64")) ELSE Err(<<>>))
         ELSE IF v.k = "str" /\ v.s \in DOMAIN StrNum /\ Pt[StrNum[v.s]].int /\ Pt[StrNum[v.s]].i64
              THEN May(Num(StrNum[v.s], "int64"))
         ELSE Err(<<>>)
    [] n = "ID" ->
         IF v.k = "str" THEN Ok(v)
         ELSE IF v.k = "num" /\ Pt[v.p].int THEN Acc("ID", v.g, Str(Pt[v.p].dec))
         ELSE Err(<<>>)
    [] n = "String" -> IF v.k = "str" THEN Ok(v) ELSE Err(<<>>)
    [] n = "Boolean" -> IF v.k = "bool" THEN Ok(v) ELSE Err(<<>>)
    [] n = "Time" ->
         IF v.k = "str" THEN (IF v.s \in ValidTimes THEN Ok(Tim(v.s)) ELSE Err(<<>>))
         ELSE IF v.k \in {"time", "anytime"} THEN Ok(v)
         ELSE IF v.k = "num" THEN (IF v.p \in TimeOut THEN Err(<<>>) ELSE May(IF v.p \in DOMAIN SecsTime THEN Tim(SecsTime[v.p]) ELSE AnyTime))
         ELSE Err(<<>>)
    [] OTHER -> Err(<<>>)

\* enum: a declared member given as a symbol (a string only under ggql.Relaxed)
EnumIn(S, n, v, rx) ==
  IF v.k = "sym" THEN (IF v.s \in S.enums[n] THEN Ok(v) ELSE Err(<<>>))
  ELSE IF v.k = "str" /\ rx /\ v.s \in S.enums[n] THEN Ok(Sym(v.s))
  ELSE Err(<<>>)

RECURSIVE CoerceIn(_, _, _, _), ElemsIn(_, _, _, _, _), FieldsIn(_, _, _, _, _)

CoerceIn(S, t, v, rx) ==
  IF t.k = "nonnull" THEN (IF v.k = "null" THEN Err(<<>>) ELSE CoerceIn(S, t.of, v, rx))   \* non-null positions never null
  ELSE IF v.k = "null" THEN Ok(Null)
  ELSE IF t.k = "list" THEN (IF v.k = "list" THEN ElemsIn(S, t.of, v.xs, 1, rx) ELSE Err(<<>>))
  ELSE IF IsEnum(S, t.n) THEN EnumIn(S, t.n, v, rx)
  ELSE IF IsInput(S, t.n)
  THEN IF v.k # "obj" THEN Err(<<>>)
       ELSE LET unknown == DOMAIN v.f \ InNames(S, t.n)                                     \* only declared fields
            IN IF unknown # {} THEN Err(<<PKey(CHOOSE x \in unknown : TRUE)>>)
               ELSE FieldsIn(S, InFields(S, t.n), v.f, 1, rx)
  ELSE ScalarIn(t.n, v)

\* lists are coerced element-wise; the error addresses the first element that cannot be coerced
ElemsIn(S, et, xs, i, rx) ==
  IF i > Len(xs) THEN Ok(Lst(<<>>))
  ELSE LET r == CoerceIn(S, et, xs[i], rx)
           rest == ElemsIn(S, et, xs, i + 1, rx)
       IN IF r.out = "err" THEN Err(<<PIdx(i - 1)>> \o r.path)
          ELSE IF rest.out = "err" THEN rest
          ELSE [out |-> Both(r.out, rest.out), val |-> Lst(<<r.val>> \o rest.val.xs), path |-> <<>>]

\* input objects: required fields present, defaults filled in (and conforming to the field's type);
\* a field that is null - written so, or absent with no default - is not part of the value
FieldsIn(S, fds, f, i, rx) ==
  IF i > Len(fds) THEN Ok(Obj(EmptyFn))
  ELSE LET fd == fds[i]
           present == fd.n \in DOMAIN f          \* null written for a field is a value: the default is for a field left out
           r == IF present THEN CoerceIn(S, fd.t, f[fd.n], rx)
                ELSE IF fd.hasDef THEN CoerceIn(S, fd.t, fd.def, rx)
                ELSE IF fd.t.k = "nonnull" THEN Err(<<>>)
                ELSE Ok(Null)
           rest == FieldsIn(S, fds, f, i + 1, rx)
       IN IF r.out = "err" THEN Err(<<PKey(fd.n)>> \o r.path)
          ELSE IF rest.out = "err" THEN rest
          ELSE [out |-> Both(r.out, rest.out), path |-> <<>>,
                val |-> Obj(IF r.val.k = "null" /\ ~present THEN rest.val.f ELSE Put(rest.val.f, fd.n, r.val))]

\* variables occurring inside literals stand for their (coerced) values
RECURSIVE Subst(_, _)
Subst(env, v) ==
  CASE v.k = "var" -> env[v.n]
    [] v.k = "list" -> Lst([i \in DOMAIN v.xs |-> Subst(env, v.xs[i])])
    [] v.k = "obj" -> Obj([x \in DOMAIN v.f |-> Subst(env, v.f[x])])
    [] OTHER -> v

\* the value as the resolver sees it: a null field and a field that is not there are one thing (a Go map lookup
\* yields nil for both), so handed-over values are compared without their null fields
RECURSIVE Strip(_)
Strip(v) ==
  CASE v.k = "list" -> Lst([i \in DOMAIN v.xs |-> Strip(v.xs[i])])
    [] v.k = "obj" -> Obj([x \in {y \in DOMAIN v.f : v.f[y].k # "null"} |-> Strip(v.f[x])])
    [] OTHER -> v

\* a variable's value: the caller's value takes precedence over the default
VarNames(vds) == {vds[i].n : i \in DOMAIN vds}
VarDef(vds, n) == CHOOSE vd \in Range(vds) : vd.n = n
Given(given, n) == n \in DOMAIN given       \* (null is a value: the default is for a variable left out)
VarValue(vd, given) == IF Given(given, vd.n) THEN given[vd.n] ELSE IF vd.hasDef THEN vd.def ELSE Null

\* The outcome the property prescribes for a field  f(x: <lit>)  whose argument x has declared type at,
\* in an operation declaring the variables vds, called with the variable values `given`:
\*   call(val)   the resolver is invoked once and receives val
\*   reject      an error for the field or the variable, the resolver is not invoked
\*   may(val)    either of the two (see the header)
ArgOutcome(S, at, lit, vds, given, rx) ==
  LET vr == [n \in VarNames(vds) |-> CoerceIn(S, VarDef(vds, n).t, VarValue(VarDef(vds, n), given), rx)]
      env == [n \in VarNames(vds) |-> vr[n].val]
      a == CoerceIn(S, at, Subst(env, lit), rx)
  IN IF (\E n \in VarNames(vds) : vr[n].out = "err") \/ a.out = "err" THEN [out |-> "reject"]
     ELSE IF (\E n \in VarNames(vds) : vr[n].out = "may") \/ a.out = "may" THEN [out |-> "may", val |-> Strip(a.val)]
     ELSE [out |-> "call", val |-> Strip(a.val)]

\* C04 "conforms to the declared type" as a predicate on handed-over values (checked by TLC on
\* everything CoerceIn accepts: MCCoerce!OracleConforms)
RECURSIVE Conforms(_, _, _)
Conforms(S, t, v) ==
  IF t.k = "nonnull" THEN v.k # "null" /\ Conforms(S, t.of, v)
  ELSE IF v.k = "null" THEN TRUE
  ELSE IF t.k = "list" THEN v.k = "list" /\ \A i \in DOMAIN v.xs : Conforms(S, t.of, v.xs[i])
  ELSE IF IsEnum(S, t.n) THEN v.k = "sym" /\ v.s \in S.enums[t.n]
  ELSE IF IsInput(S, t.n)
  THEN /\ v.k = "obj"
       /\ DOMAIN v.f \subseteq InNames(S, t.n)
       /\ \A fd \in Range(InFields(S, t.n)) :
             IF fd.n \in DOMAIN v.f THEN Conforms(S, fd.t, v.f[fd.n])
             ELSE fd.t.k # "nonnull"      \* (null: written so, or left out where there is no default)
  ELSE CASE t.n = "Int" -> v.k = "num" /\ v.g = "int32" /\ Pt[v.p].int /\ Pt[v.p].i32
         [] t.n = "Float" -> v.k = "num" /\ v.g = "float32" /\ Pt[v.p].f32
         [] t.n = "Float64" -> v.k = "num" /\ v.g = "float64" /\ Pt[v.p].fin
         [] t.n = "Int64" -> v.k = "num" /\ v.g = "int64" /\ Pt[v.p].int /\ Pt[v.p].i64
         [] t.n \in {"String", "ID"} -> v.k = "str"
         [] t.n = "Boolean" -> v.k = "bool"
         [] t.n = "Time" -> v.k \in {"time", "anytime"}
         [] OTHER -> FALSE

-----------------------------------------------------------------------------
(* PART M, C04: ggql's input coercion with named deviations                *)
(*   cx = [dv |-> set of deviation names, rx |-> ggql.Relaxed]             *)
(* Deviations (each is one behaviour of the current code):                 *)
(*   IntTruncIn   intScalar.CoerceIn converts integer kinds with int32(v)  *)
(*                without a range check                                    *)
(*   FloatOverflowIn  floatScalar/float64Scalar.CoerceIn do not check that *)
(*                the result is finite (1e39 becomes +Inf, NaN passes)     *)
(*   SymbolAnyType  replaceArgVars only checks a Symbol literal for        *)
(*                membership when the base type is an enum; it is never    *)
(*                checked against the declared type itself                 *)
(*   NonNullListNoElemCoerce  replaceArgVars does not see the list type    *)
(*                under a NonNull wrapper: elements pass unchecked         *)
(*   ContainerLiteralUnchecked  replaceArgVars hands a list literal to a   *)
(*                non-list type and an object literal to a non-input type  *)
(*                (or through list wrappers) without coercing the whole    *)
(*   DefaultNotCoerced  Input.CoerceIn fills in the default as parsed      *)
(*                (int64 for an Int field)                                 *)
(*   Int64KeepsInt32  int64Scalar.CoerceIn returns an int32 unchanged      *)
(*   RelaxedEnumUnchecked  under Relaxed a string becomes a Symbol without *)
(*                a membership check                                       *)

R(ok, v) == [ok |-> ok, val |-> v]
Fail == R(FALSE, Null)

ScalarCoIn(n, v, cx) ==
  CASE n = "Int" ->
         IF v.k # "num" THEN Fail
         ELSE IF v.g \in IntKinds
              THEN IF "IntTruncIn" \in cx.dv THEN R(TRUE, Num(Pt[v.p].w32, "int32"))
                   ELSE IF Pt[v.p].i32 THEN R(TRUE, Num(v.p, "int32")) ELSE Fail
         ELSE IF v.g = "float64" /\ Pt[v.p].int /\ Pt[v.p].i32 THEN R(TRUE, Num(v.p, "int32"))
         ELSE Fail
    [] n = "Float" ->
         IF v.k = "num" /\ v.g \in {"float64", "float32", "int32", "int64"} /\ (Pt[v.p].f32 \/ "FloatOverflowIn" \in cx.dv)
         THEN R(TRUE, Num(v.p, "float32")) ELSE Fail
    [] n = "Float64" ->
         IF v.k = "num" /\ v.g \in {"float64", "float32", "int32", "int64"} /\ (Pt[v.p].fin \/ "FloatOverflowIn" \in cx.dv)
         THEN R(TRUE, Num(v.p, "float64"))
         ELSE IF v.k = "str" /\ v.s \in DOMAIN StrNum THEN R(TRUE, Num(StrNum[v.s], "float64"))
         ELSE Fail
    [] n = "Int64" ->
         IF v.k = "num" /\ v.g = "int64" THEN R(TRUE, Num(v.p, "int64"))
         ELSE IF v.k = "num" /\ v.g = "int32" THEN R(TRUE, Num(v.p, IF "Int64KeepsInt32" \in cx.dv THEN "int32" ELSE "int64"))
         ELSE IF v.k = "str" /\ v.s \in DOMAIN StrNum /\ Pt[StrNum[v.s]].int THEN R(TRUE, Num(StrNum[v.s], "int64"))
         ELSE Fail
    [] n = "ID" ->
         IF v.k = "str" THEN R(TRUE, v)
         ELSE IF v.k = "num" /\ v.g \in {"int32", "int64", "int"} THEN R(TRUE, Str(Pt[v.p].dec))
         ELSE Fail
    [] n = "String" -> IF v.k = "str" THEN R(TRUE, v) ELSE Fail
    [] n = "Boolean" -> IF v.k = "bool" THEN R(TRUE, v) ELSE Fail
    [] n = "Time" ->
         IF v.k = "str" THEN (IF v.s \in ValidTimes THEN R(TRUE, Tim(v.s)) ELSE Fail)
         ELSE IF v.k \in {"time", "anytime"} THEN R(TRUE, v)
         ELSE IF v.k = "num" /\ v.g \in {"float64", "int64"} /\ v.p \notin TimeOut
              THEN R(TRUE, IF v.p \in DOMAIN SecsTime THEN Tim(SecsTime[v.p]) ELSE AnyTime)
         ELSE Fail
    [] OTHER -> Fail

RECURSIVE CoIn(_, _, _, _), CoInFields(_, _, _, _, _)

\* Type.CoerceIn (nonnull.go, list.go, enum.go, input.go, *scalar.go)
CoIn(S, t, v, cx) ==
  IF t.k = "nonnull" THEN (IF v.k = "null" THEN Fail ELSE CoIn(S, t.of, v, cx))
  ELSE IF v.k = "null" THEN R(TRUE, Null)
  ELSE IF t.k = "list"
  THEN IF v.k # "list" THEN Fail
       ELSE LET sub == [i \in DOMAIN v.xs |-> CoIn(S, t.of, v.xs[i], cx)]
            IN R(\A i \in DOMAIN v.xs : sub[i].ok, Lst([i \in DOMAIN v.xs |-> sub[i].val]))
  ELSE IF IsEnum(S, t.n)
  THEN IF v.k = "sym" THEN R(v.s \in S.enums[t.n], v)
       ELSE IF v.k = "str" /\ cx.rx THEN R(v.s \in S.enums[t.n] \/ "RelaxedEnumUnchecked" \in cx.dv, Sym(v.s))
       ELSE Fail
  ELSE IF IsInput(S, t.n)
  THEN IF v.k # "obj" \/ DOMAIN v.f \ InNames(S, t.n) # {} THEN Fail
       ELSE CoInFields(S, InFields(S, t.n), v.f, 1, cx)
  ELSE ScalarCoIn(t.n, v, cx)

CoInFields(S, fds, f, i, cx) ==
  IF i > Len(fds) THEN R(TRUE, Obj(EmptyFn))
  ELSE LET fd == fds[i]
           present == fd.n \in DOMAIN f
           r == IF present THEN CoIn(S, fd.t, f[fd.n], cx)
                ELSE IF fd.hasDef THEN (IF "DefaultNotCoerced" \in cx.dv THEN R(TRUE, fd.def) ELSE CoIn(S, fd.t, fd.def, cx))
                ELSE IF fd.t.k = "nonnull" THEN Fail
                ELSE R(TRUE, Null)
           rest == CoInFields(S, fds, f, i + 1, cx)
       IN R(r.ok /\ rest.ok, Obj(IF r.val.k = "null" /\ ~present THEN rest.val.f ELSE Put(rest.val.f, fd.n, r.val)))

\* Root.replaceArgVars: the walk over the literal written for an argument of type at (NoType when the
\* enclosing literal gave no type).  env holds the operation's variable values.
RECURSIVE LitIn(_, _, _, _, _)
LitIn(S, at, v, env, cx) ==
  CASE v.k = "var" -> IF at.k = "none" THEN R(TRUE, env[v.n]) ELSE CoIn(S, at, env[v.n], cx)
    [] v.k = "obj" ->
         LET bn == BaseName(at)
             isIn == at.k # "none" /\ IsInput(S, bn)
             sub == [x \in DOMAIN v.f |->
                       LitIn(S, IF isIn /\ x \in InNames(S, bn) THEN InField(S, bn, x).t ELSE NoType, v.f[x], env, cx)]
             subOk == \A x \in DOMAIN v.f : sub[x].ok
             m == Obj([x \in DOMAIN v.f |-> sub[x].val])
         IN IF ~isIn
            THEN \* no input type in sight: the literal is handed on as parsed - not even its variables are replaced
                 (IF at.k = "none" \/ "ContainerLiteralUnchecked" \in cx.dv THEN R(TRUE, v) ELSE Fail)
            ELSE IF "ContainerLiteralUnchecked" \in cx.dv
            THEN LET r == CoIn(S, Named(bn), m, cx) IN R(subOk /\ r.ok, r.val)
            ELSE LET r == CoIn(S, at, m, cx) IN R(subOk /\ r.ok, r.val)
    [] v.k = "list" ->
         LET u == Unwrap(at)
             et == IF at.k = "list" THEN at.of
                   ELSE IF at.k = "nonnull" /\ u.k = "list" /\ "NonNullListNoElemCoerce" \notin cx.dv THEN u.of
                   ELSE NoType
             wrong == at.k # "none" /\ u.k # "list"
             sub == [i \in DOMAIN v.xs |-> LitIn(S, et, v.xs[i], env, cx)]
         IN R((\A i \in DOMAIN v.xs : sub[i].ok) /\ (~wrong \/ "ContainerLiteralUnchecked" \in cx.dv),
              Lst([i \in DOMAIN v.xs |-> sub[i].val]))
    [] v.k = "sym" ->
         IF at.k = "none" THEN R(TRUE, v)
         ELSE IF "SymbolAnyType" \in cx.dv
         THEN (IF IsEnum(S, BaseName(at)) THEN R(v.s \in S.enums[BaseName(at)], v) ELSE R(TRUE, v))
         ELSE CoIn(S, at, v, cx)
    [] OTHER -> IF at.k = "none" THEN R(TRUE, v) ELSE CoIn(S, at, v, cx)

\* ResolveExecutable (variable binding) + formArgs:  call(val) | fielderr | varerr
ImplOutcome(S, at, lit, vds, given, cx) ==
  LET vr == [n \in VarNames(vds) |-> IF Given(given, n) THEN CoIn(S, VarDef(vds, n).t, given[n], cx) ELSE R(TRUE, Null)]
      env == [n \in VarNames(vds) |->
                IF Given(given, n) THEN vr[n].val ELSE IF VarDef(vds, n).hasDef THEN VarDef(vds, n).def ELSE Null]
      a == LitIn(S, at, lit, env, cx)
  IN IF \E n \in VarNames(vds) : ~vr[n].ok THEN [out |-> "varerr"]
     ELSE IF ~a.ok THEN [out |-> "fielderr"]
     ELSE [out |-> "call", val |-> Strip(a.val)]

\* M's outcome m is one the property's outcome s allows
CompatIn(s, m) ==
  CASE s.out = "call" -> m.out = "call" /\ m.val = s.val
    [] s.out = "reject" -> m.out \in {"fielderr", "varerr"}
    [] s.out = "may" -> m.out # "call" \/ m.val = s.val

-----------------------------------------------------------------------------
(* PART S, C05: the JSON value a resolver's Go value becomes               *)
(*                                                                         *)
(* Go values:  Null (untyped nil) | [k |-> "nilptr"] | Num | Str | Bool |  *)
(*   Sym | Tim | GList(lk, et, xs) | [k |-> "other", s |-> what] |         *)
(*   [k |-> "node"] (an object implementing ggql.Resolver)                 *)
(*   lk: "iface" []interface{} | "lres" a ggql.ListResolver | "typed" one  *)
(*   of the slice types resolveList knows ([]string []int []int64 []bool   *)
(*   []float32 []float64 []time.Time) | "refl" any other slice | "array";  *)
(*   et: the Go element type of typed/refl/array lists.                    *)
(* Prescribed JSON (a tree that also says where errors must be):           *)
(*   Null | Num(p, g) | Str | Bool | Lst | [k |-> "object"] |              *)
(*   ErrJ            null, and an error addresses this position            *)
(*   MayJ(j)         either j without an error here, or ErrJ               *)
(*   AnyStr, AnyTime any string / any RFC 3339 string                      *)
(* and, produced only by deviations of M:                                  *)
(*   Raw(gv)         the resolver's value, unconverted, no error           *)
(*   LeakJ(gv)       the resolver's value, unconverted, plus an error      *)
(*   Wild(g)         some number of Go kind g                              *)

GList(lk, et, xs) == [k |-> "list", lk |-> lk, et |-> et, xs |-> xs]
\* a value of a named Go type whose underlying basic type holds u (type Age int8; Age(1) = Named_(Num("i1", "int8")))
Named_(u) == [k |-> "named", u |-> u]
ErrJ == [k |-> "errnull"]
MayJ(j) == [k |-> "may", v |-> j]
AnyStr == [k |-> "anystr"]
Raw(gv) == [k |-> "raw", gv |-> gv]
LeakJ(gv) == [k |-> "leak", gv |-> gv]
Wild(g) == [k |-> "wild", g |-> g]
ObjectJ == [k |-> "object"]

\* A value of a named type is none of the types a scalar is documented to take: refusing it (null plus error) is in
\* order, and so is treating it as the value of its underlying type - anything else is not.
LeafOutB(S, n, gv) ==
  CASE n = "Int" ->                        \* a 32-bit integer
         IF gv.k = "num" THEN (IF Pt[gv.p].int /\ Pt[gv.p].i32 THEN Num(gv.p, "int32") ELSE ErrJ)
         ELSE IF gv.k = "str" /\ gv.s \in DOMAIN StrNum /\ Pt[StrNum[gv.s]].int /\ Pt[StrNum[gv.s]].i32
              THEN MayJ(Num(StrNum[gv.s], "int32"))
         ELSE ErrJ
    [] n = "Float" ->                      \* a finite number (single precision)
         IF gv.k = "num" THEN (IF Pt[gv.p].f32 THEN Num(gv.p, "float32") ELSE ErrJ)
         ELSE IF gv.k = "str" /\ gv.s \in DOMAIN StrNum /\ Pt[StrNum[gv.s]].f32 THEN MayJ(Num(StrNum[gv.s], "float32"))
         ELSE ErrJ
    [] n = "Float64" ->
         IF gv.k = "num" THEN (IF Pt[gv.p].fin THEN Num(gv.p, "float64") ELSE ErrJ)
         ELSE IF gv.k = "str" /\ gv.s \in DOMAIN StrNum /\ Pt[StrNum[gv.s]].fin THEN MayJ(Num(StrNum[gv.s], "float64"))
         ELSE ErrJ
    [] n = "Int64" ->
         IF gv.k = "num" THEN (IF Pt[gv.p].int /\ Pt[gv.p].i64 THEN Num(gv.p, "int64") ELSE ErrJ)
         ELSE IF gv.k = "str" /\ gv.s \in DOMAIN StrNum /\ Pt[StrNum[gv.s]].int /\ Pt[StrNum[gv.s]].i64
              THEN MayJ(Num(StrNum[gv.s], "int64"))
         ELSE ErrJ
    [] n = "String" ->
         IF gv.k = "str" THEN gv
         ELSE IF gv.k \in {"num", "bool", "sym", "time"} THEN MayJ(AnyStr)
         ELSE ErrJ
    [] n = "ID" ->
         IF gv.k = "str" THEN gv
         ELSE IF gv.k = "num" THEN MayJ(AnyStr)
         ELSE ErrJ
    [] n = "Boolean" ->
         IF gv.k = "bool" THEN gv
         ELSE IF gv.k = "num" THEN MayJ(Bool(Pt[gv.p].nz))
         ELSE IF gv.k = "str" /\ gv.s \in DOMAIN BoolStr THEN MayJ(Bool(BoolStr[gv.s]))
         ELSE ErrJ
    [] n = "Time" ->                       \* an RFC 3339 string
         IF gv.k = "time" THEN (IF gv.s \in FarTimes THEN ErrJ ELSE Str(gv.s))
         ELSE IF gv.k = "str" THEN (IF gv.s \in ValidTimes THEN Str(gv.s) ELSE IF gv.s \in LenientTimes \cup EdgeTimes THEN MayJ(AnyTime) ELSE ErrJ)
         ELSE IF gv.k = "num" THEN (IF gv.p \in TimeOut THEN ErrJ ELSE MayJ(IF gv.p \in DOMAIN SecsTime THEN Str(SecsTime[gv.p]) ELSE AnyTime))
         ELSE ErrJ
    [] OTHER ->                            \* enum: the name of a declared value
         IF IsEnum(S, n) /\ gv.k \in {"sym", "str"} /\ gv.s \in S.enums[n] THEN Str(gv.s) ELSE ErrJ

LeafOut(S, n, gv) ==
  IF gv.k # "named" THEN LeafOutB(S, n, gv)
  ELSE LET j == LeafOutB(S, n, gv.u) IN IF j.k \in {"errnull", "may"} THEN j ELSE MayJ(j)

RECURSIVE CoerceOut(_, _, _)
CoerceOut(S, t, gv) ==
  IF gv.k \in {"null", "nilptr"} THEN Null
  ELSE IF t.k = "nonnull" THEN CoerceOut(S, t.of, gv)
  ELSE IF t.k = "list"
  THEN (IF gv.k = "list" THEN Lst([i \in DOMAIN gv.xs |-> CoerceOut(S, t.of, gv.xs[i])]) ELSE ErrJ)
  ELSE IF IsObject(S, t.n) THEN (IF gv.k = "node" THEN ObjectJ ELSE ErrJ)
  ELSE LeafOut(S, t.n, gv)

\* C05 "has the JSON shape of the declared type" as a predicate on prescribed values
\* (checked by TLC on everything CoerceOut yields: MCCoerce!OracleWellTyped)
RECURSIVE WellTyped(_, _, _)
WellTyped(S, t, j) ==
  IF j.k \in {"null", "errnull"} THEN TRUE
  ELSE IF j.k = "may" THEN WellTyped(S, t, j.v)
  ELSE IF t.k = "nonnull" THEN WellTyped(S, t.of, j)
  ELSE IF t.k = "list" THEN j.k = "list" /\ \A i \in DOMAIN j.xs : WellTyped(S, t.of, j.xs[i])
  ELSE IF IsObject(S, t.n) THEN j.k = "object"
  ELSE IF IsEnum(S, t.n) THEN j.k = "str" /\ j.s \in S.enums[t.n]
  ELSE CASE t.n = "Int" -> j.k = "num" /\ j.g = "int32" /\ Pt[j.p].int /\ Pt[j.p].i32
         [] t.n = "Float" -> j.k = "num" /\ j.g = "float32" /\ Pt[j.p].f32
         [] t.n = "Float64" -> j.k = "num" /\ j.g = "float64" /\ Pt[j.p].fin
         [] t.n = "Int64" -> j.k = "num" /\ j.g = "int64" /\ Pt[j.p].int /\ Pt[j.p].i64
         [] t.n \in {"String", "ID"} -> j.k \in {"str", "anystr"}
         [] t.n = "Boolean" -> j.k = "bool"
         [] t.n = "Time" -> j.k = "anytime" \/ (j.k = "str" /\ j.s \in ValidTimes \cup Range(SecsTime))
         [] OTHER -> FALSE

-----------------------------------------------------------------------------
(* PART M, C05: ggql's result coercion (resolve / resolveList / CoerceOut)  *)
(* Deviations:                                                             *)
(*   IntTruncOut  intScalar/int64Scalar.CoerceOut convert with int32(v) /  *)
(*                int64(v) without a range check                           *)
(*   FloatTruncOut  ... and truncate a float that has a fraction           *)
(*   NonFiniteOut floatScalar/float64Scalar.CoerceOut do not check that    *)
(*                the result is finite                                     *)
(*   ParseFailLeak  when a string cannot be parsed CoerceOut returns the   *)
(*                string itself together with the error                    *)
(*   TypedSliceNoCoerce  resolveList copies the elements of the slice      *)
(*                types it knows without coercing them                     *)
(*   EnumUndeclaredOut  Enum.CoerceOut accepts any string or Symbol        *)

ParseFail(gv, dv) == IF "ParseFailLeak" \in dv THEN LeakJ(gv) ELSE ErrJ

\* the number behind a numeric Go value or a string that parses as one ("" = none)
NumOf(gv, intOnly) ==
  IF gv.k = "num" THEN gv.p
  ELSE IF gv.k = "str" /\ gv.s \in DOMAIN StrNum /\ (~intOnly \/ Pt[StrNum[gv.s]].int) THEN StrNum[gv.s]
  ELSE ""

LeafCoOut(S, n, gv, dv) ==
  CASE n \in {"Int", "Int64"} ->
         LET g == IF n = "Int" THEN "int32" ELSE "int64"
             p == NumOf(gv, TRUE)
             fits == IF n = "Int" THEN Pt[p].i32 ELSE Pt[p].i64
             intSrc == gv.k = "str" \/ gv.g \in IntKinds      \* strings go through ParseInt(…, 64)
         IN IF gv.k \notin {"num", "str"} THEN ErrJ
            ELSE IF p = "" THEN ParseFail(gv, dv)
            ELSE IF Pt[p].int /\ fits THEN Num(p, g)
            ELSE IF ~intSrc /\ Pt[p].tr # "" /\ ~Pt[p].int                                    \* a fraction, in range
            THEN (IF "FloatTruncOut" \in dv THEN Num(Pt[p].tr, g) ELSE ErrJ)                    \* truncates
            ELSE IF "IntTruncOut" \notin dv THEN ErrJ
            ELSE IF intSrc THEN (IF n = "Int" THEN Num(Pt[p].w32, g) ELSE Num("im2p63", g))    \* wraps
            ELSE Wild(g)                                                                       \* out of range: unspecified
    [] n \in {"Float", "Float64"} ->
         LET g == IF n = "Float" THEN "float32" ELSE "float64"
             p == NumOf(gv, FALSE)
         IN IF gv.k \notin {"num", "str"} THEN ErrJ
            ELSE IF p = "" THEN ParseFail(gv, dv)
            ELSE IF (IF n = "Float" THEN Pt[p].f32 ELSE Pt[p].fin) \/ "NonFiniteOut" \in dv THEN Num(p, g)
            ELSE ErrJ
    [] n = "String" -> IF gv.k = "str" THEN gv ELSE IF gv.k \in {"num", "bool"} THEN AnyStr ELSE ErrJ
    [] n = "ID" -> IF gv.k = "str" THEN gv ELSE IF gv.k = "num" /\ gv.g \in IntKinds THEN AnyStr ELSE ErrJ
    [] n = "Boolean" ->
         IF gv.k = "bool" THEN gv
         ELSE IF gv.k = "num" /\ gv.g \in {"float32", "int32"} THEN Bool(Pt[gv.p].nz)
         ELSE IF gv.k = "str" THEN (IF gv.s \in DOMAIN BoolStr THEN Bool(BoolStr[gv.s]) ELSE ParseFail(gv, dv))
         ELSE ErrJ
    [] n = "Time" ->
         IF gv.k = "time" THEN (IF gv.s \in FarTimes THEN ErrJ ELSE Str(gv.s))
         ELSE IF gv.k = "str" THEN (IF gv.s \in ValidTimes THEN Str(gv.s) ELSE IF gv.s \in LenientTimes THEN AnyTime
                                    ELSE IF gv.s \in EdgeTimes THEN ErrJ ELSE ParseFail(gv, dv))
         ELSE IF gv.k = "num" /\ gv.g \in {"float64", "int64"} /\ gv.p \notin TimeOut
              THEN (IF gv.p \in DOMAIN SecsTime THEN Str(SecsTime[gv.p]) ELSE AnyTime)
         ELSE ErrJ
    [] OTHER ->
         IF IsEnum(S, n) /\ gv.k \in {"sym", "str"} /\ (gv.s \in S.enums[n] \/ "EnumUndeclaredOut" \in dv) THEN Str(gv.s) ELSE ErrJ

RECURSIVE CoOut(_, _, _, _)
CoOut(S, t, gv, dv) ==
  IF gv.k \in {"null", "nilptr"} THEN Null
  ELSE IF t.k = "nonnull" THEN CoOut(S, t.of, gv, dv)
  ELSE IF t.k = "list"
  THEN IF gv.k # "list" THEN ErrJ
       ELSE IF gv.lk = "typed" /\ "TypedSliceNoCoerce" \in dv THEN Lst([i \in DOMAIN gv.xs |-> Raw(gv.xs[i])])
       ELSE Lst([i \in DOMAIN gv.xs |-> CoOut(S, t.of, gv.xs[i], dv)])
  ELSE IF IsObject(S, t.n) THEN (IF gv.k = "node" THEN ObjectJ ELSE ErrJ)
  ELSE LeafCoOut(S, t.n, gv, dv)

\* M's tree m is one the property's tree s allows
RECURSIVE CompatOut(_, _)
CompatOut(s, m) ==
  CASE s.k = "may" -> m = ErrJ \/ CompatOut(s.v, m)
    [] s.k = "list" -> m.k = "list" /\ DOMAIN m.xs = DOMAIN s.xs /\ \A i \in DOMAIN s.xs : CompatOut(s.xs[i], m.xs[i])
    [] s.k = "anystr" -> m.k \in {"str", "anystr"}
    [] s.k = "anytime" -> m.k \in {"str", "anytime"}
    [] OTHER -> s = m

\* Judging an observed result (direction B).  The harness abstracts the response: act is the tree
\*   Null | Num(p, g) | Str | Bool | Lst | ObjectJ | [k |-> "unk", s |-> text]   and errs the set of
\* error paths; MatchOut says whether (act, errs) is what the expected tree e prescribes at `path`.
RECURSIVE MatchOut(_, _, _, _), ErrPathsOf(_, _, _)
HasErr(errs, path) == path \in errs
MatchOut(e, act, path, errs) ==
  CASE e.k = "errnull" -> act.k = "null" /\ HasErr(errs, path)
    [] e.k = "may" -> (act.k = "null" /\ HasErr(errs, path)) \/ MatchOut(e.v, act, path, errs)
    [] e.k = "list" -> /\ ~HasErr(errs, path) /\ act.k = "list" /\ DOMAIN act.xs = DOMAIN e.xs
                       /\ \A i \in DOMAIN e.xs : MatchOut(e.xs[i], act.xs[i], Append(path, PIdx(i - 1)), errs)
    [] e.k = "anystr" -> act.k = "str" /\ ~HasErr(errs, path)
    [] e.k = "anytime" -> act.k = "str" /\ act.s \in ValidTimes \cup Range(SecsTime) \cup {"sometime"} /\ ~HasErr(errs, path)
    [] e.k = "null" -> act.k = "null" /\ ~HasErr(errs, path)
    [] e.k = "num" -> act = e /\ ~HasErr(errs, path)
    [] e.k = "wild" -> act.k = "num" /\ act.g = e.g /\ ~HasErr(errs, path)
    [] e.k = "raw" -> act = e.gv /\ ~HasErr(errs, path)
    [] e.k = "leak" -> act = e.gv /\ HasErr(errs, path)
    [] OTHER -> act = e /\ ~HasErr(errs, path)
\* every reported error addresses a position where the expected tree allows one
ErrPathsOf(e, path, all) ==
  CASE e.k \in {"errnull", "leak"} -> {path}
    [] e.k = "may" -> IF all THEN {path} \cup ErrPathsOf(e.v, path, all) ELSE ErrPathsOf(e.v, path, all)
    [] e.k = "list" -> UNION {ErrPathsOf(e.xs[i], Append(path, PIdx(i - 1)), all) : i \in DOMAIN e.xs}
    [] OTHER -> {}
JudgeOut(e, act, errs) == MatchOut(e, act, <<>>, errs) /\ errs \subseteq ErrPathsOf(e, <<>>, TRUE)
=============================================================================
