------------------------- MODULE RegistryTraceCalls -------------------------
(***************************************************************************)
(* RegistryTrace for recordings of free-running goroutines in which a      *)
(* subscription request came back without its critical section having been *)
(* seen by the recorder (no in-lock point passed).  Such a call is known   *)
(* only by its start ("subcall") and its return ("subret"); the            *)
(* registration itself is then a step of Registry.tla taken somewhere in   *)
(* between, tied to no record.  A subscription whose critical section WAS  *)
(* seen is still judged at that record ("sub").  Every other record is     *)
(* judged exactly as in RegistryTrace.                                     *)
(***************************************************************************)
EXTENDS RegistryTrace

VARIABLE pending   \* per process: the subscriber of a started subscription request that is not registered yet (0: none)
cvars == <<tvars, pending>>

CInit == TraceInit /\ pending = [p \in Procs |-> 0] /\ TLCSet(1, l)
Mark == TLCSet(1, IF l' > TLCGet(1) THEN l' ELSE TLCGet(1))

CRecord == (TraceReset \/ TraceUnsub \/ TracePub1 \/ TracePub2) /\ UNCHANGED pending
CSubBlock == TraceSub /\ pending[Ev.p] = Ev.s /\ pending' = [pending EXCEPT ![Ev.p] = 0]
CSubCall == IsEvent("subcall") /\ pending[Ev.p] = 0 /\ pending' = [pending EXCEPT ![Ev.p] = Ev.s] /\ UNCHANGED vars
\* the request has returned: the subscriber is registered by now ("an event published after a subscription
\* request returned reaches that subscriber")
CSubRet == IsEvent("subret") /\ pending[Ev.p] = 0 /\ UNCHANGED <<vars, pending>>
CRegister == \E p \in Procs : /\ pending[p] # 0
                              /\ Subscribe(p, pending[p])
                              /\ pending' = [pending EXCEPT ![p] = 0]
                              /\ UNCHANGED l

CNext == (CRecord \/ CSubBlock \/ CSubCall \/ CSubRet \/ CRegister) /\ Mark
CSpec == CInit /\ [][CNext]_cvars

CAccepted ==
  IF TLCGet(1) = Len(JTrace) + 1 THEN TRUE
  ELSE /\ PrintT("@@REJ " \o ToJson([consumed |-> TLCGet(1) - 1, total |-> Len(JTrace)]))
       /\ FALSE
=============================================================================
