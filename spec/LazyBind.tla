------------------------------ MODULE LazyBind ------------------------------
(***************************************************************************)
(* C12: first-use discovery of reflection bindings under concurrency.      *)
(*                                                                         *)
(* The shared mutable state a request touches while it is resolved with    *)
(* the reflection strategy, and the locks that guard it:                   *)
(*                                                                         *)
(*   meta[o]   Object.meta  - the Go type bound to object type o           *)
(*   objMu[o]  Object.mu                                                   *)
(*   bind[fd]  FieldDef.goField / FieldDef.method of field definition fd   *)
(*   fdMu[fd]  FieldDef.mu                                                 *)
(*                                                                         *)
(* Every goroutine runs a program: a sequence of visits.  A visit is what  *)
(* the resolver does for one selected field of one Go object:              *)
(*                                                                         *)
(*   obj    resolveReflect(obj, t = *Object / *Schema)   (resolve.go)      *)
(*            assureType -> fd.mu section 1 (check, regField on first use) *)
(*            -> fd.mu section 2 (copy) -> use                             *)
(*   union  resolve() case *Union: metaMatch on every member in order,     *)
(*            then an obj visit on the member bound to the Go type         *)
(*   iface  resolve() case *Interface: implementor() = metaMatch on every  *)
(*            implementing object type in Root.types order, then an obj    *)
(*            visit; if there is none resolveReflect's *Interface case:    *)
(*            getReflectType() scans every object type for the Go type    *)
(*   intro  introspection / meta fields: no shared mutable state           *)
(*                                                                         *)
(* The steps are transcribed from root.go (assureType, regField,           *)
(* getReflectType), object.go (metaCheck/metaMatch) and resolve.go         *)
(* (resolveReflect, implementor, resolve).  Every read or write of shared  *)
(* state is its own labelled step, so that TLC explores every interleaving *)
(* of the accesses; Lock is a step that is enabled only when the mutex is  *)
(* free.  Labels (value of pc):                                            *)
(*                                                                         *)
(*  assureType      at_lock at_read at_write at_unlock                     *)
(*  resolveReflect  rr_lock1 rr_check [regField] rr_unlock1                *)
(*                  rr_lock2 rr_copy rr_unlock2 rr_use | rr_call           *)
(*  regField        rf_lock rf_read rf_unlock [rf_read2] rf_write          *)
(*  metaCheck       mc_lock mc_read mc_write mc_unlock                     *)
(*  getReflectType  grt_lock grt_read grt_unlock                           *)
(*                                                                         *)
(* Dev is a set of named deviations.  Dev = {} is the design that has the  *)
(* property.  Deviations the code has or could have:                       *)
(*                                                                         *)
(*  RegFieldUnlockedMetaRead  regField reads obj.meta a second time after  *)
(*        it released obj.mu (root.go `for i := obj.meta.NumMethod()..`),  *)
(*        step rf_read2                                                    *)
(*  LearnedBindingVisible     the look-ups for abstract types (metaMatch   *)
(*        for unions / implementor, getReflectType) see a Go type that     *)
(*        was only learned by assureType from an object-typed position of  *)
(*        some other request, i.e. a binding that is neither declared      *)
(*        (type name, @go) nor registered; what a request returns then     *)
(*        depends on which requests ran before or beside it                *)
(*  (model mutations, used to show that the invariants are not vacuous)    *)
(*  GrtNoLock       getReflectType reads meta without Object.mu            *)
(*  McNoLock        metaCheck reads/writes meta without Object.mu          *)
(*  AtNoLock        assureType reads/writes meta without Object.mu         *)
(*  NoFdLock1       resolveReflect checks / regField binds without fd.mu   *)
(*  LockOrderInverted  assureType is called while fd.mu is wanted by a     *)
(*        goroutine holding obj.mu (lock order obj -> fd in one path,      *)
(*        fd -> obj in regField)                                           *)
(*  NoLock2         the second fd.mu section is dropped (this one is       *)
(*        harmless: TLC shows NoRace still holds - the lock is redundant)  *)
(***************************************************************************)
EXTENDS GQLCore

CONSTANTS
  G,         \* goroutines: a set of positive integers
  Dev,       \* set of deviation names
  Worlds     \* world name -> world record (see LazyUniverse.tla)

VARIABLES
  wn,        \* name of the world (chosen at Init, never changes)
  prog,      \* goroutine -> sequence of visits (chosen at Init, never changes)
  meta,      \* object type -> Go type name or ""
  bind,      \* <<object type, field>> -> [k : "none"|"field"|"method", T : Go type]
  objMu,     \* object type -> 0 or the goroutine holding Object.mu
  fdMu,      \* <<object type, field>> -> 0 or the goroutine holding FieldDef.mu
  loc,       \* goroutine -> its program counter and local variables
  out        \* goroutine -> sequence of visit outcomes

vars == <<wn, prog, meta, bind, objMu, fdMu, loc, out>>

W == Worlds[wn]

NoBind == [k |-> "none", T |-> ""]
Fds(w) == w.fds     \* = UNION {{<<o, f>> : f \in w.fields[o]} : o \in w.objs}

\* what regField finds for GraphQL field f on Go type T: a struct field, a method or nothing
GoBind(T, f) == IF T \in DOMAIN W.gobind /\ f \in DOMAIN W.gobind[T] THEN W.gobind[T][f] ELSE "none"

\* a binding of Go type T to object type o that is declared (name, @go) or registered
Declared(o, T) == T # "" /\ (T \in W.match[o] \/ W.static[o] = T)

\* what an abstract-type look-up sees of a meta value m it read for object type c
Seen(c, m) == IF "LearnedBindingVisible" \in Dev THEN m
              ELSE IF Declared(c, m) THEN m ELSE ""

Impl(i) == SelectSeq(W.scan, LAMBDA o : i \in W.ifaces[o])

Visit(k, o, a, T, f) == [k |-> k, o |-> o, a |-> a, T |-> T, f |-> f]

-----------------------------------------------------------------------------
Cur(g) == prog[g][loc[g].vi]
FD(g) == <<loc[g].co, Cur(g).f>>
ScanSeq(g) == IF loc[g].pc \in {"grt_lock", "grt_read", "grt_unlock"} THEN W.scan
              ELSE IF Cur(g).k = "union" THEN W.members[Cur(g).a] ELSE Impl(Cur(g).a)
ScanObj(g) == ScanSeq(g)[loc[g].si]

InitLoc(p) == [pc |-> IF p = <<>> THEN "done" ELSE "start", vi |-> 1, si |-> 0, co |-> "", lm |-> "", lm2 |-> "",
               lb |-> NoBind, unb |-> "", err |-> FALSE, late |-> FALSE]

\* state after Init for a given world and programs (used by the instance modules)
InitWith(w, p) ==
  /\ wn = w
  /\ prog = p
  /\ meta = [o \in Worlds[w].objs |-> Worlds[w].static[o]]
  /\ bind = [fd \in Fds(Worlds[w]) |-> NoBind]
  /\ objMu = [o \in Worlds[w].objs |-> 0]
  /\ fdMu = [fd \in Fds(Worlds[w]) |-> 0]
  /\ loc = [g \in G |-> InitLoc(p[g])]
  /\ out = [g \in G |-> <<>>]

\* goroutine g finishes its current visit with outcome r.  An interface-typed value whose object
\* type was not found by implementor() but later by getReflectType() is resolved as the interface
\* (__typename, type conditions) with the fields of the object type: outcome "late".
Finish(g, r) ==
  /\ out' = [out EXCEPT ![g] = Append(@, IF loc[g].late /\ r = "val" THEN "late" ELSE r)]
  /\ loc' = [loc EXCEPT ![g] = [InitLoc(<<1>>) EXCEPT !.vi = loc[g].vi + 1,
                                   !.pc = IF loc[g].vi + 1 > Len(prog[g]) THEN "done" ELSE "start"]]

Goto(g, l) == loc' = [loc EXCEPT ![g].pc = l]
Shared == <<meta, bind, objMu, fdMu>>
Fixed == <<wn, prog>>

-----------------------------------------------------------------------------
\* dispatch of a visit
Start(g) ==
  /\ loc[g].pc = "start"
  /\ LET v == Cur(g) IN
       CASE v.k = "intro" -> Finish(g, "val")
         [] v.k = "obj"   -> /\ loc' = [loc EXCEPT ![g].pc = "at_lock", ![g].co = v.o]
                             /\ UNCHANGED out
         [] v.k = "union" -> /\ loc' = [loc EXCEPT ![g].pc = "mc_lock", ![g].si = 1, ![g].unb = ""]
                             /\ UNCHANGED out
         [] v.k = "iface" -> /\ loc' = [loc EXCEPT ![g].pc = IF Impl(v.a) = <<>> THEN "grt_lock" ELSE "mc_lock", ![g].si = 1]
                             /\ UNCHANGED out
  /\ UNCHANGED <<Shared, Fixed>>

\* ---- assureType (root.go) -------------------------------------------------
AtLock(g) ==
  /\ loc[g].pc = "at_lock"
  /\ IF "AtNoLock" \in Dev THEN UNCHANGED objMu
     ELSE objMu[loc[g].co] = 0 /\ objMu' = [objMu EXCEPT ![loc[g].co] = g]
  /\ Goto(g, "at_read")
  /\ UNCHANGED <<meta, bind, fdMu, out, Fixed>>

\* if obj.meta != nil && obj.meta != meta { return error }
AtRead(g) ==
  /\ loc[g].pc = "at_read"
  /\ LET m == meta[loc[g].co] IN
       loc' = [loc EXCEPT ![g].lm = m,
                          ![g].pc = IF m # "" /\ m # Cur(g).T THEN "at_unlock" ELSE "at_write"]
  /\ UNCHANGED <<Shared, out, Fixed>>

\* obj.meta = meta   (also when it already has that value)
AtWrite(g) ==
  /\ loc[g].pc = "at_write"
  /\ meta' = [meta EXCEPT ![loc[g].co] = Cur(g).T]
  /\ Goto(g, "at_unlock")
  /\ UNCHANGED <<bind, objMu, fdMu, out, Fixed>>

AtUnlock(g) ==
  /\ loc[g].pc = "at_unlock"
  /\ objMu' = IF objMu[loc[g].co] = g THEN [objMu EXCEPT ![loc[g].co] = 0] ELSE objMu
  /\ Goto(g, "rr_lock1")
  /\ UNCHANGED <<meta, bind, fdMu, out, Fixed>>

\* ---- resolveReflect, first fd.mu section (resolve.go) ----------------------
RrLock1(g) ==
  /\ loc[g].pc = "rr_lock1"
  /\ IF "NoFdLock1" \in Dev THEN UNCHANGED fdMu
     ELSE fdMu[FD(g)] = 0 /\ fdMu' = [fdMu EXCEPT ![FD(g)] = g]
  /\ Goto(g, "rr_check")
  /\ UNCHANGED <<meta, bind, objMu, out, Fixed>>

\* if len(fd.goField) == 0 && fd.method == nil { regField }
RrCheck(g) ==
  /\ loc[g].pc = "rr_check"
  /\ loc' = [loc EXCEPT ![g].lb = bind[FD(g)],
                        ![g].pc = IF bind[FD(g)].k = "none" THEN "rf_lock" ELSE "rr_unlock1"]
  /\ UNCHANGED <<Shared, out, Fixed>>

\* ---- regField (root.go), called with fd.mu held ----------------------------
RfLock(g) ==
  /\ loc[g].pc = "rf_lock"
  /\ objMu[loc[g].co] = 0
  /\ objMu' = [objMu EXCEPT ![loc[g].co] = g]
  /\ Goto(g, "rf_read")
  /\ UNCHANGED <<meta, bind, fdMu, out, Fixed>>

\* meta := obj.meta
RfRead(g) ==
  /\ loc[g].pc = "rf_read"
  /\ loc' = [loc EXCEPT ![g].lm = meta[loc[g].co], ![g].lm2 = meta[loc[g].co], ![g].pc = "rf_unlock"]
  /\ UNCHANGED <<Shared, out, Fixed>>

\* obj.mu.Unlock(); struct field look-up on the copy; the method look-up follows
RfUnlock(g) ==
  /\ loc[g].pc = "rf_unlock"
  /\ objMu' = [objMu EXCEPT ![loc[g].co] = 0]
  /\ Goto(g, IF GoBind(loc[g].lm, Cur(g).f) # "field" /\ "RegFieldUnlockedMetaRead" \in Dev
             THEN "rf_read2" ELSE "rf_write")
  /\ UNCHANGED <<meta, bind, fdMu, out, Fixed>>

\* for i := obj.meta.NumMethod() - 1; ...  { m := obj.meta.Method(i) ...   -- obj.mu is NOT held
RfRead2(g) ==
  /\ loc[g].pc = "rf_read2"
  /\ loc' = [loc EXCEPT ![g].lm2 = meta[loc[g].co], ![g].pc = "rf_write"]
  /\ UNCHANGED <<Shared, out, Fixed>>

\* fd.goField = field.Name   |   fd.method = &m.Func   |   return error
RfKind(g) == IF GoBind(loc[g].lm, Cur(g).f) = "field" THEN "field"
             ELSE IF GoBind(loc[g].lm2, Cur(g).f) = "method" THEN "method" ELSE "none"
RfWrite(g) ==
  /\ loc[g].pc = "rf_write"
  /\ IF RfKind(g) = "none"
     THEN /\ loc' = [loc EXCEPT ![g].err = TRUE, ![g].pc = "rr_unlock1"]
          /\ UNCHANGED bind
     ELSE /\ bind' = [bind EXCEPT ![FD(g)] = [k |-> RfKind(g), T |-> IF RfKind(g) = "field" THEN loc[g].lm ELSE loc[g].lm2]]
          /\ Goto(g, "rr_unlock1")
  /\ UNCHANGED <<meta, objMu, fdMu, out, Fixed>>

RrUnlock1(g) ==
  /\ loc[g].pc = "rr_unlock1"
  /\ fdMu' = IF fdMu[FD(g)] = g THEN [fdMu EXCEPT ![FD(g)] = 0] ELSE fdMu
  /\ IF loc[g].err THEN Finish(g, "err") ELSE Goto(g, "rr_lock2") /\ UNCHANGED out
  /\ UNCHANGED <<meta, bind, objMu, Fixed>>

\* ---- resolveReflect, second fd.mu section and the use ----------------------
RrLock2(g) ==
  /\ loc[g].pc = "rr_lock2"
  /\ IF "NoLock2" \in Dev THEN UNCHANGED fdMu
     ELSE fdMu[FD(g)] = 0 /\ fdMu' = [fdMu EXCEPT ![FD(g)] = g]
  /\ Goto(g, "rr_copy")
  /\ UNCHANGED <<meta, bind, objMu, out, Fixed>>

\* goField := fd.goField; method := fd.method
RrCopy(g) ==
  /\ loc[g].pc = "rr_copy"
  /\ loc' = [loc EXCEPT ![g].lb = bind[FD(g)], ![g].pc = "rr_unlock2"]
  /\ UNCHANGED <<Shared, out, Fixed>>

\* the value a bound field / method produces for a Go object of type T
CallOutcome(b, T, f) ==
  CASE b.k = "field"  -> IF GoBind(T, f) = "field" THEN "val" ELSE "null"   \* ov.FieldByName(fd.goField)
    [] b.k = "method" -> IF b.T = T THEN "val" ELSE "panic"                   \* method.Call with a foreign receiver
    [] OTHER -> "null"

RrUnlock2(g) ==
  /\ loc[g].pc = "rr_unlock2"
  /\ fdMu' = IF fdMu[FD(g)] = g THEN [fdMu EXCEPT ![FD(g)] = 0] ELSE fdMu
  /\ IF loc[g].lb.k = "field" THEN Goto(g, "rr_use") /\ UNCHANGED out
     ELSE IF loc[g].lb.k = "method" THEN Goto(g, "rr_call") /\ UNCHANGED out
     ELSE Finish(g, CallOutcome(loc[g].lb, Cur(g).T, Cur(g).f))
  /\ UNCHANGED <<meta, bind, objMu, Fixed>>

\* method.Call(args): the call into application code, with the copy of the binding taken under fd.mu.
\* Application code may wait for application code called for another request: no lock may be held here.
RrCall(g) ==
  /\ loc[g].pc = "rr_call"
  /\ Finish(g, CallOutcome(loc[g].lb, Cur(g).T, Cur(g).f))
  /\ UNCHANGED <<Shared, Fixed>>

\* ov.FieldByName(fd.goField): reads fd.goField again, no lock held (resolve.go)
RrUse(g) ==
  /\ loc[g].pc = "rr_use"
  /\ Finish(g, CallOutcome(bind[FD(g)], Cur(g).T, Cur(g).f))
  /\ UNCHANGED <<Shared, Fixed>>

\* ---- metaCheck (object.go) on ScanObj(g): union members / implementors ------
McLock(g) ==
  /\ loc[g].pc = "mc_lock"
  /\ IF "McNoLock" \in Dev THEN UNCHANGED objMu
     ELSE objMu[ScanObj(g)] = 0 /\ objMu' = [objMu EXCEPT ![ScanObj(g)] = g]
  /\ Goto(g, "mc_read")
  /\ UNCHANGED <<meta, bind, fdMu, out, Fixed>>

\* if t.meta == nil { the @go directive or the type name decides whether rt becomes the bound type }
McRead(g) ==
  /\ loc[g].pc = "mc_read"
  /\ LET c == ScanObj(g) IN
       loc' = [loc EXCEPT ![g].lm = meta[c],
                          ![g].pc = IF meta[c] = "" /\ Cur(g).T \in W.match[c] THEN "mc_write" ELSE "mc_unlock"]
  /\ UNCHANGED <<Shared, out, Fixed>>

McWrite(g) ==
  /\ loc[g].pc = "mc_write"
  /\ meta' = [meta EXCEPT ![ScanObj(g)] = Cur(g).T]
  /\ loc' = [loc EXCEPT ![g].lm = Cur(g).T, ![g].pc = "mc_unlock"]
  /\ UNCHANGED <<bind, objMu, fdMu, out, Fixed>>

\* return; metaMatch: match = meta == rt, bound = meta != nil; the callers' loops
McUnlock(g) ==
  /\ loc[g].pc = "mc_unlock"
  /\ LET c == ScanObj(g)
         v == Cur(g)
         seen == Seen(c, loc[g].lm)
         unb2 == IF v.k = "union" /\ seen = "" /\ loc[g].unb = "" THEN c ELSE loc[g].unb
     IN /\ objMu' = IF objMu[c] = g THEN [objMu EXCEPT ![c] = 0] ELSE objMu
        /\ IF seen = v.T
           THEN loc' = [loc EXCEPT ![g].co = c, ![g].pc = "at_lock"] /\ UNCHANGED out
           ELSE IF loc[g].si < Len(ScanSeq(g))
           THEN loc' = [loc EXCEPT ![g].si = @ + 1, ![g].unb = unb2, ![g].pc = "mc_lock"] /\ UNCHANGED out
           ELSE IF v.k = "union"
           THEN Finish(g, "err")      \* (an error either way: a member still unbound, or all bound and the value none of them)
           ELSE loc' = [loc EXCEPT ![g].si = 1, ![g].pc = "grt_lock"] /\ UNCHANGED out
  /\ UNCHANGED <<meta, bind, fdMu, Fixed>>

\* ---- getReflectType (root.go) ----------------------------------------------
GrtLock(g) ==
  /\ loc[g].pc = "grt_lock"
  /\ IF "GrtNoLock" \in Dev THEN UNCHANGED objMu
     ELSE objMu[ScanObj(g)] = 0 /\ objMu' = [objMu EXCEPT ![ScanObj(g)] = g]
  /\ Goto(g, "grt_read")
  /\ UNCHANGED <<meta, bind, fdMu, out, Fixed>>

GrtRead(g) ==
  /\ loc[g].pc = "grt_read"
  /\ loc' = [loc EXCEPT ![g].lm = meta[ScanObj(g)], ![g].pc = "grt_unlock"]
  /\ UNCHANGED <<Shared, out, Fixed>>

GrtUnlock(g) ==
  /\ loc[g].pc = "grt_unlock"
  /\ LET c == ScanObj(g) IN
       /\ objMu' = IF objMu[c] = g THEN [objMu EXCEPT ![c] = 0] ELSE objMu
       /\ IF Seen(c, loc[g].lm) = Cur(g).T
          THEN loc' = [loc EXCEPT ![g].co = c, ![g].late = TRUE, ![g].pc = "at_lock"] /\ UNCHANGED out   \* goto TOP
          ELSE IF loc[g].si < Len(W.scan)
          THEN loc' = [loc EXCEPT ![g].si = @ + 1, ![g].pc = "grt_lock"] /\ UNCHANGED out
          ELSE Finish(g, "null")                                                        \* t = nil, fd = nil
  /\ UNCHANGED <<meta, bind, fdMu, Fixed>>

\* ---- a deadlock-prone variant: assureType wanted while another goroutine -----
\* ---- holds obj.mu and wants fd.mu (model mutation only)                  -----
InvAtLock(g) ==
  /\ "LockOrderInverted" \in Dev
  /\ loc[g].pc = "at_unlock"
  /\ fdMu[FD(g)] = 0
  /\ fdMu' = [fdMu EXCEPT ![FD(g)] = g]           \* takes fd.mu BEFORE releasing obj.mu
  /\ Goto(g, "inv_unlock")
  /\ UNCHANGED <<meta, bind, objMu, out, Fixed>>
InvUnlock(g) ==
  /\ loc[g].pc = "inv_unlock"
  /\ objMu' = [objMu EXCEPT ![loc[g].co] = 0]
  /\ Goto(g, "rr_check")
  /\ UNCHANGED <<meta, bind, fdMu, out, Fixed>>

Step(g) ==
  \/ Start(g)
  \/ AtLock(g) \/ AtRead(g) \/ AtWrite(g)
  \/ (IF "LockOrderInverted" \in Dev THEN InvAtLock(g) \/ InvUnlock(g) ELSE AtUnlock(g))
  \/ RrLock1(g) \/ RrCheck(g) \/ RfLock(g) \/ RfRead(g) \/ RfUnlock(g) \/ RfRead2(g) \/ RfWrite(g) \/ RrUnlock1(g)
  \/ RrLock2(g) \/ RrCopy(g) \/ RrUnlock2(g) \/ RrUse(g) \/ RrCall(g)
  \/ McLock(g) \/ McRead(g) \/ McWrite(g) \/ McUnlock(g)
  \/ GrtLock(g) \/ GrtRead(g) \/ GrtUnlock(g)

Next == \E g \in G : Step(g)
Fairness == \A g \in G : WF_vars(Step(g))

-----------------------------------------------------------------------------
\* The access goroutine g performs at its current step: kind R/W/N, the variable, the label.
MetaVar(o) == <<"meta", o, "">>
BindVar(fd) == <<"bind", fd[1], fd[2]>>
Acc(g) ==
  LET l == loc[g].pc IN
  CASE l \in {"at_read", "rf_read", "rf_read2"} -> [k |-> "R", v |-> MetaVar(loc[g].co), l |-> l]
    [] l = "at_write" -> [k |-> "W", v |-> MetaVar(loc[g].co), l |-> l]
    [] l \in {"mc_read", "grt_read"} -> [k |-> "R", v |-> MetaVar(ScanObj(g)), l |-> l]
    [] l = "mc_write" -> [k |-> "W", v |-> MetaVar(ScanObj(g)), l |-> l]
    [] l \in {"rr_check", "rr_copy", "rr_use"} -> [k |-> "R", v |-> BindVar(FD(g)), l |-> l]
    [] l = "rf_write" -> [k |-> IF RfKind(g) = "none" THEN "N" ELSE "W", v |-> BindVar(FD(g)), l |-> l]
    [] l = "rr_call" -> [k |-> "C", v |-> BindVar(FD(g)), l |-> l]      \* no shared access ("C"): the point where ggql calls out
    [] OTHER -> [k |-> "N", v |-> <<"", "", "">>, l |-> l]

\* the locks goroutine g holds
Held(g) == {<<"obj", o, "">> : o \in {o \in W.objs : objMu[o] = g}}
             \cup {<<"fd", fd[1], fd[2]>> : fd \in {fd \in Fds(W) : fdMu[fd] = g}}

\* Two accesses race iff they are by different goroutines, to the same variable, at least one
\* is a write, and both are enabled in the same state (access steps are always enabled), i.e.
\* nothing orders them.  Holding a common mutex makes that impossible.
Conflict(a, b) == a.k \in {"R", "W"} /\ b.k \in {"R", "W"} /\ a.v = b.v /\ (a.k = "W" \/ b.k = "W")
Racing == {p \in G \X G : p[1] < p[2] /\ Conflict(Acc(p[1]), Acc(p[2]))}
NoRace == Racing = {}

\* every race involves a step that exists only because of a deviation
DevLabels == {"rf_read2"}
NoRaceExceptDev == \A p \in Racing : Acc(p[1]).l \in DevLabels \/ Acc(p[2]).l \in DevLabels

\* The locks that are needed at each access (the lock discipline the trace judge enforces).
\* rr_copy and rr_use need none: the binding is written once, under fd.mu, and the reader has
\* itself passed through an fd.mu section after that write (TLC: NoRace holds with NoLock2).
Required(g) ==
  LET l == loc[g].pc IN
  CASE l \in {"at_read", "at_write", "rf_read"} -> {<<"obj", loc[g].co, "">>}
    [] l \in {"mc_read", "mc_write", "grt_read"} -> {<<"obj", ScanObj(g), "">>}
    [] l \in {"rr_check", "rf_write"} -> {<<"fd", FD(g)[1], FD(g)[2]>>}
    [] OTHER -> {}
Holder(r) == IF r[1] = "obj" THEN objMu[r[2]] ELSE fdMu[<<r[2], r[3]>>]
HeldCoversRequired == \A g \in G : \A r \in Required(g) : Holder(r) = g      \* = Required(g) \subseteq Held(g)
\* ggql calls into application code (a reflected field read, a bound method) with no lock of its own held:
\* resolvers that wait for each other (batching loaders, caches filled once) would otherwise deadlock
CallsOut == {"rr_use", "rr_call"}
CallsOutUnlocked == \A g \in G : loc[g].pc \in CallsOut => Held(g) = {}

\* a mutex has one holder and the holder is inside the section
ObjSection == {"at_read", "at_write", "at_unlock", "rf_read", "rf_unlock", "mc_read", "mc_write", "mc_unlock",
               "grt_read", "grt_unlock", "inv_unlock"}
FdSection == {"rr_check", "rf_lock", "rf_read", "rf_unlock", "rf_read2", "rf_write", "rr_unlock1", "rr_copy", "rr_unlock2",
              "inv_unlock"}
MutexOK ==
  /\ \A o \in W.objs : objMu[o] # 0 => loc[objMu[o]].pc \in ObjSection
  /\ \A fd \in Fds(W) : fdMu[fd] # 0 => loc[fdMu[fd]].pc \in FdSection

\* regField dereferences the copy of obj.meta: it must have been set
NoNilMeta == \A g \in G : loc[g].pc = "rf_unlock" => loc[g].lm # ""

\* once set, meta and bindings never change
WriteOnceStep ==
  /\ meta' = meta \/ \A o \in W.objs : meta[o] # "" => meta'[o] = meta[o]
  /\ bind' = bind \/ \A fd \in Fds(W) : bind[fd].k # "none" => bind'[fd] = bind[fd]
WriteOnce == [][WriteOnceStep]_vars

\* no deadlock: unless everybody is done somebody can take a step
AllDone == \A g \in G : loc[g].pc = "done"
Wants(g) ==
  LET l == loc[g].pc IN
  CASE l \in {"at_lock", "rf_lock"} -> objMu[loc[g].co]
    [] l \in {"mc_lock", "grt_lock"} -> objMu[ScanObj(g)]
    [] l \in {"rr_lock1", "rr_lock2"} -> fdMu[FD(g)]
    [] l = "at_unlock" /\ "LockOrderInverted" \in Dev -> fdMu[FD(g)]
    [] OTHER -> 0
Blocked(g) == loc[g].pc # "done" /\ Wants(g) \notin {0, g}
NoDeadlock == AllDone \/ \E g \in G : loc[g].pc # "done" /\ ~Blocked(g)
Termination == <>AllDone

-----------------------------------------------------------------------------
\* S: what a visit yields when its request runs alone on a cold root.  It depends on the world
\* only, never on other requests: that is the isolation half of C12.
ObjOutcome(T, f) ==
  CASE GoBind(T, f) = "field" -> "val"
    [] GoBind(T, f) = "method" -> "val"
    [] OTHER -> "err"
SVisit(v) ==
  CASE v.k = "intro" -> "val"
    [] v.k = "obj" -> ObjOutcome(v.T, v.f)
    [] v.k = "iface" ->
         IF \E i \in DOMAIN Impl(v.a) : Declared(Impl(v.a)[i], v.T) THEN ObjOutcome(v.T, v.f)
         ELSE IF \E i \in DOMAIN W.scan : W.static[W.scan[i]] = v.T THEN ObjOutcome(v.T, v.f)
         ELSE "null"
    [] v.k = "union" ->
         LET m == W.members[v.a] IN
         IF \E i \in DOMAIN m : Declared(m[i], v.T) THEN ObjOutcome(v.T, v.f)
         ELSE "err"
SOut(p) == [i \in DOMAIN p |-> SVisit(p[i])]

Isolated == \A g \in G : loc[g].pc = "done" => out[g] = SOut(prog[g])
\* a prefix version that also holds while a goroutine is still running
IsolatedSoFar == \A g \in G : out[g] = SubSeq(SOut(prog[g]), 1, Len(out[g]))

TypeOK ==
  /\ wn \in DOMAIN Worlds
  /\ \A o \in W.objs : objMu[o] \in G \cup {0}
  /\ \A fd \in Fds(W) : fdMu[fd] \in G \cup {0} /\ bind[fd].k \in {"none", "field", "method"}
  /\ \A g \in G : loc[g].vi \in 1..(Len(prog[g]) + 1) /\ Len(out[g]) = loc[g].vi - 1
-----------------------------------------------------------------------------
\* Where each labelled access lives in the code: the function whose frame the race detector
\* reports, the kind of access, the Go variable, and fragments of the source line (a report is
\* attributed to a label only if its line contains one of them).  Exported to the harness.
LC(fn, k, var, dev, src) == [fn |-> fn, k |-> k, var |-> var, dev |-> dev, src |-> src]
LabelCode ==
  [ at_read   |-> LC("(*Root).assureType", "R", "Object.meta", "", <<"obj.meta != nil && obj.meta != meta", "obj.meta.String()">>),
    at_write  |-> LC("(*Root).assureType", "W", "Object.meta", "", <<"obj.meta = meta">>),
    rf_read   |-> LC("(*Root).regField", "R", "Object.meta", "", <<":= obj.meta">>),
    rf_read2  |-> LC("(*Root).regField", "R", "Object.meta", "RegFieldUnlockedMetaRead",
                     <<"obj.meta.NumMethod()", "obj.meta.Method(i)", "goField, obj.meta)">>),
    rf_write  |-> LC("(*Root).regField", "W", "FieldDef.binding", "", <<"fd.goField = ", "fd.method = ">>),
    rr_check  |-> LC("(*Root).resolveReflect", "R", "FieldDef.binding", "", <<"len(fd.goField) == 0 && fd.method == nil">>),
    rr_copy   |-> LC("(*Root).resolveReflect", "R", "FieldDef.binding", "", <<":= fd.goField", ":= fd.method">>),
    rr_use    |-> LC("(*Root).resolveReflect", "R", "FieldDef.binding", "", <<"FieldByName(fd.goField)">>),
    rr_call   |-> LC("(*Root).resolveReflect", "C", "FieldDef.binding", "", <<"method.Call(args)">>),
    mc_read   |-> LC("(*Object).metaCheck", "R", "Object.meta", "", <<"t.meta == nil", "return t.meta">>),
    mc_write  |-> LC("(*Object).metaCheck", "W", "Object.meta", "", <<"t.meta = rt">>),
    grt_read  |-> LC("(*Root).getReflectType", "R", "Object.meta", "", <<"o.meta == meta">>) ]
=============================================================================
