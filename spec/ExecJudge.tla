----------------------------- MODULE ExecJudge -----------------------------
(***************************************************************************)
(* Conformance direction B for the execution family: cases generated and   *)
(* executed on the Go side (random universes, random documents, random     *)
(* fault sets, all three resolver strategies) are recorded with the        *)
(* response and the resolver call log the real code produced; this module  *)
(* recomputes the prescribed response with Sem and issues one verdict per  *)
(* recorded execution and aspect.  A "universe" record switches the        *)
(* universe the following "case" records are judged against.               *)
(***************************************************************************)
EXTENDS Sem, Json

CONSTANT KnownDev

JRecs == ndJsonDeserialize("cases.ndjson")

VARIABLES i, ui
jvars == <<i, ui>>

JInit == i = 1 /\ ui = 1 /\ JRecs[1].r = "universe"
JNext == /\ i < Len(JRecs)
         /\ i' = i + 1
         /\ ui' = IF JRecs[i + 1].r = "universe" THEN i + 1 ELSE ui
JSpec == JInit /\ [][JNext]_jvars

Rec == JRecs[i]
UBase == JRecs[ui].u
UNow == [ types |-> UBase.types, nodeType |-> UBase.nodeType, roots |-> UBase.roots,
          nth |-> {f \in Range(Rec.faults) : Len(f) \in {3, 4}},
          data |-> [nd \in DOMAIN UBase.data |->
                      [f \in DOMAIN UBase.data[nd] |->
                         IF <<nd, f>> \in Range(Rec.faults) THEN ErrV("injected") ELSE UBase.data[nd][f]]] ]

Paths(errs) == [k \in DOMAIN errs |-> errs[k].path]
IsPrefix(p, q) == Len(p) <= Len(q) /\ SubSeq(q, 1, Len(p)) = p

Agree(exp, act) ==
  [ data   |-> IF exp.hasData THEN act.hasData /\ exp.data = act.data ELSE ~act.hasData,
    errors |-> SameBag(Paths(exp.errs), Paths(act.errs)),
    cover  |-> /\ \A k \in DOMAIN exp.errs : \E j \in DOMAIN act.errs : IsPrefix(exp.errs[k].path, act.errs[j].path)
               /\ \A j \in DOMAIN act.errs : \E k \in DOMAIN exp.errs : IsPrefix(exp.errs[k].path, act.errs[j].path),
    calls  |-> (~Rec.logcalls) \/ exp.calls = act.calls ]

AllOK(a) == a.data /\ a.errors /\ a.cover /\ a.calls

Verdict ==
  LET strict == Agree(Response(UNow, Rec.doc, Rec.op, Rec.vars, {}), Rec.act)
  IN IF AllOK(strict) THEN [i |-> i, ok |-> TRUE]
     ELSE LET withK == Agree(Response(UNow, Rec.doc, Rec.op, Rec.vars, KnownDev), Rec.act)
          IN [i |-> i, ok |-> FALSE, strict |-> strict, known |-> AllOK(withK), withK |-> withK,
              kdevs |-> {d \in KnownDev : Response(UNow, Rec.doc, Rec.op, Rec.vars, {d}) # Response(UNow, Rec.doc, Rec.op, Rec.vars, {})},
              model |-> Response(UNow, Rec.doc, Rec.op, Rec.vars, {})]

Judge == Rec.r = "case" => PrintT("@@VER " \o ToJson(Verdict))

Done == TLCGet("stats").diameter = Len(JRecs) \/ PrintT("@@INCOMPLETE")
=============================================================================
