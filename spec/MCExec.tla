------------------------------- MODULE MCExec -------------------------------
(***************************************************************************)
(* Enumerates the cases of the configured document families and emits, per *)
(* case, the response the specification prescribes (Sem!Response with      *)
(* dv = {}) and, where it differs, the response under the known deviations *)
(* (dv = KnownDev).  The Go harness executes every case on the real code.  *)
(* TLC additionally checks properties of the oracle itself on every case   *)
(* (Oracle... invariants), so that an ill-formed specification is caught   *)
(* here and not mistaken for a defect of ggql.                             *)
(***************************************************************************)
EXTENDS ExecGen, Json

CONSTANTS Fams,       \* set of family names to enumerate
          KnownDev    \* deviation names listed in known_findings.json for this family

VARIABLES phase, cs
mcvars == <<phase, cs>>

MCInit == phase = "fam" /\ cs \in {[fam |-> f] : f \in Fams}
MCNext == phase = "fam" /\ phase' = "case" /\ cs' \in Families[cs.fam]
MCSpec == MCInit /\ [][MCNext]_mcvars

ASSUME PrintT("@@UNI " \o ToJson(UExec))

UCase == WithFaults(UExec, cs.faults)
Exp(dv) == Response(UCase, cs.doc, cs.op, cs.vars, dv)

Base ==
  LET e == Exp({})
      k == Exp(KnownDev)
  IN IF e = k THEN [fam |-> cs.fam, doc |-> cs.doc, op |-> cs.op, vars |-> cs.vars, faults |-> cs.faults, exp |-> e]
     ELSE [fam |-> cs.fam, doc |-> cs.doc, op |-> cs.op, vars |-> cs.vars, faults |-> cs.faults, exp |-> e, expK |-> k,
           kdevs |-> {d \in KnownDev : Exp({d}) # e}]

\* mixed graphs (C02): the strategy that must serve each call, from the node's kind and the precedence rule
Vector ==
  IF "mix" \in DOMAIN cs
  THEN Base @@ [mix |-> cs.mix,
                via |-> LET e == Exp({}) IN [i \in DOMAIN e.calls |-> Via(cs.mix.assign[e.calls[i].node], cs.mix.any)]]
  ELSE Base

Emit == phase = "case" => PrintT("@@VEC " \o ToJson(Vector))
\* C02 precedence, as a property of the specification: a Resolver object is never served by the root
\* resolver or by reflection, and with a root resolver installed reflection is never used
OraclePrecedence == (phase = "case" /\ "mix" \in DOMAIN cs) =>
  \A nd \in DOMAIN cs.mix.assign :
     /\ cs.mix.assign[nd] = "resolver" => Via(cs.mix.assign[nd], cs.mix.any) = "iface"
     /\ cs.mix.any => Via(cs.mix.assign[nd], cs.mix.any) # "refl"

\* ---- properties of the oracle (checked by TLC on every enumerated case) ----
\* every error addresses a position: its path is non-empty unless the whole request was refused or the operation root
\* itself failed (the position is then the root of the response)
OracleErrPaths == phase = "case" =>
  LET e == Exp({}) IN \A i \in DOMAIN e.errs : e.errs[i].class \in {"no_operation", "no_root", "rejected"} \/ e.errs[i].path # <<>>
                                                 \/ (e.errs[i].name = "root" /\ e.data = NullV)
\* no data without an executed operation, and then no resolver call (C01)
OracleNoOpNoCall == phase = "case" => LET e == Exp({}) IN (~e.hasData) => e.calls = <<>>
\* an injected fault removes nothing but what lies at or below its position (C06): the
\* fault-free run makes at least the calls the faulty run makes
OracleFaultMonotone == phase = "case" =>
  LET e == Exp({})
      f == Response(UExec, cs.doc, cs.op, cs.vars, {})
  IN Len(e.calls) <= Len(f.calls)
\* per-occurrence evaluation with deep merge (what ggql does) yields the data of the
\* declaratively merged selection set (what GraphQL prescribes)
\* (not for the family that fails the n-th invocation of one resolver: the declarative reading makes one invocation per
\* response key, so there is no second one to fail)
OracleMergeEquiv == phase = "case" /\ cs.fam # "faultcall" => Exp({}).data = Exp({"DeclarativeMerge"}).data
=============================================================================
