----------------------------- MODULE MCExecTop -----------------------------
(***************************************************************************)
(* The execution family over U-top (ExecUniverse!UTop): the schema names   *)
(* its query root explicitly (schema { query: Top }) and an ordinary       *)
(* object type is called Query.  What is a root operation type is decided  *)
(* by the schema, not by a type's name: the meta fields __schema / __type  *)
(* are undefined on the object called Query (C10), __typename reports the  *)
(* real names (C01).  Same vector format as MCExec.tla.                    *)
(***************************************************************************)
EXTENDS ExecGen, Json

CONSTANTS Fams, KnownDev
VARIABLES phase, cs
mcvars == <<phase, cs>>

Meta1 == FS("", "__schema", <<FS("", "queryType", <<F("", "name")>>)>>)
Meta2 == [FS("", "__type", <<F("", "name")>>) EXCEPT !.args = <<Arg("name", StrV("Top"))>>]
FamTopMeta ==
  { Plain("topmeta", s) : s \in UNION { {
      <<FS("", "q", <<m, F("", "name")>>), F("", "title")>>,
      <<FS("", "qs", <<F("", "n"), m>>)>>,
      <<FS("", "q", <<FS("", "self", <<m>>), F("x", "name")>>)>>,
      <<FS("", "q", <<Inl("Query", <<m>>), F("", "n")>>), F("", "title")>> } : m \in {Meta1, Meta2} } }
  \cup { Case("topmeta", DocF(<<FS("", "q", <<Spr("F"), F("", "n")>>)>>, <<Frg("F", "Query", <<m>>)>>), "", NoVars, {}) : m \in {Meta1, Meta2} }
FamTopPlain ==
  { Plain("topplain", s) : s \in {
      <<F("", "title"), F("", "__typename")>>, <<FS("", "q", <<F("", "__typename"), F("", "name")>>)>>,
      <<FS("", "qs", <<F("t", "__typename"), FS("", "self", <<F("", "n")>>)>>), F("x", "title")>>,
      <<FS("", "q", <<F("", "nope")>>), F("", "title")>> } }
FamiliesTop == [ topmeta |-> FamTopMeta, topplain |-> FamTopPlain ]

MCInit == phase = "fam" /\ cs \in {[fam |-> f] : f \in Fams}
MCNext == phase = "fam" /\ phase' = "case" /\ cs' \in FamiliesTop[cs.fam]
MCSpec == MCInit /\ [][MCNext]_mcvars

ASSUME PrintT("@@UNI " \o ToJson(UTop))

Exp(dv) == Response(UTop, cs.doc, cs.op, cs.vars, dv)
Vector ==
  LET e == Exp({})
      k == Exp(KnownDev)
  IN IF e = k THEN [fam |-> cs.fam, doc |-> cs.doc, op |-> cs.op, vars |-> cs.vars, faults |-> cs.faults, exp |-> e]
     ELSE [fam |-> cs.fam, doc |-> cs.doc, op |-> cs.op, vars |-> cs.vars, faults |-> cs.faults, exp |-> e, expK |-> k,
           kdevs |-> {d \in KnownDev : Exp({d}) # e}]
Emit == phase = "case" => PrintT("@@VEC " \o ToJson(Vector))
\* the oracle itself: a meta field below the root is refused and nothing is resolved for it
OracleErrPaths == phase = "case" => LET e == Exp({}) IN \A i \in DOMAIN e.errs : e.errs[i].path # <<>>
OracleNoOpNoCall == TRUE
OracleFaultMonotone == TRUE
OracleMergeEquiv == phase = "case" => Exp({}).data = Exp({"DeclarativeMerge"}).data
OraclePrecedence == TRUE
=============================================================================
