--------------------------- MODULE ValueTextJudge ---------------------------
(***************************************************************************)
(* Conformance direction B for C18: values generated on the Go side        *)
(* (random, larger and deeper than the enumerated ones, random indent      *)
(* options, Sort on and off) were written and read back by the real code;  *)
(* each record of cases.ndjson carries                                     *)
(*   v       the value (tagged, map entries in any order)                  *)
(*   fmt, ind, sorted   the writer mode                                    *)
(*   text    the bytes the real writer produced, as lexical characters     *)
(*   back    what ggql.ParseValueString made of those bytes                *)
(*   jdec    what encoding/json made of them (JSON form only)              *)
(* This module recomputes what the specification prescribes and prints one *)
(* verdict per record:                                                     *)
(*   text   the real text is what the writer model writes (for Sort=false  *)
(*          in the entry order the text itself shows)                      *)
(*   back   the real read-back value is the value (symbols and variables   *)
(*          as strings in JSON form)                                       *)
(*   jdec   the standard JSON decoder produced the same structure          *)
(*   mread  the model of the reader, run on the REAL text, gives the value *)
(*   mjson  the JSON grammar of the spec accepts the REAL text and decodes *)
(*          it to the same structure                                       *)
(* A record is ok when back, jdec, mread and mjson hold (text is reported  *)
(* but a layout difference alone breaks no promise of the property).       *)
(* Otherwise the second oracle M(KnownDev) is consulted: the record is     *)
(* `known` when the deviations change what is written for this value and   *)
(* the real reader / JSON decoder produced exactly what the reader model / *)
(* JSON grammar make of the deviating writer's text (textK tells whether   *)
(* the real text is byte for byte that text).                              *)
(***************************************************************************)
EXTENDS ValueText, Json

CONSTANTS KnownDev, NBlocks

JRecs == ndJsonDeserialize("cases.ndjson")
N == Len(JRecs)

VARIABLES jp, ji
jvars == <<jp, ji>>
JInit == jp = "blk" /\ ji \in 1..NBlocks
JNext == jp = "blk" /\ jp' = "rec" /\ ji' \in {i \in 1..N : (i % NBlocks) + 1 = ji}
JSpec == JInit /\ [][JNext]_jvars

Rec == JRecs[ji]

ModelText(dv) ==
  IF Rec.sorted THEN WriteText(Canon(Rec.v), Rec.fmt, Rec.ind, dv)
  ELSE WriteGuided(Canon(Rec.v), Rec.fmt, Rec.ind, dv, Rec.text)

Verdict ==
  LET isJ == Rec.fmt = "json"
      st == ModelText({})
      text == st = Rec.text
      back == Canon(Rec.back) = ExpBack(Rec.v, Rec.fmt)
      jdec == isJ => Canon(Rec.jdec) = ExpJson(Rec.v)
      mread == Canon(Read(Rec.text)) = ExpBack(Rec.v, Rec.fmt)
      mjson == isJ => Canon(JsonDecode(Rec.text)) = ExpJson(Rec.v)
      flags == [text |-> text, back |-> back, jdec |-> jdec, mread |-> mread, mjson |-> mjson]
  IN IF back /\ jdec /\ mread /\ mjson
     THEN [i |-> ji, ok |-> TRUE, text |-> text,
           textK |-> (~text) /\ KnownDev # {} /\ ModelText(KnownDev) = Rec.text]
     ELSE LET tk == ModelText(KnownDev)
              known == /\ KnownDev # {}
                       /\ tk # st
                       /\ Canon(Rec.back) = Canon(Read(tk))
                       /\ isJ => Canon(Rec.jdec) = Canon(JsonDecode(tk))
          IN [i |-> ji, ok |-> FALSE, strict |-> flags, known |-> known, textK |-> tk = Rec.text,
              kdevs |-> IF known THEN {d \in KnownDev : ModelText({d}) # st} ELSE {},
              model |-> st]

Judge == jp = "rec" => PrintT("@@VER " \o ToJson(Verdict))
=============================================================================
