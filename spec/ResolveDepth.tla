---------------------------- MODULE ResolveDepth ----------------------------
(***************************************************************************)
(* C03, recursion: the nesting of request resolution is bounded whatever   *)
(* the request, in particular for self- and mutually-referential fragment  *)
(* spreads.                                                                *)
(*                                                                         *)
(* The machine follows pkg/ggql/resolve.go.  A frame is one activation of  *)
(* resolveSels: the selections still to do, the depth counter it was       *)
(* called with and the type being resolved.  resolve() descends into an    *)
(* object-typed field only while the counter is positive and passes        *)
(* counter-1 on (Descend); resolveInline and resolveFragRef call           *)
(* resolveSels with the SAME counter (Inline, Spread).  Inline fragments   *)
(* nest only as deep as the text of the document; fragment spreads follow  *)
(* the fragment graph, which may have cycles.                              *)
(*                                                                         *)
(* dv = {} is the property's design: a document whose spreads form a cycle *)
(* is refused before execution (GraphQL June 2018, 5.5.2.2), so every      *)
(* chain of non-decrementing calls is bounded by the document and the      *)
(* stack by Bound.  With "FragCycleUnbounded" in dv the machine does what  *)
(* the code does today: no check, so a reachable applicable cycle that     *)
(* does not pass through an object field grows the stack for ever          *)
(* (Diverges).                                                             *)
(*                                                                         *)
(* The documents, HasSpreadCycle and Diverges are defined in FragDocs.tla. *)
(***************************************************************************)
EXTENDS FragDocs

CONSTANTS MaxDepth,   \* MaxResolveDepth of the model (100 in ggql)
          Dv,         \* deviations in force
          Rich,       \* document space: flat fragment bodies only, or one more level
          Three       \* the three-fragment space (FragDocs!Docs3) instead
VARIABLES doc, stack, st
vars == <<doc, stack, st>>

Frame(ss, d, t) == [sels |-> ss, d |-> d, t |-> t]
Top == stack[Len(stack)]
Push(fr) == stack' = Append([stack EXCEPT ![Len(stack)].sels = Tail(@)], fr)
Skip == stack' = [stack EXCEPT ![Len(stack)].sels = Tail(@)]

Init == doc \in (IF Three THEN Docs3 ELSE Docs(Rich)) /\ stack = <<>> /\ st = "new"
Start == /\ st = "new"
         /\ IF "FragCycleUnbounded" \notin Dv /\ HasSpreadCycle(doc)
            THEN st' = "refused" /\ stack' = stack
            ELSE st' = "run" /\ stack' = <<Frame(doc.body, MaxDepth, "A")>>
         /\ UNCHANGED doc
Step == /\ st = "run" /\ stack # <<>>
        /\ UNCHANGED doc
        /\ IF Top.sels = <<>>
           THEN stack' = SubSeq(stack, 1, Len(stack) - 1) /\ st' = IF Len(stack) = 1 THEN "returned" ELSE "run"    \* Return
           ELSE LET h == Head(Top.sels) IN
                /\ st' = "run"
                /\ CASE h.k = "leaf" -> Skip
                     [] h.k = "obj" -> IF Top.d > 0 THEN Push(Frame(h.s, Top.d - 1, "A")) ELSE Skip                 \* Descend
                     [] h.k = "inline" -> IF CondApplies(h.c, Top.t) THEN Push(Frame(h.s, Top.d, Top.t)) ELSE Skip       \* Inline
                     [] h.k = "spread" -> IF Frag(doc, h.f).def /\ CondApplies(Frag(doc, h.f).cond, Top.t)
                                          THEN Push(Frame(Frag(doc, h.f).body, Top.d, Top.t)) ELSE Skip               \* Spread
Next == Start \/ Step
Spec == Init /\ [][Next]_vars

\* longest chain of calls that do not decrement the counter, in an acyclic document of this space:
\* inline in the body, spread, inline in the fragment, spread, inline in the other fragment
NoDecChain == 7
Bound == (MaxDepth + 1) * (NoDecChain + 1)
DepthBounded == Len(stack) <= Bound
\* exploration stops a little above the bound (only matters under the deviation)
Window == Len(stack) <= Bound + 2
\* under the deviation: the stack passes the bound only for the documents Diverges names
OverflowOnlyIfDiverges == Len(stack) > Bound => Diverges(doc)
\* the static analysis agrees with the validation rule: what diverges has a spread cycle
DivergesImpliesCycle == Diverges(doc) => HasSpreadCycle(doc)
=============================================================================
