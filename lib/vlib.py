"""Shared machinery for the /verif checks: TLC runs, Go harness runs,
known-findings attribution, evidence files and exit codes.

Exit codes of a check:  0 = property held on everything explored
                        1 = VIOLATION (real code disagrees with the specification, reproduced)
                        2 = the machinery itself failed (TLC error in my model, timeout, build failure ...)
"""
import hashlib
import json
import os
import re
import shutil
import subprocess
import sys
import tempfile
import time

VERIF = os.path.dirname(os.path.dirname(os.path.abspath(__file__)))
SPEC = os.path.join(VERIF, "spec")
HARNESS = os.path.join(VERIF, "harness")
REPO = os.environ.get("VERIF_REPO", "/repo")

GOENV = dict(os.environ)
GOENV.update({
    "GOFLAGS": "-mod=mod", "GOPROXY": "off", "GOSUMDB": "off", "GOTOOLCHAIN": "local",
    "GONOSUMDB": "*", "GONOSUMCHECK": "1", "GOFLAGS_VERIF": "1",
})


class MachineryError(Exception):
    pass


class RealCodeCrash(Exception):
    """The harness process died of a Go panic / fatal error raised INSIDE the library under test (innermost
    non-runtime frame in github.com/uhn/ggql).  That is behaviour of the real code (no property allows a crash),
    not a failure of the machinery; a crash whose innermost frame is harness code stays a MachineryError."""

    def __init__(self, crash, where):
        Exception.__init__(self, crash["what"])
        self.crash = crash
        self.where = where


def real_code_crash(stderr):
    m = re.search(r"^(panic: .*|fatal error: .*)$", stderr, re.M)
    if not m:
        return None
    head = m.group(1)
    rest = stderr[m.end():]
    # the goroutine that was running when the process died
    g = re.search(r"^goroutine \d+ .*\[running.*\]:\n((?:.+\n?)+)", rest, re.M)
    block = g.group(1) if g else rest
    frames = [l.strip() for l in block.splitlines() if l and not l.startswith(("\t", " "))]
    funcs = [f.split("(")[0] if not f.startswith("github.com") else re.sub(r"\(0x.*$|\(\.\.\.\)$|\(\{.*$", "", f) for f in frames]
    inner = [f for f in funcs if not f.startswith(("runtime.", "panic(", "created by", "sync.", "reflect.", "internal/", "testing."))]
    if not inner or "github.com/uhn/ggql/" not in inner[0]:
        return None
    return {"what": "%s in %s" % (head, inner[0]), "stack": [head] + frames[:12]}


class Ctx:
    def __init__(self, prop, tier, level="model_checking"):
        self.prop = prop
        self.tier = tier
        self.level = level
        self.seed = int(os.environ.get("VERIF_SEED", "1") or "1")
        self.t0 = time.time()
        self.scratch = tempfile.mkdtemp(prefix="verif-%s-" % prop)
        self.states = 0
        self.transitions = 0
        self.tlc_runs = []
        self.traces = 0
        self.evaluations = 0
        self.nontrivial = set()
        self.samples = []
        self.violations = []      # list of dict(case=..., why=...)
        self.known_hits = {}      # finding id -> count
        self.assumptions = []
        self.extra = {}
        self.rule = ""
        self.exhaustive = None

    def cleanup(self):
        if os.environ.get("VERIF_KEEP"):
            print("scratch kept: %s" % self.scratch)
            return
        shutil.rmtree(self.scratch, ignore_errors=True)

    def workers(self):
        return 8 if self.tier == "quick" else 16

    def add_sample(self, s, limit=4):
        if len(self.samples) < limit:
            self.samples.append(s)

    def note_case(self, key, nontrivial=True):
        self.evaluations += 1
        if nontrivial:
            self.nontrivial.add(hashlib.sha1(key.encode() if isinstance(key, str) else key).hexdigest()[:16])


# ---------------------------------------------------------------- TLC ----

class TLCResult:
    def __init__(self):
        self.rc = None
        self.out = ""
        self.generated = 0
        self.distinct = 0
        self.depth = 0
        self.vecs = []
        self.error = None       # text of first TLC error, if any
        self.violated = None    # name of violated invariant/property
        self.wall = 0.0
        self.lines = []
        self.marks = []     # other "@@TAG ..." lines printed by the spec

    def mark(self, tag):
        """decoded JSON payloads of lines "@@TAG json"."""
        out = []
        for line in self.marks:
            if line.startswith('"' + tag + " "):
                out.append(json.loads(_tla_unquote(line)[len(tag) + 1:]))
        return out


_unescape_re = re.compile(r'\\(.)')
_json_str = json.JSONDecoder(strict=False)


def _tla_unquote(s):
    # TLC prints a TLA+ string value: "..." with \" and \\ escaped
    s = s.strip()
    if s.startswith('"') and s.endswith('"'):
        # the escapes TLC uses (\" \\ \n \t) are JSON string escapes: let the C decoder do the work
        try:
            return _json_str.decode(s)
        except Exception:
            pass
        s = s[1:-1]
    return _unescape_re.sub(lambda m: {'n': '\n', 't': '\t'}.get(m.group(1), m.group(1)), s)


def run_tlc(ctx, module, cfg, extra_files=(), workers=None, timeout=600, simulate=None,
            depth_first=False, mem=None, tag="@@VEC", files_text=None, check_deadlock=None,
            count_states=True, xss=None, vec_filter=None, shards=None):
    """Run TLC on spec/<module>.tla with config text or file `cfg` in a scratch copy.
    Returns TLCResult.  Lines `"<tag> json"` printed by the spec are collected in .vecs (decoded).
    With shards=(prefix, n) the vectors are not kept in memory: TLC's output is read as it comes and the vectors are
    written, one JSON document per line, to the n files prefix-<k>.ndjson in turn (.vec_paths, .nvecs); for runs whose
    vectors do not fit (hundreds of thousands of load histories)."""
    d = tempfile.mkdtemp(prefix="tlc-", dir=ctx.scratch)
    for f in os.listdir(SPEC):
        if f.endswith(".tla"):
            shutil.copy(os.path.join(SPEC, f), d)
    for f in extra_files:
        shutil.copy(f, d)
    for name, text in (files_text or {}).items():
        with open(os.path.join(d, name), "w") as fh:
            fh.write(text)
    if os.path.exists(cfg) or os.path.exists(os.path.join(SPEC, "mc", cfg)):
        src = cfg if os.path.exists(cfg) else os.path.join(SPEC, "mc", cfg)
        cfgname = os.path.basename(src)
        shutil.copy(src, os.path.join(d, cfgname))
    else:
        cfgname = "gen.cfg"
        with open(os.path.join(d, cfgname), "w") as fh:
            fh.write(cfg)
    w = workers or ctx.workers()
    cmd = ["tlc", "-workers", str(w), "-metadir", os.path.join(d, "md"), "-config", cfgname]
    if simulate:
        cmd += ["-simulate", simulate]
    cmd.append(module + ".tla")
    env = dict(os.environ)
    jopts = ["-Djava.io.tmpdir=" + d]   # (TLC makes a temporary directory of its own per run: inside the scratch directory, which is removed)
    if depth_first:
        jopts.append("-Dtlc2.tool.queue.IStateQueue=StateDeque")
    if xss:
        jopts.append("-Xss%s" % xss)
    if mem:
        jopts.append("-Xmx%s" % mem)
    if jopts:
        env["JAVA_TOOL_OPTIONS"] = " ".join(jopts)
    t0 = time.time()
    res = TLCResult()
    if shards:
        prefix, nsh = shards
        res.vec_paths = ["%s-%d.ndjson" % (prefix, k) for k in range(nsh)]
        outs = [open(vp, "w") for vp in res.vec_paths]
        head = '"' + tag + " "
        rest = []
        nvec = -1
        kept = 0
        try:
            pp = subprocess.Popen(["timeout", str(timeout)] + cmd, cwd=d, env=env, stdout=subprocess.PIPE, stderr=subprocess.STDOUT, text=True)
            for line in pp.stdout:
                if line.startswith(head):
                    nvec += 1
                    if vec_filter is not None and not vec_filter(nvec):
                        continue
                    outs[kept % nsh].write(_tla_unquote(line)[len(tag) + 1:].replace("\n", " ") + "\n")
                    kept += 1
                else:
                    rest.append(line.rstrip("\n"))
            pp.wait()
        except Exception as e:  # pragma: no cover
            raise MachineryError("cannot run tlc: %s" % e)
        finally:
            for fh in outs:
                fh.close()
        res.nvecs = kept

        class _P:
            pass
        p = _P()
        p.returncode = pp.returncode
        p.stdout = "\n".join(rest)
    else:
        try:
            p = subprocess.run(["timeout", str(timeout)] + cmd, cwd=d, env=env,
                               stdout=subprocess.PIPE, stderr=subprocess.STDOUT, text=True)
        except Exception as e:  # pragma: no cover
            raise MachineryError("cannot run tlc: %s" % e)
    res.wall = time.time() - t0
    res.rc = p.returncode
    out = p.stdout
    keep = []
    nvec = -1
    lines = out.splitlines()
    if tag == "@@VEC":
        # TLC's workers print the vectors in an order that differs from run to run, and the harnesses spread cases over
        # worlds, list modes and layouts by position: put the vectors in one fixed order (by content) first
        head = '"' + tag + " "
        lines = [ln for ln in lines if not ln.startswith(head)] + sorted(ln for ln in lines if ln.startswith(head))
    for line in lines:
        if line.startswith('"' + tag + " "):
            nvec += 1
            if vec_filter is not None and not vec_filter(nvec):
                continue
            body = _tla_unquote(line)[len(tag) + 1:]
            try:
                res.vecs.append(json.loads(body))
            except Exception as e:
                raise MachineryError("bad vector line from TLC: %s (%s)" % (line[:200], e))
            continue
        if line.startswith(("Parsing file", "Semantic processing", "Linting of")):
            continue
        if line.startswith('"@@'):
            res.marks.append(line)
            continue
        keep.append(line)
    res.lines = keep
    res.out = "\n".join(keep)
    m = re.search(r"(\d+) states generated, (\d+) distinct states found", res.out)
    if m:
        res.generated, res.distinct = int(m.group(1)), int(m.group(2))
    m = re.search(r"depth of the complete state graph search is (\d+)", res.out)
    if m:
        res.depth = int(m.group(1))
    m = re.search(r"Error: (.*)", res.out)
    if m:
        res.error = m.group(1)
        m2 = re.search(r"(Invariant|property|Property) (\S+) (is|was) violated", res.out)
        if m2:
            res.violated = m2.group(2)
        else:
            m3 = re.search(r"Action property (\S+)? ?.*is violated", res.out)
            if m3:
                res.violated = m3.group(1)
    if p.returncode == 124:
        res.error = "timeout after %ss" % timeout
    if count_states:
        ctx.states += res.distinct
        ctx.transitions += res.generated
    res.nvec_total = nvec + 1
    ctx.tlc_runs.append({"module": module, "cfg": cfgname, "generated": res.generated,
                         "distinct": res.distinct, "depth": res.depth, "vectors": len(res.vecs) or getattr(res, "nvecs", 0), "vectors_emitted": nvec + 1,
                         "wall_s": round(res.wall, 1), "rc": res.rc, "error": res.error})
    res.dir = d
    return res


def require_clean(res, what):
    """The specification itself must pass TLC: otherwise the machinery is broken (exit 2)."""
    if res.error or res.rc != 0:
        tail = "\n".join(res.lines[-40:])
        raise MachineryError("TLC failed on %s: %s\n%s" % (what, res.error, tail))


# ----------------------------------------------------------------- Go ----

_built = {}


def go_build(ctx, pkg, race=False, tags="verif"):
    """Build harness/cmd/<pkg> against /repo's working tree; returns the binary path."""
    key = (pkg, race)
    if key in _built:
        return _built[key]
    out = os.path.join(ctx.scratch, "bin-%s%s" % (pkg, "-race" if race else ""))
    cmd = ["go", "build", "-tags", tags, "-o", out]
    mf = ensure_harness_mod(ctx)
    if mf:
        cmd += ["-modfile", mf]
    if race:
        cmd.append("-race")
    cmd.append("./cmd/" + pkg)
    p = subprocess.run(cmd, cwd=HARNESS, env=GOENV, stdout=subprocess.PIPE, stderr=subprocess.STDOUT, text=True)
    if p.returncode != 0:
        raise MachineryError("go build %s failed (does /repo compile with -tags %s?):\n%s" % (pkg, tags, p.stdout[-3000:]))
    _built[key] = out
    return out


def ensure_harness_mod(ctx):
    """The harness module replaces github.com/uhn/ggql by /repo.  When VERIF_REPO points elsewhere
    (mutation testing on a scratch worktree) an alternative go.mod is generated and used via -modfile."""
    if os.path.realpath(REPO) == "/repo":
        return None
    mf = os.path.join(ctx.scratch, "alt.mod")
    if not os.path.exists(mf):
        text = open(os.path.join(HARNESS, "go.mod")).read().replace("=> /repo", "=> " + os.path.realpath(REPO))
        with open(mf, "w") as fh:
            fh.write(text)
        shutil.copy(os.path.join(HARNESS, "go.sum"), os.path.join(ctx.scratch, "alt.sum"))
    return mf


def run_bin(ctx, binpath, args, timeout=600, stdin=None, env=None):
    e = dict(GOENV)
    e["VERIF_SEED"] = str(ctx.seed)
    if env:
        e.update(env)
    try:
        p = subprocess.run(["timeout", str(timeout), binpath] + list(args), env=e, input=stdin,
                           stdout=subprocess.PIPE, stderr=subprocess.PIPE, text=True)
    except Exception as ex:  # pragma: no cover
        raise MachineryError("cannot run %s: %s" % (binpath, ex))
    return p.returncode, p.stdout, p.stderr


def run_harness_json(ctx, pkg, args, timeout=600, race=False, env=None):
    """Run a harness command that prints one JSON report on stdout."""
    b = go_build(ctx, pkg, race=race)
    t0 = time.time()
    rc, out, err = run_bin(ctx, b, args, timeout=timeout, env=env)
    ctx.extra.setdefault("harness_runs", []).append({"cmd": pkg + " " + (args[0] if args else ""), "wall_s": round(time.time() - t0, 1)})
    if rc == 124:
        raise MachineryError("harness %s timed out after %ss" % (pkg, timeout))
    try:
        rep = json.loads(out[out.index("{"):]) if "{" in out else None
    except Exception:
        rep = None
    if rep is None:
        crash = real_code_crash(err)
        if crash:
            raise RealCodeCrash(crash, "harness %s %s" % (pkg, " ".join(a for a in args if not a.startswith("/"))))
        raise MachineryError("harness %s %s: rc=%s, no JSON report\nstdout: %s\nstderr: %s"
                             % (pkg, " ".join(args), rc, out[-2000:], err[-3000:]))
    rep["_rc"] = rc
    rep["_stderr"] = err[-4000:]
    return rep


# ------------------------------------------------------ known findings ----

def load_known(prop):
    path = os.path.join(VERIF, "known_findings.json")
    if not os.path.exists(path):
        return []
    with open(path) as fh:
        data = json.load(fh)
    return [f for f in data.get("findings", []) if f.get("property") == prop or prop in f.get("also", [])]


# ------------------------------------------------------------ evidence ----

def write_replay(ctx, name, payload):
    rdir = os.environ.get("VERIF_REPLAYS") or os.path.join(VERIF, "replays")
    os.makedirs(rdir, exist_ok=True)
    path = os.path.join(rdir, "%s-%s.json" % (ctx.prop, name))
    with open(path, "w") as fh:
        json.dump(payload, fh, indent=1, sort_keys=True, default=str)
    return path


def finish(ctx, status=None):
    """Write evidence, print verdict lines, clean up and exit."""
    wall = time.time() - ctx.t0
    cov = {
        "states": ctx.states,
        "transitions": ctx.transitions,
        "traces_validated_against_impl": ctx.traces,
        "evaluations": ctx.evaluations,
        "distinct_nontrivial": len(ctx.nontrivial),
        "rule": ctx.rule,
        "samples": ctx.samples if ctx.samples else ["(no case was produced)"],
        "tlc_runs": ctx.tlc_runs,
        "known_findings_hit": ctx.known_hits,
    }
    if ctx.exhaustive is not None:
        cov["exhaustive"] = bool(ctx.exhaustive)
    cov.update(ctx.extra)
    ev = {
        "property_id": ctx.prop,
        "tier": ctx.tier,
        "seed": ctx.seed,
        "level": ctx.level,
        "coverage": cov,
        "assumptions": ctx.assumptions,
        "wall_s": round(wall, 2),
        "violations": len(ctx.violations),
    }
    # evidence is only ever written by runs against /repo itself; a run against a scratch tree (VERIF_REPO,
    # seeded changes) leaves the committed evidence alone
    evdir = os.path.join(VERIF, "evidence") if os.path.realpath(REPO) == "/repo" else ctx.scratch
    os.makedirs(evdir, exist_ok=True)
    with open(os.path.join(evdir, ctx.prop + ".json"), "w") as fh:
        json.dump(ev, fh, indent=1, sort_keys=True, default=str)
        fh.write("\n")
    for fid, n in sorted(ctx.known_hits.items()):
        print("KNOWN-FINDING: property=%s %s (%d cases)" % (ctx.prop, fid, n))
    rc = 0
    if ctx.violations:
        rc = 1
        first = ctx.violations[0]
        path = write_replay(ctx, "violation", {"property": ctx.prop, "tier": ctx.tier, "seed": ctx.seed,
                                               "violations": ctx.violations[:50]})
        for v in ctx.violations[:5]:
            print("  mismatch: %s" % json.dumps(v, default=str)[:1500])
        print("VIOLATION property=%s replay=%s" % (ctx.prop, path))
    else:
        print("OK property=%s tier=%s states=%d transitions=%d traces=%d evaluations=%d nontrivial=%d wall=%.1fs"
              % (ctx.prop, ctx.tier, ctx.states, ctx.transitions, ctx.traces, ctx.evaluations,
                 len(ctx.nontrivial), wall))
    ctx.cleanup()
    sys.exit(rc if status is None else status)


def machinery_failure(ctx, msg):
    sys.stderr.write("MACHINERY-ERROR property=%s: %s\n" % (ctx.prop, msg))
    print("MACHINERY-ERROR property=%s (exit 2; not a verdict about ggql): %s" % (ctx.prop, str(msg).splitlines()[0] if str(msg) else ""))
    ctx.cleanup()
    sys.exit(2)


def write_ndjson(path, records):
    with open(path, "w") as fh:
        for r in records:
            fh.write(json.dumps(r, separators=(",", ":")) + "\n")
