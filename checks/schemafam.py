"""Type-system family: C13 - C17 (spec/SchemaCore.tla, SchemaRules.tla, Loader.tla, MCLoader.tla, MCArrange.tla ...)."""
import json
import os

import vlib

FAMILY_PROPS = ["C13", "C14", "C15", "C16", "C17"]


def tlaset(xs):
    return "{" + ", ".join('"%s"' % x for x in xs) + "}"


def known_devs():
    devs = {}
    for p in FAMILY_PROPS:
        for f in vlib.load_known(p):
            if f.get("deviation"):
                devs[f["deviation"]] = f
    return devs


def note_known(ctx, names, devs):
    for name in names.split("+"):
        f = devs.get(name)
        if f is None:
            ctx.violations.append({"from": "attribution", "what": "mismatch attributed to unlisted deviation " + name})
        elif f["property"] == ctx.prop or ctx.prop in f.get("also", []):
            key = "%s: %s" % (name, f["what"])
            ctx.known_hits[key] = ctx.known_hits.get(key, 0) + 1
        else:
            o = ctx.extra.setdefault("explained_by_findings_listed_for_other_properties", {})
            o[name] = o.get(name, 0) + 1


def absorb(ctx, rep, label, aspects, devs):
    ctx.evaluations += rep["evaluations"]
    for h in rep.get("nontrivial_hashes") or []:
        ctx.nontrivial.add(h)
    for s in rep.get("samples") or []:
        ctx.add_sample({"from": label, "case": s})
    cl = ctx.extra.setdefault("classes", {})
    for k, v in (rep.get("classes") or {}).items():
        cl[k] = cl.get(k, 0) + v
    other = ctx.extra.setdefault("mismatches_in_aspects_of_other_properties", {})
    for m in rep["mismatches"]:
        asp = m["case"].get("aspect") if isinstance(m.get("case"), dict) else None
        if aspects is not None and asp not in aspects:
            other[asp or "?"] = other.get(asp or "?", 0) + 1
            continue
        if m.get("known"):
            note_known(ctx, m["known"], devs)
            continue
        ctx.violations.append({"from": label, "what": m["what"], "case": m["case"]})


def loadhist(ctx, vecs, label, aspects, devs, extra=(), paths=None):
    """Replay histories on real roots; the histories are independent, so they are spread over several harness processes.
    (paths: the histories are already in files, one JSON document per line - see vlib.run_tlc(shards=...))"""
    import concurrent.futures
    vlib.go_build(ctx, "schema")
    if paths is None:
        nsh = 1 if len(vecs) < 200 else (6 if ctx.tier == "quick" else 12)
        paths = []
        for k in range(nsh):
            vp = os.path.join(ctx.scratch, "hist-%s-%d.json" % (label, k))
            with open(vp, "w") as fh:
                json.dump(vecs[k::nsh], fh)
            paths.append(vp)
    nsh = len(paths)
    with concurrent.futures.ThreadPoolExecutor(max_workers=nsh) as ex:
        reps = list(ex.map(lambda vp: vlib.run_harness_json(ctx, "schema", ["loadhist", "-vectors", vp] + list(extra), timeout=3000), paths))
    for vp in paths:
        if not os.environ.get("VERIF_KEEP"):
            os.remove(vp)
    for rep in reps:
        absorb(ctx, rep, label, aspects, devs)
    return reps[0]


def loader_histories(ctx, cfgtext, label, aspects, devs, extra=(), vec_filter=None, what="MCLoader"):
    """MCLoader's histories replayed on real roots. The histories go from TLC's output straight into files (there can be
    hundreds of thousands of them, each with the canonical schema after every load)."""
    nsh = 6 if ctx.tier == "quick" else 12
    res = vlib.run_tlc(ctx, "MCLoader", cfgtext, timeout=3400, xss="64m", vec_filter=vec_filter,
                       shards=(os.path.join(ctx.scratch, "hist-" + label), nsh))
    vlib.require_clean(res, what)
    if not res.nvecs:
        raise vlib.MachineryError("%s produced no history (%s)" % (what, label))
    loadhist(ctx, None, label, aspects, devs, extra=extra, paths=res.vec_paths)
    return res


TRACE_CFG = """SPECIFICATION TSpec
CONSTANTS KnownDev = {known}
INVARIANTS Judge AtomicObserved
POSTCONDITION Done
CHECK_DEADLOCK FALSE
"""


def record_and_judge(ctx, devs, n, label="random-histories"):
    """Direction B: random well-formed definition sets, random arrangements and injected failures executed on
    real roots; the recorded histories are validated against Loader.tla by LoaderTrace.tla."""
    out = os.path.join(ctx.scratch, "loads.ndjson")
    rep = vlib.run_harness_json(ctx, "schema", ["record", "-n", str(n), "-out", out], timeout=3000)
    ctx.evaluations += rep["evaluations"]
    for h in rep.get("nontrivial_hashes") or []:
        ctx.nontrivial.add(h)
    for smp in rep.get("samples") or []:
        ctx.add_sample({"from": label, "case": smp}, limit=6)
    res = vlib.run_tlc(ctx, "LoaderTrace", TRACE_CFG.format(known=tlaset(sorted(devs))), extra_files=[out], workers=1, timeout=3000,
                       tag="@@VER", xss="64m")
    if res.violated == "AtomicObserved":
        ctx.violations.append({"from": label, "what": "a recorded load returned an error but the schema read back afterwards differs from the one before (TLC: AtomicObserved)",
                               "case": res.lines[-40:]})
        return
    vlib.require_clean(res, "LoaderTrace")
    recs = [json.loads(l) for l in open(out)]
    if len(res.vecs) != len(recs) or any(m.startswith('"@@INCOMPLETE') for m in res.marks):
        raise vlib.MachineryError("LoaderTrace judged %d of %d records" % (len(res.vecs), len(recs)))
    ctx.traces += sum(1 for r in recs if r["r"] == "reset")
    for v in res.vecs:
        if v["ok"]:
            continue
        rec = recs[v["i"] - 1]
        if v.get("known"):
            note_known(ctx, "+".join(v.get("kdevs") or ["K"]), devs)
            continue
        ctx.violations.append({"from": label, "what": "recorded load is not explained by Loader.tla: real ok=%s, model ok=%s (%s %s), same schema=%s"
                               % (rec["ok"], v.get("modelOk"), v.get("why"), v.get("off"), v.get("sameSchema")),
                               "case": {"document": rec["doc"], "record": v["i"]}})


LOADER_CFG = """SPECIFICATION LSpec
CONSTANTS MaxLoads = {n}
  PrefixIds = {prefixes}
  KnownDev = {known}
  WithIntro = {intro}
  Vias = {vias}
  TypesOnly = {typesonly}
  Buildable = {buildable}
INVARIANTS AlwaysValid AsIfNeverHappened Emit
PROPERTIES Atomic
CHECK_DEADLOCK FALSE
"""

def loader_cfg(n, prefixes, devs, intro, vias=("sdl",), typesonly=False, buildable=False):
    return LOADER_CFG.format(n=n, prefixes=tlaset(prefixes), known=tlaset(sorted(devs)), intro=intro, vias=tlaset(vias),
                             typesonly="TRUE" if typesonly else "FALSE", buildable="TRUE" if buildable else "FALSE")


ARRANGE_CFG = """SPECIFICATION ASpec
CONSTANTS KnownDev = {known}
  WithIntro = {intro}
  SetIds = {sets}
INVARIANTS OrderFree Emit
CHECK_DEADLOCK FALSE
"""


def run_c14(ctx):
    devs = known_devs()
    # (thorough: one TLC run per prefix at depth 3 - the states carry the canonical schema and the introspection view after
    # every load, two prefixes at once need more than 16 GB of heap since the universe has 90 documents)
    plans = [(2, ["p0", "p1", "p2", "p3"])] if ctx.tier == "quick" else [(3, ["p0"]), (3, ["p1"]), (2, ["p2", "p3"])]
    n = max(p[0] for p in plans)
    for k, prefixes in plans:
        # quick: every second history, chosen by the seed (TLC still checks Atomic / AsIfNeverHappened on all of them)
        loader_histories(ctx, loader_cfg(k, prefixes, devs, "TRUE"), "histories-%d-%s" % (k, "".join(prefixes)), {"verdict", "atomic", "schema", "intro"}, devs,
                         extra=["-intro"], vec_filter=(lambda i: i % 2 == ctx.seed % 2) if ctx.tier == "quick" else None)
    # "or adding types": the same histories with documents delivered as Go-built types through Root.AddTypes wherever a
    # document has such a form (no extend / schema block, nothing to read); only histories with at least one such load
    # (depth 3 over the documents that can be built in Go only)
    tplans = [(2, ["p0", "p1", "p2", "p3"])] if ctx.tier == "quick" else [(3, ["p1"]), (2, ["p0", "p2", "p3"])]
    for k, prefixes in tplans:
        loader_histories(ctx, loader_cfg(k, prefixes, devs, "TRUE", vias=("sdl", "types"), typesonly=True, buildable=(k >= 3)), "addtypes-histories-%d-%s" % (k, "".join(prefixes)),
                         {"verdict", "atomic", "schema", "intro"}, devs, extra=["-intro"],
                         vec_filter=(lambda i: i % 2 == ctx.seed % 2) if ctx.tier == "quick" else None, what="MCLoader (AddTypes)")
    record_and_judge(ctx, devs, 400 if ctx.tier == "quick" else 6000)
    ctx.exhaustive = True
    ctx.rule = ("every history of %d loads over the %d documents of spec/LoadUniverse.tla (12 valid ones incl. extend and schema blocks, 15 failing ones: "
                "syntax error, reader failure, undefined reference, duplicate, failed extension of each kind, validation failure - each after valid content) "
                "(quick: 2 loads after each of 4 prefixes of valid loads; thorough: 3 loads after the empty and the base prefix) is replayed on one real Root; after every load the verdict and the schema read back through the API (types, fields, arguments, defaults, "
                "directive uses, enum values, members, interfaces, directives, operation roots) must equal what Loader!LoadResult prescribes - in particular "
                "unchanged after a refused load (TLC: action property Atomic, invariant AsIfNeverHappened). non-trivial = history containing a refused load" % (n, 35))
    ctx.assumptions.append("observable state = the canonical schema read back through Types()/GetType()/verif accessors; responses to requests are covered by C17/C01 on such roots")


def run_c16(ctx):
    devs = known_devs()
    allsets = ["s1", "s2", "s3", "s4", "s5", "s6", "s7", "s8", "s9", "s10", "s11", "s12", "s13", "s14", "s15", "s16"]
    # quick: the 6-definition set s8 and the 5-definition sets dominate the cost; permutations are thinned below
    # quick: every set, every extend-move and every cut pattern stays represented; the arrangements replayed are thinned
    keep = (lambda i: i % 8 == ctx.seed % 8) if ctx.tier == "quick" else None
    res = vlib.run_tlc(ctx, "MCArrange", ARRANGE_CFG.format(known=tlaset(sorted(devs)), intro="FALSE", sets=tlaset(allsets)), timeout=3400, xss="64m",
                       vec_filter=keep)
    vlib.require_clean(res, "MCArrange")
    vecs = res.vecs
    loadhist(ctx, vecs, "arrangements", {"verdict", "atomic", "schema"}, devs)
    # "answer introspection identically": the sets with interfaces and unions again with the introspection view after EVERY load
    # (a root that is asked between the loads must still end with the view of the whole set)
    keep2 = (lambda i: i % 16 == ctx.seed % 16) if ctx.tier == "quick" else (lambda i: i % 2 == ctx.seed % 2)
    res = vlib.run_tlc(ctx, "MCArrange", ARRANGE_CFG.format(known=tlaset(sorted(devs)), intro="TRUE", sets=tlaset(["s1", "s2", "s8"])), timeout=3400, xss="64m",
                       vec_filter=keep2)
    vlib.require_clean(res, "MCArrange (introspection between the loads)")
    loadhist(ctx, res.vecs, "arrangements-asked-between-loads", {"verdict", "schema", "intro"}, devs, extra=["-intro"])
    # "resolve requests identically": requests derived from the schema (argument and input field defaults) asked after every load;
    # the final answers must be those of a root that loaded the same definitions as one document
    res = vlib.run_tlc(ctx, "MCArrange", ARRANGE_CFG.format(known=tlaset(sorted(devs)), intro="FALSE", sets=tlaset(["s13", "s3"])), timeout=3400, xss="64m",
                       vec_filter=(lambda i: i % 4 == ctx.seed % 4) if ctx.tier == "quick" else None)
    vlib.require_clean(res, "MCArrange (requests)")
    loadhist(ctx, res.vecs, "arrangements-requests", {"verdict", "schema", "requests"}, devs, extra=["-requests"])
    record_and_judge(ctx, devs, 300 if ctx.tier == "quick" else 4000)
    ctx.exhaustive = ctx.tier == "thorough"
    ctx.rule = ("for each of 8 definition sets (6 valid, 2 invalid; all kinds, directive uses with and without default arguments, a schema block): every "
                "permutation x every cut into up to three successive loads x every move of a last member into an extend block, restricted to arrangements "
                "whose intermediate loads are accepted; TLC checks OrderFree on the specification and each arrangement is replayed on a real Root whose "
                "read-back must equal the canonical schema of the reference arrangement (quick tier: every 8th arrangement, chosen by the seed). "
                "non-trivial = arrangement with more than one load or an extend block")


RULES_CFG = """SPECIFICATION RSpec
CONSTANTS KnownDev = {known}
  WithIntro = {intro}
INVARIANTS BasesValid MutationsRefused Emit
CHECK_DEADLOCK FALSE
"""


def run_c13(ctx):
    devs = known_devs()
    res = vlib.run_tlc(ctx, "MCRules", RULES_CFG.format(known=tlaset(sorted(devs)), intro="FALSE"), timeout=3400, xss="64m")
    vlib.require_clean(res, "MCRules")
    rep = loadhist(ctx, res.vecs, "mutations", {"verdict", "offender", "schema"}, devs, extra=["-offender"])
    # the rules hold for the schema as a whole: a later load that breaks a rule for a type loaded earlier is refused too
    for k, prefixes in ([(1, ["p1", "p2", "p3", "p4"])] if ctx.tier == "quick" else [(2, ["p1", "p2", "p3", "p4"])]):
        loader_histories(ctx, loader_cfg(k, prefixes, devs, "FALSE"), "histories-%d-%s" % (k, "".join(prefixes)), {"verdict", "schema"}, devs)
    # the rules also hold for types built in Go and handed to Root.AddTypes (names that SDL text cannot even spell)
    loader_histories(ctx, loader_cfg(1, ["p0", "p1"], devs, "FALSE", vias=("sdl", "types"), typesonly=True), "addtypes-1-p0p1", {"verdict", "schema"}, devs)
    record_and_judge(ctx, devs, 300 if ctx.tier == "quick" else 4000)
    muts = sorted({v["tag"].split(":", 1)[1] for v in res.vecs})
    ctx.extra["mutation_kinds"] = muts
    ctx.exhaustive = True
    ctx.rule = ("2 hand-built well-formed base schemas (all kinds, nested wrappers, extends, schema block, directive uses at every level, defaults, "
                "descriptions) x every mutation of the catalogue in spec/MCRules.tla at every applicable position (%d kinds of mutation, %d mutated "
                "documents): the verdict and the set of acceptable offender names are computed by SchemaRules!Violations, not by the mutation's label "
                "(TLC checks that every mutation is refused by the specification and every base accepted); each document is loaded into a fresh real Root: "
                "verdict, offender named by the error, and for accepted documents the read-back schema must agree. non-trivial = refused document" % (len(muts), len(res.vecs)))


def run_c17(ctx):
    devs = known_devs()
    aspects = {"intro", "verdict", "schema"}
    res = vlib.run_tlc(ctx, "MCRules", RULES_CFG.format(known=tlaset(sorted(devs)), intro="TRUE"), timeout=3400, xss="64m")
    vlib.require_clean(res, "MCRules")
    vecs = [v for v in res.vecs if ":valid_" in v["tag"]]
    loadhist(ctx, vecs, "base-schemas", aspects, devs, extra=["-intro"])
    keep = (lambda i: i % 16 == ctx.seed % 16) if ctx.tier == "quick" else (lambda i: i % 2 == ctx.seed % 2)
    res = vlib.run_tlc(ctx, "MCArrange", ARRANGE_CFG.format(known=tlaset(sorted(devs)), intro="TRUE", sets=tlaset(["s1", "s2", "s3", "s4", "s5", "s8", "s9"])),
                       timeout=3400, xss="64m", vec_filter=keep)
    vlib.require_clean(res, "MCArrange")
    loadhist(ctx, res.vecs, "arranged-schemas", aspects, devs, extra=["-intro"])
    # histories of the loader state machine: the answer must follow the root through accepted and refused loads (no stale view)
    for k, prefixes in ([(2, ["p0", "p1", "p3"])] if ctx.tier == "quick" else [(3, ["p1"]), (2, ["p0", "p2", "p3"])]):
        loader_histories(ctx, loader_cfg(k, prefixes, devs, "TRUE"), "histories-%d-%s" % (k, "".join(prefixes)), aspects, devs, extra=["-intro"],
                         vec_filter=(lambda i: i % 3 == ctx.seed % 3) if ctx.tier == "quick" else None)
    # schemas put together in Go and handed to Root.AddTypes are accepted schemas too
    loader_histories(ctx, loader_cfg(1, ["p0", "p1"], devs, "TRUE", vias=("sdl", "types"), typesonly=True), "addtypes-1-p0p1", aspects, devs, extra=["-intro"])
    ctx.rule = ("for every accepted schema of the base/valid-variant documents of MCRules.tla and of the arrangements of MCArrange.tla (thinned), the full "
                "introspection request (types with kind/name/description, fields with arguments, types unrolled through ofType, isDeprecated and "
                "deprecationReason, interfaces, possibleTypes, enum values, input fields, directives with locations and arguments, the three root types) is "
                "run with includeDeprecated true and false on roots whose application data is served by reflection, by a Resolver object and by an installed "
                "root (any) resolver, and the response projected on the view Introspect!Intro prescribes; __type on an unknown name must be null. "
                "non-trivial = schema reached through more than one load or an extend block")
    ctx.assumptions.append("defaultValue rendering is not compared (not part of the statement)")


PRINT_CFG = """SPECIFICATION PSpec
CONSTANTS MaxLen = {n}
  KnownDev = {known}
INVARIANTS AllAccepted Emit
CHECK_DEADLOCK FALSE
"""


def build_ggqlgen(ctx):
    import subprocess
    out = os.path.join(ctx.scratch, "ggqlgen")
    p = subprocess.run(["go", "build", "-o", out, "./cmd/ggqlgen"], cwd=vlib.REPO, env=vlib.GOENV, stdout=subprocess.PIPE, stderr=subprocess.STDOUT, text=True)
    if p.returncode != 0:
        raise vlib.MachineryError("cannot build cmd/ggqlgen: " + p.stdout[-2000:])
    return out


def run_c15(ctx):
    devs = known_devs()
    n = 2 if ctx.tier == "quick" else 3
    res = vlib.run_tlc(ctx, "MCPrint", PRINT_CFG.format(n=n, known=tlaset(sorted(devs))), timeout=3400, xss="64m")
    vlib.require_clean(res, "MCPrint")
    vecs = list(res.vecs)
    # every accepted schema of the rule catalogue's valid variants goes through the round trip as well
    r2 = vlib.run_tlc(ctx, "MCRules", RULES_CFG.format(known=tlaset(sorted(devs)), intro="FALSE"), timeout=3400, xss="64m")
    vlib.require_clean(r2, "MCRules")
    for v in r2.vecs:
        if v["hist"][0]["ok"] and v["hist"][0].get("okK", True):   # accepted by the specification and (known deviations) by ggql
            v["tag"] = "bases"
            vecs.append(v)
    vp = os.path.join(ctx.scratch, "print.json")
    with open(vp, "w") as fh:
        json.dump(vecs, fh)
    gen = build_ggqlgen(ctx)
    rep = vlib.run_harness_json(ctx, "schema", ["roundtrip", "-vectors", vp, "-ggqlgen", gen], timeout=3400)
    absorb(ctx, rep, "roundtrip", None, devs)
    ctx.exhaustive = True
    ctx.rule = ("every string of up to %d tokens over {letter, quote, backslash, newline, e-acute, triple quote, backslash-u text, interior space, 4-byte rune} "
                "as description at each of 12 description sites and as string default at 4 default sites (descriptions restricted to strings that are "
                "stored unchanged: trimmed lines, no blank lines), numeric/boolean/enum/null defaults incl. 2^53, 1.5, -0.5, 1e300, 1e-50, nested list and "
                "object defaults, and the valid schemas of MCRules: load, print the root (whole root and type by type), load the printed text into a fresh "
                "root, compare the schemas read back, print again and compare the texts; every 7th case also through ggqlgen -w and -e built from /repo. "
                "non-trivial = case with a special string or default" % n)
    ctx.assumptions += ["texts are compared with ggql.Sort = true (as ggqlgen sets it): object valued defaults are Go maps and their key order is otherwise unspecified",
                        "the structural half is carried by C16/C14 (Loader.tla); MCPrint.tla only enumerates the textual cases and states the expected outcome (accepted, same canonical schema)"]


RUNNERS = {"C15": run_c15, "C13": run_c13, "C14": run_c14, "C16": run_c16, "C17": run_c17}


def run(ctx):
    if ctx.prop not in RUNNERS:
        raise vlib.MachineryError("no plan for %s" % ctx.prop)
    RUNNERS[ctx.prop](ctx)
