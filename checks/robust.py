"""C03: no schema text, request, value or variable map can crash or hang the library
(spec/DocGen.tla, MCDocGen.tla, FragDocs.tla, ResolveDepth.tla, DocGenJudge.tla; harness/robust, harness/cmd/robust)."""
import json
import os

import vlib

ALL_DEVIATIONS = ["FragCycleUnbounded", "VarDefNilType", "NoRootObject", "NoSchemaResolve"]

GEN_CFG = """SPECIFICATION MCSpec
CONSTANTS
  Fams = {fams}
  KnownDev = {known}
  AllLen = {alllen}
  SmallLen = {smalllen}
  MaxTok = {maxtok}
  MaxMut = {maxmut}
  MutTok = {muttok}
  Rich = {rich}
  ArgStates = {argstates}
  VdBulk = {vdbulk}
INVARIANTS Emit StrictAdmitsNothing DerivedIsValid DerivedBalanced TokensKnown FragAnalysisSound
CHECK_DEADLOCK FALSE
"""

DEPTH_CFG = """SPECIFICATION Spec
CONSTANTS
  MaxDepth = {maxdepth}
  Dv = {dv}
  Rich = {rich}
  Three = {three}
INVARIANTS {invs}
CONSTRAINT Window
CHECK_DEADLOCK FALSE
"""

JUDGE_CFG = """SPECIFICATION JSpec
CONSTANTS
  KnownDev = {known}
  NBlocks = 32
INVARIANTS Judge
CHECK_DEADLOCK FALSE
"""

ARG_QUICK = ["omit", "null", "str", "int", "unset", "var", "obj"]
ARG_ALL = ["omit", "null", "str", "int", "float", "bool", "enum", "list", "obj", "unset", "var", "big"]

# (families, constants, families replayed without per-offset reader faults)
QUICK_RUNS = [
    dict(fams=["frag", "frag3", "dupkey", "indef", "hist", "vars", "refl", "undecl", "tail"], alllen=1, smalllen=1, maxtok=4, maxmut=0, muttok=4, rich="FALSE", argstates=ARG_QUICK, vdbulk=1, light=""),
    dict(fams=["all"], alllen=2, smalllen=3, maxtok=4, maxmut=0, muttok=4, rich="FALSE", argstates=ARG_QUICK, vdbulk=1, light="all"),
    dict(fams=["deriv"], alllen=1, smalllen=1, maxtok=6, maxmut=1, muttok=5, rich="FALSE", argstates=ARG_QUICK, vdbulk=1, light="deriv"),
    dict(fams=["deep"], alllen=1, smalllen=1, maxtok=4, maxmut=0, muttok=4, rich="FALSE", argstates=ARG_QUICK, vdbulk=1, light="deep"),
]
THOROUGH_RUNS = [
    dict(fams=["deep"], alllen=1, smalllen=1, maxtok=4, maxmut=0, muttok=4, rich="FALSE", argstates=ARG_QUICK, vdbulk=1, light="deep"),
    dict(fams=["frag3", "dupkey", "indef", "hist"], alllen=1, smalllen=1, maxtok=4, maxmut=0, muttok=4, rich="FALSE", argstates=ARG_QUICK, vdbulk=1, light=""),
    dict(fams=["frag"], alllen=1, smalllen=1, maxtok=4, maxmut=0, muttok=4, rich="TRUE", argstates=ARG_ALL, vdbulk=1, light=""),
    dict(fams=["vars", "refl", "undecl", "tail"], alllen=1, smalllen=1, maxtok=4, maxmut=0, muttok=4, rich="FALSE", argstates=ARG_ALL, vdbulk=1, light=""),
    dict(fams=["all"], alllen=3, smalllen=4, maxtok=4, maxmut=0, muttok=4, rich="FALSE", argstates=ARG_QUICK, vdbulk=1, light="all"),
    dict(fams=["deriv"], alllen=1, smalllen=1, maxtok=8, maxmut=1, muttok=6, rich="FALSE", argstates=ARG_QUICK, vdbulk=1, light="deriv"),
    dict(fams=["deriv"], alllen=1, smalllen=1, maxtok=6, maxmut=2, muttok=5, rich="FALSE", argstates=ARG_QUICK, vdbulk=1, light="deriv"),
]


def tlaset(xs):
    return "{" + ", ".join('"%s"' % x for x in xs) + "}"


def known_devs(ctx):
    devs = {}
    for f in vlib.load_known("C03"):
        if f.get("deviation"):
            devs[f["deviation"]] = f
    unknown = sorted(set(devs) - set(ALL_DEVIATIONS))
    if unknown:
        raise vlib.MachineryError("known_findings.json lists deviations spec/DocGen.tla does not model: %s" % unknown)
    return devs


def note_known(ctx, name, devs, n=1):
    f = devs.get(name)
    if f is None:
        ctx.violations.append({"from": "attribution", "what": "outcome attributed to unlisted deviation " + name})
        return
    key = "%s: %s" % (name, f["what"])
    ctx.known_hits[key] = ctx.known_hits.get(key, 0) + n


def depth_model(ctx, devs):
    """ResolveDepth.tla: the nesting of request resolution as a state machine over every fragment document."""
    quick = ctx.tier == "quick"
    rich = "FALSE" if quick else "TRUE"
    res = vlib.run_tlc(ctx, "ResolveDepth", DEPTH_CFG.format(maxdepth=2 if quick else 3, dv="{}", rich=rich, three="FALSE",
                                                              invs="DepthBounded DivergesImpliesCycle"), timeout=3000)
    vlib.require_clean(res, "ResolveDepth (design)")
    # three fragments: cycles behind the fragment the operation enters through
    for dv, invs in (("{}", "DepthBounded DivergesImpliesCycle"), ('{"FragCycleUnbounded"}', "OverflowOnlyIfDiverges DivergesImpliesCycle")):
        r3 = vlib.run_tlc(ctx, "ResolveDepth", DEPTH_CFG.format(maxdepth=1 if quick else 2, dv=dv, rich="FALSE", three="TRUE", invs=invs),
                          timeout=3000, count_states=(dv == "{}"))
        vlib.require_clean(r3, "ResolveDepth, three fragments, Dv = %s" % dv)
    # the code's algorithm (no cycle check): the model must reproduce the unbounded recursion, and only for Diverges(doc)
    dev = vlib.run_tlc(ctx, "ResolveDepth", DEPTH_CFG.format(maxdepth=2, dv='{"FragCycleUnbounded"}', rich="FALSE", three="FALSE",
                                                              invs="OverflowOnlyIfDiverges DivergesImpliesCycle"),
                       timeout=3000, count_states=False)
    vlib.require_clean(dev, "ResolveDepth (FragCycleUnbounded: overflow only for the documents Diverges names)")
    if not quick:
        bad = vlib.run_tlc(ctx, "ResolveDepth", DEPTH_CFG.format(maxdepth=2, dv='{"FragCycleUnbounded"}', rich="FALSE", three="FALSE",
                                                                  invs="DepthBounded"), timeout=3000, count_states=False)
        if bad.violated != "DepthBounded":
            raise vlib.MachineryError("ResolveDepth: the deviation FragCycleUnbounded does not violate DepthBounded (%s)" % bad.error)
        ctx.extra["model_mutation_caught"] = "FragCycleUnbounded violates DepthBounded"


def absorb(ctx, rep, label, devs):
    ctx.evaluations += rep["evaluations"]
    for h in rep.get("nontrivial_hashes") or []:
        ctx.nontrivial.add(h)
    for s in rep.get("samples") or []:
        ctx.add_sample({"from": label, "case": s})
    cl = ctx.extra.setdefault("classes", {}).setdefault(label, {})
    for k, v in (rep.get("classes") or {}).items():
        cl[k] = cl.get(k, 0) + v
    for m in rep["mismatches"]:
        if m.get("known"):
            note_known(ctx, m["known"], devs, 1)
            continue
        case = m["case"]
        if case.get("kind") == "harness":
            raise vlib.MachineryError("robust harness: %s" % json.dumps(case)[:1500])
        if not case.get("reproduced_alone"):
            if case.get("kind") == "hang":
                # the bulk run's time bound was missed but the case answers when run alone with a generous bound:
                # a busy machine, not a hang (a real hang misses any bound)
                ctx.extra["time_bound_missed_but_answers_alone"] = ctx.extra.get("time_bound_missed_but_answers_alone", 0) + case.get("cases", 1)
                continue
            # any other outcome that does not reproduce in a fresh worker is not a verdict about ggql
            raise vlib.MachineryError("outcome not reproduced in a fresh worker: %s" % json.dumps(case)[:1500])
        ctx.violations.append({"from": label, "what": m["what"], "case": case})
    for k, n in (rep.get("known_hits") or {}).items():
        note_known(ctx, k, devs, n)
    ex = rep.get("extra") or {}
    for k in ("entry_point_calls", "worker_restarts", "cases"):
        if k in ex:
            ctx.extra[k] = ctx.extra.get(k, 0) + ex[k]


def run(ctx):
    ctx.level = "exploration"
    quick = ctx.tier == "quick"
    devs = known_devs(ctx)
    depth_model(ctx, devs)
    shards = 8 if quick else 16
    uni = None
    up = os.path.join(ctx.scratch, "uni.json")
    for n, r in enumerate(QUICK_RUNS if quick else THOROUGH_RUNS):
        cfg = GEN_CFG.format(fams=tlaset(r["fams"]), known=tlaset(sorted(devs)), alllen=r["alllen"], smalllen=r["smalllen"],
                             maxtok=r["maxtok"], maxmut=r["maxmut"], muttok=r["muttok"], rich=r["rich"],
                             argstates=tlaset(r["argstates"]), vdbulk=r["vdbulk"])
        res = vlib.run_tlc(ctx, "MCDocGen", cfg, timeout=3000, xss="64m", mem="12g")
        vlib.require_clean(res, "MCDocGen %s" % r["fams"])
        if not res.vecs:
            raise vlib.MachineryError("MCDocGen %s produced no vector" % r["fams"])
        if uni is None:
            uni = (res.mark("@@UNI") or [None])[0]
            if uni is None:
                raise vlib.MachineryError("MCDocGen did not export its universe")
            with open(up, "w") as fh:
                json.dump(uni, fh)
        vp = os.path.join(ctx.scratch, "vec-%d.json" % n)
        with open(vp, "w") as fh:
            json.dump(res.vecs, fh)
        nvec = len(res.vecs)
        del res
        args = ["replay", "-universe", up, "-vectors", vp, "-shards", str(shards)]
        if r["light"]:
            args += ["-light", r["light"]]
        rep = vlib.run_harness_json(ctx, "robust", args, timeout=6000)
        absorb(ctx, rep, "replay:" + "+".join(r["fams"]), devs)
        ctx.extra.setdefault("vectors", {})["+".join(r["fams"]) + "#%d" % n] = nvec
        os.remove(vp)
    # direction B: random longer derivations, token and byte mutations, judged by DocGenJudge.tla
    out = os.path.join(ctx.scratch, "cases.ndjson")
    nrec = 600 if quick else 12000
    rep = vlib.run_harness_json(ctx, "robust", ["record", "-universe", up, "-n", str(nrec), "-out", out, "-shards", str(shards),
                                                "-maxtok", "14" if quick else "24"], timeout=6000)
    ctx.evaluations += rep["evaluations"]
    for h in rep.get("nontrivial_hashes") or []:
        ctx.nontrivial.add(h)
    for s in rep.get("samples") or []:
        ctx.add_sample({"from": "record", "case": s})
    ctx.extra.setdefault("classes", {})["record"] = rep.get("classes")
    findings = {a["site"]: a for a in (rep.get("extra") or {}).get("findings") or []}
    res = vlib.run_tlc(ctx, "DocGenJudge", JUDGE_CFG.format(known=tlaset(sorted(devs))), extra_files=[out], timeout=3000,
                       tag="@@VER", xss="64m")
    vlib.require_clean(res, "DocGenJudge")
    recs = [json.loads(l) for l in open(out)]
    seen = sorted(v["i"] for v in res.vecs)
    if seen != list(range(1, len(recs) + 1)):
        raise vlib.MachineryError("DocGenJudge judged %d of %d recorded executions" % (len(seen), len(recs)))
    ctx.traces += len(recs)
    for v in res.vecs:
        rec = recs[v["i"] - 1]
        if not v["gen"]:
            raise vlib.MachineryError("the Go generator and the grammar of DocGen.tla disagree on %s" % json.dumps(rec)[:800])
        if v["ok"]:
            continue
        if v["known"]:
            for d in v["kdevs"]:
                note_known(ctx, d, devs, 1)
            continue
        for site in v["unexplained"]:
            a = findings.get(site) or {}
            if a.get("kind") == "harness":
                raise vlib.MachineryError("robust harness: %s" % json.dumps(a)[:1500])
            if not a.get("reproduced"):
                if a.get("kind") == "hang":
                    ctx.extra["time_bound_missed_but_answers_alone"] = ctx.extra.get("time_bound_missed_but_answers_alone", 0) + 1
                    continue
                raise vlib.MachineryError("outcome not reproduced in a fresh worker: %s on %s" % (site, rec["input"][:300]))
            ctx.violations.append({"from": "record", "what": "%s: the specification prescribes that every entry point returns" % site,
                                   "case": {"lang": rec["lang"], "input": rec["input"], "hex": rec["hex"], "toks": rec["toks"],
                                            "mutations": {"token": rec["tm"], "byte": rec["bm"]}, "entry_points": a.get("steps")}})
    ctx.exhaustive = False
    ctx.rule = ("The specification prescribes one outcome for every input: every public entry point RETURNS (result or error) within 2 s. "
                "(1) ResolveDepth.tla: the nesting of resolveSels/resolveInline/resolveFragRef as a state machine over every document of "
                "FragDocs.tla (two fragments, spreads/inline/object fields, applicable and non-applicable conditions): stack depth bounded; the "
                "deviation FragCycleUnbounded overflows exactly for Diverges(doc). (2) MCDocGen.tla enumerates inputs of the three languages "
                "(schema SDL, executable documents, values): all token strings up to a length over 24-token alphabets incl. NUL, invalid UTF-8, "
                "lone quotes/backslashes, unterminated comments; every grammar derivation up to a token bound and every single (thorough: double) "
                "token mutation of the short ones (delete, duplicate, insert, replace, truncate, NUL, CRLF layout); the fragment documents of (1); "
                "(variable type x default x use site) with variable maps over all JSON-shaped values of depth <= 2; (field with arguments x state of "
                "each argument: omitted/null/each literal kind/unset or set variable/extra). Every vector, in two layouts, is run in an isolated "
                "worker process through ParseString/ParseReader(+faulty readers failing or returning short reads at every offset)/AddTypes-less "
                "load, ParseExecutable*, ResolveString/Bytes/Reader/Executable on three resolver strategies with every variable map, "
                "ParseValue*, SDL()/WriteSDLValue/WriteJSONValue of what was accepted; panic (recovered, keyed by top ggql frame), fatal stack "
                "overflow (worker death, keyed by recursion cycle) and a 2 s watchdog are attributed to the case and reproduced alone in a "
                "fresh worker. (3) random longer derivations with token- and byte-level mutations, judged by DocGenJudge.tla. "
                "non-trivial = input of at least 2 tokens")
    ctx.assumptions += [
        "level: exploration. 'Every byte sequence' is not decided: bytes are abstracted to token classes over small alphabets and bounded lengths; "
        "random byte mutations sample beyond them",
        "bounded time is a 2 s wall-clock watchdog per entry-point call in the worker",
        "outcomes are attributed by site (top ggql frame + message class of a panic; recursion cycle of an overflow; innermost stable frame of a hang)",
    ]
