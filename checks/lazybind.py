"""C12: concurrent requests on one root are race-free and mutually isolated
(spec/LazyBind.tla, LazyUniverse.tla, MCLazyBind.tla, LazyBindTrace.tla; harness/cmd/lazybind).

 (1) TLC explores every interleaving of the labelled accesses to Object.meta / FieldDef bindings for
     all mixes of requests (2 goroutines, all pairs; 3 goroutines in the thorough tier) from a cold root
     and checks NoRace, NoDeadlock, WriteOnce, MutexOK, HeldCoversRequired, Isolated for Dev = {};
     the same with Dev = K (deviations listed as known findings) yields what M(K) additionally allows:
     the racing access pairs and the alternative outcomes (second oracle, for attribution only).
 (2) direction A: every mix is run free on the real code (race-detector build), many cold roots; every
     response must be the prescribed one (= the response of the request alone); the race detector's
     reports are mapped to model labels by (function, access kind).
 (3) free-running -race stress, N in {2,16,64} goroutines, U-exec + U-lazy request pools, oracle =
     race detector + equality with the alone response + deadlock watchdog.
 (4) direction B (needs the verification points of proposals/C12/hooks.diff in the tree under test):
     access logs with the really-held locksets, judged by LazyBindTrace.tla.
"""
import json
import os
import re

import vlib

# Deviations that exist on the unchanged tree and are not yet registered in known_findings.json.
# Remove an entry when it is registered there (or fixed in /repo: a fixed defect leaves K and is
# judged strictly again).
PROPOSED_KNOWN = []   # RegFieldUnlockedMetaRead is repaired in /repo, LearnedBindingVisible is listed in known_findings.json

CFG = """SPECIFICATION {spec}
CONSTANTS
  G = {g}
  Dev = {dev}
  Worlds <- LazyWorlds
  Plan <- {plan}
  TripleReqs = {triple}
INVARIANTS {invs}
{props}
CHECK_DEADLOCK FALSE
"""

INV_STRICT = "TypeOK NoRace MutexOK NoNilMeta NoDeadlock Isolated HeldCoversRequired CallsOutUnlocked EmitVec EmitOut OutcomeKnown"
INV_STRICT3 = "NoRace NoNilMeta NoDeadlock Isolated HeldCoversRequired CallsOutUnlocked EmitVec EmitOut OutcomeKnown"
INV_K = "TypeOK NoRaceExceptDev MutexOK NoNilMeta NoDeadlock HeldCoversRequired EmitOut OutcomeKnown EmitRaces"
TRIPLE = ["dog", "stray", "anydog", "pet"]
TRIPLE3 = ["dog", "stray", "anydog"]

TRACE_CFG = """SPECIFICATION TSpec
CONSTANTS
  G = {{1}}
  Dev = {dev}
  Worlds <- LazyWorlds
INVARIANTS TypeOK MutexOK
CHECK_DEADLOCK FALSE
"""


def tlaset(xs):
    return "{" + ", ".join('"%s"' % x for x in xs) + "}"


def known_devs():
    devs = {}
    for f in vlib.load_known("C12") + PROPOSED_KNOWN:
        if f.get("deviation"):
            devs.setdefault(f["deviation"], f)
    return devs


def cfg(g, dev, plan, invs, spec="MCSpec", props="PROPERTIES WriteOnce", triple=TRIPLE):
    return CFG.format(spec=spec, g="{" + ", ".join(str(i) for i in range(1, g + 1)) + "}", dev=tlaset(dev), plan=plan,
                      triple=tlaset(triple), invs=invs, props=props)


def mixkey(w, mix):
    return w + "|" + json.dumps([m for m in mix])


def model(ctx, g, plan, devs, kplan=None, ktriple=TRIPLE, invs=None, triple=TRIPLE, with_k=True):
    """Run M({}) over the plan and M(K) over kplan (default: the same); returns the export, the vectors (with the
    outcomes M(K) allows besides S's) and M(K)'s racing pairs.  A mix M(K) was not run on gets no alternative."""
    a = vlib.run_tlc(ctx, "MCLazyBind", cfg(g, [], plan, invs or INV_STRICT, triple=triple), timeout=1500)
    vlib.require_clean(a, "LazyBind Dev={} %s G=%d" % (plan, g))
    exp = (a.mark("@@UNI") or [None])[0]
    uexec = (a.mark("@@UEXEC") or [None])[0]
    if exp is None or uexec is None:
        raise vlib.MachineryError("MCLazyBind did not export its universes")
    vecs = {}
    for v in a.vecs:
        vecs[mixkey(v["w"], v["mix"])] = {"w": v["w"], "mix": v["mix"], "exp": v["exp"]}
    # Isolated is an invariant, so every final state has S's outcomes; double-check the export
    for o in a.mark("@@OUT"):
        v = vecs.get(mixkey(o["w"], o["mix"]))
        if v is None or v["exp"] != o["out"]:
            raise vlib.MachineryError("M({}) produced outcomes %s that S does not prescribe for %s" % (o["out"], o["mix"]))
    races = []
    if devs and with_k:
        b = vlib.run_tlc(ctx, "MCLazyBind", cfg(g, sorted(devs), kplan or plan, INV_K, triple=ktriple), timeout=1500)
        vlib.require_clean(b, "LazyBind Dev=K %s G=%d" % (plan, g))
        alts = {}
        for o in b.mark("@@OUT"):
            alts.setdefault(mixkey(o["w"], o["mix"]), []).append(o["out"])
        for k, v in vecs.items():
            alt = []
            for gi, names in enumerate(v["mix"]):
                row = []
                for ri in range(len(names)):
                    seen = sorted({o[gi][ri] for o in alts.get(k, [])} - {v["exp"][gi][ri]})
                    row.append(seen)
                alt.append(row)
            v["alt"] = alt
            v["kdev"] = "LearnedBindingVisible" if any(x for row in alt for x in row) else ""
            if v["kdev"] and "LearnedBindingVisible" not in devs:
                raise vlib.MachineryError("M(K) changes outcomes of %s without LearnedBindingVisible in K" % k)
        seen = set()
        for r in b.mark("@@RACE"):
            key = (r["a"], r["b"])
            if key not in seen:
                seen.add(key)
                races.append(r)
    else:
        for v in vecs.values():
            v["alt"] = [[[] for _ in names] for names in v["mix"]]
            v["kdev"] = ""
    return exp, uexec, list(vecs.values()), races


# ------------------------------------------------------------ race reports ----

_acc_re = re.compile(r"^(Previous )?(read|write|atomic read|atomic write) at 0x[0-9a-f]+ by (main )?goroutine", re.I)
_src_cache = {}


def _srcline(path, line):
    if path not in _src_cache:
        try:
            _src_cache[path] = open(path, errors="replace").read().splitlines()
        except OSError:
            _src_cache[path] = None
    lines = _src_cache[path]
    if lines is None or not (0 < line <= len(lines)):
        return None
    return lines[line - 1].strip()


def parse_race_log(text):
    """-> list of reports {"accs": [(kind, fn, source line) x2], "text": ...}; fn = top frame inside ggql ('' if none)."""
    reports = []
    for block in text.split("=================="):
        if "WARNING: DATA RACE" not in block:
            continue
        accs = []
        lines = block.splitlines()
        i = 0
        while i < len(lines):
            m = _acc_re.match(lines[i].strip())
            if m:
                kind = "W" if "write" in m.group(2).lower() else "R"
                fn, src = "", None
                j = i + 1
                while j < len(lines) and lines[j].strip():
                    fr = lines[j].strip()
                    if not fn and fr.startswith("github.com/uhn/ggql/pkg/ggql."):
                        fn = fr[len("github.com/uhn/ggql/pkg/ggql."):]
                        fn = re.sub(r"\(\)$", "", fn)
                        fn = re.sub(r"\.func\d+.*$", "", fn)
                        if j + 1 < len(lines):
                            pm = re.match(r"\s*(\S+\.go):(\d+)", lines[j + 1])
                            if pm:
                                src = _srcline(pm.group(1), int(pm.group(2)))
                    j += 1
                accs.append((kind, fn, src))
                i = j
            else:
                i += 1
        reports.append({"accs": accs[:2], "text": block.strip()[:6000]})
    return reports


def _is_label(acc, lc):
    kind, fn, src = acc
    if kind != lc["k"] or fn != lc["fn"]:
        return False
    return src is None or any(frag in src for frag in lc["src"])   # source unavailable: function level


def absorb_races(ctx, logprefix, rep, label, exp, races, devs):
    """Attribute every race report to a pair of model labels; pairs M(K) has are known findings, others violations."""
    text = ""
    d = os.path.dirname(logprefix)
    for f in sorted(os.listdir(d)):
        if f.startswith(os.path.basename(logprefix)):
            text += open(os.path.join(d, f), errors="replace").read()
            os.remove(os.path.join(d, f))
    if "DATA RACE" in rep.get("_stderr", ""):
        text += rep["_stderr"]
    reports = parse_race_log(text)
    if rep["_rc"] == 66 and not reports:
        raise vlib.MachineryError("%s: the race detector signalled races (exit 66) but no report was captured" % label)
    labels = exp["labels"]
    n = ctx.extra.setdefault("race_reports", {})
    for r in reports:
        accs = r["accs"]
        if len(accs) < 2 or not any(fn for _, fn, _ in accs):
            raise vlib.MachineryError("%s: data race outside ggql (the harness itself is racy?):\n%s" % (label, r["text"][:3000]))
        x, y = accs
        name = " x ".join("%s %s [%s]" % (k, fn or "(caller)", src or "?") for k, fn, src in sorted(accs, key=lambda a: (a[0], a[1], a[2] or "")))
        n[name] = n.get(name, 0) + 1
        dev = None
        for kr in races:
            a, b = labels[kr["a"]], labels[kr["b"]]
            if (_is_label(x, a) and _is_label(y, b)) or (_is_label(x, b) and _is_label(y, a)):
                dev = a["dev"] or b["dev"]
                break
        if dev and dev in devs:
            hit = "%s: %s" % (dev, devs[dev]["what"])
            ctx.known_hits[hit] = ctx.known_hits.get(hit, 0) + 1
        else:
            ctx.violations.append({"from": label, "what": "data race reported by the Go race detector: " + name,
                                   "case": {"report": r["text"][:5000]}})
    return len(reports)


def absorb(ctx, rep, label, devs):
    ctx.evaluations += rep["evaluations"]
    for h in rep.get("nontrivial_hashes") or []:
        ctx.nontrivial.add(h)
    for s in rep.get("samples") or []:
        ctx.add_sample({"from": label, "case": s}, limit=6)
    cl = ctx.extra.setdefault("classes", {})
    for k, v in (rep.get("classes") or {}).items():
        cl[label + "/" + k] = cl.get(label + "/" + k, 0) + v
    listed = set()
    for m in rep["mismatches"]:
        if m.get("known"):
            listed.add(m["known"])
            continue
        ctx.violations.append({"from": label, "what": m["what"], "case": m["case"], "expected": m.get("expected"), "actual": m.get("actual")})
    for k, n in (rep.get("known_hits") or {}).items():
        for name in k.split("+"):
            if name not in devs:
                ctx.violations.append({"from": label, "what": "mismatch attributed to unlisted deviation " + name})
                continue
            hit = "%s: %s" % (name, devs[name]["what"])
            ctx.known_hits[hit] = ctx.known_hits.get(hit, 0) + n


def race_env(ctx, tag):
    prefix = os.path.join(ctx.scratch, "race-%s" % tag)
    return prefix, {"GORACE": "log_path=%s halt_on_error=0 history_size=3" % prefix}


# --------------------------------------------------------------- trace judge ----

def hooks_present():
    p = os.path.join(vlib.REPO, "pkg", "ggql", "verif_on.go")
    r = os.path.join(vlib.REPO, "pkg", "ggql", "root.go")
    try:
        return "VerifBinding" in open(p).read() and 'verifPoint("at_write"' in open(r).read()
    except OSError:
        return False


def judge(ctx, tracefile, dev):
    res = vlib.run_tlc(ctx, "LazyBindTrace", TRACE_CFG.format(dev=tlaset(dev)), files_text={"lazytrace.ndjson": open(tracefile).read()},
                       workers=1, timeout=1500, tag="@@VER")
    vlib.require_clean(res, "LazyBindTrace Dev=%s" % sorted(dev))
    return {v["i"]: v for v in res.vecs}


def trace_validation(ctx, exp, vecs, devs, up, label="trace"):
    """Direction B.  Returns False when the tree under test has no C12 verification points."""
    if not hooks_present():
        ctx.extra["trace_validation"] = ("skipped: %s has no C12 verification points (proposals/C12/hooks.diff not applied); "
                                         "lock discipline is then covered by the race detector only" % vlib.REPO)
        return False
    seqvecs = [v for v in vecs if sum(1 for m in v["mix"] if m) == 1]
    vp = os.path.join(ctx.scratch, "vec-trace.json")
    json.dump(seqvecs, open(vp, "w"))
    out = os.path.join(ctx.scratch, "lazytrace.ndjson")
    vlib.go_build(ctx, "lazybind", race=False, tags="verif,c12hooks")
    rep = vlib.run_harness_json(ctx, "lazybind", ["trace", "-universe", up, "-vectors", vp, "-out", out], timeout=1500)
    if not rep.get("extra", {}).get("hooks"):
        raise vlib.MachineryError("trace harness was built without the c12hooks tag")
    absorb(ctx, rep, label, devs)
    recs = [json.loads(x) for x in open(out)]
    traces = []
    for r in recs:
        if r["t"] == "begin":
            traces.append([])
        traces[-1].append(r)
    if rep["extra"].get("points", 0) == 0:
        raise vlib.MachineryError("the verification points are compiled in but none was reached")
    strict = judge(ctx, out, [])
    if len(strict) != len(traces):
        raise vlib.MachineryError("LazyBindTrace judged %d of %d traces" % (len(strict), len(traces)))
    bad = [i for i, v in strict.items() if not v["ok"]]
    # second oracle: M(K); should K be stale (a listed deviation no longer in the code) the proper subsets of K are tried too
    from itertools import combinations
    pending = set(bad)
    accepted_by, lastk = {}, {}
    if devs:
        order = [sorted(devs)] + [list(c) for r in range(1, len(devs)) for c in combinations(sorted(devs), r)]
        for dset in order:
            if not pending:
                break
            vs = judge(ctx, out, dset)
            for i in sorted(pending):
                if vs[i]["ok"]:
                    accepted_by[i] = dset
                    pending.discard(i)
                elif i not in lastk:
                    lastk[i] = vs[i]
    labels = exp["labels"]
    ctx.traces += len(traces)
    nacc = 0
    for i, t in enumerate(traces, start=1):
        nacc += sum(1 for r in t if r["t"] == "acc")
        v = strict[i]
        if v["ok"]:
            continue
        if i in accepted_by:
            names = set(accepted_by[i])
            if len(names) == len(devs) and len(devs) > 1:
                # accepted by M(K) as a whole: name the deviations this log actually shows
                shown = {labels[r["l"]]["dev"] for r in t if r["t"] == "acc" and labels.get(r["l"], {}).get("dev")}
                sv = next((x for x in seqvecs if x["w"] == t[0]["w"] and x["mix"][0] == t[0]["reqs"]), None)
                if sv and t[-1].get("outs") != sv["exp"][0]:
                    shown.add("LearnedBindingVisible")
                names = {n for n in shown if n in devs} or names
            for n in sorted(names):
                hit = "%s: %s" % (n, devs[n]["what"])
                ctx.known_hits[hit] = ctx.known_hits.get(hit, 0) + 1
            continue
        v = lastk.get(i, v)
        first = recs.index(t[0])
        ctx.violations.append({"from": label, "what": "recorded access log is not a behaviour of LazyBind.tla: " + v["why"],
                               "case": {"world": t[0]["w"], "requests": t[0]["reqs"], "record": v["at"],
                                        "log": t[max(0, v["at"] - first - 6): v["at"] - first + 2]}})
    ctx.extra["trace_validation"] = "%d access logs (%d accesses) judged by LazyBindTrace.tla" % (len(traces), nacc)
    return True


def binding_logs(ctx):
    """C02 (anchored in the lazily cached reflection bindings): the reflection strategy answers like the others only if
    a field's binding, once made or registered, is the one that is used - which LazyBind.tla proves of the discipline
    `check and bind in one critical section of the field's mutex` (WriteOnce, Isolated).  The access logs of single
    requests and of sequences of two, recorded at the verification points with the really held locks, must be
    behaviours of that specification: code that checks, lets go of the mutex and binds later is not."""
    sub = vlib.Ctx("C12", ctx.tier)
    sub.scratch = ctx.scratch
    devs = known_devs()
    exp, uexec, vecs, races = model(sub, 1, "SeqPlan", devs, with_k=False)
    up = os.path.join(ctx.scratch, "uni-lazy.json")
    json.dump(exp, open(up, "w"))
    trace_validation(sub, exp, vecs, devs, up, label="binding-logs")
    ctx.traces += sub.traces
    ctx.extra["binding_logs"] = sub.extra.get("trace_validation")
    for v in sub.violations:
        v["from"] = "binding-logs"
        ctx.violations.append(v)


# -------------------------------------------------------------------- checks ----

def model_mutations(ctx):
    """The invariants are not vacuous: each named deviation / mutation of the locking is caught by the property it breaks."""
    expect = {
        "RegFieldUnlockedMetaRead": {"NoRace"},
        "LearnedBindingVisible": {"Isolated"},
        "GrtNoLock": {"NoRace"},
        "McNoLock": {"NoRace", "WriteOnce"},
        "AtNoLock": {"NoRace"},
        "NoFdLock1": {"NoRace", "WriteOnce"},
        "LockOrderInverted": {"NoDeadlock"},
    }
    caught = {}
    inv = "TypeOK NoRace NoNilMeta NoDeadlock Isolated"
    for dev, want in expect.items():
        r = vlib.run_tlc(ctx, "MCLazyBind", cfg(2, [dev], "SmallPlan", inv), timeout=900, count_states=False)
        if not r.error or r.violated not in want:
            raise vlib.MachineryError("model mutation %s: expected a violation of %s, got %s / %s" % (dev, sorted(want), r.violated, r.error))
        caught[dev] = r.violated
    # the second fd.mu section is redundant: without it every property still holds
    r = vlib.run_tlc(ctx, "MCLazyBind", cfg(2, ["NoLock2"], "PairPlan", "TypeOK NoRace NoNilMeta NoDeadlock Isolated HeldCoversRequired"),
                     timeout=900)
    vlib.require_clean(r, "LazyBind NoLock2")
    caught["NoLock2"] = "harmless (all properties hold)"
    ctx.extra["model_mutations"] = caught


def negative_controls(ctx, up, vecs, hooks):
    """The binding must be able to fail."""
    import copy
    done = []
    v = copy.deepcopy(next(x for x in vecs if x["w"] == "plain" and x["mix"][0] == ["stray"] and not any(x["mix"][1:])))
    v["exp"][0][0] = "val"
    v["alt"] = [[[]]] + [[] for _ in v["mix"][1:]]
    vp = os.path.join(ctx.scratch, "neg-vec.json")
    json.dump([v], open(vp, "w"))
    rep = vlib.run_harness_json(ctx, "lazybind", ["replay", "-universe", up, "-vectors", vp, "-iters", "2"], race=True)
    if not [m for m in rep["mismatches"] if not m.get("known")]:
        raise vlib.MachineryError("negative control: replay accepted a flipped expectation")
    done.append("flipped expectation rejected by replay")
    if hooks:
        out = os.path.join(ctx.scratch, "lazytrace.ndjson")
        lines = open(out).read().splitlines()
        ti = 0
        for i, ln in enumerate(lines):
            r = json.loads(ln)
            if r["t"] == "begin":
                ti += 1
            if r["t"] == "acc" and r["l"] == "at_write" and r["held"]:
                r["held"] = []
                lines[i] = json.dumps(r)
                break
        neg = os.path.join(ctx.scratch, "neg-trace.ndjson")
        open(neg, "w").write("\n".join(lines) + "\n")
        sub = vlib.Ctx(ctx.prop, ctx.tier)
        os.rmdir(sub.scratch)
        sub.scratch = ctx.scratch
        vs = judge(sub, neg, sorted(known_devs()))
        if vs[ti]["ok"]:
            raise vlib.MachineryError("negative control: LazyBindTrace accepted an access logged without its lock")
        done.append("access logged without its lock rejected by LazyBindTrace")
    ctx.extra["negative_controls"] = "; ".join(done)


def run(ctx):
    quick = ctx.tier == "quick"
    devs = known_devs()
    # (1) the model
    # quick: M(K) only over the mixes containing a request with more than one prescribed response (the only ones whose
    # outcome a deviation can change; the thorough tier runs M(K) over everything and OutcomeKnown confirms it)
    multi = ["stray", "anydog"]
    if quick:
        exp, uexec, vecs, races = model(ctx, 2, "QuickPlan", devs, kplan="KQuickPlan", ktriple=multi)
    else:
        exp, uexec, vecs, races = model(ctx, 2, "PairPlan", devs)
    for n, r in exp["uni"]["reqs"].items():
        if (len(r["resp"]) > 1) != (n in multi):
            raise vlib.MachineryError("request %s: the list of requests with several prescribed responses is out of date" % n)
    # what M(K) allows per (world, request) besides S's outcome, over all mixes explored
    alt = {}
    for v in vecs:
        for gi, names in enumerate(v["mix"]):
            for ri, n in enumerate(names):
                for o in v["alt"][gi][ri]:
                    alt.setdefault(v["w"], {}).setdefault(n, set()).add(o)

    def world_level(vs, single_only=True):
        """vectors whose goroutines send one request each, with the alternatives M(K) allows that request in ANY mix of
        the world (for runs with several copies of a mix, and for mixes M(K) was not run on)"""
        out = []
        for v in vs:
            if single_only and any(len(m) > 1 for m in v["mix"]):
                continue
            w = dict(v)
            w["alt"] = [[sorted(alt.get(v["w"], {}).get(n, set()) - {v["exp"][gi][ri]}) for ri, n in enumerate(names)]
                        for gi, names in enumerate(v["mix"])]
            w["kdev"] = "LearnedBindingVisible" if any(x for row in w["alt"] for x in row) else ""
            out.append(w)
        return out

    vecs3 = []
    if not quick:
        # three goroutines: M({}) only (M(K) cannot add outcomes: every prescribed response of the affected requests
        # is already allowed by the two-goroutine M(K))
        _, _, vecs3, _ = model(ctx, 3, "TriplePlan", devs, invs=INV_STRICT3, triple=TRIPLE3, with_k=False)
        vecs3 = world_level(vecs3, single_only=False)
        r = vlib.run_tlc(ctx, "MCLazyBind", cfg(2, [], "SmallPlan", "TypeOK", spec="MCFairSpec", props="PROPERTIES MCTermination"), timeout=900)
        vlib.require_clean(r, "LazyBind termination under fairness")
        model_mutations(ctx)
    up = os.path.join(ctx.scratch, "uni.json")
    ep = os.path.join(ctx.scratch, "uexec.json")
    json.dump(exp, open(up, "w"))
    json.dump(uexec, open(ep, "w"))
    ctx.extra["model_racing_pairs_under_K"] = sorted({"%s x %s" % (r["a"], r["b"]) for r in races})
    # (2) direction A: every mix free-running on the real code, race-detector build
    conc = [v for v in vecs if sum(1 for m in v["mix"] if m) > 1]
    seq = [v for v in vecs if sum(1 for m in v["mix"] if m) == 1]
    plans = [("replay-seq", seq, 1, 1), ("replay-pairs", conc, 6 if quick else 60, 1),
             ("replay-pairs-x8", world_level(conc), 2 if quick else 12, 8)]
    if vecs3:
        plans.append(("replay-triples", vecs3, 20, 1))
        plans.append(("replay-triples-x6", world_level(vecs3), 6, 6))
    for label, vs, iters, mult in plans:
        vp = os.path.join(ctx.scratch, "vec-%s.json" % label)
        json.dump(vs, open(vp, "w"))
        prefix, env = race_env(ctx, label)
        rep = vlib.run_harness_json(ctx, "lazybind", ["replay", "-universe", up, "-vectors", vp, "-iters", str(iters), "-mult", str(mult)],
                                    timeout=3000, race=True, env=env)
        absorb(ctx, rep, label, devs)
        absorb_races(ctx, prefix, rep, label, exp, races, devs)
    # (3) free-running stress
    kp = os.path.join(ctx.scratch, "kouts.json")
    json.dump({"kdev": "LearnedBindingVisible", "alt": {w: {n: sorted(s) for n, s in d.items()} for w, d in alt.items()}}, open(kp, "w"))
    prefix, env = race_env(ctx, "stress")
    rep = vlib.run_harness_json(ctx, "lazybind", ["stress", "-universe", up, "-uexec", ep, "-kouts", kp,
                                                  "-iters", "70" if quick else "3000", "-goroutines", "2,16,64",
                                                  "-pool", "60" if quick else "400"],
                                timeout=3000, race=True, env=env)
    absorb(ctx, rep, "stress", devs)
    absorb_races(ctx, prefix, rep, "stress", exp, races, devs)
    ctx.extra["stress_pool"] = rep.get("extra", {})
    # (3b) resolvers that wait for each other (no lock may be held across the call into application code)
    rep = vlib.run_harness_json(ctx, "lazybind", ["rendezvous"], timeout=600, race=True)
    absorb(ctx, rep, "rendezvous", devs)
    # (4) direction B: access logs judged by LazyBindTrace
    hooks = trace_validation(ctx, exp, vecs, devs, up)
    if not quick:
        negative_controls(ctx, up, vecs, hooks)
    ctx.exhaustive = True
    ctx.rule = ("model: LazyBind.tla (labelled-step transcription of assureType, regField, getReflectType, metaCheck, resolveReflect, "
                "implementor, resolve's union/interface cases) over U-lazy in 3 worlds (binding of the differently named Go type undeclared / "
                "@go / RegisterType); every interleaving of every mix of requests (singles, all pairs, all sequential pairs%s) from a cold root; "
                "invariants NoRace, NoDeadlock, MutexOK, NoNilMeta, HeldCoversRequired, Isolated (outcome = alone outcome), property WriteOnce. "
                "conformance: each mix run free on the real code (race-detector build) %s; free-running stress with 2/16/64 goroutines over "
                "U-exec (fixed + random documents incl. variables, fragments, unions, interfaces, introspection) and U-lazy, every response compared "
                "with the same request alone on a fresh root; race reports mapped to model labels by (function, access kind); watchdog for hangs; "
                "access logs with really-held locksets judged by LazyBindTrace.tla when the tree has the C12 verification points. "
                "non-trivial = iteration with at least two concurrent requests on one cold root; distinct by (root kind, multiset of requests)"
                % ("" if quick else ", triples and pair+sequence with 3 goroutines", "x1 and x8 copies"))
    ctx.assumptions += [
        "the race detector is a dynamic tool: absence of a report is evidence for the explored runs only; the model covers all interleavings of the modelled accesses",
        "each GraphQL object type is realised by one Go type; resolvers return objects of member / implementing types",
        "requests are parsed and resolved through Root.ResolveString, each goroutine with its own variables map; RegisterType/RegisterField are not called while requests run",
        "bounded: 2 (thorough: 3) goroutines in the model; up to 64 in the free-running stress",
    ]
