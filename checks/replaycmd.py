"""./check replay <path>: re-run the check that produced a replay file and show the recorded cases."""
import json
import subprocess
import sys


def main(path):
    data = json.load(open(path))
    prop = data.get("property")
    print("replay of %s (%d recorded mismatches); re-running ./check %s %s" % (path, len(data.get("violations", [])), prop, data.get("tier", "quick")))
    for v in data.get("violations", [])[:5]:
        print(json.dumps(v)[:2000])
    import os
    env = dict(os.environ, VERIF_SEED=str(data.get("seed", 1)))
    return subprocess.call([sys.argv[0], prop, data.get("tier", "quick")], env=env)
