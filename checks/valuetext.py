"""C18: value text formats round-trip, the JSON writer emits JSON
(spec/ValueText.tla, MCValueText.tla, ValueTextJudge.tla; harness/cmd/valuetext, harness/vt)."""
import json
import os

import vlib

# Deviations of spec/ValueText.tla that reproduce genuine defects found on the unchanged tree and
# proposed in /verif/proposals/C18 but not (yet) listed in known_findings.json.  Once they are listed
# there (or fixed in /repo) this list can be emptied: an entry in known_findings.json wins.
PROPOSED_KNOWN = []   # both map key defects are repaired in /repo

ALL_DEVIATIONS = ["JsonKeyNotEscaped", "SdlKeyNotQuoted"]

CFG = """SPECIFICATION MCSpec
CONSTANTS
  Fams = {fams}
  KnownDev = {known}
  MaxOrders = {maxorders}
  ForceDev = {{}}
INVARIANTS ReadWriteSDL ReadWriteJSON JsonGrammar JsonFormOfStrs GuideFindsOrder GuideFindsOrderK LayoutShape Emit
CHECK_DEADLOCK FALSE
"""

JUDGE_CFG = """SPECIFICATION JSpec
CONSTANTS
  KnownDev = {known}
  NBlocks = 32
INVARIANTS Judge
CHECK_DEADLOCK FALSE
"""

QUICK_FAMS = ["leaf", "pair", "triple", "str2", "str3", "strinv", "key", "sort", "tree1", "tree2", "tree3"]
THOROUGH_FAMS = QUICK_FAMS + ["str3wide", "key2", "sortwide", "tree2wide"]

ASPECT_TEXT = {
    "back": "the read-back value is not the value",
    "jdec": "encoding/json does not decode the JSON form to the same structure",
    "mread": "the reader model does not read the written text back as the value",
    "mjson": "the JSON grammar of the specification rejects the written text or decodes it differently",
}


def tlaset(xs):
    return "{" + ", ".join('"%s"' % x for x in xs) + "}"


def known_devs(ctx):
    devs = {}
    for f in PROPOSED_KNOWN:
        devs[f["deviation"]] = f
    for f in vlib.load_known("C18"):
        if f.get("deviation"):
            devs[f["deviation"]] = f
    unknown = sorted(set(devs) - set(ALL_DEVIATIONS))
    if unknown:
        raise vlib.MachineryError("known_findings.json lists deviations spec/ValueText.tla does not model: %s" % unknown)
    return devs


def note_known(ctx, names, devs, n=1):
    for name in names.split("+"):
        f = devs.get(name)
        if f is None:
            ctx.violations.append({"from": "attribution", "what": "mismatch attributed to unlisted deviation " + name})
            continue
        key = "%s: %s" % (name, f["what"])
        ctx.known_hits[key] = ctx.known_hits.get(key, 0) + n


def enumerate_vectors(ctx, fams, devs, maxorders):
    res = vlib.run_tlc(ctx, "MCValueText", CFG.format(fams=tlaset(fams), known=tlaset(sorted(devs)), maxorders=maxorders),
                       timeout=3000, xss="64m")
    vlib.require_clean(res, "MCValueText %s" % fams)
    uni = (res.mark("@@UNI") or [None])[0]
    if uni is None:
        raise vlib.MachineryError("MCValueText did not export its universe")
    if not res.vecs:
        raise vlib.MachineryError("MCValueText produced no vector")
    return res.vecs, uni


def absorb(ctx, rep, label, devs):
    ctx.evaluations += rep["evaluations"]
    for h in rep.get("nontrivial_hashes") or []:
        ctx.nontrivial.add(h)
    for s in rep.get("samples") or []:
        ctx.add_sample({"from": label, "case": s})
    cl = ctx.extra.setdefault("classes", {}).setdefault(label, {})
    for k, v in (rep.get("classes") or {}).items():
        cl[k] = cl.get(k, 0) + v
    seen_known = {}
    for m in rep["mismatches"]:
        if m.get("known"):
            seen_known[m["known"]] = seen_known.get(m["known"], 0) + 1
            continue
        ctx.violations.append({"from": label, "what": m["what"], "case": m["case"]})
    # the harness lists the first few mismatches per deviation and counts the rest
    for k, n in (rep.get("known_hits") or {}).items():
        note_known(ctx, k, devs, n)
    for n in rep.get("notes") or []:
        ctx.extra.setdefault("notes", []).append(n)
    ex = rep.get("extra") or {}
    for k in ("text_drift", "deviation_changes_text_only", "known_outcome_but_other_text"):
        if k in ex:
            ctx.extra[k] = ctx.extra.get(k, 0) + ex[k]


def replay(ctx, vecs, uni, devs, label="replay", extra=()):
    up = os.path.join(ctx.scratch, "uni.json")
    vp = os.path.join(ctx.scratch, "vec-%s.json" % label)
    with open(up, "w") as fh:
        json.dump(uni, fh)
    with open(vp, "w") as fh:
        json.dump(vecs, fh)
    return vlib.run_harness_json(ctx, "valuetext", ["replay", "-universe", up, "-vectors", vp] + list(extra), timeout=3000)


def record(ctx, uni, n, depth, label="record", extra=()):
    up = os.path.join(ctx.scratch, "uni.json")
    with open(up, "w") as fh:
        json.dump(uni, fh)
    out = os.path.join(ctx.scratch, "cases.ndjson")
    rep = vlib.run_harness_json(ctx, "valuetext", ["record", "-universe", up, "-n", str(n), "-depth", str(depth), "-out", out] + list(extra),
                                timeout=3000)
    return rep, out


def judge(ctx, out, devs, count=True):
    """spec/ValueTextJudge.tla issues one verdict per recorded execution."""
    res = vlib.run_tlc(ctx, "ValueTextJudge", JUDGE_CFG.format(known=tlaset(sorted(devs))), extra_files=[out],
                       timeout=3000, tag="@@VER", xss="64m", count_states=count)
    vlib.require_clean(res, "ValueTextJudge")
    recs = [json.loads(l) for l in open(out)]
    seen = sorted(v["i"] for v in res.vecs)
    if seen != list(range(1, len(recs) + 1)):
        raise vlib.MachineryError("ValueTextJudge judged %d of %d recorded executions" % (len(seen), len(recs)))
    return res.vecs, recs


def judge_verdicts(ctx, verdicts, recs, devs, label):
    ctx.traces += len(recs)
    for v in verdicts:
        rec = recs[v["i"] - 1]
        if v["ok"]:
            if not v["text"]:
                k = "deviation_changes_text_only" if v.get("textK") else "text_drift"
                ctx.extra[k] = ctx.extra.get(k, 0) + 1
            continue
        if v.get("known") and v.get("kdevs"):
            note_known(ctx, "+".join(sorted(v["kdevs"])), devs)
            if not v.get("textK"):
                ctx.extra["known_outcome_but_other_text"] = ctx.extra.get("known_outcome_but_other_text", 0) + 1
            continue
        bad = [a for a in ("back", "jdec", "mread", "mjson") if not v["strict"][a]]
        ctx.violations.append({"from": label,
                               "what": "recorded execution disagrees with the specification: " + "; ".join(ASPECT_TEXT[a] for a in bad),
                               "case": {"value": rec["v"], "format": rec["fmt"], "indent": rec["ind"], "sort": rec["sorted"],
                                        "written_chars": rec["text"], "read_back": rec["back"], "json_decoded": rec["jdec"],
                                        "model_text": v.get("model"), "aspects": bad, "text_as_model": v["strict"]["text"]}})


def self_checks(ctx, vecs, uni, devs):
    """Binding demonstration (thorough tier): a flipped expectation must make the replay fail, damaged
    recordings must be rejected by the judge, and every listed deviation must be reproduced by the model."""
    plain = [v for v in vecs if "outsK" not in v]
    some = plain[:: max(1, len(plain) // 700)]
    rep = replay(ctx, some, uni, devs, label="selftest", extra=["-selftest-flip"])
    flipped = len(range(0, len(some), 7))
    bad = sum(1 for m in rep["mismatches"] if not m.get("known"))
    if bad < min(flipped, 150):
        raise vlib.MachineryError("negative control: %d of %d flipped expectations were reported by the replay" % (bad, flipped))
    rep, out = record(ctx, uni, 300, 3, label="selftest", extra=["-selftest-corrupt"])
    verdicts, recs = judge(ctx, out, devs, count=False)
    missed = [v["i"] for v in verdicts if (v["i"] - 1) % 5 == 0 and v["ok"] and v["text"]]
    if missed:
        raise vlib.MachineryError("negative control: the judge accepted damaged recordings %s" % missed[:10])
    ctx.extra["negative_controls"] = {"flipped_expectations_reported": bad, "damaged_recordings_rejected": len(range(0, len(recs), 5))}
    # the model reproduces each deviation: with the deviation switched on the property fails inside TLC
    for d in ALL_DEVIATIONS:
        inv = "ReadWriteSDL" if d.startswith("Sdl") else "JsonGrammar"
        cfg = ("SPECIFICATION MCSpec\nCONSTANTS\n  Fams = {\"key\"}\n  KnownDev = {}\n  MaxOrders = 1\n"
               "  ForceDev = {\"%s\"}\nINVARIANTS %s\nCHECK_DEADLOCK FALSE\n" % (d, inv))
        res = vlib.run_tlc(ctx, "MCValueText", cfg, timeout=600, count_states=False, xss="64m")
        if res.violated != inv:
            raise vlib.MachineryError("deviation %s is not reproduced inside the model (expected %s to be violated): %s" % (d, inv, res.error))
        ctx.extra.setdefault("deviation_reproduced_in_model", {})[d] = inv + " violated"


REQUIRED_CLASSES = (["has-empty-list", "has-empty-map", "has-adjacent-containers", "depth-0", "depth-1", "depth-2", "depth-3"]
                    + ["leaf-" + k for k in ("null", "bool", "int", "float", "str", "sym", "var")]
                    + ["mode-%s-ind%s-sort=%s" % (f, i, s) for f in ("sdl", "json") for i in ("-1", "+0", "+2") for s in ("true", "false")])


def vacuity(ctx):
    """Every shape the quantifier of the property names must have been replayed (else the run proves less than it says)."""
    cl = ctx.extra.get("classes", {}).get("replay", {})
    empty = [c for c in REQUIRED_CLASSES if not cl.get(c)]
    if empty:
        raise vlib.MachineryError("vacuous run: no replayed case in the classes %s" % empty)
    rec = ctx.extra.get("classes", {}).get("record", {})
    if not rec.get("depth-4") or not rec.get("has-adjacent-containers"):
        raise vlib.MachineryError("vacuous run: the recorded values are not deeper than the enumerated ones")


def run(ctx):
    devs = known_devs(ctx)
    thorough = ctx.tier == "thorough"
    fams = THOROUGH_FAMS if thorough else QUICK_FAMS
    vecs, uni = enumerate_vectors(ctx, fams, devs, maxorders=24 if thorough else 6)
    rep = replay(ctx, vecs, uni, devs)
    absorb(ctx, rep, "replay", devs)
    ctx.extra["vectors"] = len(vecs)
    rep, out = record(ctx, uni, 20000 if thorough else 5000, 5 if thorough else 4)
    absorb(ctx, rep, "record", devs)
    verdicts, recs = judge(ctx, out, devs)
    judge_verdicts(ctx, verdicts, recs, devs, "record")
    vacuity(ctx)
    if thorough:
        self_checks(ctx, vecs, uni, devs)
    if ctx.extra.get("text_drift"):
        print("NOTE property=%s the written text differs from the writer model in %d cases that still read back correctly "
              "(layout only; no promise of the property is broken)" % (ctx.prop, ctx.extra["text_drift"]))
    ctx.exhaustive = True
    ctx.rule = ("TLC enumerates the value families %s of spec/MCValueText.tla (every leaf of the design alone and wrapped, every pair and "
                "triple of adjacent members, strings over the escape classes, map keys of every class, sort orders, all trees of depth <= 2 "
                "and the depth-3 trees over empty and adjacent containers) x {SDL, JSON} x indent {-1, 0, 2} x Sort on / off (all entry "
                "orders), checks ReadWriteSDL, ReadWriteJSON and JsonGrammar on the writer/reader model and prescribes text, read-back "
                "value and decoded JSON per case; every case is executed on the real code (WriteSDLValue/WriteJSONValue, ParseValueString, "
                "ParseValue, encoding/json). Random larger values written and read by the real code are judged by spec/ValueTextJudge.tla. "
                "non-trivial = the value has a container with two or more members, or a string or key that is empty or holds a character "
                "other than letters, digits and underscore; distinct by (value, form, indent, sort)" % fams)
    ctx.assumptions += [
        "numbers are the named points of ValueText!IntSpell / FloatSpell (boundaries of int16/int32/int64, 2^53+1, shortest-decimal floats "
        "around the %e/%f switch, denormal, max); integral floats are outside the statement",
        "Go kinds handed to the writer rotate over int, int64, int32, int16, float64, float32; an integer read back as int64 is equal to the int written",
        "symbols and variables are GraphQL names; map keys never contain bytes that are not valid UTF-8 or NUL",
        "bytes that are not valid UTF-8 inside strings are expected back as U+FFFD in both forms (the statement says so for the JSON form)",
        "the text comparison with the writer model is exact (every byte); a text that differs but reads back correctly is reported as a note, not as a violation",
        "a failing case counts as a known finding only if the deviation changes what the model writes for that value and the real read-back value and "
        "decoded JSON are exactly what the reader model / JSON grammar make of the deviating model's text; every other failing case is a violation",
    ]
